import FstVerif.Proofs.EndToEndFile
import FstVerif.Proofs.Lookup
import FstVerif.Proofs.Seek
/-
End-to-end glue, part 3 of 3 — the property theorems about the BYTES the builder writes.

Layers composed: `Proofs/Build` (what the builder emits), `Proofs/Codec` (bytes ↔ nodes),
`Proofs/Open` (`Fst::new`, `verify`), `Proofs/Lookup` (`get`, `contains_key`, `get_key_into`),
`Proofs/Stream` + `Proofs/Seek` (streams, ranges, automata).

* `e2e_read`      any reachable builder state: the written file opens, verifies and represents
                  the emitted store;
* `e2e_map`       map mode (`insert`): open + verify + full stream + `get` + `contains_key`;
* `e2e_set`       set mode (`add`, repeated keys allowed);
* `e2e_search` / `e2e_range`   every range, every contract-abiding automaton;
* `e2e_get_key`   `get_key_into` on maps with strictly increasing values;
* `e2e_tiling`    C09: the node extents tile the file body;
* `e2e_no_panic_history`  C06/C07: `insert`/`add` on reachable states return `Ok` or an ordering
                  error, never panic; `finish` and the in-memory build never fail.

Hypotheses carried by the final theorems, beyond sortedness: `ty < 2^64`, every value `< 2^64`,
`kvs.length < 2^64` (the `len` footer field; not implied by the file size: a small automaton
can hold more than `2^64` keys), and — as a premise on the result — `bytes.length < 2^64`.
-/
namespace Fst
namespace E2E
open BuildP OpenProofs

/-! ### any reachable state -/

/-- READ. The file written from any reachable builder state (with stored outputs below `2^64`)
opens with the written metadata, verifies, and its byte-level node access (reader version 3,
and 2) returns exactly the emitted nodes. -/
theorem e2e_read {s s' : BState} {root : Nat} (hr : Reachable s) (ty : Nat)
    (hfin : s.finish = .ok (s', root)) (hty : ty < 2^64) (hlen : s'.len < 2^64)
    (hb : OutBound s') (hsz : (fileOf ty s' root).length < 2^64) :
    ∃ m, fstNew (Src.ofList (fileOf ty s' root)) = .ok m ∧ m.version = 3 ∧ m.rootAddr = root ∧
      m.ty = ty ∧ m.len = s'.len ∧ fstVerify m (Src.ofList (fileOf ty s' root)) = .ok () ∧
      Represents (byteAccess 3 (Src.ofList (fileOf ty s' root))) (storeOf s') ∧
      Represents (byteAccess 2 (Src.ofList (fileOf ty s' root))) (storeOf s') ∧
      root < (fileOf ty s' root).length := by
  obtain ⟨h1, h2⟩ := file_open hr ty hfin hty hlen hsz
  obtain ⟨_, _, hfin', _, _, _, hblen, hlt, _⟩ := file_shape hr ty (fileBytes_eq ty hfin)
  rw [hfin] at hfin'; cases hfin'
  exact ⟨_, h1, rfl, rfl, rfl, rfl, h2, file_represents hr ty hfin hb hsz 3 (by omega),
    file_represents hr ty hfin hb hsz 2 (by omega), by omega⟩

/-! ### whole builds: the facts of all layers about one build -/

/-- everything the builder layer proves about the finished map build, with shared witnesses -/
theorem map_build (rows cols : Nat) (kvs : KV) (hs : SortedKV kvs)
    (hv : ∀ kv ∈ kvs, kv.2 < 2^64) :
    ∃ s s' root, insertAll (BState.new rows cols) kvs = .ok s ∧ s.finish = .ok (s', root) ∧
      Reachable s ∧
      GoodStore (storeOf s') (denOf (storeOf s')) ∧ denOf (storeOf s') root = kvs ∧
      s'.len = kvs.length ∧ (root = 0 ∨ ∃ n, (root, n) ∈ storeOf s') ∧
      Tight (storeOf s') (denOf (storeOf s')) ∧ OutBound s' := by
  obtain ⟨s, s', root, e1, f1, g1, g2, g3, g4⟩ := build_ok rows cols kvs hs
  obtain ⟨s2, s2', root2, e2, f2, t⟩ := build_tight rows cols kvs hs
  obtain ⟨s3, s3', root3, e3, f3, b⟩ := build_bound rows cols kvs hs (2^64 - 1)
    (fun kv hkv => by have := hv kv hkv; omega)
  rw [e1] at e2 e3; cases e2; cases e3
  rw [f1] at f2 f3; cases f2; cases f3
  refine ⟨s, s', root, e1, f1, reachable_insertAll kvs (Reachable.new rows cols) e1,
    g1, g2, g3, g4, t, ?_⟩
  intro e he
  obtain ⟨b1, b2⟩ := b e he
  exact ⟨by omega, fun t ht => by have := b2 t ht; omega⟩

/-- the same for set mode -/
theorem set_build (rows cols : Nat) (ks : List Key) (hs : SortedKeysLe ks) :
    ∃ s s' root, addAll (BState.new rows cols) ks = .ok s ∧ s.finish = .ok (s', root) ∧
      Reachable s ∧
      GoodStore (storeOf s') (denOf (storeOf s')) ∧
      denOf (storeOf s') root = zeroKV (dedupKeys ks) ∧
      s'.len = (dedupKeys ks).length ∧ (root = 0 ∨ ∃ n, (root, n) ∈ storeOf s') ∧
      OutBound s' := by
  obtain ⟨s, s', root, e1, f1, g1, g2, g3, g4⟩ := build_ok_set rows cols ks hs
  obtain ⟨s3, s3', root3, e3, f3, b⟩ := build_bound_set rows cols ks hs
  rw [e1] at e3; cases e3
  rw [f1] at f3; cases f3
  refine ⟨s, s', root, e1, f1, reachable_addAll ks (Reachable.new rows cols) e1,
    g1, g2, g3, g4, ?_⟩
  intro e he
  obtain ⟨b1, b2⟩ := b e he
  exact ⟨by omega, fun t ht => by have := b2 t ht; omega⟩

theorem filter_unbounded (l : KV) :
    (l.filter fun kv => lowerOK .unbounded kv.1 && upperOK .unbounded kv.1) = l := by
  simp [lowerOK, upperOK, Bound.exceededBy]

/-- what a reader sees of a file whose content (as a sorted association list) is `kvs` -/
structure Reads (bytes : List UInt8) (ty : Nat) (kvs : KV) (m : Meta) : Prop where
  opened : fstNew (Src.ofList bytes) = .ok m
  version : m.version = 3
  ty_eq : m.ty = ty
  len_eq : m.len = kvs.length
  verified : fstVerify m (Src.ofList bytes) = .ok ()
  /-- the full stream yields `kvs`, in order -/
  stream : ∃ s0, streamNew (byteAccess 3 (Src.ofList bytes)) autAlways m.rootAddr .unbounded .unbounded
        = some s0 ∧
      ∃ N, ∀ fuel, N ≤ fuel →
        streamCollect (byteAccess 3 (Src.ofList bytes)) autAlways m.rootAddr fuel s0 [] =
          some (kvs.map fun kv => (kv.1, kv.2, ()))
  get : ∀ key, fstGet (byteAccess 3 (Src.ofList bytes)) m.rootAddr key = some (lookupKV kvs key)
  contains : ∀ key, fstContains (byteAccess 3 (Src.ofList bytes)) m.rootAddr key =
      some (kvs.any fun kv => kv.1 == key)
  /-- every range and every automaton obeying the `Automaton` contract -/
  search : ∀ {σ : Type} (A : Aut σ), (∀ x, A.acceptEof x = none) →
      (∀ x, A.canMatch x = false → ∀ w, A.isMatch (A.run x w) = false) → ∀ (min max : Bound),
      ∃ s0, streamNew (byteAccess 3 (Src.ofList bytes)) A m.rootAddr min max = some s0 ∧
      ∃ N, ∀ fuel, N ≤ fuel →
        streamCollect (byteAccess 3 (Src.ofList bytes)) A m.rootAddr fuel s0 [] =
          some ((kvs.filter fun kv => lowerOK min kv.1 && upperOK max kv.1 && A.accepts kv.1).map
                  fun kv => (kv.1, kv.2, A.run A.start kv.1))

/-- all read-side facts from the builder-side facts of one finished build -/
theorem reads_of_build {s s' : BState} {root : Nat} {kvs : KV} (hr : Reachable s) (ty : Nat)
    (hfin : s.finish = .ok (s', root)) (hty : ty < 2^64)
    (hg : GoodStore (storeOf s') (denOf (storeOf s'))) (hden : denOf (storeOf s') root = kvs)
    (hlen : s'.len = kvs.length) (hn : kvs.length < 2^64)
    (hroot : root = 0 ∨ ∃ n, (root, n) ∈ storeOf s') (hb : OutBound s')
    (hsz : (fileOf ty s' root).length < 2^64) :
    ∃ m, Reads (fileOf ty s' root) ty kvs m ∧ m.rootAddr = root ∧
      Represents (byteAccess 3 (Src.ofList (fileOf ty s' root))) (storeOf s') ∧
      root < (fileOf ty s' root).length := by
  obtain ⟨m, h1, h2, h3, h4, h5, h6, h7, _, h9⟩ :=
    e2e_read hr ty hfin hty (by omega) hb hsz
  subst h3
  refine ⟨m, ⟨h1, h2, h4, by rw [h5, hlen], h6, ?_, ?_, ?_, ?_⟩, rfl, h7, h9⟩
  · have := stream_correct_always hg h7 _ hroot .unbounded .unbounded
    rw [filter_unbounded, hden] at this
    exact this
  · intro key
    have := fstGet_correct hg h7 _ hroot key
    rw [hden] at this
    exact this
  · intro key
    have := fstContains_correct hg h7 _ hroot key
    rw [hden] at this
    exact this
  · intro σ A hEof hCan min max
    have := stream_correct hg h7 _ hroot hEof hCan min max
    rw [hden] at this
    exact this

/-! ### the property theorems -/

/-- E2E, MAP MODE. For every cache geometry, type tag, and strictly sorted `kvs` with 64-bit
values: `insert`ing all pairs succeeds, the in-memory build produces a file, and (if the file
is shorter than `2^64` bytes) `Fst::new` opens it as a version-3 FST with the written type and
`len = kvs.length`, `verify` succeeds, the full stream yields exactly `kvs` in order, and
`get` / `contains_key` answer exactly like the association list. -/
theorem e2e_map (rows cols ty : Nat) (hty : ty < 2^64) (kvs : KV) (hs : SortedKV kvs)
    (hv : ∀ kv ∈ kvs, kv.2 < 2^64) (hn : kvs.length < 2^64) :
    ∃ s bytes, insertAll (BState.new rows cols) kvs = .ok s ∧ s.fileBytes ty = .ok bytes ∧
      (bytes.length < 2^64 →
        ∃ m, fstNew (Src.ofList bytes) = .ok m ∧ m.version = 3 ∧ m.ty = ty ∧
          m.len = kvs.length ∧ fstVerify m (Src.ofList bytes) = .ok () ∧
          (∃ s0, streamNew (byteAccess 3 (Src.ofList bytes)) autAlways m.rootAddr
              .unbounded .unbounded = some s0 ∧
            ∃ N, ∀ fuel, N ≤ fuel →
              streamCollect (byteAccess 3 (Src.ofList bytes)) autAlways m.rootAddr fuel s0 [] =
                some (kvs.map fun kv => (kv.1, kv.2, ()))) ∧
          (∀ key, fstGet (byteAccess 3 (Src.ofList bytes)) m.rootAddr key =
            some (lookupKV kvs key)) ∧
          (∀ key, fstContains (byteAccess 3 (Src.ofList bytes)) m.rootAddr key =
            some (kvs.any fun kv => kv.1 == key))) := by
  obtain ⟨s, s', root, e1, f1, hr, g1, g2, g3, g4, _, hb⟩ := map_build rows cols kvs hs hv
  refine ⟨s, _, e1, fileBytes_eq ty f1, fun hsz => ?_⟩
  obtain ⟨m, R, _⟩ := reads_of_build hr ty f1 hty g1 g2 g3 hn g4 hb hsz
  exact ⟨m, R.opened, R.version, R.ty_eq, R.len_eq, R.verified, R.stream, R.get, R.contains⟩

/-- E2E, SET MODE. The same through `add` for non-decreasing keys (repeats allowed): the file
holds the distinct keys, each with value 0. -/
theorem e2e_set (rows cols ty : Nat) (hty : ty < 2^64) (ks : List Key) (hs : SortedKeysLe ks)
    (hn : (dedupKeys ks).length < 2^64) :
    ∃ s bytes, addAll (BState.new rows cols) ks = .ok s ∧ s.fileBytes ty = .ok bytes ∧
      (bytes.length < 2^64 →
        ∃ m, fstNew (Src.ofList bytes) = .ok m ∧ m.version = 3 ∧ m.ty = ty ∧
          m.len = (dedupKeys ks).length ∧ fstVerify m (Src.ofList bytes) = .ok () ∧
          (∃ s0, streamNew (byteAccess 3 (Src.ofList bytes)) autAlways m.rootAddr
              .unbounded .unbounded = some s0 ∧
            ∃ N, ∀ fuel, N ≤ fuel →
              streamCollect (byteAccess 3 (Src.ofList bytes)) autAlways m.rootAddr fuel s0 [] =
                some ((zeroKV (dedupKeys ks)).map fun kv => (kv.1, kv.2, ()))) ∧
          (∀ key, fstGet (byteAccess 3 (Src.ofList bytes)) m.rootAddr key =
            some (lookupKV (zeroKV (dedupKeys ks)) key)) ∧
          (∀ key, fstContains (byteAccess 3 (Src.ofList bytes)) m.rootAddr key =
            some ((zeroKV (dedupKeys ks)).any fun kv => kv.1 == key))) := by
  obtain ⟨s, s', root, e1, f1, hr, g1, g2, g3, g4, hb⟩ := set_build rows cols ks hs
  have hlen : (zeroKV (dedupKeys ks)).length = (dedupKeys ks).length := by simp [zeroKV]
  refine ⟨s, _, e1, fileBytes_eq ty f1, fun hsz => ?_⟩
  obtain ⟨m, R, _⟩ := reads_of_build (kvs := zeroKV (dedupKeys ks)) hr ty f1 hty g1 g2
    (by rw [g3, hlen]) (by rw [hlen]; exact hn) g4 hb hsz
  exact ⟨m, R.opened, R.version, R.ty_eq, by rw [R.len_eq, hlen], R.verified, R.stream, R.get,
    R.contains⟩

/-- E2E, SEARCH (C12–C14). On the written map file, for every range `min max` and every
automaton obeying the contract (`accept_eof` unused, `can_match = false` is final), the stream
never panics and collects exactly the entries of `kvs` in range and accepted, in order, each
with its value and the automaton state after its key. -/
theorem e2e_search (rows cols ty : Nat) (hty : ty < 2^64) (kvs : KV) (hs : SortedKV kvs)
    (hv : ∀ kv ∈ kvs, kv.2 < 2^64) (hn : kvs.length < 2^64) :
    ∃ s bytes, insertAll (BState.new rows cols) kvs = .ok s ∧ s.fileBytes ty = .ok bytes ∧
      (bytes.length < 2^64 →
        ∃ m, fstNew (Src.ofList bytes) = .ok m ∧
          ∀ {σ : Type} (A : Aut σ), (∀ x, A.acceptEof x = none) →
            (∀ x, A.canMatch x = false → ∀ w, A.isMatch (A.run x w) = false) →
            ∀ (min max : Bound),
            ∃ s0, streamNew (byteAccess 3 (Src.ofList bytes)) A m.rootAddr min max = some s0 ∧
            ∃ N, ∀ fuel, N ≤ fuel →
              streamCollect (byteAccess 3 (Src.ofList bytes)) A m.rootAddr fuel s0 [] =
                some ((kvs.filter fun kv =>
                        lowerOK min kv.1 && upperOK max kv.1 && A.accepts kv.1).map
                      fun kv => (kv.1, kv.2, A.run A.start kv.1))) := by
  obtain ⟨s, s', root, e1, f1, hr, g1, g2, g3, g4, _, hb⟩ := map_build rows cols kvs hs hv
  refine ⟨s, _, e1, fileBytes_eq ty f1, fun hsz => ?_⟩
  obtain ⟨m, R, _⟩ := reads_of_build hr ty f1 hty g1 g2 g3 hn g4 hb hsz
  exact ⟨m, R.opened, R.search⟩

/-- E2E, RANGE (C11). The plain range stream (`AlwaysMatch`) over the written file yields
exactly the entries of `kvs` between the bounds. -/
theorem e2e_range (rows cols ty : Nat) (hty : ty < 2^64) (kvs : KV) (hs : SortedKV kvs)
    (hv : ∀ kv ∈ kvs, kv.2 < 2^64) (hn : kvs.length < 2^64) :
    ∃ s bytes, insertAll (BState.new rows cols) kvs = .ok s ∧ s.fileBytes ty = .ok bytes ∧
      (bytes.length < 2^64 →
        ∃ m, fstNew (Src.ofList bytes) = .ok m ∧
          ∀ (min max : Bound),
            ∃ s0, streamNew (byteAccess 3 (Src.ofList bytes)) autAlways m.rootAddr min max
                = some s0 ∧
            ∃ N, ∀ fuel, N ≤ fuel →
              streamCollect (byteAccess 3 (Src.ofList bytes)) autAlways m.rootAddr fuel s0 [] =
                some ((kvs.filter fun kv => lowerOK min kv.1 && upperOK max kv.1).map
                      fun kv => (kv.1, kv.2, ()))) := by
  obtain ⟨s, bytes, e1, e2, h⟩ := e2e_search rows cols ty hty kvs hs hv hn
  refine ⟨s, bytes, e1, e2, fun hsz => ?_⟩
  obtain ⟨m, hm, hall⟩ := h hsz
  refine ⟨m, hm, fun min max => ?_⟩
  have := hall autAlways autAlways_contract.1 autAlways_contract.2 min max
  simpa [Aut.accepts, autAlways] using this

/-- E2E, SET SEARCH. `e2e_search` for set mode. -/
theorem e2e_search_set (rows cols ty : Nat) (hty : ty < 2^64) (ks : List Key)
    (hs : SortedKeysLe ks) (hn : (dedupKeys ks).length < 2^64) :
    ∃ s bytes, addAll (BState.new rows cols) ks = .ok s ∧ s.fileBytes ty = .ok bytes ∧
      (bytes.length < 2^64 →
        ∃ m, fstNew (Src.ofList bytes) = .ok m ∧
          ∀ {σ : Type} (A : Aut σ), (∀ x, A.acceptEof x = none) →
            (∀ x, A.canMatch x = false → ∀ w, A.isMatch (A.run x w) = false) →
            ∀ (min max : Bound),
            ∃ s0, streamNew (byteAccess 3 (Src.ofList bytes)) A m.rootAddr min max = some s0 ∧
            ∃ N, ∀ fuel, N ≤ fuel →
              streamCollect (byteAccess 3 (Src.ofList bytes)) A m.rootAddr fuel s0 [] =
                some (((zeroKV (dedupKeys ks)).filter fun kv =>
                        lowerOK min kv.1 && upperOK max kv.1 && A.accepts kv.1).map
                      fun kv => (kv.1, kv.2, A.run A.start kv.1))) := by
  obtain ⟨s, s', root, e1, f1, hr, g1, g2, g3, g4, hb⟩ := set_build rows cols ks hs
  have hlen : (zeroKV (dedupKeys ks)).length = (dedupKeys ks).length := by simp [zeroKV]
  refine ⟨s, _, e1, fileBytes_eq ty f1, fun hsz => ?_⟩
  obtain ⟨m, R, _⟩ := reads_of_build (kvs := zeroKV (dedupKeys ks)) hr ty f1 hty g1 g2
    (by rw [g3, hlen]) (by rw [hlen]; exact hn) g4 hb hsz
  exact ⟨m, R.opened, R.search⟩

/-- E2E, GET_KEY (C05). If moreover the values strictly increase along `kvs`, `get_key_into`
on the written file, with any fuel `≥ bytes.length + 2` (what the driver passes), appends the
key of `value` and returns `true` when some key has that value, and returns `false` otherwise. -/
theorem e2e_get_key (rows cols ty : Nat) (hty : ty < 2^64) (kvs : KV) (hs : SortedKV kvs)
    (hv : ∀ kv ∈ kvs, kv.2 < 2^64) (hn : kvs.length < 2^64) (hmono : Mono kvs) :
    ∃ s bytes, insertAll (BState.new rows cols) kvs = .ok s ∧ s.fileBytes ty = .ok bytes ∧
      (bytes.length < 2^64 →
        ∃ m, fstNew (Src.ofList bytes) = .ok m ∧
          ∀ fuel, bytes.length + 2 ≤ fuel → ∀ (value : Nat) (buf : Key),
            (∀ k, (k, value) ∈ kvs →
              fstGetKeyInto (byteAccess 3 (Src.ofList bytes)) m.rootAddr fuel value buf =
                some (true, buf ++ k)) ∧
            ((∀ k, (k, value) ∉ kvs) →
              ∃ buf', fstGetKeyInto (byteAccess 3 (Src.ofList bytes)) m.rootAddr fuel value buf =
                some (false, buf'))) := by
  obtain ⟨s, s', root, e1, f1, hr, g1, g2, g3, g4, ht, hb⟩ := map_build rows cols kvs hs hv
  refine ⟨s, _, e1, fileBytes_eq ty f1, fun hsz => ?_⟩
  obtain ⟨m, R, hm, hrep, hlt⟩ := reads_of_build hr ty f1 hty g1 g2 g3 hn g4 hb hsz
  refine ⟨m, R.opened, fun fuel hfuel value buf => ?_⟩
  have := fstGetKeyInto_correct g1 hrep root g4 (by rw [g2]; exact hmono) ht fuel
    (by omega) value buf
  subst hm
  rw [g2] at this
  exact this

/-- E2E, TILING (C09). For the file of any map build: the extents of the emitted nodes tile
the body `[16, count)`; see `file_tiling` for the clauses. -/
theorem e2e_tiling (rows cols ty : Nat) (kvs : KV) (hs : SortedKV kvs)
    (hv : ∀ kv ∈ kvs, kv.2 < 2^64) :
    ∃ s s' root, insertAll (BState.new rows cols) kvs = .ok s ∧ s.finish = .ok (s', root) ∧
      s.fileBytes ty = .ok (fileOf ty s' root) ∧
      (fileOf ty s' root).length = s'.count + 20 ∧
      ((fileOf ty s' root).length < 2^64 →
        (∀ e ∈ s'.out.reverse.head?, firstByte e = 16) ∧
        (∀ pre e1 e2 post, s'.out.reverse = pre ++ e1 :: e2 :: post →
          firstByte e2 = e1.addr + 1) ∧
        (∀ e ∈ s'.out.reverse.getLast?, e.addr = s'.count - 1) ∧
        (∀ e ∈ s'.out, 1 ≤ e.size ∧ 16 ≤ firstByte e ∧ e.addr < s'.count) ∧
        (∀ e ∈ s'.out, ∃ rn, nodeNew 3 (Src.ofList (fileOf ty s' root)) e.addr = some rn ∧
          rn.start = e.addr ∧ rn.end_ = firstByte e ∧
          rn.toBNode (Src.ofList (fileOf ty s' root)) = some e.node) ∧
        (∀ e ∈ s'.out, ∀ t ∈ e.node.trans,
          t.addr = 0 ∨ ∃ e' ∈ s'.out, e'.addr = t.addr ∧ e'.addr < e.addr)) := by
  obtain ⟨s, s', root, e1, f1, hr, _, _, _, _, _, hb⟩ := map_build rows cols kvs hs hv
  obtain ⟨_, _, f1', _, _, _, hblen, _, _⟩ := file_shape hr ty (fileBytes_eq ty f1)
  rw [f1] at f1'; cases f1'
  exact ⟨s, s', root, e1, f1, fileBytes_eq ty f1, hblen,
    fun hsz => file_tiling hr ty f1 hb hsz 3 (by omega)⟩

/-- E2E, NO PANIC (C06/C07). On every state reachable by successful `insert`/`add` calls:
`insert` returns `Ok`, `DuplicateKey` or `OutOfOrder`; `add` returns `Ok` or `OutOfOrder`;
neither ever hits a panic branch of the model; `finish` (`into_inner` up to the checksum)
succeeds; and the in-memory build yields a file for every type tag. -/
theorem e2e_no_panic_history {s : BState} (hr : Reachable s) :
    (∀ k v, (∃ s', s.insert k v = .ok s') ∨ s.insert k v = .error (.duplicateKey k) ∨
      ∃ last, s.last = some last ∧ s.insert k v = .error (.outOfOrder last k)) ∧
    (∀ k, (∃ s', s.add k = .ok s') ∨
      ∃ last, s.last = some last ∧ s.add k = .error (.outOfOrder last k)) ∧
    (∀ k v tag, s.insert k v ≠ .error (.panic tag)) ∧
    (∀ k tag, s.add k ≠ .error (.panic tag)) ∧
    (∃ s' root, s.finish = .ok (s', root)) ∧
    (∀ ty, ∃ bytes, s.fileBytes ty = .ok bytes) := by
  have hins : ∀ k v, (∃ s', s.insert k v = .ok s') ∨ s.insert k v = .error (.duplicateKey k) ∨
      ∃ last, s.last = some last ∧ s.insert k v = .error (.outOfOrder last k) := by
    intro k v
    have h := insert_result hr k v
    cases hl : s.last with
    | none => rw [hl] at h; exact Or.inl h
    | some last =>
      rw [hl] at h
      simp only at h
      split at h
      · exact Or.inl h
      · split at h
        · exact Or.inr (Or.inl h)
        · exact Or.inr (Or.inr ⟨last, rfl, h⟩)
  have hadd : ∀ k, (∃ s', s.add k = .ok s') ∨
      ∃ last, s.last = some last ∧ s.add k = .error (.outOfOrder last k) := by
    intro k
    have h := add_result hr k
    cases hl : s.last with
    | none => rw [hl] at h; exact Or.inl h
    | some last =>
      rw [hl] at h
      simp only at h
      split at h
      · exact Or.inl h
      · exact Or.inr ⟨last, rfl, h⟩
  refine ⟨hins, hadd, ?_, ?_, ?_, fun ty => file_exists hr ty⟩
  · intro k v tag h
    rcases hins k v with ⟨s', h'⟩ | h' | ⟨last, _, h'⟩ <;> rw [h'] at h <;> cases h
  · intro k tag h
    rcases hadd k with ⟨s', h'⟩ | ⟨last, _, h'⟩ <;> rw [h'] at h <;> cases h
  · obtain ⟨s', root, h, _⟩ := build_layout_finish hr
    exact ⟨s', root, h⟩

/-! ### non-vacuity: a concrete 4-key map (empty key, shared prefix), geometry 1×1, type 7 -/

def exKvs : KV := [([], 1), ([97], 2), ([97, 98], 3), ([99], 4)]

/-- the 51 bytes the builder writes for `exKvs` (two nodes at addresses 21 and 30) -/
def exBytes : List UInt8 :=
  [3, 0, 0, 0, 0, 0, 0, 0, 7, 0, 0, 0, 0, 0, 0, 0,
   0, 1, 0, 98, 17, 65, 1, 4, 2, 0, 1, 99, 97, 17, 66,
   4, 0, 0, 0, 0, 0, 0, 0, 30, 0, 0, 0, 0, 0, 0, 0, 52, 113, 236, 71]

/-- the model builder, run by the kernel, writes exactly these bytes -/
theorem ex_build : ((insertAll (BState.new 1 1) exKvs).toOption.bind fun s =>
    (s.fileBytes 7).toOption) = some exBytes := by decide +kernel

theorem exKvs_sorted : SortedKV exKvs := by simp [exKvs, SortedKV, lexLt]
theorem exKvs_values : ∀ kv ∈ exKvs, kv.2 < 2^64 := by decide
theorem exKvs_mono : Mono exKvs := by unfold Mono; decide

theorem ex_bytes_eq {s : BState} {bytes : List UInt8}
    (e1 : insertAll (BState.new 1 1) exKvs = .ok s) (e2 : s.fileBytes 7 = .ok bytes) :
    bytes = exBytes := by
  have := ex_build
  rw [e1] at this
  simp only [Except.toOption, Option.bind_some, e2, Option.some.injEq] at this
  exact this

/-- the hypotheses of `finish_root`, `file_shape`, `file_open`, `file_represents`, `file_tiling`
and `e2e_read` hold together for this build (and `fileOf` is the concrete byte string) -/
theorem ex_hyps : ∃ s s' root, Reachable s ∧ s.finish = .ok (s', root) ∧
    s.fileBytes 7 = .ok (fileOf 7 s' root) ∧ (7 : Nat) < 2^64 ∧ s'.len < 2^64 ∧ OutBound s' ∧
    (fileOf 7 s' root).length < 2^64 ∧ fileOf 7 s' root = exBytes := by
  obtain ⟨s, s', root, e1, f1, hr, _, _, g3, _, _, hb⟩ := map_build 1 1 exKvs exKvs_sorted exKvs_values
  have hb' := ex_bytes_eq e1 (fileBytes_eq 7 f1)
  refine ⟨s, s', root, hr, f1, fileBytes_eq 7 f1, by decide, by rw [g3]; decide, hb, ?_, hb'⟩
  rw [hb']; decide

/-- `e2e_map` instantiated: the concrete bytes open, verify, stream, and answer lookups -/
example : ∃ m, fstNew (Src.ofList exBytes) = .ok m ∧ m.version = 3 ∧ m.ty = 7 ∧ m.len = 4 ∧
    fstVerify m (Src.ofList exBytes) = .ok () ∧
    fstGet (byteAccess 3 (Src.ofList exBytes)) m.rootAddr [97, 98] = some (some 3) ∧
    fstGet (byteAccess 3 (Src.ofList exBytes)) m.rootAddr [] = some (some 1) ∧
    fstGet (byteAccess 3 (Src.ofList exBytes)) m.rootAddr [98] = some none ∧
    fstContains (byteAccess 3 (Src.ofList exBytes)) m.rootAddr [99] = some true := by
  obtain ⟨s, bytes, e1, e2, h⟩ := e2e_map 1 1 7 (by decide) exKvs exKvs_sorted exKvs_values (by decide)
  have hb := ex_bytes_eq e1 e2
  subst hb
  obtain ⟨m, h1, h2, h3, h4, h5, _, h7, h8⟩ := h (by decide)
  exact ⟨m, h1, h2, h3, h4, h5, by rw [h7]; rfl, by rw [h7]; rfl, by rw [h7]; rfl, by rw [h8]; rfl⟩

/-- `e2e_search` / `e2e_range` / `e2e_get_key` / `e2e_tiling`: hypotheses satisfiable -/
example := e2e_search 1 1 7 (by decide) exKvs exKvs_sorted exKvs_values (by decide)
example := e2e_range 1 1 7 (by decide) exKvs exKvs_sorted exKvs_values (by decide)
example := e2e_get_key 1 1 7 (by decide) exKvs exKvs_sorted exKvs_values (by decide) exKvs_mono
example := e2e_tiling 1 1 7 exKvs exKvs_sorted exKvs_values
/-- an automaton that really prunes obeys the contract of `e2e_search` -/
example : (∀ x, (autStr [97, 98]).acceptEof x = none) ∧
    (∀ x, (autStr [97, 98]).canMatch x = false →
      ∀ w, (autStr [97, 98]).isMatch ((autStr [97, 98]).run x w) = false) := autStr_contract _

/-- `e2e_set` / `e2e_search_set`: repeated keys, the empty key, a shared prefix -/
def exKeys : List Key := [[], [], [97], [97], [97, 98], [99]]
theorem exKeys_sorted : SortedKeysLe exKeys := by simp [exKeys, SortedKeysLe, lexLe, lexLt]
example : dedupKeys exKeys = [[], [97], [97, 98], [99]] := by decide
example := e2e_set 2 2 0 (by decide) exKeys exKeys_sorted (by decide)
example := e2e_search_set 2 2 0 (by decide) exKeys exKeys_sorted (by decide)

/-- `e2e_no_panic_history`: a state reached through two inserts -/
example : ∃ s, Reachable s ∧ s.last = some [97] := by
  obtain ⟨s, e1, hinv⟩ := insertAll_inv [([], 1), ([97], 2)] (BState.new 1 1) [] (Inv_new 1 1)
    (sortedAfter_none (by simp [SortedKV, lexLt]))
  exact ⟨s, reachable_insertAll _ (Reachable.new 1 1) e1, by rw [hinv.last]; rfl⟩

end E2E
end Fst
