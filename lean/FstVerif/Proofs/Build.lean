import FstVerif.Proofs.Registry
import FstVerif.Model.Sink
/-
T-Build: the model of the incremental builder (`Model/Build.lean`, mirror of
`src/raw/build.rs`) stores exactly the inserted map, for every cache geometry.
Port of `/verif/probes/BuildProbe.lean` to the real model (byte addresses, `Except`
outcomes, the concrete `Registry`, the empty key, `len`).

Main results
* `build_ok` / `build_ok_set`   round trip of `insertAll` / `addAll` + `finish`
* `build_layout` / `build_layout_finish` (`Layout`, `LayoutF`)   what the byte layer needs
* `build_tight`   every transition output is attained below it (`TightStore`)
* `build_bound` / `build_bound_set`   no stored output exceeds the largest inserted value
* `insert_result` / `add_result`, `checkLastKey_map_ok_iff` / `checkLastKey_set_ok_iff`,
  `IOB.step_error`   exact outcomes of the public calls on reachable states

Structure
* key order facts, `checkLastKey`;
* the denotation table `denOf` of a store (built oldest to newest, keyed by address);
* `OutOK`: the layout/shape invariant of the emitted nodes, and `GoodStore` from it;
* `compile_spec`, `compileTail_spec`, `compileFrom_spec` (`SInv`, `Le`);
* the pure stack operations `cps` (`cps_induct`), `addSuffix`, `chain`;
* `Core` / `Inv`: the invariant of the states between public calls; `insertOutput_new`,
  `insert_new`, `add_new`, `add_dup`, `finish_spec`;
* `Reachable`, errors, layout;
* `Pass`: further node-wise invariants carried through `compile_from` generically,
  instantiated by `tightPass` and `boundPass`.
-/
namespace Fst

/-! ### key order (helpers in `Fst.BuildP` to avoid clashes with other proof files) -/

namespace BuildP


theorem u8_lt_irrefl (a : UInt8) : ¬ a < a := UInt8.lt_irrefl a

theorem u8_lt_asymm {a b : UInt8} (h : a < b) : ¬ b < a := by
  rw [UInt8.lt_iff_toNat_lt] at *; omega

theorem u8_trichotomy {a b : UInt8} (h1 : ¬ a < b) (h2 : ¬ b < a) : a = b := by
  rw [UInt8.lt_iff_toNat_lt] at *
  exact UInt8.toNat_inj.mp (by omega)

theorem lexLt_irrefl : ∀ a : Key, lexLt a a = false
  | [] => rfl
  | x :: xs => by simp [lexLt, lexLt_irrefl xs]

theorem lexLt_asymm : ∀ {a b : Key}, lexLt a b = true → lexLt b a = false
  | [], [], h => by simp [lexLt] at h
  | [], _ :: _, _ => rfl
  | _ :: _, [], h => by simp [lexLt] at h
  | x :: xs, y :: ys, h => by
    simp only [lexLt, Bool.or_eq_true, decide_eq_true_eq, Bool.and_eq_true, beq_iff_eq] at h
    simp only [lexLt, Bool.or_eq_false_iff, decide_eq_false_iff_not, Bool.and_eq_false_iff]
    rcases h with h | ⟨rfl, h⟩
    · refine ⟨u8_lt_asymm h, Or.inl ?_⟩
      simp only [beq_eq_false_iff_ne, ne_eq]
      intro e; subst e; exact u8_lt_irrefl _ h
    · exact ⟨u8_lt_irrefl _, Or.inr (lexLt_asymm h)⟩

theorem lexLt_total : ∀ {a b : Key}, lexLt a b = false → lexLt b a = false → a = b
  | [], [], _, _ => rfl
  | [], _ :: _, h, _ => by simp [lexLt] at h
  | _ :: _, [], _, h => by simp [lexLt] at h
  | x :: xs, y :: ys, h1, h2 => by
    simp only [lexLt, Bool.or_eq_false_iff, decide_eq_false_iff_not, Bool.and_eq_false_iff,
      beq_eq_false_iff_ne, ne_eq] at h1 h2
    have e : x = y := u8_trichotomy h1.1 h2.1
    subst e
    have := lexLt_total (a := xs) (b := ys) (by simpa using h1.2) (by simpa using h2.2)
    rw [this]

theorem lexLe_refl (a : Key) : lexLe a a = true := by simp [lexLe, lexLt_irrefl]

/-- `lexLe` is `lexLt` or equal -/
theorem lexLe_iff {a b : Key} : lexLe a b = true ↔ lexLt a b = true ∨ a = b := by
  unfold lexLe
  constructor
  · intro h
    cases hab : lexLt a b with
    | true => exact Or.inl rfl
    | false => exact Or.inr (lexLt_total hab (by simpa using h))
  · rintro (h | rfl)
    · simp [lexLt_asymm h]
    · simp [lexLt_irrefl]

end BuildP
open BuildP

/-! ### `check_last_key` -/

theorem checkLastKey_ok_eq {s s' : BState} {bs : Key} {d : Bool}
    (h : s.checkLastKey bs d = .ok s') : s' = { s with last := some bs } := by
  unfold BState.checkLastKey at h
  split at h
  · split at h
    · cases h
    · split at h
      · cases h
      · cases h; rfl
  · cases h; rfl

theorem checkLastKey_none {s : BState} (bs : Key) (d : Bool) (h : s.last = none) :
    s.checkLastKey bs d = .ok { s with last := some bs } := by
  unfold BState.checkLastKey; rw [h]

/-- map mode: accepted iff strictly greater than the previous key; otherwise the error
is `duplicateKey` for an equal key and `outOfOrder` for a smaller one -/
theorem checkLastKey_map {s : BState} {last : Key} (bs : Key) (h : s.last = some last) :
    s.checkLastKey bs true =
      if lexLt last bs then .ok { s with last := some bs }
      else if bs = last then .error (.duplicateKey bs)
      else .error (.outOfOrder last bs) := by
  unfold BState.checkLastKey; rw [h]
  simp only [Bool.true_and, beq_iff_eq]
  by_cases e : bs = last
  · subst e; simp [lexLt_irrefl]
  · simp only [e, if_false]
    cases h1 : lexLt last bs with
    | true => simp [lexLt_asymm h1]
    | false =>
      cases h2 : lexLt bs last with
      | true => simp
      | false => exact absurd (lexLt_total h2 h1) e

/-- set mode: accepted iff not smaller than the previous key -/
theorem checkLastKey_set {s : BState} {last : Key} (bs : Key) (h : s.last = some last) :
    s.checkLastKey bs false =
      if lexLe last bs then .ok { s with last := some bs }
      else .error (.outOfOrder last bs) := by
  unfold BState.checkLastKey; rw [h]
  simp only [Bool.false_and, Bool.false_eq_true, if_false, lexLe]
  by_cases hx : lexLt bs last = true <;> simp [hx]

theorem checkLastKey_map_ok_iff {s : BState} {last : Key} (bs : Key) (h : s.last = some last) :
    (∃ s', s.checkLastKey bs true = .ok s') ↔ lexLt last bs = true := by
  rw [checkLastKey_map bs h]
  constructor
  · rintro ⟨s', hs'⟩
    split at hs'
    · assumption
    · split at hs' <;> cases hs'
  · intro hl; exact ⟨_, by rw [if_pos hl]⟩

theorem checkLastKey_set_ok_iff {s : BState} {last : Key} (bs : Key) (h : s.last = some last) :
    (∃ s', s.checkLastKey bs false = .ok s') ↔ lexLe last bs = true := by
  rw [checkLastKey_set bs h]
  constructor
  · rintro ⟨s', hs'⟩
    split at hs'
    · assumption
    · cases hs'
  · intro hl; exact ⟨_, by rw [if_pos hl]⟩

/-! ### the denotation table of a store -/

def lookT (tbl : List (Nat × KV)) (a : Nat) : KV :=
  if a = 0 then [([], 0)] else (tbl.lookup a).getD []

/-- table of a store given newest first -/
def denTbl : List (Nat × BNode) → List (Nat × KV)
  | [] => []
  | p :: rest => (p.1, denNodeWith (lookT (denTbl rest)) p.2) :: denTbl rest

/-- what every address of a store (in emission order) spells -/
def denOf (st : Store) : Nat → KV := lookT (denTbl st.reverse)

/-- the abstract store of a builder state: emitted nodes in emission order -/
def storeOf (s : BState) : Store := s.out.reverse.map fun e => (e.addr, e.node)

/-- the same, newest first (the order in which the state keeps them) -/
def rstore (out : List Emit) : List (Nat × BNode) := out.map fun e => (e.addr, e.node)

def denR (out : List Emit) : Nat → KV := lookT (denTbl (rstore out))

theorem storeOf_reverse (s : BState) : (storeOf s).reverse = rstore s.out := by
  simp [storeOf, rstore, List.map_reverse]

theorem denOf_storeOf (s : BState) : denOf (storeOf s) = denR s.out := by
  unfold denOf denR; rw [storeOf_reverse]

theorem mem_storeOf {s : BState} {p : Nat × BNode} : p ∈ storeOf s ↔ p ∈ rstore s.out := by
  rw [← storeOf_reverse, List.mem_reverse]

theorem denR_zero (out : List Emit) : denR out 0 = [([], 0)] := by simp [denR, lookT]

theorem lookT_cons_self (a : Nat) (x : KV) (tbl : List (Nat × KV)) (h : a ≠ 0) :
    lookT ((a, x) :: tbl) a = x := by simp [lookT, h]

theorem lookT_cons_ne {a a' : Nat} (x : KV) (tbl : List (Nat × KV)) (h : a ≠ a') :
    lookT ((a', x) :: tbl) a = lookT tbl a := by
  unfold lookT
  split
  · rfl
  · have : (a == a') = false := by simpa using h
    simp [List.lookup_cons, this]

theorem denR_cons_ne (e : Emit) (es : List Emit) {a : Nat} (h : a ≠ e.addr) :
    denR (e :: es) a = denR es a :=
  lookT_cons_ne _ _ h

theorem denR_cons_self (e : Emit) (es : List Emit) (h : e.addr ≠ 0) :
    denR (e :: es) e.addr = denNodeWith (denR es) e.node :=
  lookT_cons_self _ _ _ h

theorem denNodeWith_congr {d d' : Nat → KV} {n : BNode}
    (h : ∀ t ∈ n.trans, d t.addr = d' t.addr) : denNodeWith d n = denNodeWith d' n := by
  unfold denNodeWith
  congr 1
  generalize n.trans = ts at h
  induction ts with
  | nil => rfl
  | cons t ts ih =>
    simp only [List.flatMap_cons]
    rw [h t (by simp), ih (fun t' ht' => h t' (by simp [ht']))]

/-! ### the invariant of the emitted nodes -/

def Emit.size (e : Emit) : Nat := (e.chunks.map List.length).sum

/-- a transition target: below the write position, and 0 or an emitted address -/
def TargetOK (R : List (Nat × BNode)) (c : Nat) (a : Nat) : Prop :=
  a < c ∧ (a = 0 ∨ ∃ m, (a, m) ∈ R)

/-- `OutOK out count lastAddr`: layout and shape of the emitted nodes, newest first -/
def OutOK : List Emit → Nat → Nat → Prop
  | [], c, l => c = 16 ∧ l = NONE_ADDRESS
  | e :: es, c, l => ∃ c0 l0, OutOK es c0 l0 ∧
      compileNodeC e.node l0 c0 = some e.chunks ∧ 1 ≤ e.size ∧
      e.addr = c0 + e.size - 1 ∧ c = c0 + e.size ∧ l = e.addr ∧
      SortedInputs e.node ∧ isEmptyFinal e.node = false ∧
      (e.node.fin = false → e.node.fout = 0) ∧
      ∀ t ∈ e.node.trans, TargetOK (rstore es) c0 t.addr

theorem OutOK_count_ge : ∀ {es : List Emit} {c l : Nat}, OutOK es c l → 16 ≤ c
  | [], c, l, h => by simp only [OutOK] at h; omega
  | e :: es, c, l, h => by
    obtain ⟨c0, l0, h0, _, _, _, hc, _⟩ := h
    have := OutOK_count_ge h0
    omega

theorem OutOK_addr : ∀ {es : List Emit} {c l : Nat}, OutOK es c l →
    ∀ p ∈ rstore es, 16 ≤ p.1 ∧ p.1 < c
  | [], c, l, _ => by intro p hp; simp [rstore] at hp
  | e :: es, c, l, h => by
    obtain ⟨c0, l0, h0, _, h1, ha, hc, _⟩ := h
    intro p hp
    simp only [rstore, List.map_cons, List.mem_cons] at hp
    have h16 := OutOK_count_ge h0
    rcases hp with rfl | hp
    · simp only; omega
    · have := OutOK_addr h0 p hp; omega

theorem TargetOK_mono {R R' : List (Nat × BNode)} {c c' a : Nat} (hc : c ≤ c')
    (hR : ∀ p ∈ R, p ∈ R') (h : TargetOK R c a) : TargetOK R' c' a := by
  refine ⟨Nat.lt_of_lt_of_le h.1 hc, ?_⟩
  rcases h.2 with h0 | ⟨m, hm⟩
  · exact Or.inl h0
  · exact Or.inr ⟨m, hR _ hm⟩

/-- facts about a stored node -/
theorem OutOK_node : ∀ {es : List Emit} {c l : Nat}, OutOK es c l → ∀ a n, (a, n) ∈ rstore es →
    SortedInputs n ∧ isEmptyFinal n = false ∧ (n.fin = false → n.fout = 0) ∧
      ∀ t ∈ n.trans, TargetOK (rstore es) a t.addr
  | [], c, l, _ => by intro a n hp; simp [rstore] at hp
  | e :: es, c, l, h => by
    obtain ⟨c0, l0, h0, _, h1, ha, hc, _, hs, hef, hff, ht⟩ := h
    intro a n hp
    simp only [rstore, List.map_cons, List.mem_cons, Prod.mk.injEq] at hp
    rcases hp with ⟨rfl, rfl⟩ | hp
    · refine ⟨hs, hef, hff, fun t htm => ?_⟩
      exact TargetOK_mono (by omega) (fun p hp => by simp [rstore]; exact Or.inr (by simpa [rstore] using hp)) (ht t htm)
    · obtain ⟨i1, i2, i3, i4⟩ := OutOK_node h0 a n hp
      refine ⟨i1, i2, i3, fun t htm => ?_⟩
      exact TargetOK_mono (Nat.le_refl _) (fun p hp => by simp [rstore]; exact Or.inr (by simpa [rstore] using hp)) (i4 t htm)

theorem OutOK_functional : ∀ {es : List Emit} {c l : Nat}, OutOK es c l → ∀ a n m,
    (a, n) ∈ rstore es → (a, m) ∈ rstore es → n = m
  | [], c, l, _ => by intro a n m hp; simp [rstore] at hp
  | e :: es, c, l, h => by
    obtain ⟨c0, l0, h0, _, h1, ha, hc, _⟩ := h
    intro a n m hn hm
    simp only [rstore, List.map_cons, List.mem_cons, Prod.mk.injEq] at hn hm
    rcases hn with ⟨rfl, rfl⟩ | hn
    · rcases hm with ⟨_, rfl⟩ | hm
      · rfl
      · have := (OutOK_addr h0 _ hm).2; simp only at this; omega
    · rcases hm with ⟨rfl, rfl⟩ | hm
      · have := (OutOK_addr h0 _ hn).2; simp only at this; omega
      · exact OutOK_functional h0 a n m hn hm

/-- the table really is a denotation: every stored address spells its node -/
theorem denR_unfold : ∀ {es : List Emit} {c l : Nat}, OutOK es c l → ∀ a n, (a, n) ∈ rstore es →
    denR es a = denNodeWith (denR es) n
  | [], c, l, _ => by intro a n hp; simp [rstore] at hp
  | e :: es, c, l, h => by
    have hfull := h
    obtain ⟨c0, l0, h0, _, h1, ha, hc, _, _, _, _, ht⟩ := h
    intro a n hp
    have h16 := OutOK_count_ge h0
    have hnode := (OutOK_node hfull a n hp).2.2.2
    have hcongr : denNodeWith (denR (e :: es)) n = denNodeWith (denR es) n := by
      apply denNodeWith_congr
      intro t htm
      apply denR_cons_ne
      have h1 := (hnode t htm).1
      have h2 := (OutOK_addr hfull (a, n) hp).2
      simp only at h2
      simp only [rstore, List.map_cons, List.mem_cons, Prod.mk.injEq] at hp
      rcases hp with ⟨rfl, _⟩ | hp
      · omega
      · have := (OutOK_addr h0 _ hp).2; simp only at this; omega
    rw [hcongr]
    simp only [rstore, List.map_cons, List.mem_cons, Prod.mk.injEq] at hp
    rcases hp with ⟨rfl, rfl⟩ | hp
    · exact denR_cons_self e es (by omega)
    · rw [denR_cons_ne e es (by have := (OutOK_addr h0 _ hp).2; simp only at this; omega)]
      exact denR_unfold h0 a n hp

theorem goodStore_of_OutOK {s : BState} (h : OutOK s.out s.count s.lastAddr) :
    GoodStore (storeOf s) (denOf (storeOf s)) := by
  rw [denOf_storeOf]
  refine ⟨denR_zero _, ?_, ?_, ?_, ?_, ?_⟩
  · intro a n hp; exact denR_unfold h a n (mem_storeOf.mp hp)
  · intro a n hp; have := (OutOK_addr h _ (mem_storeOf.mp hp)).1; simp only at this; omega
  · intro a n m hn hm; exact OutOK_functional h a n m (mem_storeOf.mp hn) (mem_storeOf.mp hm)
  · intro a n hp t ht
    obtain ⟨h1, h2⟩ := (OutOK_node h a n (mem_storeOf.mp hp)).2.2.2 t ht
    refine ⟨h1, ?_⟩
    rcases h2 with h0 | ⟨m, hm⟩
    · exact Or.inl h0
    · exact Or.inr ⟨m, mem_storeOf.mpr hm⟩
  · intro a n hp; exact (OutOK_node h a n (mem_storeOf.mp hp)).1


/-! ### node size and the 256-transition assertion -/

theorem sorted_nat_length : ∀ (l : List Nat) (m k : Nat), l.Pairwise (· < ·) →
    (∀ x ∈ l, m ≤ x) → (∀ x ∈ l, x < k) → l.length ≤ k - m
  | [], _, _, _, _, _ => Nat.zero_le _
  | a :: rest, m, k, hp, hm, hk => by
    rw [List.pairwise_cons] at hp
    have ih := sorted_nat_length rest (a + 1) k hp.2 (fun x hx => hp.1 x hx)
      (fun x hx => hk x (List.mem_cons_of_mem _ hx))
    have h1 := hm a (by simp)
    have h2 := hk a (by simp)
    simp only [List.length_cons]
    omega

/-- strictly increasing byte inputs: at most 256 transitions -/
theorem sortedInputs_length {n : BNode} (h : SortedInputs n) : n.trans.length ≤ 256 := by
  have hp : (n.trans.map fun t => t.inp.toNat).Pairwise (· < ·) := by
    rw [List.pairwise_map]
    exact h.imp (fun hab => UInt8.lt_iff_toNat_lt.mp hab)
  have := sorted_nat_length _ 0 256 hp (fun _ _ => Nat.zero_le _) (by
    intro x hx
    simp only [List.mem_map] at hx
    obtain ⟨t, _, rfl⟩ := hx
    exact UInt8.toNat_lt _)
  simpa using this

theorem compileNodeC_some {n : BNode} (l a : Nat) (h : n.trans.length ≤ 256) :
    ∃ cs, compileNodeC n l a = some cs := by
  unfold compileNodeC
  have h0 : ¬ n.trans.length > 256 := by omega
  split
  · rename_i h1; exact absurd h1 h0
  · split
    · exact ⟨_, rfl⟩
    · split
      · exact ⟨_, rfl⟩
      · rename_i h1
        simp only [bne_iff_ne, ne_eq, Bool.or_eq_true, not_or, Decidable.not_not] at h1
        match hts : n.trans, h1.1 with
        | [t], _ => simp only; split <;> exact ⟨_, rfl⟩

theorem compileNodeC_size {n : BNode} {l a : Nat} {cs : List (List UInt8)}
    (h : compileNodeC n l a = some cs) (he : isEmptyFinal n = false) :
    1 ≤ (cs.map List.length).sum := by
  unfold compileNodeC at h
  split at h
  · cases h
  · rw [he] at h
    simp only [Bool.false_eq_true, if_false] at h
    split at h
    · have h' := Option.some.inj h
      subst h'
      simp only [compileAnyc, List.map_append, List.sum_append, List.map_cons, List.map_nil,
        List.sum_cons, List.sum_nil, List.length_cons, List.length_nil]
      omega
    · split at h
      · split at h
        · have h' := Option.some.inj h
          subst h'
          simp only [compileOTNc, List.map_append, List.sum_append, List.map_cons, List.map_nil,
            List.sum_cons, List.sum_nil, List.length_cons, List.length_nil]
          omega
        · have h' := Option.some.inj h
          subst h'
          simp only [compileOTc, List.map_append, List.sum_append, List.map_cons, List.map_nil,
            List.sum_cons, List.sum_nil, List.length_cons, List.length_nil]
          omega
      · cases h

/-! ### `Builder::compile` -/

structure SInv (s : BState) : Prop where
  out : OutOK s.out s.count s.lastAddr
  reg : RegSound s.reg (rstore s.out)

/-- `s'` extends `s`: more bytes, more nodes, old addresses spell what they spelled -/
def Le (s s' : BState) : Prop :=
  s.count ≤ s'.count ∧ (∀ p ∈ rstore s.out, p ∈ rstore s'.out) ∧
    ∀ a, a < s.count → denR s'.out a = denR s.out a

theorem Le.refl (s : BState) : Le s s := ⟨Nat.le_refl _, fun _ h => h, fun _ _ => rfl⟩

theorem Le.trans {s1 s2 s3 : BState} (h12 : Le s1 s2) (h23 : Le s2 s3) : Le s1 s3 :=
  ⟨Nat.le_trans h12.1 h23.1, fun p hp => h23.2.1 p (h12.2.1 p hp),
   fun a ha => by rw [h23.2.2 a (Nat.lt_of_lt_of_le ha h12.1), h12.2.2 a ha]⟩

def AddrOK (s : BState) (a : Nat) : Prop := TargetOK (rstore s.out) s.count a

theorem AddrOK.mono {s s' : BState} {a : Nat} (hle : Le s s') (h : AddrOK s a) : AddrOK s' a :=
  TargetOK_mono hle.1 hle.2.1 h

/-- what `compile` needs from the node it is given -/
def NodeOK (s : BState) (n : BNode) : Prop :=
  SortedInputs n ∧ (n.fin = false → n.fout = 0) ∧ ∀ t ∈ n.trans, AddrOK s t.addr

/-- the state after writing a node that was not found in the cache -/
def emitState (s : BState) (n : BNode) (cs : List (List UInt8)) (reg'' : Registry) : BState :=
  { s with reg := reg'', count := s.count + (cs.map List.length).sum,
           lastAddr := s.count + (cs.map List.length).sum - 1,
           out := ⟨s.count + (cs.map List.length).sum - 1, n, cs⟩ :: s.out }

theorem emit_spec {s : BState} {n : BNode} {cs : List (List UInt8)} (hinv : SInv s) (hn : NodeOK s n)
    (he' : isEmptyFinal n = false) (hcs : compileNodeC n s.lastAddr s.count = some cs)
    (reg'' : Registry) (hreg : RegSound reg'' (rstore (emitState s n cs reg'').out)) :
    SInv (emitState s n cs reg'') ∧ Le s (emitState s n cs reg'') ∧
      AddrOK (emitState s n cs reg'') (s.count + (cs.map List.length).sum - 1) ∧
      denR (emitState s n cs reg'').out (s.count + (cs.map List.length).sum - 1) =
        denNodeWith (denR s.out) n := by
  obtain ⟨hsorted, hff, htr⟩ := hn
  have h16 := OutOK_count_ge hinv.out
  have hsz := compileNodeC_size hcs he'
  refine ⟨⟨?_, hreg⟩, ⟨by simp only [emitState]; omega, ?_, ?_⟩,
    ⟨by simp only [emitState]; omega, Or.inr ⟨n, by simp [rstore, emitState]⟩⟩, ?_⟩
  · exact ⟨s.count, s.lastAddr, hinv.out, hcs, hsz, rfl, rfl, rfl, hsorted, he', hff, htr⟩
  · intro p hp; simp only [rstore, emitState, List.map_cons]; exact List.mem_cons_of_mem _ hp
  · intro a ha; exact denR_cons_ne _ _ (by simp only; omega)
  · exact denR_cons_self ⟨s.count + (cs.map List.length).sum - 1, n, cs⟩ s.out (by simp only; omega)

theorem compile_spec {s : BState} {n : BNode} (hinv : SInv s) (hn : NodeOK s n) :
    ∃ s' a, s.compile n = .ok (s', a) ∧ SInv s' ∧ Le s s' ∧ s'.stack = s.stack ∧
      s'.last = s.last ∧ s'.len = s.len ∧ AddrOK s' a ∧
      denR s'.out a = denNodeWith (denR s.out) n := by
  have hn0 := hn
  obtain ⟨hsorted, hff, htr⟩ := hn
  have h16 := OutOK_count_ge hinv.out
  unfold BState.compile
  by_cases he : isEmptyFinal n = true
  · rw [if_pos he]
    refine ⟨s, EMPTY_ADDRESS, rfl, hinv, Le.refl s, rfl, rfl, rfl, ⟨by simp [EMPTY_ADDRESS]; omega, Or.inl rfl⟩, ?_⟩
    simp only [isEmptyFinal, Bool.and_eq_true, List.isEmpty_iff, beq_iff_eq] at he
    obtain ⟨⟨hf, ht⟩, ho⟩ := he
    simp [EMPTY_ADDRESS, denR_zero, denNodeWith, own, hf, ht, ho]
  · rw [if_neg he]
    have he' : isEmptyFinal n = false := by simpa using he
    generalize hre : s.reg.entry n = re
    obtain ⟨reg', e⟩ := re
    obtain ⟨cs, hcs⟩ := compileNodeC_some s.lastAddr s.count (sortedInputs_length hsorted)
    have hsub : ∀ reg'', ∀ p ∈ rstore s.out, p ∈ rstore (emitState s n cs reg'').out := by
      intro _ p hp; simp only [rstore, emitState, List.map_cons]; exact List.mem_cons_of_mem _ hp
    cases e with
    | found a =>
      obtain ⟨hr, hmem⟩ := entry_found hre hinv.reg
      refine ⟨{ s with reg := reg' }, a, rfl, ⟨hinv.out, hr⟩, Le.refl s, rfl, rfl, rfl,
        ⟨(OutOK_addr hinv.out _ hmem).2, Or.inr ⟨n, hmem⟩⟩, ?_⟩
      exact denR_unfold hinv.out a n hmem
    | notFound b =>
      simp only [hcs]
      obtain ⟨i1, i2, i3, i4⟩ := emit_spec hinv hn0 he' hcs
        (reg'.insert b (s.count + (cs.map List.length).sum - 1))
        (entry_notFound_insert hre hinv.reg (hsub _) (by simp [rstore, emitState]))
      exact ⟨_, _, rfl, i1, i2, rfl, rfl, rfl, i3, i4⟩
    | rejected =>
      simp only [hcs]
      have := entry_rejected hre
      subst this
      obtain ⟨i1, i2, i3, i4⟩ := emit_spec hinv hn0 he' hcs s.reg (RegSound_mono (hsub _) hinv.reg)
      exact ⟨_, _, rfl, i1, i2, rfl, rfl, rfl, i3, i4⟩


/-! ### what the unfinished stack spells -/

def shift (p : Nat) (l : KV) : KV := l.map fun kv => (kv.1, p + kv.2)

/-- what the unfinished stack spells; `k` is what hangs below the pending transition of
its last node (`[]` for a whole stack) -/
def denK (d : Nat → KV) : List UNode → KV → KV
  | [], k => k
  | u :: rest, k =>
    denNodeWith d u.node ++ (match u.last with
      | none => []
      | some (b, o) => lift b o (denK d rest k))

theorem denK_append (d : Nat → KV) (xs ys : List UNode) (k : KV) :
    denK d (xs ++ ys) k = denK d xs (denK d ys k) := by
  induction xs with
  | nil => rfl
  | cons u xs ih => simp only [List.cons_append, denK, ih]

/-- all but the last node have a pending transition, the last has none -/
def WFStack : List UNode → Prop
  | [] => False
  | [u] => u.last = none
  | u :: v :: rest => u.last.isSome ∧ WFStack (v :: rest)

theorem WFStack_cons_cons {u v : UNode} {rest : List UNode} :
    WFStack (u :: v :: rest) ↔ u.last.isSome ∧ WFStack (v :: rest) := Iff.rfl

theorem WFStack_append {xs : List UNode} {y : UNode} {ys : List UNode} :
    WFStack (xs ++ y :: ys) ↔ (∀ u ∈ xs, u.last.isSome) ∧ WFStack (y :: ys) := by
  induction xs with
  | nil => simp
  | cons x xs ih =>
    cases xs with
    | nil => simp [WFStack]
    | cons x' xs' =>
      simp only [List.cons_append] at ih ⊢
      rw [WFStack_cons_cons, ih]
      simp only [List.mem_cons, forall_eq_or_imp, and_assoc]

theorem WFStack_ne_nil {st : List UNode} (h : WFStack st) : st ≠ [] := by
  intro e; subst e; exact h

/-- inputs and outputs along the pending path -/
def pathKey : List UNode → Key
  | [] => []
  | u :: rest => (match u.last with | some (b, _) => [b] | none => []) ++ pathKey rest

def pathOut : List UNode → Nat
  | [] => 0
  | u :: rest => (match u.last with | some (_, o) => o | none => 0) + pathOut rest

theorem pathKey_append (xs ys : List UNode) : pathKey (xs ++ ys) = pathKey xs ++ pathKey ys := by
  induction xs with
  | nil => rfl
  | cons u xs ih => simp only [List.cons_append, pathKey, ih, List.append_assoc]

theorem pathOut_append (xs ys : List UNode) : pathOut (xs ++ ys) = pathOut xs + pathOut ys := by
  induction xs with
  | nil => simp [pathOut]
  | cons u xs ih => simp only [List.cons_append, pathOut, ih, Nat.add_assoc]

theorem pathKey_length_of_isSome : ∀ {xs : List UNode}, (∀ u ∈ xs, u.last.isSome) →
    (pathKey xs).length = xs.length
  | [], _ => rfl
  | u :: xs, h => by
    have hu := h u (by simp)
    obtain ⟨bo, hbo⟩ := Option.isSome_iff_exists.mp hu
    simp only [pathKey, hbo, List.length_append, List.length_cons, List.length_nil,
      pathKey_length_of_isSome (fun w hw => h w (List.mem_cons_of_mem _ hw))]
    omega

theorem pathKey_length {st : List UNode} (h : WFStack st) : (pathKey st).length + 1 = st.length := by
  induction st with
  | nil => exact absurd h id
  | cons u st ih =>
    cases st with
    | nil =>
      have : u.last = none := h
      simp [pathKey, this]
    | cons v rest =>
      obtain ⟨hsome, hw⟩ := WFStack_cons_cons.mp h
      obtain ⟨bo, hbo⟩ := Option.isSome_iff_exists.mp hsome
      have := ih hw
      simp only [pathKey, hbo, List.length_append, List.length_cons, List.length_nil] at this ⊢
      omega

namespace BuildP

theorem lift_append (b : UInt8) (o : Nat) (x y : KV) :
    lift b o (x ++ y) = lift b o x ++ lift b o y := by simp [lift]

theorem lift_shift (b : UInt8) (c p : Nat) (l : KV) : lift b c (shift p l) = lift b (c + p) l := by
  simp [lift, shift, List.map_map, Function.comp_def, Nat.add_assoc]

theorem shift_lift (b : UInt8) (o p : Nat) (l : KV) : shift p (lift b o l) = lift b (p + o) l := by
  simp [lift, shift, List.map_map, Function.comp_def, Nat.add_assoc]

theorem shift_append (p : Nat) (a b : KV) : shift p (a ++ b) = shift p a ++ shift p b := by
  simp [shift]

theorem shift_zero (l : KV) : shift 0 l = l := by simp [shift]

end BuildP

/-- a new entry below a path of pending transitions -/
theorem denK_snoc (d : Nat → KV) : ∀ (xs : List UNode), (∀ u ∈ xs, u.last.isSome) →
    ∀ (X : KV) (k : Key) (o : Nat),
    denK d xs (X ++ [(k, o)]) = denK d xs X ++ [(pathKey xs ++ k, pathOut xs + o)]
  | [], _, X, k, o => by simp [denK, pathKey, pathOut]
  | u :: xs, h, X, k, o => by
    obtain ⟨bo, hbo⟩ := Option.isSome_iff_exists.mp (h u (by simp))
    obtain ⟨b, ob⟩ := bo
    simp only [denK, hbo, pathKey, pathOut,
      denK_snoc d xs (fun w hw => h w (List.mem_cons_of_mem _ hw)) X k o, lift_append]
    simp [lift, Nat.add_assoc]

/-! ### `add_output_prefix` -/

theorem flatMap_addPrefix (d : Nat → KV) (p : Nat) (ts : List Tr) :
    (ts.map fun t => { t with out := p + t.out }).flatMap (fun t => lift t.inp t.out (d t.addr))
      = shift p (ts.flatMap fun t => lift t.inp t.out (d t.addr)) := by
  induction ts with
  | nil => rfl
  | cons t ts ih =>
    simp only [List.map_cons, List.flatMap_cons, ih, shift_append, shift_lift]

theorem denNodeWith_addPrefix (d : Nat → KV) (p : Nat) (v : UNode) :
    denNodeWith d (v.addPrefix p).node = shift p (denNodeWith d v.node) := by
  simp only [denNodeWith, UNode.addPrefix, shift_append, flatMap_addPrefix]
  congr 1
  cases hf : v.node.fin <;> simp [own, hf, shift]

theorem denK_addPrefix (d : Nat → KV) (p : Nat) (v : UNode) (rest : List UNode) (k : KV) :
    denK d (v.addPrefix p :: rest) k = shift p (denK d (v :: rest) k) := by
  simp only [denK, denNodeWith_addPrefix, shift_append]
  congr 1
  cases hl : v.last with
  | none => simp [UNode.addPrefix, hl, shift]
  | some bo => simp [UNode.addPrefix, hl, shift_lift]

theorem addPrefix_last_isSome (p : Nat) (v : UNode) : (v.addPrefix p).last.isSome = v.last.isSome := by
  cases h : v.last <;> simp [UNode.addPrefix, h]

theorem pathKey_addPrefix (p : Nat) (v : UNode) (rest : List UNode) :
    pathKey (v.addPrefix p :: rest) = pathKey (v :: rest) := by
  cases h : v.last with
  | none => simp [pathKey, UNode.addPrefix, h]
  | some bo => simp [pathKey, UNode.addPrefix, h]

theorem WFStack_head_congr {v v' : UNode} {rest : List UNode} (h : v'.last.isSome = v.last.isSome) :
    WFStack (v :: rest) → WFStack (v' :: rest) := by
  cases rest with
  | nil =>
    intro hw
    have : v.last = none := hw
    have h2 : v'.last.isSome = false := by rw [h, this]; rfl
    show v'.last = none
    cases hv : v'.last with
    | none => rfl
    | some x => rw [hv] at h2; simp at h2
  | cons w ws =>
    intro hw
    obtain ⟨h1, h2⟩ := WFStack_cons_cons.mp hw
    exact WFStack_cons_cons.mpr ⟨by rw [h]; exact h1, h2⟩

/-! ### `find_common_prefix_and_set_output` -/

/-- the node pushed down by one step of `cps` -/
def pushed (o out : Nat) (v : UNode) : UNode :=
  if o - min o out ≠ 0 then v.addPrefix (o - min o out) else v

theorem cps_step (u v : UNode) (rest : List UNode) (b : UInt8) (bs : Key) (out : Nat) (o : Nat)
    (hl : u.last = some (b, o)) :
    cps (u :: v :: rest) (b :: bs) out =
      ((cps (pushed o out v :: rest) bs (out - min o out)).1 + 1,
       (cps (pushed o out v :: rest) bs (out - min o out)).2.1,
       { u with last := some (b, min o out) } :: (cps (pushed o out v :: rest) bs (out - min o out)).2.2) := by
  simp [cps, hl, pushed]

theorem cps_stop (u v : UNode) (rest : List UNode) (b : UInt8) (bs : Key) (out : Nat)
    (hl : ∀ o, u.last ≠ some (b, o)) :
    cps (u :: v :: rest) (b :: bs) out = (0, out, u :: v :: rest) := by
  simp only [cps]
  cases h : u.last with
  | none => rfl
  | some bo =>
    obtain ⟨b', o⟩ := bo
    simp only
    split
    · rename_i e; subst e; exact absurd h (hl o)
    · rfl

theorem cps_nil_key (stack : List UNode) (out : Nat) : cps stack [] out = (0, out, stack) := by
  cases stack with
  | nil => simp [cps]
  | cons u st => cases st <;> simp [cps]

theorem cps_single (u : UNode) (key : Key) (out : Nat) : cps [u] key out = (0, out, [u]) := by
  cases key <;> simp [cps]

theorem pushed_last_isSome (o out : Nat) (v : UNode) : (pushed o out v).last.isSome = v.last.isSome := by
  unfold pushed; split
  · exact addPrefix_last_isSome _ _
  · rfl

theorem pathKey_pushed (o out : Nat) (v : UNode) (rest : List UNode) :
    pathKey (pushed o out v :: rest) = pathKey (v :: rest) := by
  unfold pushed; split
  · exact pathKey_addPrefix _ _ _
  · rfl

/-- induction principle for `cps` on a well-formed stack -/
theorem cps_induct {motive : List UNode → Key → Nat → Prop}
    (hnil : ∀ stack out, WFStack stack → motive stack [] out)
    (hsingle : ∀ u key out, u.last = none → motive [u] key out)
    (hstop : ∀ u v rest b bs out, WFStack (u :: v :: rest) → (∀ o, u.last ≠ some (b, o)) →
      motive (u :: v :: rest) (b :: bs) out)
    (hstep : ∀ u v rest b bs out o, WFStack (u :: v :: rest) → u.last = some (b, o) →
      WFStack (pushed o out v :: rest) →
      motive (pushed o out v :: rest) bs (out - min o out) → motive (u :: v :: rest) (b :: bs) out) :
    ∀ (key : Key) (stack : List UNode) (out : Nat), WFStack stack → motive stack key out := by
  intro key
  induction key with
  | nil => intro stack out hw; exact hnil stack out hw
  | cons b bs ih =>
    intro stack out hw
    match stack, hw with
    | [u], hw => exact hsingle u _ out hw
    | u :: v :: rest, hw =>
      obtain ⟨hsome, hw'⟩ := WFStack_cons_cons.mp hw
      by_cases h : ∃ o, u.last = some (b, o)
      · obtain ⟨o, ho⟩ := h
        have hwv : WFStack (pushed o out v :: rest) :=
          WFStack_head_congr (pushed_last_isSome _ _ _) hw'
        exact hstep u v rest b bs out o hw ho hwv (ih _ _ hwv)
      · exact hstop u v rest b bs out hw (fun o ho => h ⟨o, ho⟩)

/-- output pushing does not change what the unfinished stack spells -/
theorem cps_den (d : Nat → KV) (k : KV) (key : Key) (stack : List UNode) (out : Nat)
    (hw : WFStack stack) : denK d (cps stack key out).2.2 k = denK d stack k := by
  revert hw
  refine cps_induct (motive := fun stack key out => denK d (cps stack key out).2.2 k = denK d stack k)
    ?_ ?_ ?_ ?_ key stack out
  · intro stack out _; rw [cps_nil_key]
  · intro u key out _; rw [cps_single]
  · intro u v rest b bs out _ hl; rw [cps_stop _ _ _ _ _ _ hl]
  · intro u v rest b bs out o _ hl _ ih
    rw [cps_step _ _ _ _ _ _ _ hl]
    simp only [denK, hl]
    congr 1
    rw [ih]
    unfold pushed
    by_cases hz : o - min o out = 0
    · have : min o out = o := by omega
      rw [this, Nat.sub_self]
      simp only [ne_eq, not_true_eq_false, if_false]
      rfl
    · simp only [hz, ne_eq, not_false_eq_true, if_true]
      rw [denK_addPrefix, lift_shift]
      congr 1
      omega

theorem cps_wf (key : Key) (stack : List UNode) (out : Nat) (hw : WFStack stack) :
    WFStack (cps stack key out).2.2 := by
  revert hw
  refine cps_induct (motive := fun stack key out => WFStack (cps stack key out).2.2)
    ?_ ?_ ?_ ?_ key stack out
  · intro stack out hw; rw [cps_nil_key]; exact hw
  · intro u key out hl; rw [cps_single]; exact hl
  · intro u v rest b bs out hw hl; rw [cps_stop _ _ _ _ _ _ hl]; exact hw
  · intro u v rest b bs out o _ hl _ ih
    rw [cps_step _ _ _ _ _ _ _ hl]
    simp only
    cases hr : (cps (pushed o out v :: rest) bs (out - min o out)).2.2 with
    | nil => rw [hr] at ih; exact absurd ih id
    | cons w ws => rw [hr] at ih; exact WFStack_cons_cons.mpr ⟨rfl, ih⟩

/-- node-wise invariants survive output pushing -/
theorem cps_forall (P : UNode → Prop)
    (h1 : ∀ u b o c, u.last = some (b, o) → P u → P { u with last := some (b, c) })
    (h2 : ∀ v p, P v → P (v.addPrefix p))
    (key : Key) (stack : List UNode) (out : Nat) (hw : WFStack stack) :
    (∀ u ∈ stack, P u) → ∀ u ∈ (cps stack key out).2.2, P u := by
  revert hw
  refine cps_induct (motive := fun stack key out =>
    (∀ u ∈ stack, P u) → ∀ u ∈ (cps stack key out).2.2, P u) ?_ ?_ ?_ ?_ key stack out
  · intro stack out _; rw [cps_nil_key]; exact id
  · intro u key out _; rw [cps_single]; exact id
  · intro u v rest b bs out _ hl; rw [cps_stop _ _ _ _ _ _ hl]; exact id
  · intro u v rest b bs out o _ hl _ ih hP
    rw [cps_step _ _ _ _ _ _ _ hl]
    simp only
    have hP' : ∀ w ∈ pushed o out v :: rest, P w := by
      intro w hw
      simp only [List.mem_cons] at hw
      rcases hw with rfl | hw
      · unfold pushed; split
        · exact h2 _ _ (hP v (by simp))
        · exact hP v (by simp)
      · exact hP w (by simp [hw])
    intro w hw
    simp only [List.mem_cons] at hw
    rcases hw with rfl | hw
    · exact h1 u b o _ hl (hP u (by simp))
    · exact ih hP' w hw

theorem cps_length (key : Key) (stack : List UNode) (out : Nat) (hw : WFStack stack) :
    (cps stack key out).2.2.length = stack.length := by
  revert hw
  refine cps_induct (motive := fun stack key out => (cps stack key out).2.2.length = stack.length)
    ?_ ?_ ?_ ?_ key stack out
  · intro stack out _; rw [cps_nil_key]
  · intro u key out _; rw [cps_single]
  · intro u v rest b bs out _ hl; rw [cps_stop _ _ _ _ _ _ hl]
  · intro u v rest b bs out o _ hl _ ih
    rw [cps_step _ _ _ _ _ _ _ hl]
    simp only [List.length_cons] at ih ⊢
    omega

theorem cps_pathKey (key : Key) (stack : List UNode) (out : Nat) (hw : WFStack stack) :
    pathKey (cps stack key out).2.2 = pathKey stack := by
  revert hw
  refine cps_induct (motive := fun stack key out => pathKey (cps stack key out).2.2 = pathKey stack)
    ?_ ?_ ?_ ?_ key stack out
  · intro stack out _; rw [cps_nil_key]
  · intro u key out _; rw [cps_single]
  · intro u v rest b bs out _ hl; rw [cps_stop _ _ _ _ _ _ hl]
  · intro u v rest b bs out o _ hl _ ih
    rw [cps_step _ _ _ _ _ _ _ hl]
    simp only [pathKey, hl]
    rw [ih, pathKey_pushed]
    rfl

/-- the matched part of the path spells the key prefix and carries `out - rem` -/
theorem cps_path (key : Key) (stack : List UNode) (out : Nat) (hw : WFStack stack) :
    pathKey ((cps stack key out).2.2.take (cps stack key out).1) = key.take (cps stack key out).1 ∧
    pathOut ((cps stack key out).2.2.take (cps stack key out).1) + (cps stack key out).2.1 = out ∧
    (∀ u ∈ (cps stack key out).2.2.take (cps stack key out).1, u.last.isSome) := by
  revert hw
  refine cps_induct (motive := fun stack key out =>
    pathKey ((cps stack key out).2.2.take (cps stack key out).1) = key.take (cps stack key out).1 ∧
    pathOut ((cps stack key out).2.2.take (cps stack key out).1) + (cps stack key out).2.1 = out ∧
    (∀ u ∈ (cps stack key out).2.2.take (cps stack key out).1, u.last.isSome))
    ?_ ?_ ?_ ?_ key stack out
  · intro stack out _; rw [cps_nil_key]; simp [pathKey, pathOut]
  · intro u key out _; rw [cps_single]; simp [pathKey, pathOut]
  · intro u v rest b bs out _ hl; rw [cps_stop _ _ _ _ _ _ hl]; simp [pathKey, pathOut]
  · intro u v rest b bs out o _ hl _ ih
    rw [cps_step _ _ _ _ _ _ _ hl]
    obtain ⟨i1, i2, i3⟩ := ih
    simp only [List.take_succ_cons, pathKey, pathOut, i1]
    refine ⟨by simp, by omega, ?_⟩
    intro w hw
    simp only [List.mem_cons] at hw
    rcases hw with rfl | hw
    · rfl
    · exact i3 w hw

/-! ### the common prefix length, and strict key order -/

def lcp : Key → Key → Nat
  | a :: as, b :: bs => if a = b then lcp as bs + 1 else 0
  | _, _ => 0

theorem cps_index (key : Key) (stack : List UNode) (out : Nat) (hw : WFStack stack) :
    (cps stack key out).1 = lcp key (pathKey stack) := by
  revert hw
  refine cps_induct (motive := fun stack key out => (cps stack key out).1 = lcp key (pathKey stack))
    ?_ ?_ ?_ ?_ key stack out
  · intro stack out _; rw [cps_nil_key]; simp [lcp]
  · intro u key out hl; rw [cps_single]; cases key <;> simp [pathKey, hl, lcp]
  · intro u v rest b bs out hw hl
    rw [cps_stop _ _ _ _ _ _ hl]
    obtain ⟨hsome, _⟩ := WFStack_cons_cons.mp hw
    obtain ⟨bo, hbo⟩ := Option.isSome_iff_exists.mp hsome
    obtain ⟨b', o⟩ := bo
    have : ¬ b = b' := by intro e; subst e; exact hl o hbo
    simp [pathKey, hbo, lcp, this]
  · intro u v rest b bs out o _ hl _ ih
    rw [cps_step _ _ _ _ _ _ _ hl]
    simp only [ih, pathKey_pushed]
    simp [pathKey, hl, lcp]

theorem lcp_lt_of_lexLt : ∀ (a b : Key), lexLt a b = true → lcp b a < b.length := by
  intro a
  induction a with
  | nil => intro b h; cases b with
    | nil => simp [lexLt] at h
    | cons y ys => simp [lcp]
  | cons x xs ih =>
    intro b h
    cases b with
    | nil => simp [lexLt] at h
    | cons y ys =>
      simp only [lcp]
      split
      · rename_i hyx
        subst hyx
        simp only [lexLt, Bool.or_eq_true, decide_eq_true_eq, Bool.and_eq_true, beq_iff_eq] at h
        cases h with
        | inl h => exact absurd h (u8_lt_irrefl _)
        | inr h => have := ih ys h.2; simp; omega
      · simp

theorem lcp_le_right : ∀ (a b : Key), lcp a b ≤ b.length
  | [], _ => by simp [lcp]
  | _ :: _, [] => by simp [lcp]
  | x :: xs, y :: ys => by
    simp only [lcp]; split
    · have := lcp_le_right xs ys; simp; omega
    · simp

theorem lcp_self : ∀ a : Key, lcp a a = a.length
  | [] => rfl
  | x :: xs => by simp [lcp, lcp_self xs]

/-- at the divergence point the new key carries the larger byte -/
theorem lcp_next : ∀ (p k : Key), lexLt p k = true → ∀ b, p[lcp k p]? = some b →
    ∃ b2, k[lcp k p]? = some b2 ∧ b < b2 := by
  intro p
  induction p with
  | nil => intro k _ b hb; simp at hb
  | cons x xs ih =>
    intro k h b hb
    cases k with
    | nil => simp [lexLt] at h
    | cons y ys =>
      simp only [lexLt, Bool.or_eq_true, decide_eq_true_eq, Bool.and_eq_true, beq_iff_eq] at h
      simp only [lcp] at hb ⊢
      split
      · rename_i hyx
        subst hyx
        rw [if_pos rfl] at hb
        rcases h with h | h
        · exact absurd h (u8_lt_irrefl _)
        · simpa using ih ys h.2 b (by simpa using hb)
      · rename_i hyx
        rw [if_neg hyx] at hb
        simp only [List.getElem?_cons_zero, Option.some.injEq] at hb ⊢
        subst hb
        rcases h with h | h
        · exact ⟨y, rfl, h⟩
        · exact absurd h.1.symm hyx

/-- the pending byte of the `i`-th node is the `i`-th byte of the path -/
theorem pathKey_getElem : ∀ (st : List UNode) (i : Nat) (u : UNode) (b : UInt8) (o : Nat),
    (∀ w ∈ st.take i, w.last.isSome) → st[i]? = some u → u.last = some (b, o) →
    (pathKey st)[i]? = some b
  | [], i, u, b, o, _, h, _ => by simp at h
  | w :: st, 0, u, b, o, _, h, hl => by
    simp only [List.getElem?_cons_zero, Option.some.injEq] at h
    subst h
    simp [pathKey, hl]
  | w :: st, i+1, u, b, o, hs, h, hl => by
    obtain ⟨bo, hbo⟩ := Option.isSome_iff_exists.mp (hs w (by simp))
    simp only [List.getElem?_cons_succ] at h
    have := pathKey_getElem st i u b o (fun x hx => hs x (by simp [hx])) h hl
    simp only [pathKey, hbo, List.singleton_append, List.getElem?_cons_succ]
    exact this

/-! ### `add_suffix` -/

theorem denK_chain (d : Nat → KV) : ∀ bs : Key, denK d (chain bs) [] = [(bs, 0)]
  | [] => by simp [chain, denK, denNodeWith, own]
  | b :: bs => by simp [chain, denK, denNodeWith, own, BNode.empty, denK_chain d bs, lift]

theorem WFStack_chain : ∀ bs : Key, WFStack (chain bs)
  | [] => rfl
  | b :: bs => by
    have ih := WFStack_chain bs
    cases hc : chain bs with
    | nil => rw [hc] at ih; exact absurd ih id
    | cons w ws => simp only [chain, hc]; rw [hc] at ih; exact WFStack_cons_cons.mpr ⟨rfl, ih⟩

theorem pathKey_chain : ∀ bs : Key, pathKey (chain bs) = bs
  | [] => by simp [chain, pathKey]
  | b :: bs => by simp [chain, pathKey, pathKey_chain bs]

theorem chain_forall (P : UNode → Prop) (h1 : ∀ b, P ⟨BNode.empty, some (b, 0)⟩)
    (h2 : P ⟨⟨true, 0, []⟩, none⟩) : ∀ bs : Key, ∀ u ∈ chain bs, P u
  | [], u, hu => by simp only [chain, List.mem_singleton] at hu; subst hu; exact h2
  | b :: bs, u, hu => by
    simp only [chain, List.mem_cons] at hu
    rcases hu with rfl | hu
    · exact h1 b
    · exact chain_forall P h1 h2 bs u hu

theorem addSuffix_snoc (front : List UNode) (top : UNode) (b : UInt8) (bs : Key) (out : Nat) :
    addSuffix (front ++ [top]) (b :: bs) out = front ++ { top with last := some (b, out) } :: chain bs := by
  induction front with
  | nil => simp [addSuffix]
  | cons u front ih =>
    cases front with
    | nil => simp only [List.cons_append, List.nil_append, addSuffix] at ih ⊢
    | cons v rest => simp only [List.cons_append, addSuffix] at ih ⊢; rw [ih]

theorem take_split (front : List UNode) (top : UNode) (popped : List UNode) :
    (front ++ top :: popped).take (front.length + 1) = front ++ [top] := by
  induction front with
  | nil => simp
  | cons u front ih => simp only [List.cons_append, List.length_cons, List.take_succ_cons, ih]

theorem drop_split (front : List UNode) (top : UNode) (popped : List UNode) :
    (front ++ top :: popped).drop (front.length + 1) = popped := by
  induction front with
  | nil => simp
  | cons u front ih => simp only [List.cons_append, List.length_cons, List.drop_succ_cons, ih]

/-- split a stack at position `i` -/
theorem stack_split (st : List UNode) (i : Nat) (h : i < st.length) :
    st = st.take i ++ st[i] :: st.drop (i + 1) ∧ (st.take i).length = i := by
  refine ⟨?_, by rw [List.length_take]; omega⟩
  rw [← List.drop_eq_getElem_cons h, List.take_append_drop]


/-! ### shape of unfinished nodes, freezing -/

/-- in-node invariant of an unfinished node: frozen inputs strictly increasing and all
smaller than the pending input; nothing frozen yet in a node without pending transition -/
def UShape (u : UNode) : Prop :=
  SortedInputs u.node ∧ (u.node.fin = false → u.node.fout = 0) ∧
    (match u.last with
      | some (b, _) => ∀ t ∈ u.node.trans, t.inp < b
      | none => u.node.trans = [])

def UAddr (s : BState) (u : UNode) : Prop := ∀ t ∈ u.node.trans, AddrOK s t.addr

theorem UAddr.mono {s s' : BState} {u : UNode} (hle : Le s s') (h : UAddr s u) : UAddr s' u :=
  fun t ht => (h t ht).mono hle

theorem denNodeWith_freeze (d : Nat → KV) (u : UNode) (a : Nat) :
    denNodeWith d (u.freeze a) = denNodeWith d u.node ++
      (match u.last with | none => [] | some (b, o) => lift b o (d a)) := by
  unfold UNode.freeze
  cases hl : u.last with
  | none => simp
  | some bo =>
    obtain ⟨b, o⟩ := bo
    simp [denNodeWith, List.flatMap_append, own]

theorem freeze_nodeOK {s : BState} {u : UNode} {a : Nat} (hs : UShape u) (ha : UAddr s u)
    (haddr : AddrOK s a) : NodeOK s (u.freeze a) := by
  obtain ⟨h1, h2, h3⟩ := hs
  unfold UNode.freeze
  cases hl : u.last with
  | none => exact ⟨h1, h2, ha⟩
  | some bo =>
    obtain ⟨b, o⟩ := bo
    rw [hl] at h3
    refine ⟨?_, h2, ?_⟩
    · unfold SortedInputs
      simp only [List.pairwise_append, List.pairwise_cons, List.mem_singleton]
      refine ⟨h1, ⟨by simp, List.Pairwise.nil⟩, ?_⟩
      intro t ht x hx
      subst hx
      exact h3 t ht
    · intro t ht
      simp only [List.mem_append, List.mem_singleton] at ht
      rcases ht with ht | rfl
      · exact ha t ht
      · exact haddr

theorem denNodeWith_stable {s s' : BState} {n : BNode} (hle : Le s s')
    (h : ∀ t ∈ n.trans, AddrOK s t.addr) :
    denNodeWith (denR s'.out) n = denNodeWith (denR s.out) n :=
  denNodeWith_congr fun t ht => hle.2.2 _ (h t ht).1

theorem denK_stable {s s' : BState} (hle : Le s s') : ∀ (st : List UNode) (k : KV),
    (∀ u ∈ st, UAddr s u) → denK (denR s'.out) st k = denK (denR s.out) st k
  | [], _, _ => rfl
  | u :: st, k, h => by
    simp only [denK]
    rw [denNodeWith_stable hle (h u (by simp)),
      denK_stable hle st k (fun w hw => h w (List.mem_cons_of_mem _ hw))]

/-! ### `compile_from`: the popped part -/

theorem compileTail_spec : ∀ (popped : List UNode) (s : BState), SInv s → WFStack popped →
    (∀ u ∈ popped, UShape u) → (∀ u ∈ popped, UAddr s u) →
    ∃ s' a, s.compileTail popped = .ok (s', a) ∧ SInv s' ∧ Le s s' ∧ s'.stack = s.stack ∧
      s'.last = s.last ∧ s'.len = s.len ∧ AddrOK s' a ∧
      denR s'.out a = denK (denR s.out) popped [] := by
  intro popped
  induction popped with
  | nil => intro s _ h; exact absurd h id
  | cons u rest ih =>
    intro s hinv hwf hshape haddr
    cases rest with
    | nil =>
      have hl : u.last = none := hwf
      have hfz : u.freeze NONE_ADDRESS = u.node := by simp [UNode.freeze, hl]
      obtain ⟨s', a, h1, h2, h3, h4, h5, h6, h7, h8⟩ :=
        compile_spec hinv (n := u.node) ⟨(hshape u (by simp)).1, (hshape u (by simp)).2.1, haddr u (by simp)⟩
      refine ⟨s', a, ?_, h2, h3, h4, h5, h6, h7, ?_⟩
      · simp only [BState.compileTail, hl, Option.isSome_none, Bool.and_false, Bool.false_eq_true,
          if_false, hfz]
        exact h1
      · rw [h8]; simp [denK, hl]
    | cons v rest' =>
      obtain ⟨hsome, hwf'⟩ := WFStack_cons_cons.mp hwf
      obtain ⟨bo, hbo⟩ := Option.isSome_iff_exists.mp hsome
      obtain ⟨b, o⟩ := bo
      obtain ⟨s1, a1, i1, i2, i3, i4, i5, i6, i7, i8⟩ := ih s hinv hwf'
        (fun w hw => hshape w (List.mem_cons_of_mem _ hw))
        (fun w hw => haddr w (List.mem_cons_of_mem _ hw))
      have hn : NodeOK s1 (u.freeze a1) :=
        freeze_nodeOK (hshape u (by simp)) ((haddr u (by simp)).mono i3) i7
      obtain ⟨s', a, h1, h2, h3, h4, h5, h6, h7, h8⟩ := compile_spec i2 hn
      refine ⟨s', a, ?_, h2, i3.trans h3, by rw [h4, i4], by rw [h5, i5], by rw [h6, i6], h7, ?_⟩
      · rw [BState.compileTail, i1]
        simp only [List.isEmpty_cons, Bool.false_and, Bool.false_eq_true, if_false]
        exact h1
      · rw [h8, denNodeWith_freeze, hbo]
        simp only
        rw [denNodeWith_stable i3 (haddr u (by simp)), i8]
        simp only [denK, hbo]

/-! ### `compile_from` -/

theorem compileFrom_spec {s : BState} {front popped : List UNode} {top : UNode} (hinv : SInv s)
    (hst : s.stack = front ++ top :: popped) (hwf : WFStack (top :: popped))
    (hshape : ∀ u ∈ top :: popped, UShape u) (haddr : ∀ u ∈ top :: popped, UAddr s u) :
    ∃ s' a, s.compileFrom front.length = .ok s' ∧ SInv s' ∧ Le s s' ∧
      s'.stack = front ++ [⟨top.freeze a, none⟩] ∧ s'.last = s.last ∧ s'.len = s.len ∧
      NodeOK s' (top.freeze a) ∧
      denNodeWith (denR s'.out) (top.freeze a) = denK (denR s.out) (top :: popped) [] := by
  unfold BState.compileFrom
  simp only [hst, take_split, drop_split, List.getLast?_concat, List.dropLast_concat]
  cases popped with
  | nil =>
    have hl : top.last = none := hwf
    refine ⟨{ s with stack := front ++ [⟨top.freeze NONE_ADDRESS, none⟩] }, NONE_ADDRESS, rfl,
      ⟨hinv.out, hinv.reg⟩, ⟨Nat.le_refl _, fun _ h => h, fun _ _ => rfl⟩, rfl, rfl, rfl, ?_, ?_⟩
    · have hfz : top.freeze NONE_ADDRESS = top.node := by simp [UNode.freeze, hl]
      rw [hfz]
      exact ⟨(hshape top (by simp)).1, (hshape top (by simp)).2.1, haddr top (by simp)⟩
    · rw [denNodeWith_freeze, hl]; simp [denK, hl]
  | cons v rest =>
    obtain ⟨hsome, hwf'⟩ := WFStack_cons_cons.mp hwf
    obtain ⟨bo, hbo⟩ := Option.isSome_iff_exists.mp hsome
    obtain ⟨b, o⟩ := bo
    obtain ⟨s1, a1, i1, i2, i3, i4, i5, i6, i7, i8⟩ := compileTail_spec (v :: rest) s hinv hwf'
      (fun w hw => hshape w (List.mem_cons_of_mem _ hw))
      (fun w hw => haddr w (List.mem_cons_of_mem _ hw))
    rw [i1]
    refine ⟨{ s1 with stack := front ++ [⟨top.freeze a1, none⟩] }, a1, rfl,
      ⟨i2.out, i2.reg⟩, ⟨i3.1, i3.2.1, i3.2.2⟩, rfl, i5, i6, ?_, ?_⟩
    · have := freeze_nodeOK (a := a1) (hshape top (by simp)) ((haddr top (by simp)).mono i3) i7
      exact this
    · show denNodeWith (denR s1.out) (top.freeze a1) = _
      rw [denNodeWith_freeze, hbo]
      simp only
      rw [denNodeWith_stable i3 (haddr top (by simp)), i8]
      simp only [denK, hbo]


/-! ### one accepted key -/

/-- the part of the builder invariant that does not mention `last` -/
structure Core (s : BState) (acc : KV) : Prop where
  sinv : SInv s
  wf : WFStack s.stack
  shape : ∀ u ∈ s.stack, UShape u
  addr : ∀ u ∈ s.stack, UAddr s u
  den : denK (denR s.out) s.stack [] = acc
  len : s.len = acc.length

theorem insertOutput_cons (s : BState) (b : UInt8) (bt : Key) (out : Option Nat) :
    s.insertOutput (b :: bt) out =
      if (cps s.stack (b :: bt) (out.getD 0)).1 = (b :: bt).length then
        (if (cps s.stack (b :: bt) (out.getD 0)).2.1 ≠ 0 then .error (.panic "assert!(out.is_zero())")
         else .ok { s with stack := (cps s.stack (b :: bt) (out.getD 0)).2.2 })
      else
        match ({ s with stack := (cps s.stack (b :: bt) (out.getD 0)).2.2, len := s.len + 1 } : BState).compileFrom
            (cps s.stack (b :: bt) (out.getD 0)).1 with
        | .error e => .error e
        | .ok s' => .ok { s' with stack := addSuffix s'.stack ((b :: bt).drop (cps s.stack (b :: bt) (out.getD 0)).1)
                                              (cps s.stack (b :: bt) (out.getD 0)).2.1 } := rfl

theorem UShape_setLast {u : UNode} {b : UInt8} {o c : Nat} (hl : u.last = some (b, o)) (h : UShape u) :
    UShape { u with last := some (b, c) } := by
  obtain ⟨h1, h2, h3⟩ := h
  rw [hl] at h3
  exact ⟨h1, h2, h3⟩

theorem UShape_addPrefix {v : UNode} (p : Nat) (h : UShape v) : UShape (v.addPrefix p) := by
  obtain ⟨h1, h2, h3⟩ := h
  refine ⟨?_, ?_, ?_⟩
  · unfold SortedInputs UNode.addPrefix
    simp only [List.pairwise_map]
    exact h1
  · intro hf
    have hf' : v.node.fin = false := hf
    simp [UNode.addPrefix, hf', h2 hf']
  · cases hl : v.last with
    | none =>
      rw [hl] at h3
      simp [UNode.addPrefix, hl, h3]
    | some bo =>
      obtain ⟨b, o⟩ := bo
      rw [hl] at h3
      simp only [UNode.addPrefix, hl, Option.map_some, List.mem_map, forall_exists_index, and_imp]
      intro t t0 ht0 e
      subst e
      exact h3 t0 ht0

theorem UAddr_addPrefix {s : BState} {v : UNode} (p : Nat) (h : UAddr s v) : UAddr s (v.addPrefix p) := by
  intro t ht
  simp only [UNode.addPrefix, List.mem_map] at ht
  obtain ⟨t0, ht0, rfl⟩ := ht
  exact h t0 ht0

theorem WFStack_cons_chain (u : UNode) (bs : Key) (h : u.last.isSome) : WFStack (u :: chain bs) := by
  have := WFStack_chain bs
  cases hc : chain bs with
  | nil => rw [hc] at this; exact absurd this id
  | cons w ws => rw [hc] at this; exact WFStack_cons_cons.mpr ⟨h, this⟩

theorem UShape_chain (bs : Key) : ∀ u ∈ chain bs, UShape u :=
  chain_forall UShape
    (fun b => ⟨List.Pairwise.nil, fun _ => rfl, by simp [BNode.empty]⟩)
    ⟨List.Pairwise.nil, fun h => by simp at h, rfl⟩ bs

theorem UAddr_chain (s : BState) (bs : Key) : ∀ u ∈ chain bs, UAddr s u :=
  chain_forall (UAddr s)
    (fun b => by intro t ht; simp [BNode.empty] at ht)
    (by intro t ht; simp at ht) bs

/-- a key strictly greater than the pending path is accepted and appended -/
theorem insertOutput_new {s : BState} {acc : KV} (hc : Core s acc) (b : UInt8) (bt : Key)
    (out : Option Nat) (hlt : lexLt (pathKey s.stack) (b :: bt) = true) :
    ∃ s', s.insertOutput (b :: bt) out = .ok s' ∧ Core s' (acc ++ [(b :: bt, out.getD 0)]) ∧
      pathKey s'.stack = b :: bt ∧ s'.last = s.last := by
  rw [insertOutput_cons]
  have hw1 := cps_wf (b :: bt) s.stack (out.getD 0) hc.wf
  have hidx := cps_index (b :: bt) s.stack (out.getD 0) hc.wf
  have hprog : (cps s.stack (b :: bt) (out.getD 0)).1 < (b :: bt).length := by
    rw [hidx]; exact lcp_lt_of_lexLt _ _ hlt
  have hlen := cps_length (b :: bt) s.stack (out.getD 0) hc.wf
  have hplen := pathKey_length hc.wf
  have hile : (cps s.stack (b :: bt) (out.getD 0)).1 < (cps s.stack (b :: bt) (out.getD 0)).2.2.length := by
    have := lcp_le_right (b :: bt) (pathKey s.stack)
    rw [hlen, hidx]; omega
  obtain ⟨p1, p2, p3⟩ := cps_path (b :: bt) s.stack (out.getD 0) hc.wf
  have hden := cps_den (denR s.out) [] (b :: bt) s.stack (out.getD 0) hc.wf
  have hpk := cps_pathKey (b :: bt) s.stack (out.getD 0) hc.wf
  have hshape1 := cps_forall UShape (fun u b o c hl h => UShape_setLast hl h)
    (fun v p h => UShape_addPrefix p h) (b :: bt) s.stack (out.getD 0) hc.wf hc.shape
  have haddr1 := cps_forall (UAddr s) (fun u b o c _ h => h)
    (fun v p h => UAddr_addPrefix p h) (b :: bt) s.stack (out.getD 0) hc.wf hc.addr
  generalize cps s.stack (b :: bt) (out.getD 0) = r at *
  obtain ⟨i, rem, st1⟩ := r
  simp only at hw1 hidx hprog hlen hile p1 p2 p3 hden hpk hshape1 haddr1 ⊢
  rw [if_neg (Nat.ne_of_lt hprog)]
  obtain ⟨hsplit, hflen⟩ := stack_split st1 i hile
  generalize hfront : st1.take i = front at *
  generalize htop : st1[i] = top at *
  generalize hpopped : st1.drop (i + 1) = popped at *
  have hmem : ∀ u, u ∈ front ∨ u ∈ top :: popped → u ∈ st1 := by
    intro u hu; rw [hsplit]; simpa using hu
  obtain ⟨hfsome, hwtp⟩ := WFStack_append.mp (hsplit ▸ hw1)
  -- compile the popped part
  obtain ⟨s2, a, c1, c2, c3, c4, c5, c6, c7, c8⟩ :=
    compileFrom_spec (s := { s with stack := st1, len := s.len + 1 }) (front := front) (popped := popped)
      (top := top) ⟨hc.sinv.out, hc.sinv.reg⟩ hsplit hwtp
      (fun u hu => hshape1 u (hmem u (Or.inr hu))) (fun u hu => haddr1 u (hmem u (Or.inr hu)))
  rw [hflen] at c1
  rw [c1]
  -- the rest of the key
  obtain ⟨b2, bs', hdrop⟩ : ∃ b2 bs', (b :: bt).drop i = b2 :: bs' :=
    ⟨_, _, List.drop_eq_getElem_cons hprog⟩
  have hkey : (b :: bt).take i ++ b2 :: bs' = b :: bt := by rw [← hdrop, List.take_append_drop]
  have hget : (b :: bt)[i]? = some b2 := by
    have := List.drop_eq_getElem_cons hprog
    rw [hdrop] at this
    rw [List.getElem?_eq_getElem hprog]
    exact congrArg some (List.cons.inj this).1.symm
  simp only [hdrop, c4, addSuffix_snoc]
  refine ⟨_, rfl, ⟨⟨c2.out, c2.reg⟩, ?_, ?_, ?_, ?_, ?_⟩, ?_, c5⟩
  · -- well-formed
    exact WFStack_append.mpr ⟨hfsome, WFStack_cons_chain _ _ rfl⟩
  · -- shapes
    intro u hu
    simp only [List.mem_append, List.mem_cons] at hu
    rcases hu with hu | rfl | hu
    · exact hshape1 u (hmem u (Or.inl hu))
    · refine ⟨c7.1, c7.2.1, ?_⟩
      simp only
      have hst := hshape1 top (hmem top (Or.inr (by simp)))
      unfold UNode.freeze
      cases hl : top.last with
      | none =>
        have := hst.2.2
        rw [hl] at this
        simp [this]
      | some bo =>
        obtain ⟨b0, o0⟩ := bo
        have h3 := hst.2.2
        rw [hl] at h3
        have hpg : (pathKey st1)[i]? = some b0 := by
          apply pathKey_getElem st1 i top b0 o0
          · rw [hfront]; exact hfsome
          · rw [List.getElem?_eq_getElem hile, htop]
          · exact hl
        rw [hpk, hidx] at hpg
        obtain ⟨b2', hb2', hlt2⟩ := lcp_next _ _ hlt b0 hpg
        rw [← hidx, hget] at hb2'
        cases hb2'
        intro t ht
        simp only [List.mem_append, List.mem_singleton] at ht
        rcases ht with ht | rfl
        · exact UInt8.lt_trans (h3 t ht) hlt2
        · exact hlt2
    · exact UShape_chain bs' u hu
  · -- addresses
    intro u hu
    simp only [List.mem_append, List.mem_cons] at hu
    rcases hu with hu | rfl | hu
    · exact UAddr.mono (s := { s with stack := st1, len := s.len + 1 }) c3 (haddr1 u (hmem u (Or.inl hu)))
    · exact c7.2.2
    · exact UAddr_chain _ bs' u hu
  · -- denotation
    show denK (denR s2.out) (front ++ _ :: chain bs') [] = _
    rw [denK_append]
    simp only [denK, denK_chain, c8]
    have hl : lift b2 rem [(bs', 0)] = [(b2 :: bs', rem)] := by simp [lift]
    rw [hl, denK_snoc _ front hfsome,
      denK_stable (s := { s with stack := st1, len := s.len + 1 }) c3 front _
        (fun u hu => haddr1 u (hmem u (Or.inl hu)))]
    show denK (denR s.out) front (denK (denR s.out) (top :: popped) []) ++ _ = _
    rw [← denK_append, ← hsplit, hden, hc.den, p1, hkey, p2]
  · -- length
    show s2.len = _
    rw [c6]
    simp [hc.len]
  · -- path
    show pathKey (front ++ _ :: chain bs') = _
    rw [pathKey_append, p1]
    simp only [pathKey, pathKey_chain, List.singleton_append]
    exact hkey


theorem pathKey_nil_single {st : List UNode} (hw : WFStack st) (h : pathKey st = []) :
    ∃ top, st = [top] ∧ top.last = none := by
  have := pathKey_length hw
  rw [h] at this
  match st, hw, this with
  | [top], hw, _ => exact ⟨top, rfl, hw⟩

/-- the empty key: `set_root_output` -/
theorem insertOutput_empty {s : BState} {acc : KV} (hc : Core s acc) (out : Option Nat)
    (hp : pathKey s.stack = []) :
    ∃ s', s.insertOutput [] out = .ok s' ∧ Core s' [([], out.getD 0)] ∧
      pathKey s'.stack = [] ∧ s'.last = s.last := by
  obtain ⟨top, hst, hl⟩ := pathKey_nil_single hc.wf hp
  have hsh := hc.shape top (by rw [hst]; simp)
  have htr : top.node.trans = [] := by have := hsh.2.2; rw [hl] at this; exact this
  refine ⟨{ s with len := 1, stack := setRootOutput s.stack (out.getD 0) }, rfl, ?_, ?_, rfl⟩
  · rw [hst]
    refine ⟨⟨hc.sinv.out, hc.sinv.reg⟩, hl, ?_, ?_, ?_, rfl⟩
    · intro u hu
      simp only [setRootOutput, List.mem_singleton] at hu
      subst hu
      refine ⟨by simp [SortedInputs, htr], by simp, by simp [hl, htr]⟩
    · intro u hu
      simp only [setRootOutput, List.mem_singleton] at hu
      subst hu
      intro t ht
      simp [htr] at ht
    · simp [setRootOutput, denK, hl, denNodeWith, own, htr]
  · rw [hst]; simp [setRootOutput, pathKey, hl]

/-- set mode, a repeated non-empty key: only outputs are pushed down (there are none) -/
theorem insertOutput_dup {s : BState} {acc : KV} (hc : Core s acc) (b : UInt8) (bt : Key)
    (out : Option Nat) (hv : out.getD 0 = 0) (hp : pathKey s.stack = b :: bt) :
    ∃ s', s.insertOutput (b :: bt) out = .ok s' ∧ Core s' acc ∧
      pathKey s'.stack = b :: bt ∧ s'.last = s.last := by
  rw [insertOutput_cons]
  have hw1 := cps_wf (b :: bt) s.stack (out.getD 0) hc.wf
  have hidx := cps_index (b :: bt) s.stack (out.getD 0) hc.wf
  rw [hp, lcp_self] at hidx
  obtain ⟨_, p2, _⟩ := cps_path (b :: bt) s.stack (out.getD 0) hc.wf
  have hden := cps_den (denR s.out) [] (b :: bt) s.stack (out.getD 0) hc.wf
  have hpk := cps_pathKey (b :: bt) s.stack (out.getD 0) hc.wf
  have hshape1 := cps_forall UShape (fun u b o c hl h => UShape_setLast hl h)
    (fun v p h => UShape_addPrefix p h) (b :: bt) s.stack (out.getD 0) hc.wf hc.shape
  have haddr1 := cps_forall (UAddr s) (fun u b o c _ h => h)
    (fun v p h => UAddr_addPrefix p h) (b :: bt) s.stack (out.getD 0) hc.wf hc.addr
  have hrem : (cps s.stack (b :: bt) (out.getD 0)).2.1 = 0 := by omega
  rw [if_pos hidx, hrem]
  simp only [ne_eq, not_true_eq_false, if_false]
  refine ⟨_, rfl, ⟨⟨hc.sinv.out, hc.sinv.reg⟩, hw1, hshape1, haddr1, ?_, hc.len⟩, ?_, rfl⟩
  · show denK (denR s.out) _ [] = acc
    rw [hden, hc.den]
  · show pathKey _ = _
    rw [hpk, hp]

/-! ### the invariant between public calls -/

structure Inv (s : BState) (acc : KV) : Prop where
  core : Core s acc
  path : pathKey s.stack = s.last.getD []
  last : s.last = acc.getLast?.map (·.1)

theorem Core_setLast {s : BState} {acc : KV} (h : Core s acc) (l : Option Key) :
    Core { s with last := l } acc :=
  ⟨⟨h.sinv.out, h.sinv.reg⟩, h.wf, h.shape, h.addr, h.den, h.len⟩

theorem Inv_new (rows cols : Nat) : Inv (BState.new rows cols) [] := by
  refine ⟨⟨⟨⟨rfl, rfl⟩, RegSound_new _ _ _⟩, rfl, ?_, ?_, ?_, rfl⟩, rfl, rfl⟩
  · intro u hu
    simp only [BState.new, List.mem_singleton] at hu
    subst hu
    exact ⟨List.Pairwise.nil, fun _ => rfl, rfl⟩
  · intro u hu
    simp only [BState.new, List.mem_singleton] at hu
    subst hu
    intro t ht
    simp [BNode.empty] at ht
  · simp [BState.new, denK, denNodeWith, own, BNode.empty]

/-- the common part of `insert` and `add` for a key greater than the previous one -/
theorem insertOutput_greater {s : BState} {acc : KV} (h : Inv s acc) (k : Key) (out : Option Nat)
    (hlt : ∀ last, s.last = some last → lexLt last k = true) :
    ∃ s', ({ s with last := some k } : BState).insertOutput k out = .ok s' ∧
      Inv s' (acc ++ [(k, out.getD 0)]) := by
  have hcore := Core_setLast h.core (some k)
  cases k with
  | nil =>
    have hnone : s.last = none := by
      cases hl : s.last with
      | none => rfl
      | some last => have := hlt last hl; cases last <;> simp [lexLt] at this
    have hacc : acc = [] := by
      have := h.last
      rw [hnone] at this
      cases hacc : acc.getLast? with
      | none => exact List.getLast?_eq_none_iff.mp hacc
      | some x => rw [hacc] at this; simp at this
    have hp : pathKey s.stack = [] := by rw [h.path, hnone]; rfl
    obtain ⟨s', e1, e2, e3, e4⟩ := insertOutput_empty hcore out hp
    refine ⟨s', e1, ⟨by rw [hacc]; exact e2, by rw [e3, e4]; rfl, by rw [e4]; simp⟩⟩
  | cons b bt =>
    have hp : lexLt (pathKey s.stack) (b :: bt) = true := by
      rw [h.path]
      cases hl : s.last with
      | none => rfl
      | some last => exact hlt last hl
    obtain ⟨s', e1, e2, e3, e4⟩ := insertOutput_new hcore b bt out hp
    exact ⟨s', e1, ⟨e2, by rw [e3, e4]; rfl, by rw [e4]; simp⟩⟩

/-- `insert` of a key strictly greater than the last one never fails and appends it -/
theorem insert_new {s : BState} {acc : KV} (h : Inv s acc) (k : Key) (v : Nat)
    (hlt : ∀ last, s.last = some last → lexLt last k = true) :
    ∃ s', s.insert k v = .ok s' ∧ Inv s' (acc ++ [(k, v)]) := by
  have hck : s.checkLastKey k true = .ok { s with last := some k } := by
    cases hl : s.last with
    | none => exact checkLastKey_none k true hl
    | some last => rw [checkLastKey_map k hl, if_pos (hlt last hl)]
  unfold BState.insert
  rw [hck]
  exact insertOutput_greater h k (some v) hlt

/-- `add` of a key strictly greater than the last one never fails and appends it (value 0) -/
theorem add_new {s : BState} {acc : KV} (h : Inv s acc) (k : Key)
    (hlt : ∀ last, s.last = some last → lexLt last k = true) :
    ∃ s', s.add k = .ok s' ∧ Inv s' (acc ++ [(k, 0)]) := by
  have hck : s.checkLastKey k false = .ok { s with last := some k } := by
    cases hl : s.last with
    | none => exact checkLastKey_none k false hl
    | some last => rw [checkLastKey_set k hl, if_pos (lexLe_iff.mpr (Or.inl (hlt last hl)))]
  unfold BState.add
  rw [hck]
  exact insertOutput_greater h k none hlt

/-- `add` of the key just added is accepted and (in set mode) changes nothing -/
theorem add_dup {s : BState} {acc : KV} (h : Inv s acc) (k : Key) (hl : s.last = some k) :
    ∃ s' acc', s.add k = .ok s' ∧ Inv s' acc' ∧ (acc.getLast? = some (k, 0) → acc' = acc) := by
  have hck : s.checkLastKey k false = .ok { s with last := some k } := by
    rw [checkLastKey_set k hl, if_pos (lexLe_refl k)]
  have hcore := Core_setLast h.core (some k)
  have hp : pathKey s.stack = k := by rw [h.path, hl]; rfl
  unfold BState.add
  rw [hck]
  cases k with
  | nil =>
    obtain ⟨s', e1, e2, e3, e4⟩ := insertOutput_empty hcore none hp
    refine ⟨s', [([], 0)], e1, ⟨e2, by rw [e3, e4]; rfl, by rw [e4]; rfl⟩, ?_⟩
    intro hg
    obtain ⟨top, hst, hlt⟩ := pathKey_nil_single h.core.wf hp
    have hsh := h.core.shape top (by rw [hst]; simp)
    have htr : top.node.trans = [] := by have := hsh.2.2; rw [hlt] at this; exact this
    have hden := h.core.den
    rw [hst] at hden
    simp only [denK, hlt, denNodeWith, htr, List.flatMap_nil, List.append_nil, own] at hden
    rw [← hden] at hg ⊢
    split at hg
    · simp only [List.getLast?_singleton, Option.some.injEq, Prod.mk.injEq, true_and] at hg
      rw [if_pos ‹_›, hg]
    · simp at hg
  | cons b bt =>
    obtain ⟨s', e1, e2, e3, e4⟩ := insertOutput_dup hcore b bt none rfl hp
    exact ⟨s', acc, e1, ⟨e2, by rw [e3, e4]; rfl, by rw [e4]; exact h.last ▸ hl.symm ▸ rfl⟩, fun _ => rfl⟩

/-! ### `into_inner` -/

theorem finish_spec {s : BState} {acc : KV} (h : Core s acc) :
    ∃ s' root, s.finish = .ok (s', root) ∧ SInv s' ∧ Le s s' ∧ AddrOK s' root ∧
      denR s'.out root = acc ∧ s'.len = s.len := by
  obtain ⟨top, popped, hst⟩ : ∃ top popped, s.stack = top :: popped := by
    cases hs : s.stack with
    | nil => have := h.wf; rw [hs] at this; exact absurd this id
    | cons t p => exact ⟨t, p, rfl⟩
  obtain ⟨s1, a, c1, c2, c3, c4, c5, c6, c7, c8⟩ :=
    compileFrom_spec (s := s) (front := []) (popped := popped) (top := top) h.sinv (by simpa using hst)
      (hst ▸ h.wf) (fun u hu => h.shape u (hst ▸ hu)) (fun u hu => h.addr u (hst ▸ hu))
  obtain ⟨s', root, d1, d2, d3, d4, d5, d6, d7, d8⟩ := compile_spec c2 c7
  refine ⟨s', root, ?_, d2, c3.trans d3, d7, ?_, by rw [d6, c6]⟩
  · unfold BState.finish
    simp only [List.length_nil] at c1
    rw [c1]
    simp only [c4, List.nil_append, Option.isSome_none, Bool.false_eq_true, if_false]
    exact d1
  · rw [d8, c8, ← hst, h.den]


/-! ### whole builds -/

/-- fold of `insert` from a state, stopping at the first error -/
def insertAll (s : BState) : KV → Except BErr BState
  | [] => .ok s
  | kv :: rest =>
    match s.insert kv.1 kv.2 with
    | .error e => .error e
    | .ok s' => insertAll s' rest

/-- fold of `add` from a state, stopping at the first error -/
def addAll (s : BState) : List Key → Except BErr BState
  | [] => .ok s
  | k :: rest =>
    match s.add k with
    | .error e => .error e
    | .ok s' => addAll s' rest

/-- strictly increasing, and greater than the previous key if there is one -/
def SortedAfter : Option Key → KV → Prop
  | _, [] => True
  | last, kv :: rest => (∀ l, last = some l → lexLt l kv.1 = true) ∧ SortedAfter (some kv.1) rest

theorem sortedAfter_of_sortedKV : ∀ (kv : Key × Nat) (rest : KV), SortedKV (kv :: rest) →
    SortedAfter (some kv.1) rest
  | _, [], _ => trivial
  | kv, kv2 :: rest, h => by
    obtain ⟨h1, h2⟩ := h
    refine ⟨?_, sortedAfter_of_sortedKV kv2 rest h2⟩
    intro l hl; cases hl; exact h1

theorem sortedAfter_none {kvs : KV} (h : SortedKV kvs) : SortedAfter none kvs := by
  cases kvs with
  | nil => trivial
  | cons kv rest => exact ⟨fun l hl => (by cases hl), sortedAfter_of_sortedKV kv rest h⟩

theorem Inv.last_snoc {s : BState} {acc : KV} {kv : Key × Nat} (h : Inv s (acc ++ [kv])) :
    s.last = some kv.1 := by rw [h.last]; simp

theorem insertAll_inv : ∀ (kvs : KV) (s : BState) (acc : KV), Inv s acc → SortedAfter s.last kvs →
    ∃ s', insertAll s kvs = .ok s' ∧ Inv s' (acc ++ kvs)
  | [], s, acc, h, _ => ⟨s, rfl, by simpa using h⟩
  | kv :: rest, s, acc, h, hs => by
    obtain ⟨hlt, hrest⟩ := hs
    obtain ⟨s1, e1, i1⟩ := insert_new h kv.1 kv.2 hlt
    obtain ⟨s', e2, i2⟩ := insertAll_inv rest s1 (acc ++ [kv]) i1 (by rw [i1.last_snoc]; exact hrest)
    refine ⟨s', ?_, by simpa using i2⟩
    simp only [insertAll, e1]
    exact e2

/-- the store, denotation and root of a finished build -/
theorem finish_good {s : BState} {acc : KV} (h : Inv s acc) :
    ∃ s' root, s.finish = .ok (s', root) ∧
      GoodStore (storeOf s') (denOf (storeOf s')) ∧
      denOf (storeOf s') root = acc ∧ s'.len = acc.length ∧
      (root = 0 ∨ ∃ n, (root, n) ∈ storeOf s') := by
  obtain ⟨s', root, f1, f2, _, f4, f5, f6⟩ := finish_spec h.core
  refine ⟨s', root, f1, goodStore_of_OutOK f2.out, by rw [denOf_storeOf]; exact f5,
    by rw [f6, h.core.len], ?_⟩
  rcases f4.2 with h0 | ⟨n, hn⟩
  · exact Or.inl h0
  · exact Or.inr ⟨n, mem_storeOf.mpr hn⟩

/-- MAIN THEOREM (map mode): for every cache geometry, building from strictly increasing
keys never fails and the emitted store spells exactly the inserted map -/
theorem build_ok (rows cols : Nat) (kvs : KV) (h : SortedKV kvs) :
    ∃ s s' root, insertAll (BState.new rows cols) kvs = .ok s ∧ s.finish = .ok (s', root) ∧
      GoodStore (storeOf s') (denOf (storeOf s')) ∧
      denOf (storeOf s') root = kvs ∧ s'.len = kvs.length ∧
      (root = 0 ∨ ∃ n, (root, n) ∈ storeOf s') := by
  obtain ⟨s, e1, i1⟩ := insertAll_inv kvs (BState.new rows cols) [] (Inv_new rows cols)
    (sortedAfter_none h)
  simp only [List.nil_append] at i1
  obtain ⟨s', root, f⟩ := finish_good i1
  exact ⟨s, s', root, e1, f⟩

example : SortedKV [([], 7), ([1], 5), ([1, 2], 3), ([1, 3], 9), ([2, 3], 1)] := by
  simp [SortedKV, lexLt]

/-! ### set mode -/

/-- keys non-decreasing -/
def SortedKeysLe : List Key → Prop
  | [] => True
  | [_] => True
  | a :: b :: rest => lexLe a b = true ∧ SortedKeysLe (b :: rest)

/-- drop every key equal to its predecessor -/
def dedupAfter : Option Key → List Key → List Key
  | _, [] => []
  | last, k :: rest => if last = some k then dedupAfter last rest else k :: dedupAfter (some k) rest

def dedupKeys (ks : List Key) : List Key := dedupAfter none ks

def LeAfter : Option Key → List Key → Prop
  | _, [] => True
  | last, k :: rest => (∀ l, last = some l → lexLe l k = true) ∧ LeAfter (some k) rest

theorem leAfter_of_sorted : ∀ (k : Key) (rest : List Key), SortedKeysLe (k :: rest) →
    LeAfter (some k) rest
  | _, [], _ => trivial
  | k, k2 :: rest, h => by
    obtain ⟨h1, h2⟩ := h
    refine ⟨?_, leAfter_of_sorted k2 rest h2⟩
    intro l hl; cases hl; exact h1

theorem leAfter_none {ks : List Key} (h : SortedKeysLe ks) : LeAfter none ks := by
  cases ks with
  | nil => trivial
  | cons k rest => exact ⟨fun l hl => (by cases hl), leAfter_of_sorted k rest h⟩

def zeroKV (ks : List Key) : KV := ks.map fun k => (k, 0)

theorem addAll_inv : ∀ (ks : List Key) (s : BState) (acc : KV), Inv s acc →
    (∀ kv, acc.getLast? = some kv → kv.2 = 0) → LeAfter s.last ks →
    ∃ s', addAll s ks = .ok s' ∧ Inv s' (acc ++ zeroKV (dedupAfter s.last ks))
  | [], s, acc, h, _, _ => ⟨s, rfl, by simpa [dedupAfter, zeroKV] using h⟩
  | k :: rest, s, acc, h, hz, hs => by
    obtain ⟨hle, hrest⟩ := hs
    by_cases hdup : s.last = some k
    · -- repeated key
      obtain ⟨s1, acc1, e1, i1, hacc⟩ := add_dup h k hdup
      have hlast : acc.getLast? = some (k, 0) := by
        have := h.last
        rw [hdup] at this
        cases hg : acc.getLast? with
        | none => rw [hg] at this; simp at this
        | some kv =>
          rw [hg] at this
          simp only [Option.map_some, Option.some.injEq] at this
          have h0 := hz kv hg
          obtain ⟨k', v'⟩ := kv
          simp only at this h0
          rw [this, h0]
      have := hacc hlast
      subst this
      have hl1 : s1.last = s.last := by rw [i1.last, h.last]
      obtain ⟨s', e2, i2⟩ := addAll_inv rest s1 acc1 i1 hz (by rw [hl1, hdup]; exact hrest)
      refine ⟨s', ?_, ?_⟩
      · simp only [addAll, e1]; exact e2
      · simp only [dedupAfter, hdup, if_true]
        rw [hl1, hdup] at i2
        exact i2
    · -- new key
      have hlt : ∀ l, s.last = some l → lexLt l k = true := by
        intro l hl
        rcases lexLe_iff.mp (hle l hl) with h1 | h1
        · exact h1
        · subst h1; exact absurd hl hdup
      obtain ⟨s1, e1, i1⟩ := add_new h k hlt
      obtain ⟨s', e2, i2⟩ := addAll_inv rest s1 (acc ++ [(k, 0)]) i1
        (by intro kv hkv; simp at hkv; rw [← hkv]) (by rw [i1.last_snoc]; exact hrest)
      refine ⟨s', ?_, ?_⟩
      · simp only [addAll, e1]; exact e2
      · simp only [dedupAfter, hdup, if_false]
        rw [i1.last_snoc] at i2
        simpa [zeroKV] using i2

/-- MAIN THEOREM (set mode): non-decreasing keys through `add`; repeated keys collapse and
the store spells the distinct keys with value 0 -/
theorem build_ok_set (rows cols : Nat) (ks : List Key) (h : SortedKeysLe ks) :
    ∃ s s' root, addAll (BState.new rows cols) ks = .ok s ∧ s.finish = .ok (s', root) ∧
      GoodStore (storeOf s') (denOf (storeOf s')) ∧
      denOf (storeOf s') root = zeroKV (dedupKeys ks) ∧ s'.len = (dedupKeys ks).length ∧
      (root = 0 ∨ ∃ n, (root, n) ∈ storeOf s') := by
  obtain ⟨s, e1, i1⟩ := addAll_inv ks (BState.new rows cols) [] (Inv_new rows cols)
    (by intro kv hkv; simp at hkv) (leAfter_none h)
  simp only [List.nil_append] at i1
  obtain ⟨s', root, f1, f2, f3, f4, f5⟩ := finish_good i1
  exact ⟨s, s', root, e1, f1, f2, f3, by rw [f4]; simp [zeroKV, dedupKeys]; rfl, f5⟩

example : SortedKeysLe [[], [], [1], [1], [1, 2], [2]] := by simp [SortedKeysLe, lexLe, lexLt]
example : dedupKeys [[], [], [1], [1], [1, 2], [2]] = [[], [1], [1, 2], [2]] := by decide


/-! ### reachable states, errors -/

/-- states of a builder between public calls -/
inductive Reachable : BState → Prop
  | new (rows cols : Nat) : Reachable (BState.new rows cols)
  | insert {s s' : BState} (k : Key) (v : Nat) : Reachable s → s.insert k v = .ok s' → Reachable s'
  | add {s s' : BState} (k : Key) : Reachable s → s.add k = .ok s' → Reachable s'

theorem insert_ok_lt {s s' : BState} {k : Key} {v : Nat} (h : s.insert k v = .ok s') :
    ∀ last, s.last = some last → lexLt last k = true := by
  intro last hl
  unfold BState.insert at h
  cases hck : s.checkLastKey k true with
  | error e => rw [hck] at h; cases h
  | ok t => exact (checkLastKey_map_ok_iff k hl).mp ⟨t, hck⟩

theorem add_ok_le {s s' : BState} {k : Key} (h : s.add k = .ok s') :
    ∀ last, s.last = some last → lexLe last k = true := by
  intro last hl
  unfold BState.add at h
  cases hck : s.checkLastKey k false with
  | error e => rw [hck] at h; cases h
  | ok t => exact (checkLastKey_set_ok_iff k hl).mp ⟨t, hck⟩

/-- every reachable state satisfies the builder invariant for some association list -/
theorem reachable_inv {s : BState} (h : Reachable s) : ∃ acc, Inv s acc := by
  induction h with
  | new rows cols => exact ⟨[], Inv_new rows cols⟩
  | insert k v _ hi ih =>
    obtain ⟨acc, hinv⟩ := ih
    obtain ⟨s'', e, i⟩ := insert_new hinv k v (insert_ok_lt hi)
    rw [hi] at e; cases e
    exact ⟨_, i⟩
  | @add s s' k _ ha ih =>
    obtain ⟨acc, hinv⟩ := ih
    by_cases hdup : s.last = some k
    · obtain ⟨s'', acc', e, i, _⟩ := add_dup hinv k hdup
      rw [ha] at e; cases e
      exact ⟨_, i⟩
    · have hlt : ∀ l, s.last = some l → lexLt l k = true := by
        intro l hl
        rcases lexLe_iff.mp (add_ok_le ha l hl) with h1 | h1
        · exact h1
        · subst h1; exact absurd hl hdup
      obtain ⟨s'', e, i⟩ := add_new hinv k hlt
      rw [ha] at e; cases e
      exact ⟨_, i⟩

/-- map mode: on a reachable state `insert` succeeds exactly on a key strictly greater than
the last one; otherwise it returns `DuplicateKey` / `OutOfOrder` and nothing else -/
theorem insert_result {s : BState} (h : Reachable s) (k : Key) (v : Nat) :
    match s.last with
    | none => ∃ s', s.insert k v = .ok s'
    | some last =>
      if lexLt last k then ∃ s', s.insert k v = .ok s'
      else if k = last then s.insert k v = .error (.duplicateKey k)
      else s.insert k v = .error (.outOfOrder last k) := by
  obtain ⟨acc, hinv⟩ := reachable_inv h
  cases hl : s.last with
  | none =>
    obtain ⟨s', e, _⟩ := insert_new hinv k v (fun l hl' => by rw [hl] at hl'; cases hl')
    exact ⟨s', e⟩
  | some last =>
    simp only
    by_cases hlt : lexLt last k = true
    · rw [if_pos hlt]
      obtain ⟨s', e, _⟩ := insert_new hinv k v (fun l hl' => by rw [hl] at hl'; cases hl'; exact hlt)
      exact ⟨s', e⟩
    · rw [if_neg hlt]
      unfold BState.insert
      rw [checkLastKey_map k hl, if_neg hlt]
      split <;> rfl

/-- set mode: on a reachable state `add` succeeds exactly on a key not smaller than the last
one; otherwise it returns `OutOfOrder` -/
theorem add_result {s : BState} (h : Reachable s) (k : Key) :
    match s.last with
    | none => ∃ s', s.add k = .ok s'
    | some last =>
      if lexLe last k then ∃ s', s.add k = .ok s'
      else s.add k = .error (.outOfOrder last k) := by
  obtain ⟨acc, hinv⟩ := reachable_inv h
  cases hl : s.last with
  | none =>
    obtain ⟨s', e, _⟩ := add_new hinv k (fun l hl' => by rw [hl] at hl'; cases hl')
    exact ⟨s', e⟩
  | some last =>
    simp only
    by_cases hle : lexLe last k = true
    · rw [if_pos hle]
      rcases lexLe_iff.mp hle with hlt | heq
      · obtain ⟨s', e, _⟩ := add_new hinv k (fun l hl' => by rw [hl] at hl'; cases hl'; exact hlt)
        exact ⟨s', e⟩
      · subst heq
        obtain ⟨s', _, e, _⟩ := add_dup hinv last hl
        exact ⟨s', e⟩
    · rw [if_neg hle]
      unfold BState.add
      rw [checkLastKey_set k hl, if_neg hle]

/-- C06: a failing call leaves the builder (pure state and writer) exactly as it was -/
theorem IOB.step_error (x : IOB) (e : BErr) : (x.step (.error e)).1 = x := rfl

theorem IOB.insert_error (x : IOB) (k : Key) (v : Nat) (e : BErr) (h : x.b.insert k v = .error e) :
    (x.insert k v).1 = x := by unfold IOB.insert; rw [h]; rfl

theorem IOB.add_error (x : IOB) (k : Key) (e : BErr) (h : x.b.add k = .error e) :
    (x.add k).1 = x := by unfold IOB.add; rw [h]; rfl

/-! ### layout of the emitted bytes -/

def totalSize (es : List Emit) : Nat := (es.map Emit.size).sum

/-- forward description of the emitted nodes, oldest first: `start` is the address of the
first byte of the next node, `last` the address of the previously written node -/
def LayoutF : Nat → Nat → List Emit → Prop
  | _, _, [] => True
  | start, last, e :: es =>
      compileNodeC e.node last start = some e.chunks ∧ 1 ≤ e.size ∧ e.addr = start + e.size - 1 ∧
      (∀ t ∈ e.node.trans, t.addr < start) ∧
      LayoutF (start + e.size) e.addr es

theorem LayoutF_snoc : ∀ (es : List Emit) (start last : Nat) (e : Emit),
    LayoutF start last es →
    compileNodeC e.node ((es.getLast?.map (·.addr)).getD last) (start + totalSize es) = some e.chunks →
    1 ≤ e.size → e.addr = start + totalSize es + e.size - 1 →
    (∀ t ∈ e.node.trans, t.addr < start + totalSize es) →
    LayoutF start last (es ++ [e])
  | [], start, last, e, _, h1, h2, h3, h4 => by
    simp only [totalSize, List.map_nil, List.sum_nil, Nat.add_zero, List.getLast?_nil, Option.map_none,
      Option.getD_none] at h1 h3 h4
    exact ⟨h1, h2, h3, h4, trivial⟩
  | x :: xs, start, last, e, hl, h1, h2, h3, h4 => by
    obtain ⟨l1, l2, l3, l4, l5⟩ := hl
    refine ⟨l1, l2, l3, l4, LayoutF_snoc xs _ _ e l5 ?_ h2 ?_ ?_⟩
    · rw [List.getLast?_cons] at h1
      have e1 : ((xs.getLast?.map (·.addr)).getD x.addr) = (xs.getLast?.getD x).addr := by
        cases xs.getLast? <;> rfl
      simp only [totalSize, List.map_cons, List.sum_cons, Option.map_some, Option.getD_some] at h1
      rw [e1]
      simpa [totalSize, Nat.add_assoc] using h1
    · simp only [totalSize, List.map_cons, List.sum_cons] at h3 ⊢; omega
    · simp only [totalSize, List.map_cons, List.sum_cons] at h4 ⊢
      intro t ht; have := h4 t ht; omega

theorem layoutF_of_OutOK : ∀ {es : List Emit} {c l : Nat}, OutOK es c l →
    LayoutF 16 NONE_ADDRESS es.reverse ∧ c = 16 + totalSize es ∧
      l = (es.head?.map (·.addr)).getD NONE_ADDRESS
  | [], c, l, h => by
    obtain ⟨h1, h2⟩ := h
    exact ⟨trivial, by simp [totalSize, h1], by simp [h2]⟩
  | e :: es, c, l, h => by
    obtain ⟨c0, l0, h0, g1, g2, g3, g4, g5, _, _, _, g6⟩ := h
    obtain ⟨i1, i2, i3⟩ := layoutF_of_OutOK h0
    have hts : totalSize es.reverse = totalSize es := by
      simp [totalSize, List.map_reverse, List.sum_reverse]
    refine ⟨?_, ?_, ?_⟩
    · rw [List.reverse_cons]
      apply LayoutF_snoc _ _ _ _ i1
      · rw [hts, ← i2, List.getLast?_reverse, ← i3]; exact g1
      · exact g2
      · rw [hts, ← i2]; exact g3
      · rw [hts, ← i2]; intro t ht; exact (g6 t ht).1
    · simp only [totalSize, List.map_cons, List.sum_cons] at i2 ⊢; omega
    · simp [g5]

theorem OutOK_increasing : ∀ {es : List Emit} {c l : Nat}, OutOK es c l →
    es.Pairwise (fun a b => b.addr < a.addr)
  | [], _, _, _ => List.Pairwise.nil
  | e :: es, c, l, h => by
    have hfull := h
    obtain ⟨c0, l0, h0, _, g2, g3, _⟩ := h
    rw [List.pairwise_cons]
    refine ⟨?_, OutOK_increasing h0⟩
    intro e' he'
    have := (OutOK_addr h0 (e'.addr, e'.node) (by simp only [rstore, List.mem_map]; exact ⟨e', he', rfl⟩)).2
    simp only at this
    omega

/-- everything the byte layer needs to know about the emitted nodes of a state -/
structure Layout (s : BState) : Prop where
  /-- each emit is the `compileNodeC` output at its position, addresses are last bytes -/
  nodes : LayoutF 16 NONE_ADDRESS s.out.reverse
  count : s.count = 16 + totalSize s.out
  lastAddr : s.lastAddr = (s.out.head?.map (·.addr)).getD NONE_ADDRESS
  /-- emitted addresses strictly increase in emission order and lie in `[16, count)` -/
  increasing : s.out.reverse.Pairwise (fun a b => a.addr < b.addr)
  range : ∀ e ∈ s.out, 16 ≤ e.addr ∧ e.addr < s.count
  shape : ∀ e ∈ s.out, e.node.trans.length ≤ 256 ∧ SortedInputs e.node ∧
    isEmptyFinal e.node = false ∧ (e.node.fin = false → e.node.fout = 0)
  /-- targets are 0 or an earlier emitted address -/
  targets : ∀ e ∈ s.out, ∀ t ∈ e.node.trans, t.addr < e.addr ∧
    (t.addr = 0 ∨ ∃ e' ∈ s.out, e'.addr = t.addr ∧ e'.addr < e.addr)
  good : GoodStore (storeOf s) (denOf (storeOf s))

theorem layout_of_SInv {s : BState} (h : SInv s) : Layout s := by
  obtain ⟨l1, l2, l3⟩ := layoutF_of_OutOK h.out
  have hmem : ∀ e ∈ s.out, (e.addr, e.node) ∈ rstore s.out := by
    intro e he; simp only [rstore, List.mem_map]; exact ⟨e, he, rfl⟩
  refine ⟨l1, l2, l3, ?_, ?_, ?_, ?_, goodStore_of_OutOK h.out⟩
  · rw [List.pairwise_reverse]; exact OutOK_increasing h.out
  · intro e he; exact OutOK_addr h.out _ (hmem e he)
  · intro e he
    obtain ⟨n1, n2, n3, _⟩ := OutOK_node h.out e.addr e.node (hmem e he)
    exact ⟨sortedInputs_length n1, n1, n2, n3⟩
  · intro e he t ht
    obtain ⟨_, _, _, n4⟩ := OutOK_node h.out e.addr e.node (hmem e he)
    obtain ⟨t1, t2⟩ := n4 t ht
    refine ⟨t1, ?_⟩
    rcases t2 with t0 | ⟨m, hm⟩
    · exact Or.inl t0
    · simp only [rstore, List.mem_map, Prod.mk.injEq] at hm
      obtain ⟨e', he', ha, _⟩ := hm
      exact Or.inr ⟨e', he', ha, by omega⟩

/-- LAYOUT: every reachable state -/
theorem build_layout {s : BState} (h : Reachable s) : Layout s := by
  obtain ⟨acc, hinv⟩ := reachable_inv h
  exact layout_of_SInv hinv.core.sinv

/-- LAYOUT: the state after `finish` (which always succeeds on a reachable state) -/
theorem build_layout_finish {s : BState} (h : Reachable s) :
    ∃ s' root, s.finish = .ok (s', root) ∧ Layout s' ∧ s'.len = s.len ∧
      (root = 0 ∨ ∃ e ∈ s'.out, e.addr = root) := by
  obtain ⟨acc, hinv⟩ := reachable_inv h
  obtain ⟨s', root, f1, f2, _, f4, _, f6⟩ := finish_spec hinv.core
  refine ⟨s', root, f1, layout_of_SInv f2, f6, ?_⟩
  rcases f4.2 with h0 | ⟨n, hn⟩
  · exact Or.inl h0
  · simp only [rstore, List.mem_map, Prod.mk.injEq] at hn
    obtain ⟨e, he, ha, _⟩ := hn
    exact Or.inr ⟨e, he, ha⟩

theorem reachable_insertAll : ∀ (kvs : KV) {s s' : BState}, Reachable s → insertAll s kvs = .ok s' →
    Reachable s'
  | [], s, s', h, e => by cases e; exact h
  | kv :: rest, s, s', h, e => by
    simp only [insertAll] at e
    cases hi : s.insert kv.1 kv.2 with
    | error err => rw [hi] at e; cases e
    | ok s1 => rw [hi] at e; exact reachable_insertAll rest (Reachable.insert kv.1 kv.2 h hi) e

theorem reachable_addAll : ∀ (ks : List Key) {s s' : BState}, Reachable s → addAll s ks = .ok s' →
    Reachable s'
  | [], s, s', h, e => by cases e; exact h
  | k :: rest, s, s', h, e => by
    simp only [addAll] at e
    cases hi : s.add k with
    | error err => rw [hi] at e; cases e
    | ok s1 => rw [hi] at e; exact reachable_addAll rest (Reachable.add k h hi) e

example : Reachable (BState.new 3 2) := Reachable.new 3 2

example : ∃ s, insertAll (BState.new 2 2) [([1], 5), ([1, 2], 3)] = .ok s ∧ Reachable s := by
  obtain ⟨s, _, _, e, _⟩ := build_ok 2 2 [([1], 5), ([1, 2], 3)] (by simp [SortedKV, lexLt])
  exact ⟨s, e, reachable_insertAll _ (Reachable.new 2 2) e⟩


/-! ### further invariants of the emitted nodes, generically

A `Pass` is a property `Q` of emitted nodes together with the matching property `QU` of
unfinished nodes (`k` is what hangs below the pending transition); it is carried through
`compile`, `compileTail` and `compileFrom` once and for all. Used for the value bound and
for tightness. -/

structure Pass where
  Q : List Emit → BNode → Prop
  QU : List Emit → UNode → KV → Prop
  Q_mono : ∀ {s s' : BState} {n : BNode}, Le s s' → (∀ t ∈ n.trans, AddrOK s t.addr) →
    Q s.out n → Q s'.out n
  QU_mono : ∀ {s s' : BState} {u : UNode} {k : KV}, Le s s' → UAddr s u → QU s.out u k → QU s'.out u k
  freeze : ∀ {out : List Emit} {u : UNode} {a : Nat}, QU out u (denR out a) → Q out (u.freeze a)
  freeze_none : ∀ {out : List Emit} {u : UNode} {k : KV}, u.last = none → QU out u k → Q out u.node

def Pass.OutQ (P : Pass) (s : BState) : Prop := ∀ e ∈ s.out, P.Q s.out e.node

def Pass.StackQ (P : Pass) (out : List Emit) : List UNode → Prop
  | [] => True
  | u :: rest => P.QU out u (denK (denR out) rest []) ∧ P.StackQ out rest

theorem emitted_addrOK {s : BState} (hinv : SInv s) {e : Emit} (he : e ∈ s.out) :
    ∀ t ∈ e.node.trans, AddrOK s t.addr := by
  have hmem : (e.addr, e.node) ∈ rstore s.out := by
    simp only [rstore, List.mem_map]; exact ⟨e, he, rfl⟩
  obtain ⟨_, _, _, n4⟩ := OutOK_node hinv.out e.addr e.node hmem
  have hlt := (OutOK_addr hinv.out _ hmem).2
  intro t ht
  exact TargetOK_mono (Nat.le_of_lt hlt) (fun _ h => h) (n4 t ht)

theorem Pass.OutQ_mono (P : Pass) {s s' : BState} (hinv : SInv s) (hle : Le s s') (h : P.OutQ s) :
    ∀ e ∈ s.out, P.Q s'.out e.node :=
  fun e he => P.Q_mono hle (emitted_addrOK hinv he) (h e he)

theorem Pass.StackQ_mono (P : Pass) {s s' : BState} (hle : Le s s') : ∀ (st : List UNode),
    (∀ u ∈ st, UAddr s u) → P.StackQ s.out st → P.StackQ s'.out st
  | [], _, _ => trivial
  | u :: rest, ha, h => by
    obtain ⟨h1, h2⟩ := h
    refine ⟨?_, P.StackQ_mono hle rest (fun w hw => ha w (List.mem_cons_of_mem _ hw)) h2⟩
    rw [denK_stable hle rest [] (fun w hw => ha w (List.mem_cons_of_mem _ hw))]
    exact P.QU_mono hle (ha u (by simp)) h1

theorem compile_out {s : BState} {n : BNode} {s' : BState} {a : Nat} (h : s.compile n = .ok (s', a)) :
    s'.out = s.out ∨ ∃ e, s'.out = e :: s.out ∧ e.node = n := by
  unfold BState.compile at h
  split at h
  · cases h; exact Or.inl rfl
  · generalize s.reg.entry n = re at h
    obtain ⟨reg', e⟩ := re
    cases e with
    | found a' => cases h; exact Or.inl rfl
    | notFound b =>
      simp only at h
      split at h
      · cases h
      · cases h; exact Or.inr ⟨_, rfl, rfl⟩
    | rejected =>
      simp only at h
      split at h
      · cases h
      · cases h; exact Or.inr ⟨_, rfl, rfl⟩

theorem compile_pass (P : Pass) {s : BState} {n : BNode} {s' : BState} {a : Nat}
    (h : s.compile n = .ok (s', a)) (hinv : SInv s) (hn : NodeOK s n) (hall : P.OutQ s)
    (hq : P.Q s.out n) : P.OutQ s' := by
  obtain ⟨s'', a'', e, _, hle, _⟩ := compile_spec hinv hn
  rw [h] at e; cases e
  have hold := P.OutQ_mono hinv hle hall
  intro e he
  rcases compile_out h with ho | ⟨e0, ho, hnode⟩
  · rw [ho] at he; exact hold e he
  · rw [ho] at he
    simp only [List.mem_cons] at he
    rcases he with rfl | he
    · rw [hnode]; exact P.Q_mono hle hn.2.2 hq
    · exact hold e he

theorem compileTail_pass (P : Pass) : ∀ (popped : List UNode) (s s' : BState) (a : Nat),
    s.compileTail popped = .ok (s', a) → SInv s → WFStack popped →
    (∀ u ∈ popped, UShape u) → (∀ u ∈ popped, UAddr s u) → P.OutQ s → P.StackQ s.out popped →
    P.OutQ s' := by
  intro popped
  induction popped with
  | nil => intro s s' a _ _ h; exact absurd h id
  | cons u rest ih =>
    intro s s' a h hinv hwf hshape haddr hall hq
    obtain ⟨hq1, hq2⟩ := hq
    cases rest with
    | nil =>
      have hl : u.last = none := hwf
      have hfz : u.freeze NONE_ADDRESS = u.node := by simp [UNode.freeze, hl]
      simp only [BState.compileTail, hl, Option.isSome_none, Bool.and_false, Bool.false_eq_true,
        if_false, hfz] at h
      exact compile_pass P h hinv ⟨(hshape u (by simp)).1, (hshape u (by simp)).2.1, haddr u (by simp)⟩
        hall (P.freeze_none hl hq1)
    | cons v rest' =>
      obtain ⟨hsome, hwf'⟩ := WFStack_cons_cons.mp hwf
      have hshape' : ∀ w ∈ v :: rest', UShape w := fun w hw => hshape w (List.mem_cons_of_mem _ hw)
      have haddr' : ∀ w ∈ v :: rest', UAddr s w := fun w hw => haddr w (List.mem_cons_of_mem _ hw)
      obtain ⟨s1, a1, i1, i2, i3, _, _, _, i7, i8⟩ := compileTail_spec (v :: rest') s hinv hwf' hshape' haddr'
      rw [BState.compileTail, i1] at h
      simp only [List.isEmpty_cons, Bool.false_and, Bool.false_eq_true, if_false] at h
      have hall1 := ih s s1 a1 i1 hinv hwf' hshape' haddr' hall hq2
      have hn : NodeOK s1 (u.freeze a1) :=
        freeze_nodeOK (hshape u (by simp)) ((haddr u (by simp)).mono i3) i7
      refine compile_pass P h i2 hn hall1 (P.freeze ?_)
      rw [i8]
      exact P.QU_mono i3 (haddr u (by simp)) hq1

theorem compileFrom_pass (P : Pass) {s s' : BState} {front popped : List UNode} {top : UNode}
    (h : s.compileFrom front.length = .ok s') (hinv : SInv s)
    (hst : s.stack = front ++ top :: popped) (hwf : WFStack (top :: popped))
    (hshape : ∀ u ∈ top :: popped, UShape u) (haddr : ∀ u ∈ top :: popped, UAddr s u)
    (hall : P.OutQ s) (hq : P.StackQ s.out (top :: popped)) :
    P.OutQ s' ∧ ∃ a, s'.stack = front ++ [⟨top.freeze a, none⟩] ∧ P.Q s'.out (top.freeze a) := by
  obtain ⟨hq1, hq2⟩ := hq
  unfold BState.compileFrom at h
  simp only [hst, take_split, drop_split, List.getLast?_concat, List.dropLast_concat] at h
  cases popped with
  | nil =>
    have hl : top.last = none := hwf
    simp only [BState.compileTail] at h
    cases h
    refine ⟨hall, NONE_ADDRESS, rfl, ?_⟩
    have hfz : top.freeze NONE_ADDRESS = top.node := by simp [UNode.freeze, hl]
    rw [hfz]
    exact P.freeze_none hl hq1
  | cons v rest =>
    obtain ⟨hsome, hwf'⟩ := WFStack_cons_cons.mp hwf
    have hshape' : ∀ w ∈ v :: rest, UShape w := fun w hw => hshape w (List.mem_cons_of_mem _ hw)
    have haddr' : ∀ w ∈ v :: rest, UAddr s w := fun w hw => haddr w (List.mem_cons_of_mem _ hw)
    obtain ⟨s1, a1, i1, i2, i3, _, _, _, i7, i8⟩ := compileTail_spec (v :: rest) s hinv hwf' hshape' haddr'
    rw [i1] at h
    cases h
    have hall1 := compileTail_pass P (v :: rest) s s1 a1 i1 hinv hwf' hshape' haddr' hall hq2
    refine ⟨hall1, a1, rfl, P.freeze ?_⟩
    show P.QU s1.out top (denR s1.out a1)
    rw [i8]
    exact P.QU_mono i3 (haddr top (by simp)) hq1

/-- the frozen top of the stack after `compile_from`, from either description -/
theorem freeze_eq_of_stack {front : List UNode} {top : UNode} {a a' : Nat} {st : List UNode}
    (h1 : st = front ++ [⟨top.freeze a, none⟩]) (h2 : st = front ++ [⟨top.freeze a', none⟩]) :
    top.freeze a = top.freeze a' := by
  rw [h1] at h2
  have := List.append_cancel_left h2
  simp only [List.cons.injEq, UNode.mk.injEq, and_true] at this
  exact this


/-! ### the steps of one accepted non-empty key, as equations -/

theorem insertOutput_new_steps {s : BState} {acc : KV} (hc : Core s acc) (b : UInt8) (bt : Key)
    (out : Option Nat) (hlt : lexLt (pathKey s.stack) (b :: bt) = true) :
    ∃ (i rem : Nat) (front : List UNode) (top : UNode) (popped : List UNode) (s2 : BState) (a : Nat)
      (b2 : UInt8) (bs' : Key),
      cps s.stack (b :: bt) (out.getD 0) = (i, rem, front ++ top :: popped) ∧ front.length = i ∧
      ({ s with stack := front ++ top :: popped, len := s.len + 1 } : BState).compileFrom front.length
        = .ok s2 ∧
      s2.stack = front ++ [⟨top.freeze a, none⟩] ∧
      (b :: bt).drop i = b2 :: bs' ∧
      s.insertOutput (b :: bt) out =
        .ok { s2 with stack := front ++ ⟨top.freeze a, some (b2, rem)⟩ :: chain bs' } := by
  rw [insertOutput_cons]
  have hw1 := cps_wf (b :: bt) s.stack (out.getD 0) hc.wf
  have hidx := cps_index (b :: bt) s.stack (out.getD 0) hc.wf
  have hprog : (cps s.stack (b :: bt) (out.getD 0)).1 < (b :: bt).length := by
    rw [hidx]; exact lcp_lt_of_lexLt _ _ hlt
  have hlen := cps_length (b :: bt) s.stack (out.getD 0) hc.wf
  have hplen := pathKey_length hc.wf
  have hile : (cps s.stack (b :: bt) (out.getD 0)).1 < (cps s.stack (b :: bt) (out.getD 0)).2.2.length := by
    have := lcp_le_right (b :: bt) (pathKey s.stack)
    rw [hlen, hidx]; omega
  have hshape1 := cps_forall UShape (fun u b o c hl h => UShape_setLast hl h)
    (fun v p h => UShape_addPrefix p h) (b :: bt) s.stack (out.getD 0) hc.wf hc.shape
  have haddr1 := cps_forall (UAddr s) (fun u b o c _ h => h)
    (fun v p h => UAddr_addPrefix p h) (b :: bt) s.stack (out.getD 0) hc.wf hc.addr
  generalize cps s.stack (b :: bt) (out.getD 0) = r at *
  obtain ⟨i, rem, st1⟩ := r
  simp only at hw1 hidx hprog hlen hile hshape1 haddr1 ⊢
  rw [if_neg (Nat.ne_of_lt hprog)]
  obtain ⟨hsplit, hflen⟩ := stack_split st1 i hile
  generalize st1.take i = front at *
  generalize st1[i] = top at *
  generalize st1.drop (i + 1) = popped at *
  subst hsplit
  have hmem : ∀ u, u ∈ front ∨ u ∈ top :: popped → u ∈ front ++ top :: popped := by
    intro u hu; simpa using hu
  obtain ⟨hfsome, hwtp⟩ := WFStack_append.mp hw1
  obtain ⟨s2, a, c1, c2, c3, c4, c5, c6, c7, c8⟩ :=
    compileFrom_spec (s := { s with stack := front ++ top :: popped, len := s.len + 1 }) (front := front)
      (popped := popped) (top := top) ⟨hc.sinv.out, hc.sinv.reg⟩ rfl hwtp
      (fun u hu => hshape1 u (hmem u (Or.inr hu))) (fun u hu => haddr1 u (hmem u (Or.inr hu)))
  obtain ⟨b2, bs', hdrop⟩ : ∃ b2 bs', (b :: bt).drop i = b2 :: bs' :=
    ⟨_, _, List.drop_eq_getElem_cons hprog⟩
  refine ⟨i, rem, front, top, popped, s2, a, b2, bs', rfl, hflen, c1, c4, hdrop, ?_⟩
  rw [hflen] at c1
  rw [c1]
  simp only [hdrop, c4, addSuffix_snoc]

/-! ### tightness: every transition output is attained below it -/

def HasZero (l : KV) : Prop := ∃ k, (k, 0) ∈ l

/-- same shape as `Tight` in `Proofs/Lookup.lean` -/
def TightStore (s : Store) (den : Nat → KV) : Prop :=
  ∀ a n, (a, n) ∈ s → ∀ t ∈ n.trans, ∃ k, (k, 0) ∈ den t.addr

def tightPass : Pass where
  Q out n := ∀ t ∈ n.trans, HasZero (denR out t.addr)
  QU out u k := (∀ t ∈ u.node.trans, HasZero (denR out t.addr)) ∧ (u.last.isSome → HasZero k)
  Q_mono := by
    intro s s' n hle ha hq t ht
    rw [hle.2.2 _ (ha t ht).1]; exact hq t ht
  QU_mono := by
    intro s s' u k hle ha hq
    exact ⟨fun t ht => by rw [hle.2.2 _ (ha t ht).1]; exact hq.1 t ht, hq.2⟩
  freeze := by
    intro out u a hq t ht
    obtain ⟨h1, h2⟩ := hq
    unfold UNode.freeze at ht
    cases hl : u.last with
    | none => rw [hl] at ht; exact h1 t ht
    | some bo =>
      obtain ⟨b, o⟩ := bo
      rw [hl] at ht
      simp only [List.mem_append, List.mem_singleton] at ht
      rcases ht with ht | rfl
      · exact h1 t ht
      · exact h2 (by rw [hl]; rfl)
  freeze_none := by
    intro out u k _ hq; exact hq.1

theorem tightQU_addPrefix {out : List Emit} {v : UNode} {k : KV} (p : Nat)
    (h : tightPass.QU out v k) : tightPass.QU out (v.addPrefix p) k := by
  obtain ⟨h1, h2⟩ := h
  refine ⟨?_, by rw [addPrefix_last_isSome]; exact h2⟩
  intro t ht
  simp only [UNode.addPrefix, List.mem_map] at ht
  obtain ⟨t0, ht0, rfl⟩ := ht
  exact h1 t0 ht0

theorem tightQU_pushed {out : List Emit} {v : UNode} {k : KV} (o o' : Nat)
    (h : tightPass.QU out v k) : tightPass.QU out (pushed o o' v) k := by
  unfold pushed; split
  · exact tightQU_addPrefix _ h
  · exact h

/-- tightness right after output pushing: below a matched transition there is a 0 entry, or
nothing of the new value is left for the suffix -/
def TightC (out : List Emit) (rem : Nat) : Nat → List UNode → Prop
  | 0, st => tightPass.StackQ out st
  | _+1, [] => True
  | i+1, u :: rest => (∀ t ∈ u.node.trans, HasZero (denR out t.addr)) ∧
      (HasZero (denK (denR out) rest []) ∨ pathOut (rest.take i) + rem = 0) ∧ TightC out rem i rest

theorem cps_tight (outE : List Emit) (key : Key) (stack : List UNode) (out : Nat) (hw : WFStack stack) :
    tightPass.StackQ outE stack →
      TightC outE (cps stack key out).2.1 (cps stack key out).1 (cps stack key out).2.2 := by
  revert hw
  refine cps_induct (motive := fun stack key out => tightPass.StackQ outE stack →
      TightC outE (cps stack key out).2.1 (cps stack key out).1 (cps stack key out).2.2)
    ?_ ?_ ?_ ?_ key stack out
  · intro stack out _ h; rw [cps_nil_key]; exact h
  · intro u key out _ h; rw [cps_single]; exact h
  · intro u v rest b bs out _ hl h; rw [cps_stop _ _ _ _ _ _ hl]; exact h
  · intro u v rest b bs out o _ hl hwv ih hq
    obtain ⟨hq1, hq2, hq3⟩ := hq
    have hq' : tightPass.StackQ outE (pushed o out v :: rest) := ⟨tightQU_pushed _ _ hq2, hq3⟩
    have ih' := ih hq'
    have hden := cps_den (denR outE) [] bs (pushed o out v :: rest) (out - min o out) hwv
    obtain ⟨_, p2, _⟩ := cps_path bs (pushed o out v :: rest) (out - min o out) hwv
    rw [cps_step _ _ _ _ _ _ _ hl]
    refine ⟨hq1.1, ?_, ih'⟩
    by_cases hle : o ≤ out
    · left
      rw [hden]
      have hz : o - min o out = 0 := by omega
      have : pushed o out v = v := by unfold pushed; rw [if_neg (by simpa using hz)]
      rw [this]
      exact hq1.2 (by rw [hl]; rfl)
    · right
      show pathOut ((cps (pushed o out v :: rest) bs (out - min o out)).2.2.take
          (cps (pushed o out v :: rest) bs (out - min o out)).1) +
        (cps (pushed o out v :: rest) bs (out - min o out)).2.1 = 0
      omega

theorem TightC_drop (out : List Emit) (rem : Nat) (tail : List UNode) : ∀ (front : List UNode),
    TightC out rem front.length (front ++ tail) → tightPass.StackQ out tail
  | [], h => h
  | _ :: front, h => TightC_drop out rem tail front h.2.2

theorem tight_chain (out : List Emit) : ∀ bs : Key, tightPass.StackQ out (chain bs)
  | [] => ⟨⟨fun t ht => by simp at ht, fun h => by simp at h⟩, trivial⟩
  | b :: bs => by
    refine ⟨⟨fun t ht => by simp [BNode.empty] at ht, fun _ => ?_⟩, tight_chain out bs⟩
    rw [denK_chain]; exact ⟨bs, by simp⟩

theorem tight_rebuild {s s3 : BState} (hle : Le s s3) (rem : Nat) (tail tail3 : List UNode) (key : Key)
    (htail : denK (denR s3.out) tail3 [] = denK (denR s.out) tail [] ++ [(key, rem)])
    (hq3 : tightPass.StackQ s3.out tail3) :
    ∀ front : List UNode, (∀ u ∈ front, u.last.isSome) → (∀ u ∈ front, UAddr s u) →
      TightC s.out rem front.length (front ++ tail) → tightPass.StackQ s3.out (front ++ tail3)
  | [], _, _, _ => hq3
  | u :: front, hsome, haddr, h => by
    obtain ⟨h1, h2, h3⟩ := h
    have h2 : HasZero (denK (denR s.out) (front ++ tail) []) ∨
        pathOut ((front ++ tail).take front.length) + rem = 0 := h2
    have h3 : TightC s.out rem front.length (front ++ tail) := h3
    have hsome' : ∀ w ∈ front, w.last.isSome := fun w hw => hsome w (List.mem_cons_of_mem _ hw)
    have haddr' : ∀ w ∈ front, UAddr s w := fun w hw => haddr w (List.mem_cons_of_mem _ hw)
    refine ⟨⟨?_, fun _ => ?_⟩, tight_rebuild hle rem tail tail3 key htail hq3 front hsome' haddr' h3⟩
    · intro t ht
      rw [hle.2.2 _ (haddr u (by simp) t ht).1]
      exact h1 t ht
    · show HasZero (denK (denR s3.out) (front ++ tail3) [])
      rw [denK_append, htail, denK_snoc _ front hsome', denK_stable hle front _ haddr', ← denK_append]
      rcases h2 with ⟨k, hk⟩ | h0
      · exact ⟨k, List.mem_append_left _ hk⟩
      · rw [List.take_left'  rfl] at h0
        exact ⟨pathKey front ++ key, List.mem_append_right _ (by rw [h0]; simp)⟩

/-- tightness of a state: emitted nodes and the unfinished stack -/
def InvT (s : BState) : Prop := tightPass.OutQ s ∧ tightPass.StackQ s.out s.stack

theorem InvT_new (rows cols : Nat) : InvT (BState.new rows cols) := by
  refine ⟨fun e he => by simp [BState.new] at he, ⟨⟨fun t ht => ?_, fun h => ?_⟩, trivial⟩⟩
  · simp [BNode.empty] at ht
  · simp at h

theorem insertOutput_new_tight {s : BState} {acc : KV} (hc : Core s acc) (b : UInt8) (bt : Key)
    (out : Option Nat) (hlt : lexLt (pathKey s.stack) (b :: bt) = true) (hT : InvT s)
    {s' : BState} (h : s.insertOutput (b :: bt) out = .ok s') : InvT s' := by
  obtain ⟨i, rem, front, top, popped, s2, a, b2, bs', hcps, hflen, hcf, hs2, hdrop, hins⟩ :=
    insertOutput_new_steps hc b bt out hlt
  rw [hins] at h; cases h
  have hw1 := cps_wf (b :: bt) s.stack (out.getD 0) hc.wf
  have hshape1 := cps_forall UShape (fun u b o c hl h => UShape_setLast hl h)
    (fun v p h => UShape_addPrefix p h) (b :: bt) s.stack (out.getD 0) hc.wf hc.shape
  have haddr1 := cps_forall (UAddr s) (fun u b o c _ h => h)
    (fun v p h => UAddr_addPrefix p h) (b :: bt) s.stack (out.getD 0) hc.wf hc.addr
  have htc := cps_tight s.out (b :: bt) s.stack (out.getD 0) hc.wf hT.2
  rw [hcps] at hw1 hshape1 haddr1 htc
  simp only at hw1 hshape1 haddr1 htc
  have hmem : ∀ u, u ∈ front ∨ u ∈ top :: popped → u ∈ front ++ top :: popped := by
    intro u hu; simpa using hu
  obtain ⟨hfsome, hwtp⟩ := WFStack_append.mp hw1
  have hshape' : ∀ u ∈ top :: popped, UShape u := fun u hu => hshape1 u (hmem u (Or.inr hu))
  have haddr' : ∀ u ∈ top :: popped, UAddr s u := fun u hu => haddr1 u (hmem u (Or.inr hu))
  obtain ⟨s2', a', c1, c2, c3, c4, c5, c6, c7, c8⟩ :=
    compileFrom_spec (s := { s with stack := front ++ top :: popped, len := s.len + 1 }) (front := front)
      (popped := popped) (top := top) ⟨hc.sinv.out, hc.sinv.reg⟩ rfl hwtp hshape' haddr'
  rw [hcf] at c1; cases c1
  have hfz : top.freeze a' = top.freeze a := freeze_eq_of_stack c4 hs2
  rw [hfz] at c7 c8
  rw [← hflen] at htc
  obtain ⟨p1, a'', p2, p3⟩ :=
    compileFrom_pass tightPass (s := { s with stack := front ++ top :: popped, len := s.len + 1 })
      hcf ⟨hc.sinv.out, hc.sinv.reg⟩ rfl hwtp hshape' haddr' hT.1 (TightC_drop s.out rem _ front htc)
  rw [freeze_eq_of_stack p2 hs2] at p3
  refine ⟨p1, ?_⟩
  show tightPass.StackQ s2.out (front ++ ⟨top.freeze a, some (b2, rem)⟩ :: chain bs')
  refine tight_rebuild (s := { s with stack := front ++ top :: popped, len := s.len + 1 }) c3 rem
    (top :: popped) (⟨top.freeze a, some (b2, rem)⟩ :: chain bs') (b2 :: bs') ?_
    ⟨⟨p3, fun _ => ?_⟩, tight_chain _ bs'⟩ front hfsome
    (fun u hu => haddr1 u (hmem u (Or.inl hu))) htc
  · simp only [denK, denK_chain, c8]
    simp [lift]
  · rw [denK_chain]; exact ⟨bs', by simp⟩

theorem insertOutput_empty_tight {s : BState} {acc : KV} (hc : Core s acc) (out : Option Nat)
    (hp : pathKey s.stack = []) (hT : InvT s) {s' : BState} (h : s.insertOutput [] out = .ok s') :
    InvT s' := by
  obtain ⟨top, hst, hl⟩ := pathKey_nil_single hc.wf hp
  have hsh := hc.shape top (by rw [hst]; simp)
  have htr : top.node.trans = [] := by have := hsh.2.2; rw [hl] at this; exact this
  have : s' = { s with len := 1, stack := setRootOutput s.stack (out.getD 0) } := by
    have : s.insertOutput [] out = .ok { s with len := 1, stack := setRootOutput s.stack (out.getD 0) } := rfl
    rw [this] at h; cases h; rfl
  subst this
  refine ⟨hT.1, ?_⟩
  show tightPass.StackQ s.out (setRootOutput s.stack (out.getD 0))
  rw [hst]
  exact ⟨⟨fun t ht => by simp [htr] at ht, fun hs => by simp [hl] at hs⟩, trivial⟩

/-- `insert` keeps the state tight -/
theorem insert_tight {s s' : BState} {acc : KV} (h : Inv s acc) (hT : InvT s) {k : Key} {v : Nat}
    (hi : s.insert k v = .ok s') : InvT s' := by
  have hlt := insert_ok_lt hi
  have hck : s.checkLastKey k true = .ok { s with last := some k } := by
    cases hl : s.last with
    | none => exact checkLastKey_none k true hl
    | some last => rw [checkLastKey_map k hl, if_pos (hlt last hl)]
  unfold BState.insert at hi
  rw [hck] at hi
  have hcore := Core_setLast h.core (some k)
  cases k with
  | nil =>
    have hnone : s.last = none := by
      cases hl : s.last with
      | none => rfl
      | some last => have := hlt last hl; cases last <;> simp [lexLt] at this
    have hp : pathKey s.stack = [] := by rw [h.path, hnone]; rfl
    exact insertOutput_empty_tight hcore (some v) hp hT hi
  | cons b bt =>
    have hp : lexLt (pathKey s.stack) (b :: bt) = true := by
      rw [h.path]
      cases hl : s.last with
      | none => rfl
      | some last => exact hlt last hl
    exact insertOutput_new_tight hcore b bt (some v) hp hT hi

theorem insertAll_tight : ∀ (kvs : KV) (s s' : BState) (acc : KV), Inv s acc → InvT s →
    insertAll s kvs = .ok s' → InvT s'
  | [], s, s', _, _, hT, e => by cases e; exact hT
  | kv :: rest, s, s', acc, h, hT, e => by
    simp only [insertAll] at e
    cases hi : s.insert kv.1 kv.2 with
    | error err => rw [hi] at e; cases e
    | ok s1 =>
      rw [hi] at e
      obtain ⟨s1', e1, i1⟩ := insert_new h kv.1 kv.2 (insert_ok_lt hi)
      rw [hi] at e1; cases e1
      exact insertAll_tight rest s1 s' _ i1 (insert_tight h hT hi) e

theorem finish_tight {s s' : BState} {acc : KV} {root : Nat} (h : Core s acc) (hT : InvT s)
    (hf : s.finish = .ok (s', root)) : tightPass.OutQ s' := by
  obtain ⟨top, popped, hst⟩ : ∃ top popped, s.stack = top :: popped := by
    cases hs : s.stack with
    | nil => have := h.wf; rw [hs] at this; exact absurd this id
    | cons t p => exact ⟨t, p, rfl⟩
  have hwf : WFStack (top :: popped) := hst ▸ h.wf
  have hshape : ∀ u ∈ top :: popped, UShape u := fun u hu => h.shape u (hst ▸ hu)
  have haddr : ∀ u ∈ top :: popped, UAddr s u := fun u hu => h.addr u (hst ▸ hu)
  obtain ⟨s1, a, c1, c2, c3, c4, c5, c6, c7, c8⟩ :=
    compileFrom_spec (s := s) (front := []) (popped := popped) (top := top) h.sinv (by simpa using hst)
      hwf hshape haddr
  obtain ⟨p1, a', p2, p3⟩ := compileFrom_pass tightPass (front := []) c1 h.sinv (by simpa using hst)
    hwf hshape haddr hT.1 (hst ▸ hT.2)
  rw [freeze_eq_of_stack p2 c4] at p3
  unfold BState.finish at hf
  simp only [List.length_nil] at c1
  rw [c1] at hf
  simp only [c4, List.nil_append, Option.isSome_none, Bool.false_eq_true, if_false] at hf
  exact compile_pass tightPass hf c2 c7 p1 p3

theorem tightStore_of_OutQ {s : BState} (h : tightPass.OutQ s) :
    TightStore (storeOf s) (denOf (storeOf s)) := by
  intro a n hp t ht
  rw [denOf_storeOf]
  have := mem_storeOf.mp hp
  simp only [rstore, List.mem_map, Prod.mk.injEq] at this
  obtain ⟨e, he, _, hn⟩ := this
  subst hn
  exact h e he t ht

/-- TIGHTNESS (map mode): in the store of a finished build every transition output is
attained, i.e. the denotation of every transition target has an entry of value 0 -/
theorem build_tight (rows cols : Nat) (kvs : KV) (h : SortedKV kvs) :
    ∃ s s' root, insertAll (BState.new rows cols) kvs = .ok s ∧ s.finish = .ok (s', root) ∧
      TightStore (storeOf s') (denOf (storeOf s')) := by
  obtain ⟨s, e1, i1⟩ := insertAll_inv kvs (BState.new rows cols) [] (Inv_new rows cols)
    (sortedAfter_none h)
  obtain ⟨s', root, f1, _⟩ := finish_spec i1.core
  have hT := insertAll_tight kvs _ s [] (Inv_new rows cols) (InvT_new rows cols) e1
  exact ⟨s, s', root, e1, f1, tightStore_of_OutQ (finish_tight i1.core hT f1)⟩


/-! ### value bound: no output exceeds the largest inserted value

Value arithmetic of the model is on `Nat` (Rust: `u64` `+` and checked `-`). Every output
stored anywhere is bounded by the largest inserted value, so for values `< 2^64` there is
no overflow; `cps` only subtracts `min o out` from `o` and from `out`, so no underflow. -/

def NodeBound (M : Nat) (n : BNode) : Prop := n.fout ≤ M ∧ ∀ t ∈ n.trans, t.out ≤ M

def boundPass (M : Nat) : Pass where
  Q _ n := NodeBound M n
  QU _ u _ := NodeBound M u.node ∧ ∀ b o, u.last = some (b, o) → o ≤ M
  Q_mono := fun _ _ h => h
  QU_mono := fun _ _ h => h
  freeze := by
    intro out u a hq
    obtain ⟨⟨h1, h2⟩, h3⟩ := hq
    unfold UNode.freeze
    cases hl : u.last with
    | none => exact ⟨h1, h2⟩
    | some bo =>
      obtain ⟨b, o⟩ := bo
      refine ⟨h1, ?_⟩
      intro t ht
      simp only [List.mem_append, List.mem_singleton] at ht
      rcases ht with ht | rfl
      · exact h2 t ht
      · exact h3 b o hl
  freeze_none := fun _ hq => hq.1

/-- path sums: the outputs along the pending path plus any output of the node stay ≤ M -/
def BoundU (M : Nat) : Nat → List UNode → Prop
  | _, [] => True
  | acc, u :: rest => (u.node.fin = true → acc + u.node.fout ≤ M) ∧
      (∀ t ∈ u.node.trans, acc + t.out ≤ M) ∧
      (∀ b o, u.last = some (b, o) → acc + o ≤ M ∧ BoundU M (acc + o) rest)

theorem BoundU_stackQ (M : Nat) (out : List Emit) : ∀ (st : List UNode) (acc : Nat),
    WFStack st → BoundU M acc st → (∀ u ∈ st, UShape u) → (boundPass M).StackQ out st
  | [], _, h, _, _ => absurd h id
  | u :: rest, acc, hw, h, hs => by
    obtain ⟨h1, h2, h3⟩ := h
    have hsh := hs u (by simp)
    refine ⟨⟨⟨?_, fun t ht => by have := h2 t ht; omega⟩,
      fun b o hl => by have := (h3 b o hl).1; omega⟩, ?_⟩
    · cases hf : u.node.fin with
      | true => have := h1 hf; omega
      | false => rw [hsh.2.1 hf]; exact Nat.zero_le _
    · cases rest with
      | nil => trivial
      | cons v rest' =>
        obtain ⟨hsome, hw'⟩ := WFStack_cons_cons.mp hw
        obtain ⟨bo, hbo⟩ := Option.isSome_iff_exists.mp hsome
        exact BoundU_stackQ M out (v :: rest') _ hw' (h3 bo.1 bo.2 hbo).2
          (fun w hw' => hs w (List.mem_cons_of_mem _ hw'))

theorem BoundU_addPrefix (M a p : Nat) (v : UNode) (rest : List UNode)
    (h : BoundU M (a + p) (v :: rest)) : BoundU M a (v.addPrefix p :: rest) := by
  obtain ⟨h1, h2, h3⟩ := h
  refine ⟨?_, ?_, ?_⟩
  · intro hf
    have hf' : v.node.fin = true := hf
    have := h1 hf'
    simp only [UNode.addPrefix, hf', if_true]
    omega
  · intro t ht
    simp only [UNode.addPrefix, List.mem_map] at ht
    obtain ⟨t0, ht0, rfl⟩ := ht
    have := h2 t0 ht0
    simp only
    omega
  · intro b o hl
    cases hv : v.last with
    | none => simp [UNode.addPrefix, hv] at hl
    | some bo =>
      obtain ⟨b0, o0⟩ := bo
      simp only [UNode.addPrefix, hv, Option.map_some, Option.some.injEq, Prod.mk.injEq] at hl
      obtain ⟨rfl, rfl⟩ := hl
      obtain ⟨g1, g2⟩ := h3 b0 o0 hv
      refine ⟨by omega, ?_⟩
      rw [← Nat.add_assoc]; exact g2

theorem cps_bound (M : Nat) (key : Key) (stack : List UNode) (out : Nat) (hw : WFStack stack) :
    ∀ acc, BoundU M acc stack → acc + out ≤ M → BoundU M acc (cps stack key out).2.2 := by
  revert hw
  refine cps_induct (motive := fun stack key out =>
    ∀ acc, BoundU M acc stack → acc + out ≤ M → BoundU M acc (cps stack key out).2.2)
    ?_ ?_ ?_ ?_ key stack out
  · intro stack out _ acc h _; rw [cps_nil_key]; exact h
  · intro u key out _ acc h _; rw [cps_single]; exact h
  · intro u v rest b bs out _ hl acc h _; rw [cps_stop _ _ _ _ _ _ hl]; exact h
  · intro u v rest b bs out o _ hl _ ih acc h hout
    obtain ⟨h1, h2, h3⟩ := h
    obtain ⟨g1, g2⟩ := h3 b o hl
    rw [cps_step _ _ _ _ _ _ _ hl]
    refine ⟨h1, h2, ?_⟩
    intro b' c hl'
    simp only [Option.some.injEq, Prod.mk.injEq] at hl'
    obtain ⟨rfl, rfl⟩ := hl'
    refine ⟨by omega, ih _ ?_ (by omega)⟩
    unfold pushed
    by_cases hz : o - min o out = 0
    · rw [if_neg (by simpa using hz)]
      have : acc + min o out = acc + o := by omega
      rw [this]; exact g2
    · rw [if_pos hz]
      apply BoundU_addPrefix
      have : acc + min o out + (o - min o out) = acc + o := by omega
      rw [this]; exact g2

/-- replace what hangs below a path of pending transitions -/
theorem BoundU_append (M : Nat) (tail tail3 : List UNode) : ∀ (front : List UNode) (acc : Nat),
    (∀ u ∈ front, u.last.isSome) → BoundU M acc (front ++ tail) →
    BoundU M (acc + pathOut front) tail ∧
      (BoundU M (acc + pathOut front) tail3 → BoundU M acc (front ++ tail3))
  | [], acc, _, h => by simp only [pathOut, Nat.add_zero, List.nil_append]; exact ⟨h, id⟩
  | u :: front, acc, hsome, h => by
    obtain ⟨h1, h2, h3⟩ := h
    obtain ⟨bo, hbo⟩ := Option.isSome_iff_exists.mp (hsome u (by simp))
    obtain ⟨b, o⟩ := bo
    obtain ⟨g1, g2⟩ := h3 b o hbo
    obtain ⟨i1, i2⟩ := BoundU_append M tail tail3 front (acc + o)
      (fun w hw => hsome w (List.mem_cons_of_mem _ hw)) g2
    simp only [pathOut, hbo]
    rw [← Nat.add_assoc]
    refine ⟨i1, fun h3' => ⟨h1, h2, ?_⟩⟩
    intro b' o' hl'
    rw [hbo] at hl'
    simp only [Option.some.injEq, Prod.mk.injEq] at hl'
    obtain ⟨rfl, rfl⟩ := hl'
    exact ⟨g1, i2 h3'⟩

theorem BoundU_chain (M : Nat) : ∀ (bs : Key) (a : Nat), a ≤ M → BoundU M a (chain bs)
  | [], a, h => ⟨fun _ => by simpa using h, fun t ht => by simp at ht, fun b o hl => by simp at hl⟩
  | b :: bs, a, h => by
    refine ⟨fun hf => by simp [BNode.empty] at hf, fun t ht => by simp [BNode.empty] at ht, ?_⟩
    intro b' o hl
    simp only [Option.some.injEq, Prod.mk.injEq] at hl
    obtain ⟨_, rfl⟩ := hl
    exact ⟨by simpa using h, BoundU_chain M bs _ (by simpa using h)⟩

/-- bounded state: emitted nodes and the unfinished stack -/
def InvB (M : Nat) (s : BState) : Prop := (boundPass M).OutQ s ∧ BoundU M 0 s.stack

theorem InvB_new (M rows cols : Nat) : InvB M (BState.new rows cols) := by
  refine ⟨fun e he => by simp [BState.new] at he, ?_, ?_, ?_⟩
  · intro hf; simp [BNode.empty] at hf
  · intro t ht; simp [BNode.empty] at ht
  · intro b o hl; simp at hl

theorem freeze_fin (u : UNode) (a : Nat) : (u.freeze a).fin = u.node.fin ∧ (u.freeze a).fout = u.node.fout := by
  unfold UNode.freeze
  cases u.last with
  | none => exact ⟨rfl, rfl⟩
  | some bo => exact ⟨rfl, rfl⟩

theorem insertOutput_new_bound {M : Nat} {s : BState} {acc : KV} (hc : Core s acc) (b : UInt8)
    (bt : Key) (out : Option Nat) (hlt : lexLt (pathKey s.stack) (b :: bt) = true) (hB : InvB M s)
    (hv : out.getD 0 ≤ M) {s' : BState} (h : s.insertOutput (b :: bt) out = .ok s') : InvB M s' := by
  obtain ⟨i, rem, front, top, popped, s2, a, b2, bs', hcps, hflen, hcf, hs2, hdrop, hins⟩ :=
    insertOutput_new_steps hc b bt out hlt
  rw [hins] at h; cases h
  have hw1 := cps_wf (b :: bt) s.stack (out.getD 0) hc.wf
  have hshape1 := cps_forall UShape (fun u b o c hl h => UShape_setLast hl h)
    (fun v p h => UShape_addPrefix p h) (b :: bt) s.stack (out.getD 0) hc.wf hc.shape
  have haddr1 := cps_forall (UAddr s) (fun u b o c _ h => h)
    (fun v p h => UAddr_addPrefix p h) (b :: bt) s.stack (out.getD 0) hc.wf hc.addr
  have hb1 := cps_bound M (b :: bt) s.stack (out.getD 0) hc.wf 0 hB.2 (by omega)
  obtain ⟨_, p2, _⟩ := cps_path (b :: bt) s.stack (out.getD 0) hc.wf
  rw [hcps] at hw1 hshape1 haddr1 hb1 p2
  simp only at hw1 hshape1 haddr1 hb1 p2
  rw [← hflen, List.take_left' rfl] at p2
  have hmem : ∀ u, u ∈ front ∨ u ∈ top :: popped → u ∈ front ++ top :: popped := by
    intro u hu; simpa using hu
  obtain ⟨hfsome, hwtp⟩ := WFStack_append.mp hw1
  have hshape' : ∀ u ∈ top :: popped, UShape u := fun u hu => hshape1 u (hmem u (Or.inr hu))
  have haddr' : ∀ u ∈ top :: popped, UAddr s u := fun u hu => haddr1 u (hmem u (Or.inr hu))
  obtain ⟨t1, t2⟩ := BoundU_append M (top :: popped)
    (⟨top.freeze a, some (b2, rem)⟩ :: chain bs') front 0 hfsome hb1
  simp only [Nat.zero_add] at t1 t2
  obtain ⟨p1, _, _, _⟩ :=
    compileFrom_pass (boundPass M) (s := { s with stack := front ++ top :: popped, len := s.len + 1 })
      hcf ⟨hc.sinv.out, hc.sinv.reg⟩ rfl hwtp hshape' haddr' hB.1
      (BoundU_stackQ M s.out _ _ hwtp t1 hshape')
  refine ⟨p1, t2 ?_⟩
  obtain ⟨u1, u2, u3⟩ := t1
  refine ⟨?_, ?_, ?_⟩
  · intro hf
    have hf' : (top.freeze a).fin = true := hf
    rw [(freeze_fin top a).1] at hf'
    show pathOut front + (top.freeze a).fout ≤ M
    rw [(freeze_fin top a).2]
    exact u1 hf'
  · intro t ht
    unfold UNode.freeze at ht
    cases hl : top.last with
    | none => rw [hl] at ht; exact u2 t ht
    | some bo =>
      obtain ⟨b0, o0⟩ := bo
      rw [hl] at ht
      simp only [List.mem_append, List.mem_singleton] at ht
      rcases ht with ht | rfl
      · exact u2 t ht
      · exact (u3 b0 o0 hl).1
  · intro b' o' hl
    simp only [Option.some.injEq, Prod.mk.injEq] at hl
    obtain ⟨_, rfl⟩ := hl
    exact ⟨by omega, BoundU_chain M bs' _ (by omega)⟩


theorem insertOutput_empty_bound {M : Nat} {s : BState} {acc : KV} (hc : Core s acc) (out : Option Nat)
    (hp : pathKey s.stack = []) (hB : InvB M s) (hv : out.getD 0 ≤ M) {s' : BState}
    (h : s.insertOutput [] out = .ok s') : InvB M s' := by
  obtain ⟨top, hst, hl⟩ := pathKey_nil_single hc.wf hp
  have hsh := hc.shape top (by rw [hst]; simp)
  have htr : top.node.trans = [] := by have := hsh.2.2; rw [hl] at this; exact this
  have : s' = { s with len := 1, stack := setRootOutput s.stack (out.getD 0) } := by
    have : s.insertOutput [] out = .ok { s with len := 1, stack := setRootOutput s.stack (out.getD 0) } := rfl
    rw [this] at h; cases h; rfl
  subst this
  refine ⟨hB.1, ?_⟩
  show BoundU M 0 (setRootOutput s.stack (out.getD 0))
  rw [hst]
  refine ⟨fun _ => by simpa using hv, fun t ht => by simp [htr] at ht, fun b o hl' => ?_⟩
  simp [hl] at hl'

theorem insertOutput_dup_bound {M : Nat} {s : BState} {acc : KV} (hc : Core s acc) (b : UInt8)
    (bt : Key) (out : Option Nat) (hv : out.getD 0 = 0) (hp : pathKey s.stack = b :: bt)
    (hB : InvB M s) {s' : BState} (h : s.insertOutput (b :: bt) out = .ok s') : InvB M s' := by
  rw [insertOutput_cons] at h
  have hidx := cps_index (b :: bt) s.stack (out.getD 0) hc.wf
  rw [hp, lcp_self] at hidx
  obtain ⟨_, p2, _⟩ := cps_path (b :: bt) s.stack (out.getD 0) hc.wf
  have hrem : (cps s.stack (b :: bt) (out.getD 0)).2.1 = 0 := by omega
  have hb1 := cps_bound M (b :: bt) s.stack (out.getD 0) hc.wf 0 hB.2 (by omega)
  rw [if_pos hidx, hrem] at h
  simp only [ne_eq, not_true_eq_false, if_false] at h
  cases h
  exact ⟨hB.1, hb1⟩

/-- `insert` of a value `≤ M` keeps every stored output `≤ M` -/
theorem insert_bound {M : Nat} {s s' : BState} {acc : KV} (h : Inv s acc) (hB : InvB M s) {k : Key}
    {v : Nat} (hv : v ≤ M) (hi : s.insert k v = .ok s') : InvB M s' := by
  have hlt := insert_ok_lt hi
  have hck : s.checkLastKey k true = .ok { s with last := some k } := by
    cases hl : s.last with
    | none => exact checkLastKey_none k true hl
    | some last => rw [checkLastKey_map k hl, if_pos (hlt last hl)]
  unfold BState.insert at hi
  rw [hck] at hi
  have hcore := Core_setLast h.core (some k)
  cases k with
  | nil =>
    have hnone : s.last = none := by
      cases hl : s.last with
      | none => rfl
      | some last => have := hlt last hl; cases last <;> simp [lexLt] at this
    have hp : pathKey s.stack = [] := by rw [h.path, hnone]; rfl
    exact insertOutput_empty_bound hcore (some v) hp hB hv hi
  | cons b bt =>
    have hp : lexLt (pathKey s.stack) (b :: bt) = true := by
      rw [h.path]
      cases hl : s.last with
      | none => rfl
      | some last => exact hlt last hl
    exact insertOutput_new_bound hcore b bt (some v) hp hB hv hi

/-- `add` keeps every stored output `≤ M` (for any `M`) -/
theorem add_bound {M : Nat} {s s' : BState} {acc : KV} (h : Inv s acc) (hB : InvB M s) {k : Key}
    (ha : s.add k = .ok s') : InvB M s' := by
  have hle := add_ok_le ha
  have hck : s.checkLastKey k false = .ok { s with last := some k } := by
    cases hl : s.last with
    | none => exact checkLastKey_none k false hl
    | some last => rw [checkLastKey_set k hl, if_pos (hle last hl)]
  unfold BState.add at ha
  rw [hck] at ha
  have hcore := Core_setLast h.core (some k)
  cases k with
  | nil =>
    have hp : pathKey s.stack = [] := by
      rw [h.path]
      cases hl : s.last with
      | none => rfl
      | some last =>
        have := hle last hl
        cases last with
        | nil => rfl
        | cons x xs => simp [lexLe, lexLt] at this
    exact insertOutput_empty_bound hcore none hp hB (Nat.zero_le _) ha
  | cons b bt =>
    by_cases hdup : s.last = some (b :: bt)
    · have hp : pathKey s.stack = b :: bt := by rw [h.path, hdup]; rfl
      exact insertOutput_dup_bound hcore b bt none rfl hp hB ha
    · have hp : lexLt (pathKey s.stack) (b :: bt) = true := by
        rw [h.path]
        cases hl : s.last with
        | none => rfl
        | some last =>
          rcases lexLe_iff.mp (hle last hl) with h1 | h1
          · exact h1
          · subst h1; exact absurd hl hdup
      exact insertOutput_new_bound hcore b bt none hp hB (Nat.zero_le _) ha

theorem finish_bound {M : Nat} {s s' : BState} {acc : KV} {root : Nat} (h : Core s acc) (hB : InvB M s)
    (hf : s.finish = .ok (s', root)) : (boundPass M).OutQ s' := by
  obtain ⟨top, popped, hst⟩ : ∃ top popped, s.stack = top :: popped := by
    cases hs : s.stack with
    | nil => have := h.wf; rw [hs] at this; exact absurd this id
    | cons t p => exact ⟨t, p, rfl⟩
  have hwf : WFStack (top :: popped) := hst ▸ h.wf
  have hshape : ∀ u ∈ top :: popped, UShape u := fun u hu => h.shape u (hst ▸ hu)
  have haddr : ∀ u ∈ top :: popped, UAddr s u := fun u hu => h.addr u (hst ▸ hu)
  obtain ⟨s1, a, c1, c2, c3, c4, c5, c6, c7, c8⟩ :=
    compileFrom_spec (s := s) (front := []) (popped := popped) (top := top) h.sinv (by simpa using hst)
      hwf hshape haddr
  obtain ⟨p1, a', p2, p3⟩ := compileFrom_pass (boundPass M) (front := []) c1 h.sinv (by simpa using hst)
    hwf hshape haddr hB.1 (BoundU_stackQ M s.out _ 0 hwf (hst ▸ hB.2) hshape)
  rw [freeze_eq_of_stack p2 c4] at p3
  unfold BState.finish at hf
  simp only [List.length_nil] at c1
  rw [c1] at hf
  simp only [c4, List.nil_append, Option.isSome_none, Bool.false_eq_true, if_false] at hf
  exact compile_pass (boundPass M) hf c2 c7 p1 p3

theorem insertAll_bound {M : Nat} : ∀ (kvs : KV) (s s' : BState) (acc : KV), Inv s acc → InvB M s →
    (∀ kv ∈ kvs, kv.2 ≤ M) → insertAll s kvs = .ok s' → InvB M s'
  | [], s, s', _, _, hB, _, e => by cases e; exact hB
  | kv :: rest, s, s', acc, h, hB, hM, e => by
    simp only [insertAll] at e
    cases hi : s.insert kv.1 kv.2 with
    | error err => rw [hi] at e; cases e
    | ok s1 =>
      rw [hi] at e
      obtain ⟨s1', e1, i1⟩ := insert_new h kv.1 kv.2 (insert_ok_lt hi)
      rw [hi] at e1; cases e1
      exact insertAll_bound rest s1 s' _ i1 (insert_bound h hB (hM kv (by simp)) hi)
        (fun kv' hkv' => hM kv' (List.mem_cons_of_mem _ hkv')) e

theorem addAll_bound {M : Nat} : ∀ (ks : List Key) (s s' : BState), Reachable s → InvB M s →
    addAll s ks = .ok s' → InvB M s'
  | [], s, s', _, hB, e => by cases e; exact hB
  | k :: rest, s, s', hr, hB, e => by
    simp only [addAll] at e
    cases hi : s.add k with
    | error err => rw [hi] at e; cases e
    | ok s1 =>
      rw [hi] at e
      obtain ⟨acc, hinv⟩ := reachable_inv hr
      exact addAll_bound rest s1 s' (Reachable.add k hr hi) (add_bound hinv hB hi) e

/-- VALUE BOUND (map mode): every output stored in an emitted node is at most the largest
inserted value -/
theorem build_bound (rows cols : Nat) (kvs : KV) (h : SortedKV kvs) (M : Nat)
    (hM : ∀ kv ∈ kvs, kv.2 ≤ M) :
    ∃ s s' root, insertAll (BState.new rows cols) kvs = .ok s ∧ s.finish = .ok (s', root) ∧
      ∀ e ∈ s'.out, e.node.fout ≤ M ∧ ∀ t ∈ e.node.trans, t.out ≤ M := by
  obtain ⟨s, e1, i1⟩ := insertAll_inv kvs (BState.new rows cols) [] (Inv_new rows cols)
    (sortedAfter_none h)
  obtain ⟨s', root, f1, _⟩ := finish_spec i1.core
  have hB := insertAll_bound kvs _ s [] (Inv_new rows cols) (InvB_new M rows cols) hM e1
  exact ⟨s, s', root, e1, f1, finish_bound i1.core hB f1⟩

example : ∀ kv ∈ ([([], 7), ([1], 5), ([1, 2], 3), ([1, 3], 9), ([2, 3], 1)] : KV), kv.2 ≤ 9 := by
  decide

/-- VALUE BOUND (set mode): every output stored in an emitted node is 0 -/
theorem build_bound_set (rows cols : Nat) (ks : List Key) (h : SortedKeysLe ks) :
    ∃ s s' root, addAll (BState.new rows cols) ks = .ok s ∧ s.finish = .ok (s', root) ∧
      ∀ e ∈ s'.out, e.node.fout = 0 ∧ ∀ t ∈ e.node.trans, t.out = 0 := by
  obtain ⟨s, s', root, e1, f1, _⟩ := build_ok_set rows cols ks h
  have hr := reachable_addAll ks (Reachable.new rows cols) e1
  obtain ⟨acc, hinv⟩ := reachable_inv hr
  have hB := addAll_bound (M := 0) ks _ s (Reachable.new rows cols) (InvB_new 0 rows cols) e1
  have := finish_bound hinv.core hB f1
  refine ⟨s, s', root, e1, f1, fun e he => ?_⟩
  obtain ⟨g1, g2⟩ := this e he
  exact ⟨Nat.le_zero.mp g1, fun t ht => Nat.le_zero.mp (g2 t ht)⟩

/-- the bound holds in every state reached by `insert`s of values `≤ M` and `add`s -/
theorem insert_bound_reachable {M : Nat} {s s' : BState} (hr : Reachable s) (hB : InvB M s) {k : Key}
    {v : Nat} (hv : v ≤ M) (hi : s.insert k v = .ok s') : InvB M s' := by
  obtain ⟨acc, hinv⟩ := reachable_inv hr
  exact insert_bound hinv hB hv hi

end Fst
