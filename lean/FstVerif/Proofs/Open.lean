import FstVerif.Model.Reader
/-
C20 (opening and verifying never panic) and the gate facts of C10, for
`fstNew` / `fstVerify` (mirrors of `Fst::new` / `Fst::verify`, `src/raw/mod.rs`).
-/
namespace Fst
namespace OpenProofs

/-- the generated format version is the one the proofs were written against -/
theorem version_pinned : Gen.VERSION = 3 := rfl

/-! ### reads from a list-backed source -/

theorem read_ofList (bs : List UInt8) : ∀ (n i : Nat), i + n ≤ bs.length →
    (Src.ofList bs).read i n = some ((bs.drop i).take n)
  | 0, i, _ => by simp [Src.read]
  | n+1, i, h => by
    have hi : i < bs.length := by omega
    have ih := read_ofList bs n (i+1) (by omega)
    have hd : bs.drop i = bs[i] :: bs.drop (i+1) := List.drop_eq_getElem_cons hi
    simp only [Src.read, ih, hd, List.take_succ_cons]
    simp [Src.ofList, hi]

/-- a non-empty read that leaves the slice is refused -/
theorem read_ofList_none (bs : List UInt8) : ∀ (n i : Nat), bs.length < i + (n+1) →
    (Src.ofList bs).read i (n+1) = none
  | 0, i, h => by
    have hi : bs.length ≤ i := by omega
    simp [Src.read, Src.ofList, hi]
  | n+1, i, h => by
    by_cases hi : i < bs.length
    · have ih := read_ofList_none bs n (i+1) (by omega)
      rw [Src.read, ih]
      cases (Src.ofList bs).get i <;> rfl
    · have hi : bs.length ≤ i := by omega
      rw [Src.read]
      simp [Src.ofList, hi]

/-- `read` of `n ≥ 1` bytes succeeds exactly when the range is in bounds. -/
theorem read_ofList_isSome (bs : List UInt8) (i n : Nat) (hn : 1 ≤ n) :
    ((Src.ofList bs).read i n).isSome ↔ i + n ≤ bs.length := by
  obtain ⟨k, rfl⟩ : ∃ k, n = k + 1 := ⟨n - 1, by omega⟩
  constructor
  · intro h
    by_cases hb : i + (k+1) ≤ bs.length
    · exact hb
    · rw [read_ofList_none bs k i (by omega)] at h; cases h
  · intro h; rw [read_ofList bs _ _ h]; rfl

theorem unpackAt_ofList (bs : List UInt8) (i n : Nat) (h : i + n ≤ bs.length) :
    (Src.ofList bs).unpackAt i n = some (unpack ((bs.drop i).take n)) := by
  simp [Src.unpackAt, read_ofList bs n i h]

theorem unpackAt_ofList_isSome (bs : List UInt8) (i n : Nat) (hn : 1 ≤ n) :
    ((Src.ofList bs).unpackAt i n).isSome ↔ i + n ≤ bs.length := by
  simp only [Src.unpackAt, Option.isSome_map]
  exact read_ofList_isSome bs i n hn

theorem size_ofList (bs : List UInt8) : (Src.ofList bs).size = bs.length := rfl

/-- the version field of the header -/
def versionOf (bs : List UInt8) : Nat := unpack (bs.take 8)

theorem unpackAt_version (bs : List UInt8) (h : 32 ≤ bs.length) :
    (Src.ofList bs).unpackAt 0 8 = some (versionOf bs) := by
  rw [unpackAt_ofList bs 0 8 (by omega)]; simp [versionOf]

/-! ### C10: the gates of `Fst::new` -/

theorem C10_short (bs : List UInt8) (h : bs.length < 32) :
    fstNew (Src.ofList bs) = .err (.format bs.length) := by
  simp [fstNew, size_ofList, h]

theorem C10_version (bs : List UInt8) (h : 32 ≤ bs.length)
    (hv : versionOf bs = 0 ∨ versionOf bs > Gen.VERSION) :
    fstNew (Src.ofList bs) = .err (.version Gen.VERSION (versionOf bs)) := by
  have h' : ¬ bs.length < 32 := by omega
  simp only [fstNew, size_ofList, h', if_false, unpackAt_version bs h, hv, if_true]

theorem C10_v3_short (bs : List UInt8) (hv : versionOf bs = 3) (h : bs.length < 36) :
    fstNew (Src.ofList bs) = .err (.format bs.length) := by
  by_cases h32 : bs.length < 32
  · exact C10_short bs h32
  · have hnv : ¬ (versionOf bs = 0 ∨ versionOf bs > Gen.VERSION) := by
      rw [hv, version_pinned]; omega
    have h3 : versionOf bs ≥ 3 ∧ bs.length < 36 := ⟨by omega, h⟩
    simp only [fstNew, size_ofList, h32, if_false, unpackAt_version bs (by omega), hnv, h3,
      and_self, if_true]

/-! ### the shape of a successful open -/

/-- Everything `fstNew` does after the gates, for in-range versions. -/
theorem fstNew_eq (bs : List UInt8) (h32 : 32 ≤ bs.length)
    (hv1 : 1 ≤ versionOf bs) (hv3 : versionOf bs ≤ 3)
    (h36 : versionOf bs = 3 → 36 ≤ bs.length) :
    let n := bs.length
    let v := versionOf bs
    let end_ := if v ≤ 2 then n else n - 4
    let ck : Option Nat := if v ≤ 2 then none else some (unpack ((bs.drop (n - 4)).take 4))
    let rootAddr := unpack ((bs.drop (end_ - 8)).take 8)
    let len := unpack ((bs.drop (end_ - 16)).take 8)
    let ty := unpack ((bs.drop 8).take 8)
    fstNew (Src.ofList bs) =
      if (rootAddr = EMPTY_ADDRESS ∧ n ≠ (if v ≤ 2 then 32 else 36)) ∧
          rootAddr + (if v ≤ 2 then 17 else 21) ≠ n
      then .err (.format n)
      else .ok { version := v, rootAddr, ty, len, checksum := ck } := by
  intro n v end_ ck rootAddr len ty
  have h' : ¬ bs.length < 32 := by omega
  have hnv : ¬ (versionOf bs = 0 ∨ versionOf bs > Gen.VERSION) := by
    rw [version_pinned]; omega
  have h3 : ¬ (versionOf bs ≥ 3 ∧ bs.length < 36) := by omega
  simp only [fstNew, size_ofList, h', if_false, unpackAt_version bs h32, hnv, h3,
    unpackAt_ofList bs 8 8 (by omega)]
  by_cases hle : versionOf bs ≤ 2
  · have e16 : ¬ bs.length < 16 := by omega
    simp only [hle, if_true, e16, if_false,
      unpackAt_ofList bs (bs.length - 8) 8 (by omega),
      unpackAt_ofList bs (bs.length - 16) 8 (by omega)]
    simp only [n, v, end_, ck, rootAddr, len, ty, hle, if_true]
  · have h36' : 36 ≤ bs.length := h36 (by omega)
    have e4 : ¬ bs.length < 4 := by omega
    have e16 : ¬ bs.length - 4 < 16 := by omega
    simp only [hle, if_false, e4, unpackAt_ofList bs (bs.length - 4) 4 (by omega),
      Option.map_some, e16,
      unpackAt_ofList bs (bs.length - 4 - 8) 8 (by omega),
      unpackAt_ofList bs (bs.length - 4 - 16) 8 (by omega)]
    simp only [n, v, end_, ck, rootAddr, len, ty, hle, if_false]

theorem of_eq_ite {α : Type} {x : α} {c : Prop} [Decidable c] {a b : α}
    (h : x = ite c a b) : x = a ∨ x = b := by split at h <;> simp [h]

/-- `fstNew` in the four gate regions. -/
theorem fstNew_cases (bs : List UInt8) :
    (∃ e, fstNew (Src.ofList bs) = .err e) ∨
    (∃ m, fstNew (Src.ofList bs) = .ok m ∧ m.version = versionOf bs ∧
      1 ≤ m.version ∧ m.version ≤ 3 ∧ 32 ≤ bs.length ∧
      (m.version ≤ 2 → m.checksum = none) ∧
      (m.version = 3 → 36 ≤ bs.length ∧ m.checksum.isSome)) := by
  by_cases h32 : bs.length < 32
  · exact .inl ⟨_, C10_short bs h32⟩
  by_cases hv : versionOf bs = 0 ∨ versionOf bs > Gen.VERSION
  · exact .inl ⟨_, C10_version bs (by omega) hv⟩
  rw [version_pinned] at hv
  by_cases h36 : versionOf bs = 3 ∧ bs.length < 36
  · exact .inl ⟨_, C10_v3_short bs h36.1 h36.2⟩
  have := fstNew_eq bs (by omega) (by omega) (by omega) (by omega)
  simp only at this
  rcases of_eq_ite this with this | this
  · exact .inl ⟨_, this⟩
  · refine .inr ⟨_, this, rfl, by simp only; omega, by simp only; omega, by omega, ?_, ?_⟩
    · intro hle; simp only at hle; simp [hle]
    · intro h3; simp only at h3
      have : ¬ versionOf bs ≤ 2 := by omega
      refine ⟨by omega, ?_⟩
      simp [this]

/-! ### C20: totality -/

/-- `Fst::new` never panics, whatever the bytes: every slice it takes is in bounds. -/
theorem C20_open_total (bs : List UInt8) : ∀ tag, fstNew (Src.ofList bs) ≠ .panic tag := by
  intro tag h
  rcases fstNew_cases bs with ⟨e, he⟩ | ⟨m, hm, _⟩
  · rw [he] at h; cases h
  · rw [hm] at h; cases h

/-- `Fst::verify` on an opened FST never panics. -/
theorem C20_verify_total (bs : List UInt8) (m : Meta) (hm : fstNew (Src.ofList bs) = .ok m) :
    ∀ tag, fstVerify m (Src.ofList bs) ≠ .panic tag := by
  intro tag h
  rcases fstNew_cases bs with ⟨e, he⟩ | ⟨m', hm', _, _, _, h32, _, _⟩
  · rw [he] at hm; cases hm
  · have e4 : ¬ bs.length < 4 := by omega
    unfold fstVerify at h
    cases hc : m.checksum with
    | none => rw [hc] at h; cases h
    | some c =>
      rw [hc] at h
      simp only [size_ofList, e4, if_false, Src.prefix,
        read_ofList bs (bs.length - 4) 0 (by omega)] at h
      split at h <;> cases h

/-- The full outcome of `verify` on an opened FST. -/
theorem verify_eq (bs : List UInt8) (m : Meta) (hm : fstNew (Src.ofList bs) = .ok m) :
    fstVerify m (Src.ofList bs) =
      match m.checksum with
      | none => .err .checksumMissing
      | some expected =>
        let got := (maskedSum (crc32cSlice16 0 (bs.take (bs.length - 4)))).toNat
        if expected = got then .ok () else .err (.checksumMismatch expected got) := by
  rcases fstNew_cases bs with ⟨e, he⟩ | ⟨m', hm', _, _, _, h32, _, _⟩
  · rw [he] at hm; cases hm
  · have e4 : ¬ bs.length < 4 := by omega
    unfold fstVerify
    cases hc : m.checksum with
    | none => rfl
    | some c =>
      simp only [size_ofList, e4, if_false, Src.prefix,
        read_ofList bs (bs.length - 4) 0 (by omega), List.drop_zero]

theorem C10_checksum_missing (bs : List UInt8) (m : Meta)
    (hm : fstNew (Src.ofList bs) = .ok m) (hv : m.version ≤ 2) :
    fstVerify m (Src.ofList bs) = .err .checksumMissing := by
  rcases fstNew_cases bs with ⟨e, he⟩ | ⟨m', hm', _, _, _, _, hck, _⟩
  · rw [he] at hm; cases hm
  · have e : m' = m := by rw [hm'] at hm; exact Outcome.ok.inj hm
    subst e
    simp [fstVerify, hck hv]

/-- conversely, a version-3 FST always carries a checksum, so `verify` never reports
`ChecksumMissing` for it. -/
theorem checksum_present_v3 (bs : List UInt8) (m : Meta)
    (hm : fstNew (Src.ofList bs) = .ok m) (hv : m.version = 3) :
    fstVerify m (Src.ofList bs) ≠ .err .checksumMissing := by
  rcases fstNew_cases bs with ⟨e, he⟩ | ⟨m', hm', _, _, _, _, _, hck⟩
  · rw [he] at hm; cases hm
  · have e : m' = m := by rw [hm'] at hm; exact Outcome.ok.inj hm
    subst e
    rw [verify_eq bs m' hm']
    obtain ⟨c, hc⟩ := Option.isSome_iff_exists.mp (hck hv).2
    rw [hc]; simp only
    split <;> simp

/-! ### non-vacuity -/

/-- the empty version-3 FST (36 bytes; checksum field left zero) -/
def emptyV3 : List UInt8 := u64le 3 ++ u64le 0 ++ u64le 0 ++ u64le 0 ++ u32le 0
/-- an empty version-2 FST (32 bytes) -/
def emptyV2 : List UInt8 := u64le 2 ++ u64le 0 ++ u64le 0 ++ u64le 0

example : fstNew (Src.ofList emptyV3) =
    .ok { version := 3, rootAddr := 0, ty := 0, len := 0, checksum := some 0 } := by decide
example : fstNew (Src.ofList emptyV2) =
    .ok { version := 2, rootAddr := 0, ty := 0, len := 0, checksum := none } := by decide
-- C10_short
example : fstNew (Src.ofList (u64le 3)) = .err (.format 8) := C10_short _ (by decide)
-- C10_version
example : fstNew (Src.ofList (u64le 4 ++ emptyV3.drop 8)) = .err (.version 3 4) :=
  C10_version _ (by decide) (by decide)
example : fstNew (Src.ofList (u64le 0 ++ emptyV3.drop 8)) = .err (.version 3 0) :=
  C10_version _ (by decide) (by decide)
-- C10_v3_short
example : fstNew (Src.ofList (u64le 3 ++ emptyV2.drop 8)) = .err (.format 32) :=
  C10_v3_short _ (by decide) (by decide)
-- C10_checksum_missing
example : fstVerify ⟨2, 0, 0, 0, none⟩ (Src.ofList emptyV2) = .err .checksumMissing :=
  C10_checksum_missing emptyV2 _ (by decide) (by decide)
-- root address gate: root address 0 with a non-empty length is refused
example : fstNew (Src.ofList (emptyV3 ++ [0])) = .err (.format 37) := by decide

end OpenProofs
end Fst
