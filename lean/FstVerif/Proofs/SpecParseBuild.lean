import FstVerif.Proofs.SpecParseWalk
import FstVerif.Proofs.Build
import FstVerif.Model.Sink
/-
T-SpecParse, part 3: the builder. Every node the builder emits stays reachable from the
unfinished stack, hence from the root after `finish` (`finish_reach`); the emitted chunks are a
laid-out store (`layout_laid`); so the complete file written by the model builder is read by
the format description (`Spec.parseFst`) as exactly the inserted map, with a tiled body.
-/
namespace Fst
namespace SpecP

/-! ### K. every emitted node is reachable from the unfinished stack -/

theorem ReachFrom.mono {s s' : Store} (h : ∀ p ∈ s, p ∈ s') {a b : Nat} (hr : ReachFrom s a b) :
    ReachFrom s' a b := by
  induction hr with
  | refl => exact ReachFrom.refl _
  | step hm ht _ ih => exact ReachFrom.step (h _ hm) ht ih

/-- every emitted node is reachable from one of the addresses `roots` -/
def Cov (out : List Emit) (roots : List Nat) : Prop :=
  ∀ e ∈ out, ∃ r ∈ roots, ReachFrom (rstore out) r e.addr

theorem Cov.mono_roots {out : List Emit} {R R' : List Nat} (h : ∀ r ∈ R, r ∈ R') (hc : Cov out R) :
    Cov out R' := by
  intro e he
  obtain ⟨r, hr, h1⟩ := hc e he
  exact ⟨r, h r hr, h1⟩

def uAddrs (u : UNode) : List Nat := u.node.trans.map (·.addr)
def stackAddrs (st : List UNode) : List Nat := st.flatMap uAddrs

theorem compile_cov {s : BState} {n : BNode} {s' : BState} {a : Nat}
    (h : s.compile n = .ok (s', a)) (hinv : SInv s) (R : List Nat)
    (hc : Cov s.out (R ++ n.trans.map (·.addr))) : Cov s'.out (R ++ [a]) := by
  -- a node already in the store: reachability through it
  have hfound : (a, n) ∈ rstore s.out → Cov s.out (R ++ [a]) := by
    intro hmem e he
    obtain ⟨r, hr, h1⟩ := hc e he
    rcases List.mem_append.mp hr with hr | hr
    · exact ⟨r, List.mem_append_left _ hr, h1⟩
    · obtain ⟨t, ht, rfl⟩ := List.mem_map.mp hr
      exact ⟨a, List.mem_append_right _ (by simp), ReachFrom.step hmem ht h1⟩
  -- a freshly written node
  have hnew : ∀ (cs : List (List UInt8)), Cov (⟨a, n, cs⟩ :: s.out) (R ++ [a]) := by
    intro cs e he
    have hsub : ∀ p ∈ rstore s.out, p ∈ rstore (⟨a, n, cs⟩ :: s.out) := by
      intro p hp; simp only [rstore, List.map_cons]; exact List.mem_cons_of_mem _ hp
    have hmem : (a, n) ∈ rstore (⟨a, n, cs⟩ :: s.out) := by simp [rstore]
    rcases List.mem_cons.mp he with rfl | he
    · exact ⟨a, List.mem_append_right _ (by simp), ReachFrom.refl _⟩
    · obtain ⟨r, hr, h1⟩ := hc e he
      have h1' := ReachFrom.mono hsub h1
      rcases List.mem_append.mp hr with hr | hr
      · exact ⟨r, List.mem_append_left _ hr, h1'⟩
      · obtain ⟨t, ht, rfl⟩ := List.mem_map.mp hr
        exact ⟨a, List.mem_append_right _ (by simp), ReachFrom.step hmem ht h1'⟩
  unfold BState.compile at h
  split at h
  · rename_i he
    cases h
    simp only [isEmptyFinal, Bool.and_eq_true, List.isEmpty_iff, beq_iff_eq] at he
    rw [he.1.2] at hc
    exact Cov.mono_roots (fun r hr => by simpa using Or.inl hr) hc
  · generalize hre : s.reg.entry n = re at h
    obtain ⟨reg', e⟩ := re
    cases e with
    | found a' =>
      cases h
      exact hfound (entry_found hre hinv.reg).2
    | notFound b =>
      simp only at h
      split at h
      · cases h
      · cases h; exact hnew _
    | rejected =>
      simp only at h
      split at h
      · cases h
      · cases h; exact hnew _

theorem uAddrs_freeze_none {u : UNode} (a : Nat) (hl : u.last = none) :
    (u.freeze a).trans.map (·.addr) = uAddrs u := by
  simp [UNode.freeze, hl, uAddrs]

theorem uAddrs_freeze_some {u : UNode} (a : Nat) (hl : u.last.isSome) :
    (u.freeze a).trans.map (·.addr) = uAddrs u ++ [a] := by
  obtain ⟨bo, hbo⟩ := Option.isSome_iff_exists.mp hl
  simp [UNode.freeze, hbo, uAddrs]

theorem compileTail_cov : ∀ (popped : List UNode) (s s' : BState) (a : Nat),
    s.compileTail popped = .ok (s', a) → SInv s → WFStack popped →
    (∀ u ∈ popped, UShape u) → (∀ u ∈ popped, UAddr s u) →
    ∀ R, Cov s.out (R ++ stackAddrs popped) → Cov s'.out (R ++ [a]) := by
  intro popped
  induction popped with
  | nil => intro s s' a _ _ h; exact absurd h id
  | cons u rest ih =>
    intro s s' a h hinv hwf hshape haddr R hc
    cases rest with
    | nil =>
      have hl : u.last = none := hwf
      have hfz : u.freeze NONE_ADDRESS = u.node := by simp [UNode.freeze, hl]
      simp only [BState.compileTail, hl, Option.isSome_none, Bool.and_false, Bool.false_eq_true,
        if_false, hfz] at h
      refine compile_cov h hinv R ?_
      simpa [stackAddrs, uAddrs] using hc
    | cons v rest' =>
      obtain ⟨hsome, hwf'⟩ := WFStack_cons_cons.mp hwf
      have hshape' : ∀ w ∈ v :: rest', UShape w := fun w hw => hshape w (List.mem_cons_of_mem _ hw)
      have haddr' : ∀ w ∈ v :: rest', UAddr s w := fun w hw => haddr w (List.mem_cons_of_mem _ hw)
      obtain ⟨s1, a1, i1, i2, i3, _, _, _, i7, i8⟩ := compileTail_spec (v :: rest') s hinv hwf' hshape' haddr'
      rw [BState.compileTail, i1] at h
      simp only [List.isEmpty_cons, Bool.false_and, Bool.false_eq_true, if_false] at h
      have hc1 := ih s s1 a1 i1 hinv hwf' hshape' haddr' (R ++ uAddrs u)
        (by simpa [stackAddrs, List.append_assoc] using hc)
      refine compile_cov h i2 R ?_
      rw [uAddrs_freeze_some a1 hsome, ← List.append_assoc]
      exact hc1

theorem stackAddrs_append (xs ys : List UNode) : stackAddrs (xs ++ ys) = stackAddrs xs ++ stackAddrs ys := by
  simp [stackAddrs]

theorem compileFrom_cov {s s' : BState} {front popped : List UNode} {top : UNode}
    (h : s.compileFrom front.length = .ok s') (hinv : SInv s)
    (hst : s.stack = front ++ top :: popped) (hwf : WFStack (top :: popped))
    (hshape : ∀ u ∈ top :: popped, UShape u) (haddr : ∀ u ∈ top :: popped, UAddr s u)
    (hc : Cov s.out (stackAddrs s.stack)) : Cov s'.out (stackAddrs s'.stack) := by
  unfold BState.compileFrom at h
  simp only [hst, take_split, drop_split, List.getLast?_concat, List.dropLast_concat] at h
  rw [hst] at hc
  cases popped with
  | nil =>
    have hl : top.last = none := hwf
    simp only [BState.compileTail] at h
    cases h
    have hfz : top.freeze NONE_ADDRESS = top.node := by simp [UNode.freeze, hl]
    simp only [hfz]
    simpa [stackAddrs, uAddrs] using hc
  | cons v rest =>
    obtain ⟨hsome, hwf'⟩ := WFStack_cons_cons.mp hwf
    have hshape' : ∀ w ∈ v :: rest, UShape w := fun w hw => hshape w (List.mem_cons_of_mem _ hw)
    have haddr' : ∀ w ∈ v :: rest, UAddr s w := fun w hw => haddr w (List.mem_cons_of_mem _ hw)
    obtain ⟨s1, a1, i1, i2, i3, _, _, _, i7, i8⟩ := compileTail_spec (v :: rest) s hinv hwf' hshape' haddr'
    rw [i1] at h
    cases h
    have hc1 := compileTail_cov (v :: rest) s s1 a1 i1 hinv hwf' hshape' haddr'
      (stackAddrs front ++ uAddrs top)
      (by simpa [stackAddrs, List.append_assoc] using hc)
    show Cov s1.out (stackAddrs (front ++ [⟨top.freeze a1, none⟩]))
    have : stackAddrs (front ++ [⟨top.freeze a1, none⟩]) = stackAddrs front ++ uAddrs top ++ [a1] := by
      rw [stackAddrs_append]
      simp only [stackAddrs, List.flatMap_cons, List.flatMap_nil, List.append_nil]
      show stackAddrs front ++ (top.freeze a1).trans.map (·.addr) = _
      rw [uAddrs_freeze_some a1 hsome, List.append_assoc]
      rfl
    rw [this]
    exact hc1

/-! the pure stack operations do not touch transition targets -/

theorem uAddrs_addPrefix (p : Nat) (v : UNode) : uAddrs (v.addPrefix p) = uAddrs v := by
  simp [uAddrs, UNode.addPrefix, List.map_map, Function.comp_def]

theorem uAddrs_pushed (o out : Nat) (v : UNode) : uAddrs (pushed o out v) = uAddrs v := by
  unfold pushed; split
  · exact uAddrs_addPrefix _ _
  · rfl

theorem stackAddrs_cps (key : Key) (stack : List UNode) (out : Nat) (hw : WFStack stack) :
    stackAddrs (cps stack key out).2.2 = stackAddrs stack := by
  revert hw
  refine cps_induct (motive := fun stack key out =>
    stackAddrs (cps stack key out).2.2 = stackAddrs stack) ?_ ?_ ?_ ?_ key stack out
  · intro stack out _; rw [cps_nil_key]
  · intro u key out _; rw [cps_single]
  · intro u v rest b bs out _ hl; rw [cps_stop _ _ _ _ _ _ hl]
  · intro u v rest b bs out o _ hl _ ih
    rw [cps_step _ _ _ _ _ _ _ hl]
    simp only [stackAddrs, List.flatMap_cons] at ih ⊢
    rw [ih, uAddrs_pushed]
    rfl

theorem stackAddrs_chain : ∀ bs : Key, stackAddrs (chain bs) = []
  | [] => rfl
  | b :: bs => by
    have := stackAddrs_chain bs
    simp only [stackAddrs, chain, List.flatMap_cons] at this ⊢
    rw [this]; rfl

theorem stackAddrs_setRootOutput (st : List UNode) (o : Nat) :
    stackAddrs (setRootOutput st o) = stackAddrs st := by
  cases st <;> rfl

/-- the invariant: every emitted node is reachable from a transition of the unfinished stack -/
def RInv (s : BState) : Prop := Cov s.out (stackAddrs s.stack)

theorem RInv_new (rows cols : Nat) : RInv (BState.new rows cols) := by
  intro e he; simp [BState.new] at he

theorem insertOutput_new_cov {s : BState} {acc : KV} (hc : Core s acc) (b : UInt8) (bt : Key)
    (out : Option Nat) (hlt : lexLt (pathKey s.stack) (b :: bt) = true) (hR : RInv s)
    {s' : BState} (h : s.insertOutput (b :: bt) out = .ok s') : RInv s' := by
  obtain ⟨i, rem, front, top, popped, s2, a, b2, bs', hcps, hflen, hcf, hs2, hdrop, hins⟩ :=
    insertOutput_new_steps hc b bt out hlt
  rw [hins] at h; cases h
  have hw1 := cps_wf (b :: bt) s.stack (out.getD 0) hc.wf
  have hshape1 := cps_forall UShape (fun u b o c hl h => UShape_setLast hl h)
    (fun v p h => UShape_addPrefix p h) (b :: bt) s.stack (out.getD 0) hc.wf hc.shape
  have haddr1 := cps_forall (UAddr s) (fun u b o c _ h => h)
    (fun v p h => UAddr_addPrefix p h) (b :: bt) s.stack (out.getD 0) hc.wf hc.addr
  have hsa := stackAddrs_cps (b :: bt) s.stack (out.getD 0) hc.wf
  rw [hcps] at hw1 hshape1 haddr1 hsa
  simp only at hw1 hshape1 haddr1 hsa
  have hmem : ∀ u, u ∈ front ∨ u ∈ top :: popped → u ∈ front ++ top :: popped := by
    intro u hu; simpa using hu
  obtain ⟨hfsome, hwtp⟩ := WFStack_append.mp hw1
  have hshape' : ∀ u ∈ top :: popped, UShape u := fun u hu => hshape1 u (hmem u (Or.inr hu))
  have haddr' : ∀ u ∈ top :: popped, UAddr s u := fun u hu => haddr1 u (hmem u (Or.inr hu))
  have hc2 := compileFrom_cov (s := { s with stack := front ++ top :: popped, len := s.len + 1 })
    hcf ⟨hc.sinv.out, hc.sinv.reg⟩ rfl hwtp hshape' haddr' (by
      show Cov s.out (stackAddrs (front ++ top :: popped))
      rw [hsa]; exact hR)
  show Cov s2.out (stackAddrs (front ++ ⟨top.freeze a, some (b2, rem)⟩ :: chain bs'))
  rw [hs2] at hc2
  have : stackAddrs (front ++ ⟨top.freeze a, some (b2, rem)⟩ :: chain bs')
      = stackAddrs (front ++ [⟨top.freeze a, none⟩]) := by
    rw [stackAddrs_append, stackAddrs_append]
    simp only [stackAddrs, List.flatMap_cons, List.flatMap_nil, List.append_nil]
    have := stackAddrs_chain bs'
    simp only [stackAddrs] at this
    rw [this, List.append_nil]
    rfl
  rw [this]
  exact hc2

theorem insertOutput_empty_cov {s : BState} (out : Option Nat) (hR : RInv s) {s' : BState}
    (h : s.insertOutput [] out = .ok s') : RInv s' := by
  have : s.insertOutput [] out = .ok { s with len := 1, stack := setRootOutput s.stack (out.getD 0) } := rfl
  rw [this] at h; cases h
  show Cov s.out (stackAddrs (setRootOutput s.stack (out.getD 0)))
  rw [stackAddrs_setRootOutput]
  exact hR

theorem insertOutput_dup_cov {s : BState} {acc : KV} (hc : Core s acc) (b : UInt8) (bt : Key)
    (out : Option Nat) (hv : out.getD 0 = 0) (hp : pathKey s.stack = b :: bt) (hR : RInv s)
    {s' : BState} (h : s.insertOutput (b :: bt) out = .ok s') : RInv s' := by
  rw [insertOutput_cons] at h
  have hidx := cps_index (b :: bt) s.stack (out.getD 0) hc.wf
  rw [hp, lcp_self] at hidx
  obtain ⟨_, p2, _⟩ := cps_path (b :: bt) s.stack (out.getD 0) hc.wf
  have hrem : (cps s.stack (b :: bt) (out.getD 0)).2.1 = 0 := by omega
  rw [if_pos hidx, hrem] at h
  simp only [ne_eq, not_true_eq_false, if_false] at h
  cases h
  show Cov s.out (stackAddrs (cps s.stack (b :: bt) (out.getD 0)).2.2)
  rw [stackAddrs_cps _ _ _ hc.wf]
  exact hR

theorem insert_cov {s s' : BState} {acc : KV} (h : Inv s acc) (hR : RInv s) {k : Key} {v : Nat}
    (hi : s.insert k v = .ok s') : RInv s' := by
  have hlt := insert_ok_lt hi
  have hck : s.checkLastKey k true = .ok { s with last := some k } := by
    cases hl : s.last with
    | none => exact checkLastKey_none k true hl
    | some last => rw [checkLastKey_map k hl, if_pos (hlt last hl)]
  unfold BState.insert at hi
  rw [hck] at hi
  have hcore := Core_setLast h.core (some k)
  cases k with
  | nil => exact insertOutput_empty_cov (s := { s with last := some [] }) (some v) hR hi
  | cons b bt =>
    have hp : lexLt (pathKey s.stack) (b :: bt) = true := by
      rw [h.path]
      cases hl : s.last with
      | none => rfl
      | some last => exact hlt last hl
    exact insertOutput_new_cov hcore b bt (some v) hp hR hi

theorem add_cov {s s' : BState} {acc : KV} (h : Inv s acc) (hR : RInv s) {k : Key}
    (ha : s.add k = .ok s') : RInv s' := by
  have hle := add_ok_le ha
  have hck : s.checkLastKey k false = .ok { s with last := some k } := by
    cases hl : s.last with
    | none => exact checkLastKey_none k false hl
    | some last => rw [checkLastKey_set k hl, if_pos (hle last hl)]
  unfold BState.add at ha
  rw [hck] at ha
  have hcore := Core_setLast h.core (some k)
  cases k with
  | nil => exact insertOutput_empty_cov (s := { s with last := some [] }) none hR ha
  | cons b bt =>
    by_cases hdup : s.last = some (b :: bt)
    · have hp : pathKey s.stack = b :: bt := by rw [h.path, hdup]; rfl
      exact insertOutput_dup_cov hcore b bt none rfl hp hR ha
    · have hp : lexLt (pathKey s.stack) (b :: bt) = true := by
        rw [h.path]
        cases hl : s.last with
        | none => rfl
        | some last =>
          rcases BuildP.lexLe_iff.mp (hle last hl) with h1 | h1
          · exact h1
          · subst h1; exact absurd hl hdup
      exact insertOutput_new_cov hcore b bt none hp hR ha

/-- every state between public calls -/
theorem reachable_RInv {s : BState} (h : Reachable s) : RInv s := by
  induction h with
  | new rows cols => exact RInv_new rows cols
  | insert k v hr hi ih =>
    obtain ⟨acc, hinv⟩ := reachable_inv hr
    exact insert_cov hinv ih hi
  | add k hr ha ih =>
    obtain ⟨acc, hinv⟩ := reachable_inv hr
    exact add_cov hinv ih ha

/-- after `finish`, every emitted node is reachable from the root -/
theorem finish_cov {s s' : BState} {acc : KV} {root : Nat} (h : Core s acc) (hR : RInv s)
    (hf : s.finish = .ok (s', root)) : ∀ e ∈ s'.out, ReachFrom (rstore s'.out) root e.addr := by
  obtain ⟨top, popped, hst⟩ : ∃ top popped, s.stack = top :: popped := by
    cases hs : s.stack with
    | nil => have := h.wf; rw [hs] at this; exact absurd this id
    | cons t p => exact ⟨t, p, rfl⟩
  have hwf : WFStack (top :: popped) := hst ▸ h.wf
  have hshape : ∀ u ∈ top :: popped, UShape u := fun u hu => h.shape u (hst ▸ hu)
  have haddr : ∀ u ∈ top :: popped, UAddr s u := fun u hu => h.addr u (hst ▸ hu)
  obtain ⟨s1, a, c1, c2, c3, c4, c5, c6, c7, c8⟩ :=
    compileFrom_spec (s := s) (front := []) (popped := popped) (top := top) h.sinv (by simpa using hst)
      hwf hshape haddr
  have hc1 := compileFrom_cov (front := []) c1 h.sinv (by simpa using hst) hwf hshape haddr hR
  unfold BState.finish at hf
  simp only [List.length_nil] at c1
  rw [c1] at hf
  simp only [c4, List.nil_append, Option.isSome_none, Bool.false_eq_true, if_false] at hf
  rw [c4] at hc1
  have := compile_cov hf c2 [] (by simpa [stackAddrs, uAddrs] using hc1)
  intro e he
  obtain ⟨r, hr, h1⟩ := this e he
  have : r = root := by simpa using hr
  exact this ▸ h1

/-! ### L. the emitted chunks are a laid-out store -/

theorem flatten_flatMap_chunks (l : List Emit) :
    (l.flatMap (·.chunks)).flatten = l.flatMap fun e => e.chunks.flatten := by
  induction l with
  | nil => rfl
  | cons e l ih => simp [ih]

theorem layoutF_laid : ∀ (es : List Emit) (start last : Nat), LayoutF start last es →
    (∀ e ∈ es, e.node.trans.length ≤ 256 ∧ SortedInputs e.node ∧ isEmptyFinal e.node = false ∧
      (e.node.fin = false → e.node.fout = 0)) →
    (∀ e ∈ es, e.node.fout < 2 ^ 64 ∧ ∀ t ∈ e.node.trans, t.out < 2 ^ 64) →
    start + totalSize es ≤ 2 ^ 64 → 0 < start →
    (last = start - 1 ∨ ∀ e ∈ es, ∀ t ∈ e.node.trans, t.addr ≠ last) →
    Laid 3 start (es.map fun e => (e.addr, e.node, e.chunks.flatten))
  | [], _, _, _, _, _, _, _, _ => trivial
  | e :: rest, start, last, hl, hshape, hvals, hsz, hpos, hnext => by
    obtain ⟨l1, l2, l3, l4, l5⟩ := hl
    obtain ⟨f1, f2⟩ := compileNodeC_flatten_some l1
    obtain ⟨s1, s2, s3, s4⟩ := hshape e List.mem_cons_self
    have hsize : e.size = e.chunks.flatten.length := f2
    simp only [totalSize, List.map_cons, List.sum_cons] at hsz
    refine ⟨⟨last, ?_, f1⟩, ?_, Or.inl (by decide), ?_⟩
    · exact { ntrans := s1, sorted := s2, targets := fun t ht => Or.inr (l4 t ht),
              outs := hvals e List.mem_cons_self, small := by omega, pos := hpos, notEmpty := s3,
              finOut := s4,
              next := by
                rcases hnext with h | h
                · exact Or.inl h
                · exact Or.inr (h e List.mem_cons_self) }
    · show e.addr = start + e.chunks.flatten.length - 1
      rw [← hsize]; exact l3
    · show Laid 3 (start + e.chunks.flatten.length) (rest.map _)
      rw [← hsize]
      exact layoutF_laid rest (start + e.size) e.addr l5
        (fun e' he' => hshape e' (List.mem_cons_of_mem _ he'))
        (fun e' he' => hvals e' (List.mem_cons_of_mem _ he'))
        (by simp only [totalSize]; omega) (by omega) (Or.inl (by omega))

/-- the emitted nodes of a builder state, oldest first, with their bytes -/
def emitsOf (s : BState) : Emits := s.out.reverse.map fun e => (e.addr, e.node, e.chunks.flatten)

theorem emitsOf_store (s : BState) : ((emitsOf s).map fun e => (e.1, e.2.1)) = storeOf s := by
  simp [emitsOf, storeOf, List.map_map, Function.comp_def]

theorem flatMap_triple (l : List Emit) :
    (l.map fun e => (e.addr, e.node, e.chunks.flatten)).flatMap (·.2.2)
      = l.flatMap fun e => e.chunks.flatten := by
  induction l with
  | nil => rfl
  | cons e l ih => simp [ih]

theorem emitsOf_body (s : BState) :
    (emitsOf s).flatMap (·.2.2) = (s.out.reverse.flatMap (·.chunks)).flatten := by
  rw [flatten_flatMap_chunks, emitsOf, flatMap_triple]

theorem length_chunks (l : List Emit) :
    (l.flatMap fun e => e.chunks.flatten).length = totalSize l := by
  induction l with
  | nil => rfl
  | cons e l ih =>
    simp only [List.flatMap_cons, List.length_append, ih, totalSize, List.map_cons, List.sum_cons,
      Emit.size, List.length_flatten]

theorem totalSize_reverse (l : List Emit) : totalSize l.reverse = totalSize l := by
  simp [totalSize, List.map_reverse, List.sum_reverse]

theorem layout_laid {s : BState} (hL : Layout s) (hcount : s.count ≤ 2 ^ 64)
    (hvals : ∀ e ∈ s.out, e.node.fout < 2 ^ 64 ∧ ∀ t ∈ e.node.trans, t.out < 2 ^ 64) :
    Laid 3 16 (emitsOf s) := by
  have hts := totalSize_reverse s.out
  refine layoutF_laid s.out.reverse 16 NONE_ADDRESS hL.nodes
    (fun e he => hL.shape e (List.mem_reverse.mp he))
    (fun e he => hvals e (List.mem_reverse.mp he))
    (by rw [hts, ← hL.count]; exact hcount) (by decide) (Or.inr ?_)
  intro e he t ht
  have he' := List.mem_reverse.mp he
  rcases (hL.targets e he' t ht).2 with h0 | ⟨e', he2, ha, _⟩
  · rw [h0]; decide
  · have := (hL.range e' he2).1
    rw [← ha]; simp only [NONE_ADDRESS]; omega

end SpecP
open SpecP

/-! ### M. the file written by the builder, read by the format description -/

/-- after `finish`, every emitted node is reachable from the root address -/
theorem finish_reach {s s' : BState} {root : Nat} (hr : Reachable s) (hf : s.finish = .ok (s', root)) :
    ∀ e ∈ s'.out, ReachFrom (storeOf s') root e.addr := by
  obtain ⟨acc, hinv⟩ := reachable_inv hr
  intro e he
  exact ReachFrom.mono (fun p hp => mem_storeOf.mpr hp) (finish_cov hinv.core (reachable_RInv hr) hf e he)

/-- **C09 end to end.** The complete file bytes produced by the model builder from a reachable
state spelling `acc` (all stored outputs `≤ M < 2^64`, file no longer than `2^64` bytes), read by
the parser written from the format description alone: version 3, the given type, the number
of keys, exactly the inserted map, every node parsed under the documented layouts with
transitions to earlier nodes or the sentinel, and the node extents tile the body. -/
theorem spec_parseFst_fileBytes {s : BState} {acc : KV} (hr : Reachable s) (hinv : Inv s acc)
    {M : Nat} (hB : InvB M s) (hM : M < 2 ^ 64) (ty : Nat) (hty : ty < 2 ^ 64)
    (bytes : List UInt8) (hfile : s.fileBytes ty = .ok bytes) (hsz : bytes.length ≤ 2 ^ 64)
    (hlen : acc.length < 2 ^ 64) :
    Spec.parseFst bytes = some ⟨3, ty, acc.length, acc, true⟩ := by
  obtain ⟨s', root, f1, f2, _, f4, f5, f6⟩ := finish_spec hinv.core
  have hL := layout_of_SInv f2
  have hbound := finish_bound hinv.core hB f1
  have hvals : ∀ e ∈ s'.out, e.node.fout < 2 ^ 64 ∧ ∀ t ∈ e.node.trans, t.out < 2 ^ 64 := by
    intro e he
    obtain ⟨b1, b2⟩ := hbound e he
    exact ⟨Nat.lt_of_le_of_lt b1 hM, fun t ht => Nat.lt_of_le_of_lt (b2 t ht) hM⟩
  unfold BState.fileBytes at hfile
  rw [f1] at hfile
  simp only [Except.ok.injEq] at hfile
  have hbody : (s'.bodyChunks ty root).flatten
      = u64le 3 ++ u64le ty ++ (emitsOf s').flatMap (·.2.2) ++ u64le s'.len ++ u64le root := by
    rw [emitsOf_body]
    simp [BState.bodyChunks, headerChunks, footerChunks, VERSION, show Gen.VERSION = 3 from rfl]
  rw [hbody] at hfile
  subst hfile
  have hcount : s'.count ≤ 2 ^ 64 := by
    have h1 := hL.count
    have hts : ((emitsOf s').flatMap (·.2.2)).length = totalSize s'.out := by
      rw [emitsOf_body, flatten_flatMap_chunks, length_chunks, totalSize_reverse]
    simp only [List.length_append, u64le, u32le, packIn_length] at hsz
    omega
  have hlaid := layout_laid hL hcount hvals
  have hgood : GoodStore ((emitsOf s').map fun e => (e.1, e.2.1)) (denOf (storeOf s')) := by
    rw [emitsOf_store]; exact hL.good
  have hin : root = 0 ∨ ∃ e ∈ emitsOf s', e.1 = root := by
    rcases f4.2 with h0 | ⟨n, hn⟩
    · exact Or.inl h0
    · simp only [rstore, List.mem_map, Prod.mk.injEq] at hn
      obtain ⟨e, he, ha, _⟩ := hn
      exact Or.inr ⟨(e.addr, e.node, e.chunks.flatten),
        List.mem_map.mpr ⟨e, List.mem_reverse.mpr he, rfl⟩, ha⟩
  have hreach : ∀ e ∈ emitsOf s', ReachFrom ((emitsOf s').map fun e => (e.1, e.2.1)) root e.1 := by
    intro e he
    rw [emitsOf_store]
    obtain ⟨e0, he0, rfl⟩ := List.mem_map.mp he
    exact finish_reach hr f1 e0 (List.mem_reverse.mp he0)
  have := spec_parseFst_reach (emitsOf s') (denOf (storeOf s')) hlaid hgood ty s'.len root
    (maskedSum (crc32cSlice16 0 (u64le 3 ++ u64le ty ++ (emitsOf s').flatMap (·.2.2) ++ u64le s'.len
      ++ u64le root))).toNat hty (by rw [f6, hinv.core.len]; exact hlen)
    (by have := f4.1; omega) hin hreach
  rw [this, denOf_storeOf, f5, f6, hinv.core.len]

/-- map mode, from an empty builder: the file of a sorted association list parses back to it -/
theorem spec_parseFst_build (rows cols : Nat) (kvs : KV) (h : SortedKV kvs) (M : Nat)
    (hM : ∀ kv ∈ kvs, kv.2 ≤ M) (hM64 : M < 2 ^ 64) (ty : Nat) (hty : ty < 2 ^ 64)
    (hlen : kvs.length < 2 ^ 64) :
    ∃ s bytes, insertAll (BState.new rows cols) kvs = .ok s ∧ s.fileBytes ty = .ok bytes ∧
      (bytes.length ≤ 2 ^ 64 → Spec.parseFst bytes = some ⟨3, ty, kvs.length, kvs, true⟩) := by
  obtain ⟨s, e1, i1⟩ := insertAll_inv kvs (BState.new rows cols) [] (Inv_new rows cols)
    (sortedAfter_none h)
  simp only [List.nil_append] at i1
  have hr := reachable_insertAll kvs (Reachable.new rows cols) e1
  have hB := insertAll_bound kvs _ s [] (Inv_new rows cols) (InvB_new M rows cols) hM e1
  obtain ⟨s', root, f1, _⟩ := finish_spec i1.core
  have hfile : ∃ bytes, s.fileBytes ty = .ok bytes := by simp [BState.fileBytes, f1]
  obtain ⟨bytes, hb⟩ := hfile
  exact ⟨s, bytes, e1, hb, fun hsz => spec_parseFst_fileBytes hr i1 hB hM64 ty hty bytes hb hsz hlen⟩

/-- set mode, from an empty builder: the file of a non-decreasing key list parses back to its
distinct keys, all with value 0 -/
theorem spec_parseFst_build_set (rows cols : Nat) (ks : List Key) (h : SortedKeysLe ks)
    (ty : Nat) (hty : ty < 2 ^ 64) (hlen : (dedupKeys ks).length < 2 ^ 64) :
    ∃ s bytes, addAll (BState.new rows cols) ks = .ok s ∧ s.fileBytes ty = .ok bytes ∧
      (bytes.length ≤ 2 ^ 64 →
        Spec.parseFst bytes = some ⟨3, ty, (dedupKeys ks).length, zeroKV (dedupKeys ks), true⟩) := by
  obtain ⟨s, e1, i1⟩ := addAll_inv ks (BState.new rows cols) [] (Inv_new rows cols)
    (by intro kv hkv; simp at hkv) (leAfter_none h)
  simp only [List.nil_append] at i1
  have hr := reachable_addAll ks (Reachable.new rows cols) e1
  have hB := addAll_bound (M := 0) ks _ s (Reachable.new rows cols) (InvB_new 0 rows cols) e1
  obtain ⟨s', root, f1, _⟩ := finish_spec i1.core
  have hfile : ∃ bytes, s.fileBytes ty = .ok bytes := by simp [BState.fileBytes, f1]
  obtain ⟨bytes, hb⟩ := hfile
  have hz : (zeroKV (dedupAfter (BState.new rows cols).last ks)).length = (dedupKeys ks).length := by
    simp [zeroKV, dedupKeys, BState.new]
  refine ⟨s, bytes, e1, hb, fun hsz => ?_⟩
  have := spec_parseFst_fileBytes hr i1 hB (by decide) ty hty bytes hb hsz (by rw [hz]; exact hlen)
  rw [this, hz]
  rfl

/-! examples: the hypotheses are satisfiable -/

example : SortedKV [([], 7), ([1], 5), ([1, 2], 3), ([1, 3], 9), ([2, 3], 1)] ∧
    (∀ kv ∈ ([([], 7), ([1], 5), ([1, 2], 3), ([1, 3], 9), ([2, 3], 1)] : KV), kv.2 ≤ 9) ∧
    (9 : Nat) < 2 ^ 64 := ⟨by simp [SortedKV, lexLt], by decide, by decide⟩

example : ∃ s bytes, insertAll (BState.new 4 2) [([97], 5)] = .ok s ∧ s.fileBytes 7 = .ok bytes ∧
    (bytes.length ≤ 2 ^ 64 → Spec.parseFst bytes = some ⟨3, 7, 1, [([97], 5)], true⟩) :=
  spec_parseFst_build 4 2 [([97], 5)] (by simp [SortedKV]) 5 (by decide) (by decide) 7 (by decide)
    (by decide)

end Fst
