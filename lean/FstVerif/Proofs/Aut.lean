import FstVerif.Model.Aut
/-
Proofs for C18 (and the contract lemmas of C04): languages of the built-in
automata and combinators, soundness of the pruning hints. Arbitrary component
automata over arbitrary state types.
-/
namespace Fst

variable {σ τ : Type}

/-- both hint clauses of the `Automaton` contract, for every state -/
def HintsSound (A : Aut σ) : Prop :=
  (∀ s, A.canMatch s = false → ∀ w, A.isMatch (A.run s w) = false) ∧
  (∀ s, A.willAlwaysMatch s = true → ∀ w, A.isMatch (A.run s w) = true)

theorem run_nil (A : Aut σ) (s : σ) : A.run s [] = s := rfl
theorem run_cons (A : Aut σ) (s : σ) (b : UInt8) (w : Key) :
    A.run s (b :: w) = A.run (A.accept s b) w := rfl
theorem run_append (A : Aut σ) (s : σ) (u w : Key) : A.run s (u ++ w) = A.run (A.run s u) w := by
  simp [Aut.run, List.foldl_append]

/-! ### product automata -/

theorem union_run (A : Aut σ) (B : Aut τ) (s : σ × τ) (w : Key) :
    (autUnion A B).run s w = (A.run s.1 w, B.run s.2 w) := by
  induction w generalizing s with
  | nil => rfl
  | cons b w ih => simp only [run_cons]; rw [ih]; rfl

theorem inter_run (A : Aut σ) (B : Aut τ) (s : σ × τ) (w : Key) :
    (autInter A B).run s w = (A.run s.1 w, B.run s.2 w) := by
  induction w generalizing s with
  | nil => rfl
  | cons b w ih => simp only [run_cons]; rw [ih]; rfl

theorem compl_run (A : Aut σ) (s : σ) (w : Key) : (autCompl A).run s w = A.run s w := by
  induction w generalizing s with
  | nil => rfl
  | cons b w ih => simp only [run_cons]; rw [ih]; rfl

/-- Union accepts exactly the union of the languages -/
theorem C18_union (A : Aut σ) (B : Aut τ) (w : Key) :
    (autUnion A B).accepts w = (A.accepts w || B.accepts w) := by
  simp [Aut.accepts, union_run]; rfl

/-- Intersection accepts exactly the intersection -/
theorem C18_inter (A : Aut σ) (B : Aut τ) (w : Key) :
    (autInter A B).accepts w = (A.accepts w && B.accepts w) := by
  simp [Aut.accepts, inter_run]; rfl

/-- Complement accepts exactly the complement -/
theorem C18_compl (A : Aut σ) (w : Key) : (autCompl A).accepts w = !A.accepts w := by
  simp [Aut.accepts, compl_run]; rfl

/-- AlwaysMatch accepts everything -/
theorem C18_always (w : Key) : autAlways.accepts w = true := rfl

theorem C18_hints_union (A : Aut σ) (B : Aut τ) (hA : HintsSound A) (hB : HintsSound B) :
    HintsSound (autUnion A B) := by
  constructor
  · intro s h w
    have h' : (A.canMatch s.1 || B.canMatch s.2) = false := h
    rw [Bool.or_eq_false_iff] at h'
    rw [union_run]
    show (A.isMatch _ || B.isMatch _) = false
    rw [hA.1 _ h'.1 w, hB.1 _ h'.2 w]; rfl
  · intro s h w
    have h' : (A.willAlwaysMatch s.1 || B.willAlwaysMatch s.2) = true := h
    rw [union_run]
    show (A.isMatch _ || B.isMatch _) = true
    rw [Bool.or_eq_true] at h' ⊢
    cases h' with
    | inl h1 => exact Or.inl (hA.2 _ h1 w)
    | inr h2 => exact Or.inr (hB.2 _ h2 w)

theorem C18_hints_inter (A : Aut σ) (B : Aut τ) (hA : HintsSound A) (hB : HintsSound B) :
    HintsSound (autInter A B) := by
  constructor
  · intro s h w
    have h' : (A.canMatch s.1 && B.canMatch s.2) = false := h
    rw [inter_run]
    show (A.isMatch _ && B.isMatch _) = false
    rw [Bool.and_eq_false_iff] at h' ⊢
    cases h' with
    | inl h1 => exact Or.inl (hA.1 _ h1 w)
    | inr h2 => exact Or.inr (hB.1 _ h2 w)
  · intro s h w
    have h' : (A.willAlwaysMatch s.1 && B.willAlwaysMatch s.2) = true := h
    rw [Bool.and_eq_true] at h'
    rw [inter_run]
    show (A.isMatch _ && B.isMatch _) = true
    rw [hA.2 _ h'.1 w, hB.2 _ h'.2 w]; rfl

theorem C18_hints_compl (A : Aut σ) (hA : HintsSound A) : HintsSound (autCompl A) := by
  constructor
  · intro s h w
    have h' : (!A.willAlwaysMatch s) = false := h
    rw [compl_run]
    show (!A.isMatch _) = false
    rw [hA.2 s (by simpa using h') w]; rfl
  · intro s h w
    have h' : (!A.canMatch s) = true := h
    rw [compl_run]
    show (!A.isMatch _) = true
    rw [hA.1 s (by simpa using h') w]; rfl

theorem C18_hints_always : HintsSound autAlways :=
  ⟨fun _ h _ => (by cases h), fun _ _ _ => rfl⟩

/-! ### StartsWith -/

/-- some prefix of `w` (possibly empty or all of it) is accepted from state `s` -/
def somePrefix (A : Aut σ) (s : σ) : Key → Bool
  | [] => A.isMatch s
  | b :: w => A.isMatch s || somePrefix A (A.accept s b) w

theorem sw_done_run (A : Aut σ) (w : Key) : (autStartsWith A).run .done w = .done := by
  induction w with
  | nil => rfl
  | cons b w ih => simp only [run_cons]; exact ih

/-- from a running state whose inner state does not match yet -/
theorem sw_running (A : Aut σ) (s : σ) (w : Key) (h : A.isMatch s = false) :
    (autStartsWith A).isMatch ((autStartsWith A).run (.running s) w) = somePrefix A s w := by
  induction w generalizing s with
  | nil => simp [run_nil, somePrefix, h]; rfl
  | cons b w ih =>
    simp only [run_cons, somePrefix, h, Bool.false_or]
    show (autStartsWith A).isMatch ((autStartsWith A).run
      (if A.isMatch (A.accept s b) then SW.done else SW.running (A.accept s b)) w) = _
    by_cases hm : A.isMatch (A.accept s b) = true
    · rw [if_pos hm, sw_done_run]
      cases w <;> simp [somePrefix, hm] <;> rfl
    · have hm' : A.isMatch (A.accept s b) = false := by simpa using hm
      rw [if_neg hm]
      exact ih _ hm'

/-- StartsWith(A) accepts exactly the strings having a prefix accepted by A -/
theorem C18_startswith (A : Aut σ) (w : Key) :
    (autStartsWith A).accepts w = somePrefix A A.start w := by
  unfold Aut.accepts
  show (autStartsWith A).isMatch ((autStartsWith A).run
    (if A.isMatch A.start then SW.done else SW.running A.start) w) = _
  by_cases hm : A.isMatch A.start = true
  · rw [if_pos hm, sw_done_run]
    cases w <;> simp [somePrefix, hm] <;> rfl
  · have hm' : A.isMatch A.start = false := by simpa using hm
    rw [if_neg hm]
    exact sw_running A _ w hm'

theorem somePrefix_false_of_nomatch (A : Aut σ) : ∀ (u : Key) (t : σ),
    (∀ v, A.isMatch (A.run t v) = false) → somePrefix A t u = false := by
  intro u
  induction u with
  | nil => intro t ht; exact ht []
  | cons d u ihu =>
    intro t ht
    have h0 : A.isMatch t = false := ht []
    simp only [somePrefix, h0, Bool.false_or]
    exact ihu _ (fun v => ht (d :: v))

theorem somePrefix_false_of_cannot (A : Aut σ) (hA : HintsSound A) (s : σ) (h : A.canMatch s = false) :
    ∀ w, somePrefix A s w = false :=
  fun w => somePrefix_false_of_nomatch A w s (hA.1 s h)

theorem C18_hints_startswith (A : Aut σ) (hA : HintsSound A) : HintsSound (autStartsWith A) := by
  constructor
  · intro s h w
    cases s with
    | done => cases h
    | running i =>
      have hc : A.canMatch i = false := h
      have h0 : A.isMatch i = false := hA.1 i hc []
      rw [sw_running A i w h0]
      exact somePrefix_false_of_cannot A hA i hc w
  · intro s h w
    cases s with
    | done => rw [sw_done_run]; rfl
    | running i => cases h

/-! ### Str and Subsequence -/

theorem str_dead (s : Key) (w : Key) : (autStr s).run none w = none := by
  induction w with
  | nil => rfl
  | cons b w ih => simp only [run_cons]; exact ih

/-- from position `p`, the automaton ends in `some s.length` iff the rest of `s` is exactly `w` -/
theorem str_run (s : Key) : ∀ (w : Key) (p : Nat), p ≤ s.length →
    ((autStr s).run (some p) w = some s.length ↔ s.drop p = w) := by
  intro w
  induction w with
  | nil =>
    intro p hp
    simp only [run_nil, Option.some.injEq]
    constructor
    · intro h; subst h; simp
    · intro h
      have := congrArg List.length h
      simp at this; omega
  | cons b w ih =>
    intro p hp
    simp only [run_cons]
    show (autStr s).run (if s[p]? == some b then some (p + 1) else none) w = some s.length ↔ _
    by_cases hb : s[p]? = some b
    · have hlt : p < s.length := by
        rcases Nat.lt_or_ge p s.length with h | h
        · exact h
        · rw [List.getElem?_eq_none h] at hb; cases hb
      simp only [hb, beq_self_eq_true, ite_true]
      rw [ih (p + 1) (by omega)]
      have hd : s.drop p = b :: s.drop (p + 1) := by
        rw [List.drop_eq_getElem_cons hlt]
        congr 1
        rw [List.getElem?_eq_getElem hlt] at hb
        exact Option.some.inj hb
      rw [hd]
      constructor
      · intro h; rw [h]
      · intro h; exact (List.cons.inj h).2
    · have : (s[p]? == some b) = false := by simpa using hb
      simp only [this]
      rw [show (if false = true then some (p + 1) else none : Option Nat) = none from rfl, str_dead]
      constructor
      · intro h; cases h
      · intro h
        exfalso
        apply hb
        have hlt : p < s.length := by
          have := congrArg List.length h
          simp at this; omega
        rw [List.drop_eq_getElem_cons hlt] at h
        rw [List.getElem?_eq_getElem hlt, (List.cons.inj h).1]

/-- Str accepts exactly its string -/
theorem C18_str (s w : Key) : (autStr s).accepts w = true ↔ w = s := by
  unfold Aut.accepts
  show ((autStr s).run (some 0) w == some s.length) = true ↔ _
  rw [beq_iff_eq, str_run s w 0 (Nat.zero_le _)]
  simp [eq_comm]

theorem C18_hints_str (s : Key) : HintsSound (autStr s) := by
  constructor
  · intro st h w
    cases st with
    | none => rw [str_dead]; rfl
    | some p => cases h
  · intro st h; cases h

/-- `pat` is a subsequence of `w` -/
def isSubseq : Key → Key → Bool
  | [], _ => true
  | _ :: _, [] => false
  | p :: ps, b :: w => if p = b then isSubseq ps w else isSubseq (p :: ps) w

theorem subseq_full (s : Key) (w : Key) : (autSubseq s).run s.length w = s.length := by
  induction w with
  | nil => rfl
  | cons b w ih =>
    simp only [run_cons]
    show (autSubseq s).run (if (s.length == s.length) = true then s.length else _) w = _
    simp [ih]

theorem subseq_run (s : Key) : ∀ (w : Key) (st : Nat), st ≤ s.length →
    (((autSubseq s).run st w == s.length) = isSubseq (s.drop st) w) := by
  intro w
  induction w with
  | nil =>
    intro st hst
    simp only [run_nil]
    rcases Nat.lt_or_ge st s.length with h | h
    · rw [List.drop_eq_getElem_cons h]
      simp [isSubseq]; omega
    · have : st = s.length := by omega
      subst this; simp [isSubseq]
  | cons b w ih =>
    intro st hst
    simp only [run_cons]
    rcases Nat.lt_or_ge st s.length with h | h
    · have hne : (st == s.length) = false := by simp; omega
      show ((autSubseq s).run (if (st == s.length) = true then st else st + (if s[st]? == some b then 1 else 0)) w == s.length) = _
      rw [hne]
      simp only [Bool.false_eq_true, ite_false]
      rw [List.drop_eq_getElem_cons h, List.getElem?_eq_getElem h]
      by_cases hb : s[st] = b
      · simp only [hb, beq_self_eq_true, ite_true, isSubseq]
        rw [ih (st + 1) (by omega)]
      · have : (some s[st] == some b) = false := by simpa using hb
        simp only [this, Bool.false_eq_true, ite_false, Nat.add_zero, isSubseq, hb]
        rw [ih st hst, List.drop_eq_getElem_cons h]
    · have : st = s.length := by omega
      subst this
      rw [show (autSubseq s).accept s.length b = s.length from by
        show (if (s.length == s.length) = true then s.length else _) = _; simp]
      rw [subseq_full]; simp [isSubseq]

/-- Subsequence accepts exactly the strings containing its pattern as a subsequence -/
theorem C18_subseq (s w : Key) : (autSubseq s).accepts w = isSubseq s w := by
  unfold Aut.accepts
  show ((autSubseq s).run 0 w == s.length) = _
  rw [subseq_run s w 0 (Nat.zero_le _)]; simp

theorem C18_hints_subseq (s : Key) : HintsSound (autSubseq s) := by
  constructor
  · intro st h; cases h
  · intro st h w
    have : st = s.length := by
      have : (st == s.length) = true := h
      simpa using this
    subst this
    rw [subseq_full]
    show (s.length == s.length) = true
    simp

/-- the hypotheses are satisfiable: a concrete composed automaton with sound hints -/
example : HintsSound (autUnion (autStr [97, 98]) (autCompl (autStartsWith (autSubseq [97])))) :=
  C18_hints_union _ _ (C18_hints_str _) (C18_hints_compl _ (C18_hints_startswith _ (C18_hints_subseq _)))

example : (autUnion (autStr [97, 98]) (autCompl (autSubseq [97]))).accepts [97, 98] = true := by decide

end Fst
