import FstVerif.Model.Glue
import FstVerif.Proofs.Frontends
import FstVerif.Proofs.Open
import FstVerif.Proofs.Sink
/-
The glue around the modelled core (`Model/Glue.lean`), for unbounded lists and states:
`resume` (a by-reference iterator handed to `extend_iter` again and again) loses nothing but
the rejected items; `IOB.extend` (a batch call over a sink) stops at the first call that does
not return `Ok` and a failing response of the sink surfaces as `Err(Io)`; `map_data` opens the
new bytes afresh; what the lines of the input files of `fst set` stand for.
-/
namespace Fst.Glue
open Fst
open Fst.SinkProofs (Bad Benign errOf)

/-- (for the `decide`d examples only) -/
local instance exceptDecEq {ε α : Type} [DecidableEq ε] [DecidableEq α] : DecidableEq (Except ε α)
  | .ok a, .ok b => if h : a = b then isTrue (by rw [h]) else isFalse (fun h' => h (by cases h'; rfl))
  | .error a, .error b => if h : a = b then isTrue (by rw [h]) else isFalse (fun h' => h (by cases h'; rfl))
  | .ok _, .error _ => isFalse (fun h => by cases h)
  | .error _, .ok _ => isFalse (fun h => by cases h)

/-! ### 1. `BState.resume` -/

/-- one single `insert`/`add` call whose error is ignored: a rejected call leaves the state alone -/
def step (st : BState) (c : BCall) : BState :=
  match st.call c with
  | .ok st' => st'
  | .error _ => st

/-- the errors of exactly those calls that are rejected when the calls are made one by one
(ignoring errors) from `s`, in order -/
def rejections : BState → List BCall → List (Except BErr Unit)
  | _, [] => []
  | s, c :: rest =>
    match s.call c with
    | .error e => .error e :: rejections s rest
    | .ok s' => rejections s' rest

theorem step_ok {s s' : BState} {c : BCall} (h : s.call c = .ok s') : step s c = s' := by
  simp [step, h]

theorem step_error {s : BState} {c : BCall} {e : BErr} (h : s.call c = .error e) : step s c = s := by
  simp [step, h]

theorem step_ins (s : BState) (k : Key) (v : Nat) :
    step s (.ins k v) = match s.insert k v with | .ok s' => s' | .error _ => s := rfl

theorem step_add (s : BState) (k : Key) :
    step s (.add k) = match s.add k with | .ok s' => s' | .error _ => s := rfl

/-- `rejections` in terms of `step`: the head contributes its error if it is rejected, and the
remaining calls are made from `step s c` -/
theorem rejections_cons (s : BState) (c : BCall) (rest : List BCall) :
    rejections s (c :: rest) =
      (match s.call c with | .error e => [.error e] | .ok _ => []) ++ rejections (step s c) rest := by
  cases h : s.call c <;> simp [rejections, step, h]

theorem rejections_append (s : BState) (a b : List BCall) :
    rejections s (a ++ b) = rejections s a ++ rejections (a.foldl step s) b := by
  induction a generalizing s with
  | nil => rfl
  | cons c rest ih =>
    cases h : s.call c with
    | error e => simp [rejections, h, step_error h, ih]
    | ok s' => simp [rejections, h, step_ok h, ih]

/-- every entry of `rejections` is an error -/
theorem rejections_all_error (s : BState) (calls : List BCall) :
    ∀ r ∈ rejections s calls, ∃ e, r = .error e := by
  induction calls generalizing s with
  | nil => intro r h; cases h
  | cons c rest ih =>
    cases h : s.call c with
    | error e =>
      simp only [rejections, h, List.mem_cons]
      rintro r (rfl | hr)
      · exact ⟨e, rfl⟩
      · exact ih s r hr
    | ok s' => simp only [rejections, h]; exact ih s'

/-- no more rejections than calls -/
theorem rejections_length_le (s : BState) (calls : List BCall) :
    (rejections s calls).length ≤ calls.length := by
  induction calls generalizing s with
  | nil => simp [rejections]
  | cons c rest ih =>
    cases h : s.call c with
    | error e => simp only [rejections, h, List.length_cons]; have := ih s; omega
    | ok s' => simp only [rejections, h, List.length_cons]; have := ih s'; omega

/-- the general-accumulator form -/
theorem resume_acc (s : BState) (calls : List BCall) (acc : List (Except BErr Unit)) :
    s.resume calls acc = (calls.foldl step s, acc.reverse ++ rejections s calls ++ [.ok ()]) := by
  induction calls generalizing s acc with
  | nil => simp [BState.resume, rejections]
  | cons c rest ih =>
    cases h : s.call c with
    | error e => simp [BState.resume, rejections, h, step_error h, ih]
    | ok s' => simp [BState.resume, rejections, h, step_ok h, ih]

/-- `extend_iter(&mut it)` called until the iterator is exhausted: the builder ends in the
state of the single calls with errors ignored, and the results of the successive `extend_iter`
calls are the errors of the rejected items, in order, followed by one `Ok`. -/
theorem resume_spec (s : BState) (calls : List BCall) :
    (s.resume calls []).1 = calls.foldl step s ∧
    (s.resume calls []).2 = rejections s calls ++ [.ok ()] := by
  rw [resume_acc]; simp

theorem resume_length (s : BState) (calls : List BCall) :
    (s.resume calls []).2.length = (rejections s calls).length + 1 := by
  rw [(resume_spec s calls).2]; simp

/-- the last result is always `Ok`, every one before it is an error -/
theorem resume_results_shape (s : BState) (calls : List BCall) :
    (s.resume calls []).2.getLast? = some (.ok ()) ∧
    ∀ r ∈ (s.resume calls []).2.dropLast, ∃ e, r = .error e := by
  rw [(resume_spec s calls).2]
  refine ⟨by simp, ?_⟩
  rw [List.dropLast_concat]
  exact rejections_all_error s calls

/-- between 1 and `calls.length + 1` `extend_iter` calls are needed -/
theorem resume_length_bounds (s : BState) (calls : List BCall) :
    1 ≤ (s.resume calls []).2.length ∧ (s.resume calls []).2.length ≤ calls.length + 1 := by
  rw [resume_length]; have := rejections_length_le s calls; omega

/-- resuming in two stretches: the first stretch's final `Ok` is the only difference -/
theorem resume_append (s : BState) (a b : List BCall) :
    (s.resume (a ++ b) []).1 = ((s.resume a []).1.resume b []).1 ∧
    (s.resume (a ++ b) []).2 = (s.resume a []).2.dropLast ++ ((s.resume a []).1.resume b []).2 := by
  constructor
  · simp only [resume_acc, List.foldl_append]
  · simp only [resume_acc, rejections_append, List.reverse_nil, List.nil_append]
    rw [List.dropLast_concat]; simp

/-! examples: "b"=1, "a"=2 (out of order), "b"=3 (duplicate), "c"=0 on a fresh builder: three
`extend_iter` calls — two errors, then `Ok` — and the builder holds "b", "c" -/
def demoCalls : List BCall := [.ins [98] 1, .ins [97] 2, .ins [98] 3, .ins [99] 0]

example : ((BState.new 2 2).resume demoCalls []).2 =
    [.error (.outOfOrder [98] [97]), .error (.duplicateKey [98]), .ok ()] := by decide
example : rejections (BState.new 2 2) demoCalls =
    [.error (.outOfOrder [98] [97]), .error (.duplicateKey [98])] := by decide
example : ((BState.new 2 2).resume demoCalls []).1.last = some [99] ∧
    ((BState.new 2 2).resume demoCalls []).1.len = 2 := by decide
-- the state is that of the accepted calls alone
example : (demoCalls.foldl step (BState.new 2 2)).len =
    ([BCall.ins [98] 1, .ins [99] 0].foldl step (BState.new 2 2)).len := by decide
-- a set builder accepts the repeat, rejects the smaller key
example : ((BState.new 2 2).resume [.add [98], .add [98], .add [97], .add [99]] []).2 =
    [.error (.outOfOrder [98] [97]), .ok ()] := by decide
-- `resume_length` on the example: 2 rejected calls, 3 results
example : ((BState.new 2 2).resume demoCalls []).2.length = 3 := by
  rw [resume_length]; decide

/-! ### 2. `resume` = the same calls made as single calls; connection to `extendInsert`/`extendAdd` -/

/-- the state after `resume` is the state after the same calls made as single `insert`/`add`
calls whose errors are ignored: the by-reference `extend_iter` loses nothing but the rejected
items (and a rejected item changes nothing) -/
theorem resume_eq_single_calls (s : BState) (calls : List BCall) :
    (s.resume calls []).1 =
      calls.foldl (fun st c => match st.call c with | .ok st' => st' | .error _ => st) s :=
  (resume_spec s calls).1

/-- if no call is rejected, one `extend_iter` call does it all -/
theorem resume_no_rejections (s : BState) (calls : List BCall) (h : rejections s calls = []) :
    s.resume calls [] = (calls.foldl step s, [.ok ()]) := by
  rw [resume_acc, h]; rfl

/-- … and conversely -/
theorem resume_single_iff (s : BState) (calls : List BCall) :
    (s.resume calls []).2 = [.ok ()] ↔ rejections s calls = [] := by
  rw [(resume_spec s calls).2]
  constructor
  · intro h
    have := congrArg List.length h
    simp at this
    exact this
  · intro h; rw [h]; rfl

/-- the calls of a `MapBuilder`/raw `extend_iter` over key–value pairs -/
def insCalls (kvs : KV) : List BCall := kvs.map fun kv => .ins kv.1 kv.2
/-- the calls of a `SetBuilder` `extend_iter` over keys -/
def addCalls (ks : List Key) : List BCall := ks.map .add

theorem extendInsert_of_no_rejections (s : BState) (kvs : KV)
    (h : rejections s (insCalls kvs) = []) :
    s.extendInsert kvs = ((insCalls kvs).foldl step s, .ok ()) := by
  induction kvs generalizing s with
  | nil => rfl
  | cons kv rest ih =>
    obtain ⟨k, v⟩ := kv
    cases hi : s.insert k v with
    | error e =>
      have hc : s.call (.ins k v) = .error e := hi
      simp [insCalls, rejections, hc] at h
    | ok s1 =>
      have hc : s.call (.ins k v) = .ok s1 := hi
      have h' : rejections s1 (insCalls rest) = [] := by
        simpa [insCalls, rejections, hc] using h
      simp only [BState.extendInsert, hi]
      rw [ih s1 h']
      simp [insCalls, step_ok hc]

theorem extendAdd_of_no_rejections (s : BState) (ks : List Key)
    (h : rejections s (addCalls ks) = []) :
    s.extendAdd ks = ((addCalls ks).foldl step s, .ok ()) := by
  induction ks generalizing s with
  | nil => rfl
  | cons k rest ih =>
    cases hi : s.add k with
    | error e =>
      have hc : s.call (.add k) = .error e := hi
      simp [addCalls, rejections, hc] at h
    | ok s1 =>
      have hc : s.call (.add k) = .ok s1 := hi
      have h' : rejections s1 (addCalls rest) = [] := by
        simpa [addCalls, rejections, hc] using h
      simp only [BState.extendAdd, hi]
      rw [ih s1 h']
      simp [addCalls, step_ok hc]

/-- a pure `insert` batch without rejected items: `resume` needs one call, and it is the one
`extend_iter` call (`BState.extendInsert`), with the same final state -/
theorem resume_ins_eq_extendInsert (s : BState) (kvs : KV)
    (h : rejections s (insCalls kvs) = []) :
    ∃ final, s.resume (insCalls kvs) [] = (final, [.ok ()]) ∧ s.extendInsert kvs = (final, .ok ()) ∧
      final = (insCalls kvs).foldl step s :=
  ⟨_, resume_no_rejections s _ h, extendInsert_of_no_rejections s kvs h, rfl⟩

theorem resume_add_eq_extendAdd (s : BState) (ks : List Key)
    (h : rejections s (addCalls ks) = []) :
    ∃ final, s.resume (addCalls ks) [] = (final, [.ok ()]) ∧ s.extendAdd ks = (final, .ok ()) ∧
      final = (addCalls ks).foldl step s :=
  ⟨_, resume_no_rejections s _ h, extendAdd_of_no_rejections s ks h, rfl⟩

/-- "no rejections" is "the stop-at-first-error fold succeeds" (`insertAll` of Proofs/Build) -/
theorem insertAll_ok_iff (s : BState) (kvs : KV) :
    rejections s (insCalls kvs) = [] ↔ insertAll s kvs = .ok ((insCalls kvs).foldl step s) := by
  induction kvs generalizing s with
  | nil => simp [insCalls, rejections, insertAll]
  | cons kv rest ih =>
    obtain ⟨k, v⟩ := kv
    cases hi : s.insert k v with
    | error e =>
      have hc : s.call (.ins k v) = .error e := hi
      simp [insCalls, rejections, insertAll, hc, hi]
    | ok s1 =>
      have hc : s.call (.ins k v) = .ok s1 := hi
      have := ih s1
      simpa [insCalls, rejections, insertAll, hc, hi, step_ok hc] using this

theorem addAll_ok_iff (s : BState) (ks : List Key) :
    rejections s (addCalls ks) = [] ↔ addAll s ks = .ok ((addCalls ks).foldl step s) := by
  induction ks generalizing s with
  | nil => simp [addCalls, rejections, addAll]
  | cons k rest ih =>
    cases hi : s.add k with
    | error e =>
      have hc : s.call (.add k) = .error e := hi
      simp [addCalls, rejections, addAll, hc, hi]
    | ok s1 =>
      have hc : s.call (.add k) = .ok s1 := hi
      have := ih s1
      simpa [addCalls, rejections, addAll, hc, hi, step_ok hc] using this

/-- with a first rejected item the single `extend_iter` call returns the FIRST entry of
`resume`'s results and stops in the state `resume` is in at that moment -/
theorem extendInsert_head_of_resume (s : BState) (kvs : KV) :
    (s.extendInsert kvs).2 = ((s.resume (insCalls kvs) []).2.head?).getD (.ok ()) := by
  rw [(resume_spec s _).2]
  induction kvs generalizing s with
  | nil => rfl
  | cons kv rest ih =>
    obtain ⟨k, v⟩ := kv
    cases hi : s.insert k v with
    | error e =>
      have hc : s.call (.ins k v) = .error e := hi
      simp [BState.extendInsert, hi, insCalls, rejections, hc]
    | ok s1 =>
      have hc : s.call (.ins k v) = .ok s1 := hi
      have := ih s1
      simpa [BState.extendInsert, hi, insCalls, rejections, hc] using this

/-! examples: a sorted batch has no rejections, so `resume` = one `extend_iter` call = `extendInsert` -/
example : rejections (BState.new 2 2) (insCalls [([97], 1), ([97, 98], 2), ([99], 0)]) = [] := by decide
example : ∃ final, (BState.new 2 2).resume (insCalls [([97], 1), ([97, 98], 2), ([99], 0)]) [] = (final, [.ok ()]) ∧
    (BState.new 2 2).extendInsert [([97], 1), ([97, 98], 2), ([99], 0)] = (final, .ok ()) :=
  let ⟨f, h1, h2, _⟩ := resume_ins_eq_extendInsert (BState.new 2 2) _ (by decide); ⟨f, h1, h2⟩
example : rejections (BState.new 2 2) (addCalls [[97], [97], [98]]) = [] := by decide
-- with a rejected item the single call reports it (first entry of `resume`'s results)
example : ((BState.new 2 2).extendInsert [([98], 1), ([97], 2), ([98], 3), ([99], 0)]).2 =
    .error (.outOfOrder [98] [97]) := by decide

/-- reachable states stay reachable under `step` -/
theorem reachable_step {s : BState} (h : Reachable s) (c : BCall) : Reachable (step s c) := by
  cases c with
  | ins k v =>
    cases hi : s.insert k v with
    | error e => have hc : s.call (.ins k v) = .error e := hi; rw [step_error hc]; exact h
    | ok s1 => have hc : s.call (.ins k v) = .ok s1 := hi; rw [step_ok hc]; exact h.insert k v hi
  | add k =>
    cases hi : s.add k with
    | error e => have hc : s.call (.add k) = .error e := hi; rw [step_error hc]; exact h
    | ok s1 => have hc : s.call (.add k) = .ok s1 := hi; rw [step_ok hc]; exact h.add k hi

theorem reachable_resume {s : BState} (h : Reachable s) (calls : List BCall) :
    Reachable (s.resume calls []).1 := by
  rw [(resume_spec s calls).1]
  induction calls generalizing s with
  | nil => exact h
  | cons c rest ih => exact ih (reachable_step h c)

/-- which `insert` items a reachable builder rejects (from `insert_result`): exactly those not
strictly greater than the last accepted key -/
theorem ins_rejected_iff {s : BState} (h : Reachable s) (k : Key) (v : Nat) :
    (∃ e, s.call (.ins k v) = .error e) ↔ ∃ last, s.last = some last ∧ lexLt last k = false := by
  have hr := insert_result h k v
  show (∃ e, s.insert k v = .error e) ↔ _
  cases hl : s.last with
  | none =>
    rw [hl] at hr
    obtain ⟨s', hs'⟩ := hr
    simp [hs']
  | some last =>
    rw [hl] at hr
    simp only at hr
    by_cases hlt : lexLt last k = true
    · rw [if_pos hlt] at hr
      obtain ⟨s', hs'⟩ := hr
      simp [hs', hlt]
    · rw [if_neg hlt] at hr
      have hf : lexLt last k = false := by simpa using hlt
      constructor
      · intro _; exact ⟨last, rfl, hf⟩
      · intro _
        by_cases hk : k = last
        · rw [if_pos hk] at hr; exact ⟨_, hr⟩
        · rw [if_neg hk] at hr; exact ⟨_, hr⟩

/-- which `add` items a reachable builder rejects (from `add_result`) -/
theorem add_rejected_iff {s : BState} (h : Reachable s) (k : Key) :
    (∃ e, s.call (.add k) = .error e) ↔ ∃ last, s.last = some last ∧ lexLe last k = false := by
  have hr := add_result h k
  show (∃ e, s.add k = .error e) ↔ _
  cases hl : s.last with
  | none =>
    rw [hl] at hr
    obtain ⟨s', hs'⟩ := hr
    simp [hs']
  | some last =>
    rw [hl] at hr
    simp only at hr
    by_cases hlt : lexLe last k = true
    · rw [if_pos hlt] at hr
      obtain ⟨s', hs'⟩ := hr
      simp [hs', hlt]
    · rw [if_neg hlt] at hr
      have hf : lexLe last k = false := by simpa using hlt
      exact ⟨fun _ => ⟨last, rfl, hf⟩, fun _ => ⟨_, hr⟩⟩

/-! ### 3. `IOB.extend` -/

/-- the results of ALL the calls made one after the other, whatever they return -/
def results : IOB → List BCall → List (Except CallErr Unit)
  | _, [] => []
  | x, c :: rest => (x.call c).2 :: results (x.call c).1 rest

/-- every one of `calls`, made one after the other from `x`, returns `Ok`, and `x'` is the
builder afterwards -/
inductive OkRun : IOB → List BCall → IOB → Prop
  | nil (x : IOB) : OkRun x [] x
  | cons {x : IOB} {c : BCall} {rest : List BCall} {x' : IOB} :
      (x.call c).2 = .ok () → OkRun (x.call c).1 rest x' → OkRun x (c :: rest) x'

theorem extend_nil (x : IOB) : x.extend [] = (x, .ok ()) := rfl

theorem extend_cons_ok {x x' : IOB} {c : BCall} (h : x.call c = (x', .ok ())) (rest : List BCall) :
    x.extend (c :: rest) = x'.extend rest := by
  simp [IOB.extend, h]

theorem extend_cons_error {x x' : IOB} {c : BCall} {e : CallErr} (h : x.call c = (x', .error e))
    (rest : List BCall) : x.extend (c :: rest) = (x', .error e) := by
  simp [IOB.extend, h]

theorem OkRun.extend {x x' : IOB} {calls : List BCall} (h : OkRun x calls x') :
    x.extend calls = (x', .ok ()) := by
  induction h with
  | nil x => rfl
  | cons h1 _ ih => rw [extend_cons_ok (Prod.ext rfl h1)]; exact ih

theorem okRun_of_extend (x : IOB) (calls : List BCall) (h : (x.extend calls).2 = .ok ()) :
    OkRun x calls (x.extend calls).1 := by
  induction calls generalizing x with
  | nil => exact OkRun.nil x
  | cons c rest ih =>
    cases hc : x.call c with
    | mk x1 r =>
      cases r with
      | error e => rw [extend_cons_error hc] at h; cases h
      | ok u =>
        cases u
        rw [extend_cons_ok hc] at h ⊢
        have := ih x1 h
        exact OkRun.cons (by rw [hc]) (by rw [hc]; exact this)

theorem OkRun.unique {x a b : IOB} {calls : List BCall} (h1 : OkRun x calls a) (h2 : OkRun x calls b) :
    a = b := by
  have := h1.extend.symm.trans h2.extend
  exact congrArg Prod.fst this

theorem OkRun.append {x x1 x2 : IOB} {a b : List BCall} (h1 : OkRun x a x1) (h2 : OkRun x1 b x2) :
    OkRun x (a ++ b) x2 := by
  induction h1 with
  | nil x => exact h2
  | cons hc _ ih => exact OkRun.cons hc (ih h2)

theorem OkRun.results {x x' : IOB} {calls : List BCall} (h : OkRun x calls x') :
    ∀ r ∈ results x calls, r = .ok () := by
  induction h with
  | nil x => intro r hr; cases hr
  | cons hc _ ih =>
    intro r hr
    simp only [Glue.results, List.mem_cons] at hr
    rcases hr with rfl | hr
    · exact hc
    · exact ih r hr

/-- (c) after a prefix of calls that all return `Ok` the batch goes on with the rest -/
theorem extend_append_okRun {x x1 : IOB} {pre : List BCall} (h : OkRun x pre x1) (post : List BCall) :
    x.extend (pre ++ post) = x1.extend post := by
  induction h with
  | nil x => rfl
  | cons h1 _ ih => rw [List.cons_append, extend_cons_ok (Prod.ext rfl h1)]; exact ih

theorem extend_append (x : IOB) (pre post : List BCall) (h : (x.extend pre).2 = .ok ()) :
    x.extend (pre ++ post) = (x.extend pre).1.extend post :=
  extend_append_okRun (okRun_of_extend x pre h) post

/-- … and after a failing prefix nothing more happens -/
theorem extend_append_error (x : IOB) (pre post : List BCall) (e : CallErr)
    (h : (x.extend pre).2 = .error e) : x.extend (pre ++ post) = x.extend pre := by
  induction pre generalizing x with
  | nil => cases h
  | cons c rest ih =>
    cases hc : x.call c with
    | mk x1 r =>
      cases r with
      | error e' => rw [List.cons_append, extend_cons_error hc, extend_cons_error hc]
      | ok u =>
        cases u
        rw [extend_cons_ok hc] at h
        rw [List.cons_append, extend_cons_ok hc, extend_cons_ok hc]
        exact ih x1 h

/-- (a) the batch returns `Ok` iff every call, made in sequence, returns `Ok` — and then the
builder is the one those single calls leave -/
theorem extend_ok_iff (x : IOB) (calls : List BCall) :
    (x.extend calls).2 = .ok () ↔ ∃ x', OkRun x calls x' :=
  ⟨fun h => ⟨_, okRun_of_extend x calls h⟩, fun ⟨_, h⟩ => by rw [h.extend]⟩

theorem extend_ok_state (x x' : IOB) (calls : List BCall) :
    x.extend calls = (x', .ok ()) ↔ OkRun x calls x' :=
  ⟨fun h => by have := okRun_of_extend x calls (by rw [h]); rwa [h] at this, fun h => h.extend⟩

/-- (a), stated with the results of all the single calls (made whatever they return) -/
theorem extend_ok_iff_results (x : IOB) (calls : List BCall) :
    (x.extend calls).2 = .ok () ↔ ∀ r ∈ results x calls, r = .ok () := by
  induction calls generalizing x with
  | nil => simp [IOB.extend, results]
  | cons c rest ih =>
    cases hc : x.call c with
    | mk x1 r =>
      cases r with
      | error e => simp [extend_cons_error hc, results, hc]
      | ok u =>
        cases u
        rw [extend_cons_ok hc, ih x1]
        simp [results, hc]

/-- (b) a failing batch: the calls before the first failing one all returned `Ok`, the failing
call's error is the batch's result, and the builder (pure state, writer, sink with its
`calls` counter and remaining script) is exactly as that call left it — nothing is called
after the first failure. -/
theorem extend_error_split (x : IOB) (calls : List BCall) (e : CallErr)
    (h : (x.extend calls).2 = .error e) :
    ∃ pre c post x1, calls = pre ++ c :: post ∧ OkRun x pre x1 ∧ (x1.call c).2 = .error e ∧
      (x.extend calls).1 = (x1.call c).1 := by
  induction calls generalizing x with
  | nil => cases h
  | cons c rest ih =>
    cases hc : x.call c with
    | mk x1 r =>
      cases r with
      | error e' =>
        rw [extend_cons_error hc] at h ⊢
        cases h
        exact ⟨[], c, rest, x, rfl, OkRun.nil x, by rw [hc], by rw [hc]⟩
      | ok u =>
        cases u
        rw [extend_cons_ok hc] at h ⊢
        obtain ⟨pre, c', post, x2, hsplit, hrun, herr, hst⟩ := ih x1 h
        exact ⟨c :: pre, c', post, x2, by rw [hsplit]; rfl,
          OkRun.cons (by rw [hc]) (by rw [hc]; exact hrun), herr, hst⟩

/-- the converse: an `Ok` prefix followed by a failing call determines the batch's result -/
theorem extend_of_split {x x1 : IOB} {pre : List BCall} (c : BCall) (post : List BCall) {e : CallErr}
    (hrun : OkRun x pre x1) (herr : (x1.call c).2 = .error e) :
    x.extend (pre ++ c :: post) = ((x1.call c).1, .error e) := by
  rw [extend_append_okRun hrun]
  exact extend_cons_error (Prod.ext rfl herr) post

/-- the three parts together -/
theorem extend_spec (x : IOB) (calls : List BCall) :
    ((x.extend calls).2 = .ok () ↔ ∀ r ∈ results x calls, r = .ok ()) ∧
    ((x.extend calls).2 = .ok () ↔ ∃ x', OkRun x calls x') ∧
    (∀ e, (x.extend calls).2 = .error e →
      ∃ pre c post x1, calls = pre ++ c :: post ∧ OkRun x pre x1 ∧ (x1.call c).2 = .error e ∧
        (x.extend calls).1 = (x1.call c).1) :=
  ⟨extend_ok_iff_results x calls, extend_ok_iff x calls, extend_error_split x calls⟩

/-- a call over a sink is the pure call followed by the writes of the new nodes (`IOB.step`) -/
theorem call_eq_step (x : IOB) (c : BCall) : x.call c = x.step (x.b.call c) := by
  cases c <;> rfl

/-! examples: a sink that accepts one byte, is interrupted once, then fails with kind 7. The
second call is the first to write (it freezes the node of "aa"), hits the fault and returns
`Err(Io)`; the third and fourth are never made: 3 `write` calls, one script entry left, last
key "bb". Made as single calls the later ones would have succeeded (`results`). -/
def demoIOB : IOB := ⟨BState.new 2 2, CW.new (Sink.new [] [.take 1, .interrupted, .fail 7, .take 1])⟩
def demoBatch : List BCall := [.ins [97, 97] 1, .ins [98, 98] 2, .ins [99, 99] 3, .ins [100] 4]

example : (demoIOB.extend demoBatch).2 = .error (.io (.other 8)) := by decide +kernel
example : (demoIOB.extend demoBatch).1.cw.sink.script = [.take 1] := by decide +kernel
example : (demoIOB.extend demoBatch).1.cw.sink.calls = 3 := by decide +kernel
example : (demoIOB.extend demoBatch).1.b.last = some [98, 98] := by decide +kernel
example : results demoIOB demoBatch = [.ok (), .error (.io (.other 8)), .ok (), .ok ()] := by
  decide +kernel
-- the split of `extend_error_split` on the example: pre = ["aa"], c = "bb"
example : ∃ x1, OkRun demoIOB [.ins [97, 97] 1] x1 ∧
    (x1.call (.ins [98, 98] 2)).2 = .error (.io (.other 8)) ∧
    demoIOB.extend ([.ins [97, 97] 1] ++ .ins [98, 98] 2 :: [.ins [99, 99] 3, .ins [100] 4]) =
      ((x1.call (.ins [98, 98] 2)).1, .error (.io (.other 8))) := by
  have hrun : OkRun demoIOB [.ins [97, 97] 1] (demoIOB.call (.ins [97, 97] 1)).1 :=
    OkRun.cons (by decide +kernel) (OkRun.nil _)
  have herr : ((demoIOB.call (.ins [97, 97] 1)).1.call (.ins [98, 98] 2)).2 =
      .error (.io (.other 8)) := by decide +kernel
  exact ⟨_, hrun, herr, extend_of_split _ _ hrun herr⟩
-- an ordering error stops the batch just the same and writes nothing
example : (demoIOB.extend [.ins [98] 1, .ins [97] 2, .ins [99] 3]).2 = .error (.fst (.outOfOrder [98] [97])) := by
  decide +kernel
example : (demoIOB.extend [.ins [98] 1, .ins [97] 2, .ins [99] 3]).1.cw.sink.calls = 0 := by decide +kernel
-- a batch whose every call returns `Ok`
example : (demoIOB.extend [.ins [97] 1, .add [98]]).2 = .ok () := by decide +kernel

/-! ### 5. outcomes -/

/-- a batch call's result is `Ok`, an ordering error of the pure builder, or `Err(Io)`; the
model has no panic value on this path -/
theorem extend_outcomes (x : IOB) (calls : List BCall) :
    (x.extend calls).2 = .ok () ∨ (∃ e, (x.extend calls).2 = .error (.fst e)) ∨
      (∃ e, (x.extend calls).2 = .error (.io e)) := by
  cases h : (x.extend calls).2 with
  | ok u => cases u; exact Or.inl rfl
  | error e =>
    cases e with
    | fst e => exact Or.inr (Or.inl ⟨e, rfl⟩)
    | io e => exact Or.inr (Or.inr ⟨e, rfl⟩)

/-- an ordering error of the batch is the pure builder's verdict on the failing item: the
writer is untouched by that item -/
theorem call_fst_error (x : IOB) (c : BCall) (e : BErr) (h : (x.call c).2 = .error (.fst e)) :
    x.b.call c = .error e ∧ (x.call c).1 = x := by
  rw [call_eq_step] at h ⊢
  cases hr : x.b.call c with
  | error e' =>
    rw [hr] at h
    simp only [IOB.step] at h
    cases h
    exact ⟨rfl, rfl⟩
  | ok b' =>
    rw [hr] at h
    simp only [IOB.step] at h
    cases hw : x.cw.writeChunks (newChunks x.b b') with
    | mk cw r =>
      rw [hw] at h
      cases r with
      | ok u => cases u; cases h
      | error e' => cases h

/-! ### 4. I/O faults in a batch -/

/-- what a single call consumed of the sink's script, and how it ended -/
theorem call_script (x : IOB) (c : BCall) :
    ∃ used, x.cw.sink.script = used ++ (x.call c).1.cw.sink.script ∧
      match (x.call c).2 with
      | .ok () => Benign used
      | .error (.fst _) => used = []
      | .error (.io e) => ∃ good bad, used = good ++ [bad] ∧ Benign good ∧ Bad bad ∧ e = errOf bad := by
  rw [call_eq_step]
  cases hr : x.b.call c with
  | error e' => exact ⟨[], rfl, rfl⟩
  | ok b' =>
    obtain ⟨used, written, hran, hend⟩ := SinkProofs.CW.writeChunks_ran x.cw (newChunks x.b b')
    cases hw : x.cw.writeChunks (newChunks x.b b') with
    | mk cw r =>
      rw [hw] at hran hend
      cases r with
      | ok u =>
        cases u
        have : x.step (.ok b') = (⟨b', cw⟩, .ok ()) := by simp [IOB.step, hw]
        rw [this]
        exact ⟨used, hran.script, hend.1⟩
      | error e =>
        have : x.step (.ok b') = (⟨b', cw⟩, .error (.io e)) := by simp [IOB.step, hw]
        rw [this]
        obtain ⟨good, bad, h1, h2, h3, h4, _⟩ := hend
        exact ⟨used, hran.script, good, bad, h1, h2, h3, h4⟩

/-- what a batch consumed of the sink's script: all benign unless the batch ended with
`Err(Io)`, and then the LAST consumed response is the failing one and is the error reported -/
theorem extend_script (x : IOB) (calls : List BCall) :
    ∃ used, x.cw.sink.script = used ++ (x.extend calls).1.cw.sink.script ∧
      match (x.extend calls).2 with
      | .ok () => Benign used
      | .error (.fst _) => Benign used
      | .error (.io e) => ∃ good bad, used = good ++ [bad] ∧ Benign good ∧ Bad bad ∧ e = errOf bad := by
  induction calls generalizing x with
  | nil => exact ⟨[], rfl, SinkProofs.Benign.nil⟩
  | cons c rest ih =>
    obtain ⟨u1, hs1, hk1⟩ := call_script x c
    cases hc : x.call c with
    | mk x1 r =>
      rw [hc] at hs1 hk1
      cases r with
      | error e =>
        rw [extend_cons_error hc]
        cases e with
        | fst e => simp only at hk1; subst hk1; exact ⟨[], hs1, SinkProofs.Benign.nil⟩
        | io e => exact ⟨u1, hs1, hk1⟩
      | ok u =>
        cases u
        rw [extend_cons_ok hc]
        obtain ⟨u2, hs2, hk2⟩ := ih x1
        refine ⟨u1 ++ u2, by rw [hs1, hs2, List.append_assoc], ?_⟩
        simp only at hk1
        cases hres : (x1.extend rest).2 with
        | ok u => cases u; rw [hres] at hk2; exact hk1.append hk2
        | error e =>
          rw [hres] at hk2
          cases e with
          | fst e => exact hk1.append hk2
          | io e =>
            obtain ⟨good, bad, h1, h2, h3, h4⟩ := hk2
            exact ⟨u1 ++ good, bad, by rw [h1, List.append_assoc], hk1.append h2, h3, h4⟩

/-- `C11_fault_call` lifted to batches: if ANY response the sink served during the batch is a
failing one (`Ok(0)` or an error other than `Interrupted`), the batch returns `Err(Io)`.
(An ordering error consumes no response, so it cannot mask a fault: the clean statement holds.) -/
theorem extend_io_fault (x : IOB) (calls : List BCall) (used : List Resp)
    (hu : x.cw.sink.script = used ++ (x.extend calls).1.cw.sink.script)
    (bad : Resp) (hmem : bad ∈ used) (hbad : Bad bad) :
    ∃ e, (x.extend calls).2 = .error (.io e) := by
  obtain ⟨used', hs, hk⟩ := extend_script x calls
  have : used = used' := List.append_cancel_right (hu.symm.trans hs)
  subst this
  cases hres : (x.extend calls).2 with
  | ok u => cases u; rw [hres] at hk; exact absurd hbad (hk.not_bad hmem)
  | error e =>
    rw [hres] at hk
    cases e with
    | fst e => exact absurd hbad (hk.not_bad hmem)
    | io e => exact ⟨e, rfl⟩

/-- … more precisely: the error reported is that of the first failing response, which is the
last response served; everything before it was benign -/
theorem extend_first_fault (x : IOB) (calls : List BCall) (e : IoErr)
    (h : (x.extend calls).2 = .error (.io e)) :
    ∃ good bad, x.cw.sink.script = good ++ bad :: (x.extend calls).1.cw.sink.script ∧
      Benign good ∧ Bad bad ∧ e = errOf bad := by
  obtain ⟨used, hs, hk⟩ := extend_script x calls
  rw [h] at hk
  obtain ⟨good, bad, h1, h2, h3, h4⟩ := hk
  exact ⟨good, bad, by rw [hs, h1]; simp, h2, h3, h4⟩

/-- conversely an `Ok` or an ordering error means every response served was benign -/
theorem extend_no_fault (x : IOB) (calls : List BCall) (used : List Resp)
    (hu : x.cw.sink.script = used ++ (x.extend calls).1.cw.sink.script)
    (h : ∀ e, (x.extend calls).2 ≠ .error (.io e)) : Benign used := by
  intro r hr
  by_cases hb : Bad r
  · obtain ⟨e, he⟩ := extend_io_fault x calls used hu r hr hb
    exact absurd he (h e)
  · cases r with
    | take n =>
      cases n with
      | zero => exact absurd (Or.inl rfl) hb
      | succ n => exact Or.inl ⟨n + 1, rfl, by omega⟩
    | interrupted => exact Or.inr rfl
    | fail k => exact absurd (Or.inr ⟨k, rfl⟩) hb

/-- the hypotheses of `extend_io_fault` on the example: the batch consumed
`[take 1, interrupted, fail 7]`, of which `fail 7` is a failing response -/
example : ∃ e, (demoIOB.extend demoBatch).2 = .error (.io e) :=
  extend_io_fault demoIOB demoBatch [.take 1, .interrupted, .fail 7] (by decide +kernel)
    (.fail 7) (by simp) (Or.inr ⟨7, rfl⟩)

/-! ### 6. `map_data` -/

theorem mapData_eq (f : Src → Src) (d : Src) : mapData f d = fstNew (f d) := rfl

/-- whatever bytes the closure returns, opening them does not panic -/
theorem mapData_total (f : Src → Src) (d : Src) (bs : List UInt8) (h : f d = Src.ofList bs) :
    ∀ tag, mapData f d ≠ .panic tag := by
  rw [mapData_eq, h]; exact OpenProofs.C20_open_total bs

/-- the hypothesis is needed: `Src` also contains "sources" that claim a size and have no bytes,
which no `&[u8]` does; on those the model's bounds checks fire -/
example : mapData (fun _ => ⟨40, fun _ => none⟩) (Src.ofList []) = .panic "bytes[..8]" := by decide

/-- a byte source whose `get` answers exactly below `size` (every real `&[u8]`) -/
def SrcWF (s : Src) : Prop := ∀ i, (s.get i).isSome = true ↔ i < s.size

theorem srcWF_ofList (bs : List UInt8) : SrcWF (Src.ofList bs) := by
  intro i; simp [Src.ofList]

theorem SrcWF.eq_ofList {s : Src} (h : SrcWF s) : ∃ bs, s = Src.ofList bs := by
  refine ⟨(List.range s.size).map fun i => (s.get i).getD 0, ?_⟩
  cases s with
  | mk size get =>
    simp only [Src.ofList, List.length_map, List.length_range, Src.mk.injEq, true_and]
    funext i
    have hi := h i
    simp only at hi
    by_cases hlt : i < size
    · have := hi.mpr hlt
      rw [List.getElem?_map, List.getElem?_range hlt]
      cases hg : get i with
      | none => rw [hg] at this; cases this
      | some b => simp [hg]
    · have hn : (get i).isSome ≠ true := fun hh => hlt (hi.mp hh)
      rw [List.getElem?_eq_none (by simpa using hlt)]
      cases hg : get i with
      | none => rfl
      | some b => rw [hg] at hn; exact absurd rfl hn

theorem mapData_total_wf (f : Src → Src) (d : Src) (h : SrcWF (f d)) :
    ∀ tag, mapData f d ≠ .panic tag := by
  obtain ⟨bs, hbs⟩ := h.eq_ofList
  exact mapData_total f d bs hbs

/-- nothing of the old bytes (header, version, length, checksum) survives when the closure
does not look at them -/
theorem mapData_forgets (b d d' : Src) : mapData (fun _ => b) d = mapData (fun _ => b) d' := rfl

theorem mapData_forgets' (f : Src → Src) (d d' : Src) (h : f d = f d') : mapData f d = mapData f d' := by
  rw [mapData_eq, mapData_eq, h]

theorem mapData_id (d : Src) : mapData id d = fstNew d := rfl

/-! examples: whatever the old bytes were, the result is that of opening the new ones -/
example : mapData (fun _ => Src.ofList OpenProofs.emptyV3) (Src.ofList [1, 2, 3]) =
    .ok { version := 3, rootAddr := 0, ty := 0, len := 0, checksum := some 0 } := by decide
example : mapData (fun _ => Src.ofList [1, 2, 3]) (Src.ofList OpenProofs.emptyV3) = .err (.format 3) := by
  decide
example : ∀ tag, mapData (fun _ => Src.ofList [1, 2, 3]) (Src.ofList OpenProofs.emptyV3) ≠ .panic tag :=
  mapData_total _ _ [1, 2, 3] rfl

/-! ### 7. `lineKey`, `fileRows` -/

theorem lineKey_unterminated (c : Key) : lineKey c false = c := by simp [lineKey]

theorem lineKey_cr (c : Key) : lineKey (c ++ [13]) true = c := by simp [lineKey]

theorem lineKey_no_cr (c : Key) (t : Bool) (h : c.getLast? ≠ some 13) : lineKey c t = c := by
  simp [lineKey, h]

theorem lineKey_cr_cr (c : Key) : lineKey (c ++ [13, 13]) true = c ++ [13] := by
  have : c ++ [13, 13] = (c ++ [13]) ++ [(13 : UInt8)] := by simp
  rw [this, lineKey_cr]

/-- exactly when a byte is removed -/
theorem lineKey_eq (c : Key) (t : Bool) :
    lineKey c t = if t = true ∧ c.getLast? = some 13 then c.dropLast else c := by
  simp [lineKey]

theorem lineKey_length (c : Key) (t : Bool) : (lineKey c t).length + 1 ≥ c.length := by
  unfold lineKey
  split
  · simp only [List.length_dropLast]; omega
  · omega

theorem lineKey_prefix (c : Key) (t : Bool) : lineKey c t <+: c := by
  unfold lineKey
  split
  · exact List.dropLast_prefix c
  · exact List.prefix_refl c

theorem lineKey_nil (t : Bool) : lineKey [] t = [] := by simp [lineKey]

theorem fileRows_nil (b : Bool) : fileRows b [] = [] := rfl

theorem fileRows_append (b : Bool) (fs gs : List (List (Key × Nat) × Bool)) :
    fileRows b (fs ++ gs) = fileRows b fs ++ fileRows b gs := by
  simp [fileRows]

theorem fileRows_cons (b : Bool) (f : List (Key × Nat) × Bool) (fs : List (List (Key × Nat) × Bool)) :
    fileRows b (f :: fs) = fileRows b [f] ++ fileRows b fs :=
  fileRows_append b [f] fs

/-- a file listed twice contributes twice -/
theorem fileRows_twice (b : Bool) (f : List (Key × Nat) × Bool) :
    fileRows b [f, f] = fileRows b [f] ++ fileRows b [f] := fileRows_append b [f] [f]

theorem zipIdx_map_id {α : Type} (l : List α) (n : Nat) :
    (l.zipIdx n).map (fun p => p.1) = l := by
  induction l generalizing n with
  | nil => rfl
  | cons a l ih => simp [List.zipIdx_cons, ih]

theorem fileRows_single_map (rows : List (Key × Nat)) (t : Bool) : fileRows false [(rows, t)] = rows := by
  simp only [fileRows, List.flatMap_cons, List.flatMap_nil, List.append_nil]
  have : (fun (x : (Key × Nat) × Nat) => match x with | ((k, v), _) => (k, v)) = fun p => p.1 := by
    funext ⟨⟨k, v⟩, i⟩; rfl
  simp [this]

/-- map mode: the lines are taken as they are -/
theorem fileRows_map (files : List (List (Key × Nat) × Bool)) :
    fileRows false files = files.flatMap (·.1) := by
  induction files with
  | nil => rfl
  | cons f fs ih =>
    obtain ⟨rows, t⟩ := f
    rw [fileRows_cons, ih, fileRows_single_map]; rfl

theorem fileRows_single_set (rows : List (Key × Nat)) (t : Bool)
    (h : ∀ kv ∈ rows, kv.1.getLast? ≠ some 13) : fileRows true [(rows, t)] = rows := by
  simp only [fileRows, List.flatMap_cons, List.flatMap_nil, List.append_nil]
  refine (List.map_congr_left ?_).trans (zipIdx_map_id rows 0)
  rintro ⟨⟨k, v⟩, i⟩ hp
  have hmem : (k, v) ∈ rows := List.fst_mem_of_mem_zipIdx hp
  simp only [if_true]
  rw [lineKey_no_cr k _ (h (k, v) hmem)]

/-- set mode over files none of whose lines ends in CR: the lines are taken as they are -/
theorem fileRows_set_no_cr (files : List (List (Key × Nat) × Bool))
    (h : ∀ f ∈ files, ∀ kv ∈ f.1, kv.1.getLast? ≠ some 13) :
    fileRows true files = files.flatMap (·.1) := by
  induction files with
  | nil => rfl
  | cons f fs ih =>
    obtain ⟨rows, t⟩ := f
    rw [fileRows_cons, ih (fun g hg => h g (List.mem_cons_of_mem _ hg)),
      fileRows_single_set rows t (h (rows, t) (List.mem_cons_self))]
    rfl

/-- … in particular over CR-free files -/
theorem fileRows_set_cr_free (files : List (List (Key × Nat) × Bool))
    (h : ∀ f ∈ files, ∀ kv ∈ f.1, (13 : UInt8) ∉ kv.1) :
    fileRows true files = files.flatMap (·.1) := by
  apply fileRows_set_no_cr
  intro f hf kv hkv hlast
  exact h f hf kv hkv (List.mem_of_getLast? hlast)

/-- the number of rows does not depend on the mode -/
theorem fileRows_length (b : Bool) (files : List (List (Key × Nat) × Bool)) :
    (fileRows b files).length = (files.map (·.1.length)).sum := by
  induction files with
  | nil => rfl
  | cons f fs ih =>
    obtain ⟨rows, t⟩ := f
    rw [fileRows_cons, List.length_append, ih]
    simp [fileRows]

/-! examples: "a\r\n" stands for "a"; an unterminated last line "b\r" keeps its CR; the same
file listed twice is read twice; the same two lines in a file that ends with a newline -/
example : lineKey [97, 13] true = [97] := by decide
example : lineKey [97, 13] false = [97, 13] := by decide
example : lineKey [97, 13, 13] true = [97, 13] := by decide
example : lineKey [13, 97] true = [13, 97] := by decide
example : fileRows true [([([97, 13], 0), ([98, 13], 0)], false), ([([97, 13], 0), ([98, 13], 0)], true)] =
    [([97], 0), ([98, 13], 0), ([97], 0), ([98], 0)] := by decide
example : fileRows false [([([97, 13], 5), ([98, 13], 6)], false)] = [([97, 13], 5), ([98, 13], 6)] := by decide
example : fileRows true [([([97], 0), ([98, 13, 99], 0)], true)] = [([97], 0), ([98, 13, 99], 0)] :=
  fileRows_set_no_cr _ (by decide)

end Fst.Glue
