import FstVerif.Proofs.EofLift
import FstVerif.Proofs.Wrappers

/-!
# The user-facing search wrappers for automata with an `accept_eof` hook

`Proofs/Wrappers.lean` proves `Wrap.mapSearch_correct` & co. under `hEof : ∀ x, A.acceptEof x = none`.
Here the same four theorems are proved for an ARBITRARY automaton (the hook may be overridden),
with `A.accepts` replaced by `A.acceptsEof`, from `stream_correct_eof`.
-/

namespace Fst
namespace Wrap
open Fst Fst.Ops

variable {N σ : Type}
variable {acc : NodeAccess N} {A : Aut σ} {s : Store} {den : Nat → KV}

/-- the raw stream behind every query, for an automaton with an arbitrary `accept_eof` hook -/
theorem rawQuery_correct_eof (hg : GoodStore s den) (hr : Represents acc s) (root : Nat)
    (hroot : root = 0 ∨ ∃ n, (root, n) ∈ s)
    (hCan : ∀ x, A.canMatch x = false →
      ∀ w, A.isMatch (A.run x w) = false ∧ A.eofMatch (A.run x w) = false)
    (rs : RangeSpec) :
    ∃ N, ∀ fuel, N ≤ fuel → rawQuery acc A root rs fuel =
      some (((den root).filter fun kv =>
          lowerOK rs.min kv.1 && upperOK rs.max kv.1 && A.acceptsEof kv.1).map
        fun kv => (kv.1, kv.2, A.run A.start kv.1)) := by
  obtain ⟨s0, h0, N0, hN⟩ := stream_correct_eof hg hr root hroot hCan rs.min rs.max
  refine ⟨N0, fun fuel hf => ?_⟩
  simp only [rawQuery, h0, hN fuel hf]

/-- `map.search(aut)…into_stream()` for an automaton with an `accept_eof` hook -/
theorem mapSearch_correct_eof (hg : GoodStore s den) (hr : Represents acc s) (root : Nat)
    (hroot : root = 0 ∨ ∃ n, (root, n) ∈ s)
    (hCan : ∀ x, A.canMatch x = false →
      ∀ w, A.isMatch (A.run x w) = false ∧ A.eofMatch (A.run x w) = false)
    (rs : RangeSpec) :
    ∃ N, ∀ fuel, N ≤ fuel → mapSearch acc A root rs fuel =
      some ((den root).filter fun kv =>
        lowerOK rs.min kv.1 && upperOK rs.max kv.1 && A.acceptsEof kv.1) := by
  obtain ⟨N0, hN⟩ := rawQuery_correct_eof hg hr root hroot hCan rs
  refine ⟨N0, fun fuel hf => ?_⟩
  simp only [mapSearch, hN fuel hf, Option.map_some, rawStream_triples, mapStream_eq]

/-- `map.search_with_state(aut)…` for an automaton with an `accept_eof` hook -/
theorem mapSearchWithState_correct_eof (hg : GoodStore s den) (hr : Represents acc s) (root : Nat)
    (hroot : root = 0 ∨ ∃ n, (root, n) ∈ s)
    (hCan : ∀ x, A.canMatch x = false →
      ∀ w, A.isMatch (A.run x w) = false ∧ A.eofMatch (A.run x w) = false)
    (rs : RangeSpec) :
    ∃ N, ∀ fuel, N ≤ fuel → mapSearchWithState acc A root rs fuel =
      some (((den root).filter fun kv =>
        lowerOK rs.min kv.1 && upperOK rs.max kv.1 && A.acceptsEof kv.1).map
          fun kv => (kv.1, kv.2, A.run A.start kv.1)) := by
  obtain ⟨N0, hN⟩ := rawQuery_correct_eof hg hr root hroot hCan rs
  refine ⟨N0, fun fuel hf => ?_⟩
  simp only [mapSearchWithState, hN fuel hf, Option.map_some, mapStreamWithState_eq]

/-- `set.search(aut)…` for an automaton with an `accept_eof` hook -/
theorem setSearch_correct_eof (hg : GoodStore s den) (hr : Represents acc s) (root : Nat)
    (hroot : root = 0 ∨ ∃ n, (root, n) ∈ s)
    (hCan : ∀ x, A.canMatch x = false →
      ∀ w, A.isMatch (A.run x w) = false ∧ A.eofMatch (A.run x w) = false)
    (rs : RangeSpec) :
    ∃ N, ∀ fuel, N ≤ fuel → setSearch acc A root rs fuel =
      some (((den root).filter fun kv =>
        lowerOK rs.min kv.1 && upperOK rs.max kv.1 && A.acceptsEof kv.1).map (·.1)) := by
  obtain ⟨N0, hN⟩ := rawQuery_correct_eof hg hr root hroot hCan rs
  refine ⟨N0, fun fuel hf => ?_⟩
  simp only [setSearch, hN fuel hf, Option.map_some, rawStream_triples, setStream_eq]

/-- `set.search_with_state(aut)…` for an automaton with an `accept_eof` hook -/
theorem setSearchWithState_correct_eof (hg : GoodStore s den) (hr : Represents acc s) (root : Nat)
    (hroot : root = 0 ∨ ∃ n, (root, n) ∈ s)
    (hCan : ∀ x, A.canMatch x = false →
      ∀ w, A.isMatch (A.run x w) = false ∧ A.eofMatch (A.run x w) = false)
    (rs : RangeSpec) :
    ∃ N, ∀ fuel, N ≤ fuel → setSearchWithState acc A root rs fuel =
      some (((den root).filter fun kv =>
        lowerOK rs.min kv.1 && upperOK rs.max kv.1 && A.acceptsEof kv.1).map
          fun kv => (kv.1, A.run A.start kv.1)) := by
  obtain ⟨N0, hN⟩ := rawQuery_correct_eof hg hr root hroot hCan rs
  refine ⟨N0, fun fuel hf => ?_⟩
  simp only [setSearchWithState, hN fuel hf, Option.map_some, setStreamWithState, List.map_map]
  rfl

/-- the hypotheses are satisfiable by an automaton with a non-trivial hook (`hookDemo`) -/
example : ∀ x, hookDemo.canMatch x = false →
    ∀ w, hookDemo.isMatch (hookDemo.run x w) = false ∧
      hookDemo.eofMatch (hookDemo.run x w) = false := by
  intro x hx; simp [hookDemo] at hx

end Wrap
end Fst
