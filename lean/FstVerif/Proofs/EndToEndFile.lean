import FstVerif.Proofs.EndToEndRoot
import FstVerif.Proofs.Codec
import FstVerif.Proofs.Open
/-
End-to-end glue, part 2 of 3 — the bytes of a finished build.

* `file_shape`      the file is header ++ node bytes ++ len ++ root ++ masked CRC, its length is
                    `count + 20`, and where the root is;
* `file_open`       `Fst::new` accepts it with exactly the written metadata and `verify` succeeds (C08);
* `file_represents` the byte-level node access over the file returns exactly the emitted nodes
                    (versions 2 and 3 of the reader);
* `file_tiling`     the extents of the emitted nodes tile the node region (C09).
-/
namespace Fst
namespace E2E
open BuildP OpenProofs

/-! ### the bytes -/

/-- the bytes of the emitted nodes, oldest first -/
def nodeBytes (s : BState) : List UInt8 := s.out.reverse.flatMap fun e => e.chunks.flatten

/-- everything before the checksum -/
def bodyBytes (ty : Nat) (s' : BState) (root : Nat) : List UInt8 :=
  u64le VERSION ++ u64le ty ++ nodeBytes s' ++ u64le s'.len ++ u64le root

/-- `CheckSummer::masked` of a byte string, as written to / compared with the footer -/
def crcOf (body : List UInt8) : Nat := (maskedSum (crc32cSlice16 0 body)).toNat

/-- the complete file -/
def fileOf (ty : Nat) (s' : BState) (root : Nat) : List UInt8 :=
  bodyBytes ty s' root ++ u32le (crcOf (bodyBytes ty s' root))

theorem fileOf_eq (ty : Nat) (s' : BState) (root : Nat) :
    fileOf ty s' root =
      u64le VERSION ++ u64le ty ++ (s'.out.reverse.flatMap fun e => e.chunks.flatten) ++
        u64le s'.len ++ u64le root ++
        u32le (maskedSum (crc32cSlice16 0 (u64le VERSION ++ u64le ty ++
          (s'.out.reverse.flatMap fun e => e.chunks.flatten) ++ u64le s'.len ++ u64le root))).toNat :=
  rfl

theorem flatten_flatMap {α β : Type} (f : α → List (List β)) (l : List α) :
    (l.flatMap f).flatten = l.flatMap fun x => (f x).flatten := by
  induction l with
  | nil => rfl
  | cons a l ih => simp [List.flatMap_cons, ih]

theorem bodyChunks_flatten (ty : Nat) (s' : BState) (root : Nat) :
    (s'.bodyChunks ty root).flatten = bodyBytes ty s' root := by
  simp [BState.bodyChunks, headerChunks, footerChunks, bodyBytes, nodeBytes, flatten_flatMap]

theorem emit_size_flatten (e : Emit) : e.chunks.flatten.length = e.size := by
  rw [List.length_flatten]; rfl

theorem totalSize_reverse (es : List Emit) : totalSize es.reverse = totalSize es := by
  simp [totalSize, List.map_reverse, List.sum_reverse]

theorem flatMap_size_length (es : List Emit) :
    (es.flatMap fun e => e.chunks.flatten).length = totalSize es := by
  induction es with
  | nil => rfl
  | cons e es ih =>
    simp only [List.flatMap_cons, List.length_append, ih, emit_size_flatten, totalSize,
      List.map_cons, List.sum_cons]

theorem nodeBytes_length (s : BState) : (nodeBytes s).length = totalSize s.out := by
  rw [nodeBytes, flatMap_size_length, totalSize_reverse]

theorem u64le_length (n : Nat) : (u64le n).length = 8 := packIn_length n 8
theorem u32le_length (n : Nat) : (u32le n).length = 4 := packIn_length n 4

theorem bodyBytes_length {s' : BState} (hl : Layout s') (ty root : Nat) :
    (bodyBytes ty s' root).length = s'.count + 16 := by
  simp only [bodyBytes, List.length_append, u64le_length, nodeBytes_length, hl.count]

theorem fileOf_length {s' : BState} (hl : Layout s') (ty root : Nat) :
    (fileOf ty s' root).length = s'.count + 20 := by
  simp only [fileOf, List.length_append, bodyBytes_length hl, u32le_length]

theorem fileBytes_eq {s s' : BState} {root : Nat} (ty : Nat) (hfin : s.finish = .ok (s', root)) :
    s.fileBytes ty = .ok (fileOf ty s' root) := by
  simp only [BState.fileBytes, hfin, bodyChunks_flatten]
  rfl

/-- FILE SHAPE. For a reachable builder state, `finish` succeeds and the file is
`VERSION ++ ty ++ node bytes ++ len ++ root ++ masked CRC-32C of everything before`
(`fileOf_eq` spells `fileOf` out); it is `count + 20` bytes long; the root address is either 0
with no node emitted at all (then the file is the 36-byte FST of `{"" ↦ 0}`), or the address
of the node emitted last, which is the last byte `count - 1` of the node region. -/
theorem file_shape {s : BState} (hr : Reachable s) (ty : Nat) {bytes : List UInt8}
    (hf : s.fileBytes ty = .ok bytes) :
    ∃ s' root, s.finish = .ok (s', root) ∧ Layout s' ∧ s'.len = s.len ∧
      bytes = fileOf ty s' root ∧ bytes.length = s'.count + 20 ∧ root < s'.count ∧
      ((root = 0 ∧ s'.out = [] ∧ s'.count = 16) ∨
       (∃ e rest, s'.out = e :: rest ∧ e.addr = root ∧ root = s'.count - 1 ∧ 16 ≤ root)) := by
  obtain ⟨s', root, hfin, hl, hlen, _⟩ := build_layout_finish hr
  have hb := fileBytes_eq ty hfin
  rw [hf] at hb
  cases hb
  have hroot := finish_root hr hfin
  refine ⟨s', root, hfin, hl, hlen, rfl, fileOf_length hl ty root, ?_, hroot⟩
  rcases hroot with ⟨h0, _, hc⟩ | ⟨e, rest, hout, ha, _, _⟩
  · omega
  · have := (hl.range e (by rw [hout]; exact List.mem_cons_self)).2
    omega

/-- on a reachable state the in-memory build always produces a file -/
theorem file_exists {s : BState} (hr : Reachable s) (ty : Nat) :
    ∃ bytes, s.fileBytes ty = .ok bytes := by
  obtain ⟨s', root, hfin, _⟩ := build_layout_finish hr
  exact ⟨_, fileBytes_eq ty hfin⟩

/-! ### opening and verifying -/

theorem drop_take_seg (a x b : List UInt8) (i k : Nat) (hi : a.length = i) (hk : x.length = k) :
    ((a ++ x ++ b).drop i).take k = x := by
  subst hi hk
  rw [List.append_assoc, List.drop_left' rfl, List.take_left' rfl]

theorem unpack_u64le {n : Nat} (h : n < 2^64) : unpack (u64le n) = n :=
  unpack_packIn n 8 (by simpa using h)

theorem unpack_u32le {n : Nat} (h : n < 2^32) : unpack (u32le n) = n :=
  unpack_packIn n 4 (by simpa using h)

theorem crcOf_lt (b : List UInt8) : crcOf b < 2^32 := UInt32.toNat_lt _

/-- FILE OPEN (C08). `Fst::new` on the written file returns exactly the written metadata
(version 3, the root address, the type, the number of keys, the stored checksum), and
`Fst::verify` succeeds. Size hypotheses: the three 64-bit header/footer fields must not wrap. -/
theorem file_open {s s' : BState} {root : Nat} (hr : Reachable s) (ty : Nat)
    (hfin : s.finish = .ok (s', root))
    (hty : ty < 2^64) (hlen : s'.len < 2^64) (hsz : (fileOf ty s' root).length < 2^64) :
    fstNew (Src.ofList (fileOf ty s' root)) =
        .ok ⟨3, root, ty, s'.len, some (crcOf (bodyBytes ty s' root))⟩ ∧
    fstVerify ⟨3, root, ty, s'.len, some (crcOf (bodyBytes ty s' root))⟩
        (Src.ofList (fileOf ty s' root)) = .ok () := by
  obtain ⟨s'', root', hfin', hl, _, hbytes, hblen, hrootlt, hroot⟩ :=
    file_shape hr ty (fileBytes_eq ty hfin)
  rw [hfin] at hfin'; cases hfin'
  have hl16 := hl.count
  generalize hB : fileOf ty s' root = bytes at *
  generalize hC : crcOf (bodyBytes ty s' root) = crc at *
  have hcrc : crc < 2^32 := hC ▸ crcOf_lt _
  have hroot64 : root < 2^64 := by omega
  -- the five views of the file
  have hA : (u64le VERSION ++ u64le ty ++ nodeBytes s').length = s'.count := by
    simp only [List.length_append, u64le_length, nodeBytes_length]; omega
  have e1 : bytes = [] ++ u64le VERSION ++ (u64le ty ++ nodeBytes s' ++ u64le s'.len ++ u64le root ++ u32le crc) := by
    rw [← hB, ← hC]; simp [fileOf, bodyBytes, List.append_assoc]
  have e2 : bytes = u64le VERSION ++ u64le ty ++ (nodeBytes s' ++ u64le s'.len ++ u64le root ++ u32le crc) := by
    rw [← hB, ← hC]; simp [fileOf, bodyBytes, List.append_assoc]
  have e3 : bytes = (u64le VERSION ++ u64le ty ++ nodeBytes s') ++ u64le s'.len ++ (u64le root ++ u32le crc) := by
    rw [← hB, ← hC]; simp [fileOf, bodyBytes, List.append_assoc]
  have e4 : bytes = (u64le VERSION ++ u64le ty ++ nodeBytes s' ++ u64le s'.len) ++ u64le root ++ u32le crc := by
    rw [← hB, ← hC]; simp [fileOf, bodyBytes, List.append_assoc]
  have e5 : bytes = bodyBytes ty s' root ++ u32le crc ++ [] := by
    rw [← hB, ← hC]; simp [fileOf]
  have hver : versionOf bytes = 3 := by
    have := drop_take_seg [] (u64le VERSION)
      (u64le ty ++ nodeBytes s' ++ u64le s'.len ++ u64le root ++ u32le crc) 0 8 rfl (u64le_length _)
    rw [← e1, List.drop_zero] at this
    rw [versionOf, this]
    exact unpack_u64le (by decide)
  have hty' : unpack ((bytes.drop 8).take 8) = ty := by
    have := drop_take_seg (u64le VERSION) (u64le ty)
      (nodeBytes s' ++ u64le s'.len ++ u64le root ++ u32le crc) 8 8 (u64le_length _) (u64le_length _)
    rw [← e2] at this
    rw [this, unpack_u64le hty]
  have hlen' : unpack ((bytes.drop (bytes.length - 4 - 16)).take 8) = s'.len := by
    have := drop_take_seg (u64le VERSION ++ u64le ty ++ nodeBytes s') (u64le s'.len)
      (u64le root ++ u32le crc) (bytes.length - 4 - 16) 8
      (by rw [hA]; omega) (u64le_length _)
    rw [← e3] at this
    rw [this, unpack_u64le hlen]
  have hroot' : unpack ((bytes.drop (bytes.length - 4 - 8)).take 8) = root := by
    have := drop_take_seg (u64le VERSION ++ u64le ty ++ nodeBytes s' ++ u64le s'.len) (u64le root)
      (u32le crc) (bytes.length - 4 - 8) 8
      (by rw [List.length_append, hA, u64le_length]; omega) (u64le_length _)
    rw [← e4] at this
    rw [this, unpack_u64le hroot64]
  have hck' : unpack ((bytes.drop (bytes.length - 4)).take 4) = crc := by
    have := drop_take_seg (bodyBytes ty s' root) (u32le crc) [] (bytes.length - 4) 4
      (by rw [bodyBytes_length hl]; omega) (u32le_length _)
    rw [← e5] at this
    rw [this, unpack_u32le hcrc]
  have hnew : fstNew (Src.ofList bytes) = .ok ⟨3, root, ty, s'.len, some crc⟩ := by
    have h := fstNew_eq bytes (by omega) (by omega) (by omega) (by intro _; omega)
    simp only [hver, show ¬ (3 ≤ 2) by omega, if_false, hty', hlen', hroot', hck'] at h
    rw [h, if_neg]
    rintro ⟨⟨h0, hne⟩, _⟩
    rcases hroot with ⟨_, _, hc⟩ | ⟨_, _, _, _, _, h16⟩
    · apply hne; omega
    · simp only [EMPTY_ADDRESS] at h0; omega
  refine ⟨hnew, ?_⟩
  rw [verify_eq bytes _ hnew]
  have htake : bytes.take (bytes.length - 4) = bodyBytes ty s' root := by
    rw [← hB, fileOf]
    exact List.take_left' (by rw [List.length_append, u32le_length]; omega)
  simp only [htake]
  rw [if_pos]
  exact hC.symm

/-! ### the byte-level node access -/

/-- the value bound the byte layer needs: stored outputs fit in 64 bits
(`build_bound` / `build_bound_set` provide it for whole builds) -/
def OutBound (s : BState) : Prop :=
  ∀ e ∈ s.out, e.node.fout < 2^64 ∧ ∀ t ∈ e.node.trans, t.out < 2^64

def tri (e : Emit) : Nat × BNode × List UInt8 := (e.addr, e.node, e.chunks.flatten)

theorem laid_of_layoutF (v : Nat) (hv : 2 ≤ v) : ∀ (es : List Emit) (start last : Nat),
    LayoutF start last es → (last = start - 1 ∨ last = NONE_ADDRESS) → 0 < start →
    start + totalSize es ≤ 2^64 →
    (∀ e ∈ es, e.node.trans.length ≤ 256 ∧ SortedInputs e.node ∧
      isEmptyFinal e.node = false ∧ (e.node.fin = false → e.node.fout = 0)) →
    (∀ e ∈ es, e.node.fout < 2^64 ∧ ∀ t ∈ e.node.trans, t.out < 2^64) →
    (∀ e ∈ es, ∀ t ∈ e.node.trans, t.addr ≠ NONE_ADDRESS) →
    Laid v start (es.map tri)
  | [], _, _, _, _, _, _, _, _, _ => trivial
  | e :: es, start, last, hl, hlast, hpos, hsz, hshape, hbound, hone => by
    obtain ⟨l1, l2, l3, l4, l5⟩ := hl
    obtain ⟨c1, c2⟩ := compileNodeC_flatten_some l1
    have hsize : e.chunks.flatten.length = e.size := emit_size_flatten e
    have hts : totalSize (e :: es) = e.size + totalSize es := by simp [totalSize]
    obtain ⟨s1, s2, s3, s4⟩ := hshape e List.mem_cons_self
    have wf : WFNode e.node last start :=
      WFNode.ofBuilder s1 s2 (fun t ht => Or.inr (l4 t ht)) (hbound e List.mem_cons_self)
        (by omega) hpos s3 hlast (hone e List.mem_cons_self) s4
    refine ⟨⟨last, wf, c1⟩, ?_, Or.inl hv, ?_⟩
    · show e.addr = start + e.chunks.flatten.length - 1
      rw [hsize]; exact l3
    · show Laid v (start + e.chunks.flatten.length) (es.map tri)
      rw [hsize]
      exact laid_of_layoutF v hv es (start + e.size) e.addr l5 (Or.inl (by omega)) (by omega)
        (by omega) (fun x hx => hshape x (List.mem_cons_of_mem _ hx))
        (fun x hx => hbound x (List.mem_cons_of_mem _ hx))
        (fun x hx => hone x (List.mem_cons_of_mem _ hx))

theorem layout_laid {s' : BState} (hl : Layout s') (hb : OutBound s') (hsz : s'.count ≤ 2^64)
    (v : Nat) (hv : 2 ≤ v) : Laid v 16 (s'.out.reverse.map tri) := by
  refine laid_of_layoutF v hv _ 16 NONE_ADDRESS hl.nodes (Or.inr rfl) (by omega)
    (by rw [totalSize_reverse, ← hl.count]; exact hsz) ?_ ?_ ?_
  · intro e he; exact hl.shape e (List.mem_reverse.mp he)
  · intro e he; exact hb e (List.mem_reverse.mp he)
  · intro e he t ht h1
    have he' := List.mem_reverse.mp he
    rcases (hl.targets e he' t ht).2 with h0 | ⟨e', he2, ha, _⟩
    · simp only [NONE_ADDRESS] at h1; omega
    · have := (hl.range e' he2).1
      simp only [NONE_ADDRESS] at h1; omega

theorem file_split (ty : Nat) (s' : BState) (root : Nat) :
    fileOf ty s' root = (u64le VERSION ++ u64le ty) ++ (s'.out.reverse.map tri).flatMap (·.2.2) ++
      (u64le s'.len ++ u64le root ++ u32le (crcOf (bodyBytes ty s' root))) := by
  have : (s'.out.reverse.map tri).flatMap (·.2.2) = nodeBytes s' := by
    rw [List.flatMap_map]; rfl
  rw [this]; simp [fileOf, bodyBytes, List.append_assoc]

theorem storeOf_tri (s' : BState) :
    ((s'.out.reverse.map tri).map fun e => (e.1, e.2.1)) = storeOf s' := by
  simp [storeOf, tri, List.map_map, Function.comp_def]

/-- FILE REPRESENTS. The node access of a version-`v` reader (`v = 3`, and also `v = 2`: the
same bytes read by a version-2 reader) over the written file returns exactly the emitted
nodes. Needs the 64-bit value bound on the stored outputs and a file below `2^64` bytes. -/
theorem file_represents {s s' : BState} {root : Nat} (hr : Reachable s) (ty : Nat)
    (hfin : s.finish = .ok (s', root)) (hb : OutBound s')
    (hsz : (fileOf ty s' root).length < 2^64) (v : Nat) (hv : 2 ≤ v) :
    Represents (byteAccess v (Src.ofList (fileOf ty s' root))) (storeOf s') := by
  obtain ⟨s'', root', hfin', hl, _, _, hblen, _, _⟩ := file_shape hr ty (fileBytes_eq ty hfin)
  rw [hfin] at hfin'; cases hfin'
  have hlaid := layout_laid hl hb (by omega) v hv
  have := byteAccess_represents v (s'.out.reverse.map tri) (u64le VERSION ++ u64le ty)
    (u64le s'.len ++ u64le root ++ u32le (crcOf (bodyBytes ty s' root)))
    (by simpa [u64le_length] using hlaid)
  rw [← file_split, storeOf_tri] at this
  exact this

/-! ### C09: the emitted nodes tile the node region -/

/-- address of the first byte of an emitted node -/
def firstByte (e : Emit) : Nat := e.addr + 1 - e.size

theorem layoutF_first : ∀ (es : List Emit) (start last : Nat), LayoutF start last es →
    ∀ e ∈ es.head?, firstByte e = start
  | [], _, _, _ => by simp
  | e :: es, start, last, h => by
    obtain ⟨_, l2, l3, _⟩ := h
    simp only [List.head?_cons, Option.mem_def, Option.some.injEq, forall_eq', firstByte]
    omega

theorem layoutF_first_ge : ∀ (es : List Emit) (start last : Nat), LayoutF start last es →
    ∀ x ∈ es, start ≤ firstByte x
  | [], _, _, _ => by intro x hx; cases hx
  | y :: ys, start, last, h => by
    obtain ⟨_, l2, l3, _, l5⟩ := h
    intro x hx
    rcases List.mem_cons.mp hx with rfl | hx
    · simp only [firstByte]; omega
    · have := layoutF_first_ge ys _ _ l5 x hx; omega

theorem layoutF_adjacent : ∀ (es : List Emit) (start last : Nat), LayoutF start last es →
    ∀ pre e1 e2 post, es = pre ++ e1 :: e2 :: post → firstByte e2 = e1.addr + 1 ∧ 1 ≤ e1.size
  | [], _, _, _ => by intro pre e1 e2 post h; simp at h
  | e :: es, start, last, h => by
    obtain ⟨_, l2, l3, _, l5⟩ := h
    intro pre e1 e2 post heq
    cases pre with
    | nil =>
      simp only [List.nil_append, List.cons.injEq] at heq
      obtain ⟨rfl, rfl⟩ := heq
      have := layoutF_first _ _ _ l5 e2 (by simp)
      exact ⟨by omega, l2⟩
    | cons p pre =>
      simp only [List.cons_append, List.cons.injEq] at heq
      exact layoutF_adjacent es _ _ l5 pre e1 e2 post heq.2

theorem layoutF_last : ∀ (es : List Emit) (start last : Nat), LayoutF start last es →
    ∀ e ∈ es.getLast?, e.addr = start + totalSize es - 1 ∧ 1 ≤ e.size
  | [], _, _, _ => by simp
  | [e], start, last, h => by
    obtain ⟨_, l2, l3, _⟩ := h
    simp only [List.getLast?_singleton, Option.mem_def, Option.some.injEq, forall_eq', totalSize,
      List.map_cons, List.map_nil, List.sum_cons, List.sum_nil]
    omega
  | e :: e2 :: es, start, last, h => by
    obtain ⟨_, l2, l3, _, l5⟩ := h
    intro x hx
    rw [List.getLast?_cons_cons] at hx
    have := layoutF_last (e2 :: es) _ _ l5 x hx
    simp only [totalSize, List.map_cons, List.sum_cons] at this ⊢
    omega

/-- FILE TILING (C09). With `es` the emitted nodes in emission order:
the first node starts at byte 16 (right after the header); each next node starts at the byte
after the previous node's address; the last node's address is `count - 1`, the byte before
the footer; every node has at least one byte; reading the node at any emitted address with a
version-`v ≥ 2` reader succeeds, gives back exactly the emitted node, and reports as its extent
`end_ = ` the node's first byte and `start = ` its address; and every transition target is 0 or
the address of a node emitted earlier. -/
theorem file_tiling {s s' : BState} {root : Nat} (hr : Reachable s) (ty : Nat)
    (hfin : s.finish = .ok (s', root)) (hb : OutBound s')
    (hsz : (fileOf ty s' root).length < 2^64) (v : Nat) (hv : 2 ≤ v) :
    (∀ e ∈ s'.out.reverse.head?, firstByte e = 16) ∧
    (∀ pre e1 e2 post, s'.out.reverse = pre ++ e1 :: e2 :: post → firstByte e2 = e1.addr + 1) ∧
    (∀ e ∈ s'.out.reverse.getLast?, e.addr = s'.count - 1) ∧
    (∀ e ∈ s'.out, 1 ≤ e.size ∧ 16 ≤ firstByte e ∧ e.addr < s'.count) ∧
    (∀ e ∈ s'.out, ∃ rn, nodeNew v (Src.ofList (fileOf ty s' root)) e.addr = some rn ∧
      rn.start = e.addr ∧ rn.end_ = firstByte e ∧ rn.toBNode (Src.ofList (fileOf ty s' root)) = some e.node) ∧
    (∀ e ∈ s'.out, ∀ t ∈ e.node.trans,
      t.addr = 0 ∨ ∃ e' ∈ s'.out, e'.addr = t.addr ∧ e'.addr < e.addr) := by
  obtain ⟨s'', root', hfin', hl, _, _, hblen, _, _⟩ := file_shape hr ty (fileBytes_eq ty hfin)
  rw [hfin] at hfin'; cases hfin'
  have hlaid := layout_laid hl hb (by omega) v hv
  have hdec : ∀ e ∈ s'.out, 1 ≤ e.size ∧ 16 ≤ firstByte e ∧
      ∃ rn, nodeNew v (Src.ofList (fileOf ty s' root)) e.addr = some rn ∧
      rn.start = e.addr ∧ rn.end_ = firstByte e ∧
      rn.toBNode (Src.ofList (fileOf ty s' root)) = some e.node := by
    intro e he
    obtain ⟨st, hseg, ⟨last, wf, henc⟩, haddr, hvv⟩ :=
      laid_mem v (s'.out.reverse.map tri) 16 (u64le VERSION ++ u64le ty)
        (u64le s'.len ++ u64le root ++ u32le (crcOf (bodyBytes ty s' root)))
        (by simp [u64le_length]) hlaid (tri e)
        (List.mem_map.mpr ⟨e, List.mem_reverse.mpr he, rfl⟩)
    rw [← file_split] at hseg
    obtain ⟨hne, rn, hrn, D⟩ := codec_seg v e.node last st e.chunks.flatten _ hvv wf henc hseg
    have hlen : 1 ≤ e.size := by
      rw [← emit_size_flatten]
      exact Nat.pos_of_ne_zero (fun h => hne (List.eq_nil_of_length_eq_zero h))
    have haddr' : e.addr = st + e.size - 1 := by
      have : e.addr = st + e.chunks.flatten.length - 1 := haddr
      rw [emit_size_flatten] at this; exact this
    have hfirst : firstByte e = st := by simp only [firstByte]; omega
    have h16 := layoutF_first_ge _ _ _ hl.nodes e (List.mem_reverse.mpr he)
    rw [emit_size_flatten, ← haddr'] at hrn D
    exact ⟨hlen, by omega, rn, hrn, D.start_eq, by rw [D.end_eq, hfirst], D.toBNode⟩
  refine ⟨layoutF_first _ _ _ hl.nodes, ?_, ?_, ?_, ?_, ?_⟩
  · intro pre e1 e2 post h
    exact (layoutF_adjacent _ _ _ hl.nodes pre e1 e2 post h).1
  · intro e he
    have := (layoutF_last _ _ _ hl.nodes e he).1
    rw [totalSize_reverse, ← hl.count] at this
    exact this
  · intro e he
    exact ⟨(hdec e he).1, (hdec e he).2.1, (hl.range e he).2⟩
  · intro e he; exact (hdec e he).2.2
  · intro e he t ht; exact (hl.targets e he t ht).2

/-- the hypotheses of `file_shape` are satisfiable (the hypotheses of `file_open`,
`file_represents`, `file_tiling` are shown satisfiable together, on a concrete 4-key build whose
51 bytes are computed by the kernel, in `Proofs/EndToEnd.lean`: `ex_hyps`) -/
example : ∃ s bytes, Reachable s ∧ s.fileBytes 5 = .ok bytes := by
  obtain ⟨bytes, h⟩ := file_exists (Reachable.new 3 2) 5
  exact ⟨_, bytes, Reachable.new 3 2, h⟩

end E2E
end Fst
