import FstVerif.Proofs.SchedA
import FstVerif.Proofs.SchedB
import FstVerif.Proofs.Merge
/-
The `Sorters` thread/channel protocol of `fst-bin/src/merge.rs` (`Model/Sched.lean`):
main theorems (parts A and B), `applyOrder`, and the composition with the data-flow
model of `Merger::merge` (`Model/Merge.lean`): the merge result is the specification for
every number of threads and every interleaving of every generation (`C19_threads`).

  SchedA: `Reachable`, `Inv`, `sorters_perm`, `sorters_order`, `sorters_progress`,
          `step_decreases`, `sorters_terminates`
  SchedB: `sorters_complete`, `sorters_exact`
  here:   `applyOrder_perm`, `schedOf`, `schedOf_perm`, `C19_threads`, examples
-/
namespace Fst.Sched

/-! ### 6. `applyOrder` of a permutation of the indices is a permutation of the results -/

theorem applyOrder_range {α : Type} : ∀ (xs : List α), applyOrder (List.range xs.length) xs = xs
  | [] => rfl
  | x :: xs => by
    have ih := applyOrder_range xs
    simp only [applyOrder] at ih ⊢
    rw [List.length_cons, List.range_succ_eq_map, List.filterMap_cons, List.filterMap_map]
    simp only [List.getElem?_cons_zero]
    congr 1

theorem applyOrder_perm {α : Type} {order : List Nat} {xs : List α}
    (h : order.Perm (List.range xs.length)) : (applyOrder order xs).Perm xs := by
  have := h.filterMap (xs[·]?)
  rw [show List.filterMap (xs[·]?) (List.range xs.length) = xs from applyOrder_range xs] at this
  exact this

/-! ### 7. composition with the merge data flow -/

/-- the schedule induced by the thread protocol: generation `g` with results `xs` runs the
interleaving `choice g xs.length` of `threads` workers; a choice that is not an execution
(an event not enabled, or a non-terminal end state) is ignored -/
def schedOf (threads : Nat) (choice : Nat → Nat → List Ev) : Nat → List KV → List KV :=
  fun g xs =>
    match run (init threads xs.length) (choice g xs.length) with
    | some s => if s.terminal then applyOrder s.collected xs else xs
    | none => xs

theorem schedOf_perm (threads : Nat) (choice : Nat → Nat → List Ev) :
    ∀ g xs, (schedOf threads choice g xs).Perm xs := by
  intro g xs
  unfold schedOf
  split
  · rename_i s hs
    split
    · rename_i ht
      exact applyOrder_perm (sorters_perm ⟨_, hs⟩ ht)
    · exact List.Perm.refl _
  · exact List.Perm.refl _

open Fst.MergeProofs in
/-- **C19 with threads**: for every number of worker threads and every interleaving of the
`Sorters` protocol in every generation, `Merger::merge` writes the specification of its rows -/
theorem C19_threads (m : MergeMode) (batchSize fd : Nat) (hfd : 2 ≤ fd) (threads : Nat)
    (choice : Nat → Nat → List Ev) (rows : List (Key × Nat)) :
    mergeAll m batchSize fd (schedOf threads choice) rows = some (Spec.merged m rows) :=
  C19_result_final m batchSize fd hfd (schedOf threads choice) (schedOf_perm threads choice) rows

/-! ### examples and non-vacuity -/

/-- 2 workers, 3 batches: worker 0 takes batch 0 and is slow; worker 1 takes 1 and 2 and
hands over first -/
def demoEvs : List Ev :=
  [.recv 0, .recv 1, .work 1, .recv 1, .work 1, .close, .finish 1, .work 0, .finish 0]

example : (run (init 2 3) demoEvs).map (·.collected) = some [1, 2, 0] := by decide
example : (run (init 2 3) demoEvs).map (·.terminal) = some true := by decide
example : validOrder 2 3 [1, 2, 0] = true := by decide
example : validOrder 1 3 [1, 2, 0] = false := by decide
example : validOrder 2 3 [2, 1, 0] = false := by decide
example : validOrder 3 3 [2, 1, 0] = true := by decide
example : validOrder 1 3 [0, 1, 2] = true := by decide
-- a disabled event (worker 0 already holds a batch)
example : run (init 2 3) [.recv 0, .recv 0] = none := by decide
-- no result vector can be handed over before the sender is dropped
example : run (init 2 0) [.finish 0] = none := by decide

/-- the terminal state reached by `demoEvs` -/
def demoSt : St :=
  { next := 3, total := 3, closed := true,
    workers := [⟨none, [0], true⟩, ⟨none, [1, 2], true⟩], collected := [1, 2, 0] }

theorem demo_run : run (init 2 3) demoEvs = some demoSt := by decide
theorem demo_reachable : Reachable 2 3 demoSt := ⟨demoEvs, demo_run⟩

-- `sorters_perm`, `sorters_order`: hypotheses satisfiable, conclusion as computed
example : demoSt.collected.Perm (List.range 3) := sorters_perm demo_reachable (by decide)
example : validOrder 2 3 demoSt.collected = true := sorters_order demo_reachable (by decide)
-- `sorters_progress`: a reachable non-terminal state (both workers busy, sender still open)
example : ∃ e, (step ⟨2, 3, false, [⟨some 0, [], false⟩, ⟨some 1, [], false⟩], []⟩ e).isSome :=
  sorters_progress (threads := 2) (total := 3) (by decide) ⟨[.recv 0, .recv 1], by decide⟩ (by decide)
-- `sorters_terminates`: the bound is attained exactly by `demoEvs` (9 events)
example : demoEvs.length ≤ 2 * 3 + 2 + 1 := sorters_terminates demo_run
example : demoEvs.length = 9 := rfl
example : μ (init 2 3) = 9 ∧ μ demoSt = 0 := by decide
-- `sorters_complete`: the order `[1,2,0]` is produced by some execution with 2 workers
example : ∃ evs s, run (init 2 3) evs = some s ∧ s.terminal = true ∧ s.collected = [1, 2, 0] :=
  sorters_complete (by decide) (by decide)
-- … and by none with 1 worker
example : ¬ ∃ s, Reachable 1 3 s ∧ s.terminal = true ∧ s.collected = [1, 2, 0] := by
  rw [← sorters_exact (by decide)]; decide
-- `applyOrder_perm`
example : applyOrder [1, 2, 0] ["a", "b", "c"] = ["b", "c", "a"] := by decide
example : (applyOrder [1, 2, 0] ["a", "b", "c"]).Perm ["a", "b", "c"] :=
  applyOrder_perm (by decide)

/-- a choice of interleavings that is not the identity schedule: 3 results with 2 workers
are returned in the order `[1,2,0]` -/
def demoChoice : Nat → Nat → List Ev := fun _ n => if n = 3 then demoEvs else []

example : schedOf 2 demoChoice 0 [[([1], 1)], [([2], 2)], [([3], 3)]]
    = [[([2], 2)], [([3], 3)], [([1], 1)]] := by decide
-- a choice that is not an execution leaves the list alone
example : schedOf 2 demoChoice 0 [[([1], 1)], [([2], 2)]] = [[([1], 1)], [([2], 2)]] := by decide

open Fst.MergeProofs in
example : mergeAll .sum 1 2 (schedOf 2 demoChoice) [([98], 1), ([97], 2), ([98], 5)]
    = some (Spec.merged .sum [([98], 1), ([97], 2), ([98], 5)]) :=
  C19_threads _ _ _ (by decide) _ _ _

end Fst.Sched
