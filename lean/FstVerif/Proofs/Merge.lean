import FstVerif.Model.Merge
import FstVerif.Proofs.Den
import FstVerif.Proofs.Ops
/-
C19: the result of `fst-bin/src/merge.rs` (`Merger::merge`, model `mergeAll`) is the
specification `Spec.merged m rows` — one entry per distinct key, keys ascending, value
= merge of all values given for the key — for every batch size, every group size
`fd_limit ≥ 2` and every order in which a generation's results are collected.

The behaviour of `Union` over sorted streams enters as the hypothesis `UnionSpec` /
`UnionSpecV` of the intermediate theorems; it is discharged at the end of the file from
`C05_union_char` (Proofs/Ops.lean), giving the unconditional `C19_result_final`.
-/
namespace Fst
namespace MergeProofs

/-! ### the key order -/

theorem u8_lt_irrefl (x : UInt8) : ¬ x < x := by
  rw [UInt8.lt_iff_toNat_lt]; omega
theorem u8_lt_trans {x y z : UInt8} (h1 : x < y) (h2 : y < z) : x < z := by
  rw [UInt8.lt_iff_toNat_lt] at *; omega
theorem u8_trichotomy (x y : UInt8) : x < y ∨ x = y ∨ y < x := by
  rw [UInt8.lt_iff_toNat_lt, UInt8.lt_iff_toNat_lt, ← UInt8.toNat_inj]; omega

theorem lexLt_irrefl : ∀ k : Key, lexLt k k = false
  | [] => rfl
  | a :: as => by simp [lexLt, lexLt_irrefl as]

theorem lexLt_trans : ∀ {a b c : Key}, lexLt a b = true → lexLt b c = true → lexLt a c = true
  | [], [], _, h, _ => by simp [lexLt] at h
  | [], _ :: _, [], _, h => by simp [lexLt] at h
  | [], _ :: _, _ :: _, _, _ => rfl
  | _ :: _, [], _, h, _ => by simp [lexLt] at h
  | _ :: _, _ :: _, [], _, h => by simp [lexLt] at h
  | a :: as, b :: bs, c :: cs, h1, h2 => by
    simp only [lexLt, Bool.or_eq_true, Bool.and_eq_true, decide_eq_true_eq, beq_iff_eq] at *
    rcases h1 with h1 | ⟨rfl, h1⟩
    · rcases h2 with h2 | ⟨rfl, h2⟩
      · exact .inl (u8_lt_trans h1 h2)
      · exact .inl h1
    · rcases h2 with h2 | ⟨rfl, h2⟩
      · exact .inl h2
      · exact .inr ⟨rfl, lexLt_trans h1 h2⟩

theorem lexLt_trichotomy : ∀ a b : Key, lexLt a b = true ∨ a = b ∨ lexLt b a = true
  | [], [] => .inr (.inl rfl)
  | [], _ :: _ => .inl rfl
  | _ :: _, [] => .inr (.inr rfl)
  | a :: as, b :: bs => by
    simp only [lexLt, Bool.or_eq_true, Bool.and_eq_true, decide_eq_true_eq, beq_iff_eq]
    rcases u8_trichotomy a b with h | rfl | h
    · exact .inl (.inl h)
    · rcases lexLt_trichotomy as bs with h | rfl | h
      · exact .inl (.inr ⟨rfl, h⟩)
      · exact .inr (.inl rfl)
      · exact .inr (.inr (.inr ⟨rfl, h⟩))
    · exact .inr (.inr (.inl h))

theorem lexLt_asymm {a b : Key} (h : lexLt a b = true) : lexLt b a = false := by
  cases h' : lexLt b a with
  | false => rfl
  | true => have := lexLt_trans h h'; rw [lexLt_irrefl] at this; cases this

theorem lexLt_ne {a b : Key} (h : lexLt a b = true) : a ≠ b := by
  rintro rfl; rw [lexLt_irrefl] at h; cases h

/-- `a ≤ b` then `b < c` -/
theorem lexLe_lt_trans {a b c : Key} (h1 : lexLt b a = false) (h2 : lexLt b c = true) :
    lexLt a c = true := by
  rcases lexLt_trichotomy a b with h | rfl | h
  · exact lexLt_trans h h2
  · exact h2
  · rw [h] at h1; cases h1

theorem lexLe_trans {a b c : Key} (h1 : lexLt b a = false) (h2 : lexLt c b = false) :
    lexLt c a = false := by
  cases h : lexLt c a with
  | false => rfl
  | true =>
    have := lexLe_lt_trans h2 h   -- b < a
    rw [this] at h1; cases h1

/-! ### strictly sorted lists are determined by their members -/

theorem pairwise_ext {α : Type} {R : α → α → Prop} (hasym : ∀ a b, R a b → ¬ R b a) :
    ∀ (l1 l2 : List α), l1.Pairwise R → l2.Pairwise R → (∀ x, x ∈ l1 ↔ x ∈ l2) → l1 = l2
  | [], [], _, _, _ => rfl
  | [], y :: _, _, _, h => by have := (h y).mpr (by simp); cases this
  | x :: _, [], _, _, h => by have := (h x).mp (by simp); cases this
  | x :: l1, y :: l2, h1, h2, h => by
    rw [List.pairwise_cons] at h1 h2
    have hxy : x = y := by
      rcases List.mem_cons.mp ((h x).mp (by simp)) with e | hx
      · exact e
      rcases List.mem_cons.mp ((h y).mpr (by simp)) with e | hy
      · exact e.symm
      exact absurd (h1.1 y hy) (hasym _ _ (h2.1 x hx))
    subst hxy
    congr 1
    apply pairwise_ext hasym l1 l2 h1.2 h2.2
    intro z
    constructor
    · intro hz
      rcases List.mem_cons.mp ((h z).mp (List.mem_cons_of_mem _ hz)) with e | hz'
      · subst e; exact absurd (h1.1 z hz) (hasym _ _ (h1.1 z hz))
      · exact hz'
    · intro hz
      rcases List.mem_cons.mp ((h z).mpr (List.mem_cons_of_mem _ hz)) with e | hz'
      · subst e; exact absurd (h2.1 z hz) (hasym _ _ (h2.1 z hz))
      · exact hz'

/-! ### the value merger -/

theorem op_comm (m : MergeMode) (x y : Nat) : m.op x y = m.op y x := by
  cases m <;> simp [MergeMode.op, Nat.add_comm, Nat.max_comm, Nat.min_comm]

theorem op_assoc (m : MergeMode) (x y z : Nat) : m.op (m.op x y) z = m.op x (m.op y z) := by
  cases m <;> simp [MergeMode.op, Nat.add_assoc, Nat.max_assoc, Nat.min_assoc]

theorem op_right_comm (m : MergeMode) (b x y : Nat) : m.op (m.op b x) y = m.op (m.op b y) x := by
  rw [op_assoc, op_comm m x y, ← op_assoc]

theorem foldl_perm (m : MergeMode) {l1 l2 : List Nat} (h : l1.Perm l2) :
    ∀ a, l1.foldl m.op a = l2.foldl m.op a := by
  induction h with
  | nil => intro a; rfl
  | cons x _ ih => intro a; exact ih _
  | swap x y l => intro a; simp only [List.foldl_cons]; rw [op_right_comm]
  | trans _ _ ih1 ih2 => intro a; rw [ih1, ih2]

/-- **`fold` does not depend on the order of the values** -/
theorem fold_perm (m : MergeMode) {l1 l2 : List Nat} (h : l1.Perm l2) : m.fold l1 = m.fold l2 := by
  induction h with
  | nil => rfl
  | cons x h _ => simp only [MergeMode.fold]; split; rfl; exact foldl_perm m h x
  | swap x y l => simp only [MergeMode.fold, List.foldl_cons]; split; rfl; rw [op_comm]
  | trans _ _ ih1 ih2 => rw [ih1, ih2]

theorem fold_set (l : List Nat) : MergeMode.fold .set l = 0 := by
  cases l <;> simp [MergeMode.fold]

theorem foldl_op (m : MergeMode) (a b : Nat) (l : List Nat) :
    (b :: l).foldl m.op a = m.op a (l.foldl m.op b) := by
  induction l generalizing a b with
  | nil => rfl
  | cons c l ih => simp only [List.foldl_cons] at *; rw [ih, ih, op_assoc]

theorem fold_cons (m : MergeMode) (hm : m ≠ .set) (x : Nat) (t : List Nat) (ht : t ≠ []) :
    m.fold (x :: t) = m.op x (m.fold t) := by
  cases t with
  | nil => contradiction
  | cons y t => simp only [MergeMode.fold, hm, if_false]; exact foldl_op m x y t

theorem fold_single (m : MergeMode) (hm : m ≠ .set) (x : Nat) : m.fold [x] = x := by
  simp [MergeMode.fold, hm]

theorem fold_append (m : MergeMode) (hm : m ≠ .set) (a b : List Nat) (ha : a ≠ []) (hb : b ≠ []) :
    m.fold (a ++ b) = m.op (m.fold a) (m.fold b) := by
  induction a with
  | nil => contradiction
  | cons x a ih =>
    by_cases ha' : a = []
    · subst ha'; simp only [List.cons_append, List.nil_append]
      rw [fold_cons m hm x b hb, fold_single m hm]
    · rw [List.cons_append, fold_cons m hm x (a ++ b) (by simp [ha']), ih ha',
        fold_cons m hm x a ha', op_assoc]


/-- the merged values of the non-empty groups -/
def groupFolds (m : MergeMode) (ls : List (List Nat)) : List Nat :=
  ls.flatMap fun l => if l = [] then [] else [m.fold l]

theorem groupFolds_eq_nil (m : MergeMode) (ls : List (List Nat)) :
    groupFolds m ls = [] ↔ ls.flatten = [] := by
  induction ls with
  | nil => simp [groupFolds]
  | cons l ls ih =>
    simp only [groupFolds, List.flatMap_cons, List.flatten_cons, List.append_eq_nil_iff] at *
    rw [ih]
    by_cases hl : l = [] <;> simp [hl]

/-- merging group-wise and then merging the results is merging everything
(`fold` is a homomorphism from concatenation to `op`) -/
theorem fold_groups (m : MergeMode) (ls : List (List Nat)) :
    m.fold (groupFolds m ls) = m.fold ls.flatten := by
  by_cases hm : m = .set
  · subst hm; rw [fold_set, fold_set]
  induction ls with
  | nil => rfl
  | cons l ls ih =>
    by_cases hl : l = []
    · subst hl; simpa [groupFolds] using ih
    · have e : groupFolds m (l :: ls) = m.fold l :: groupFolds m ls := by
        simp [groupFolds, hl]
      rw [e, List.flatten_cons]
      by_cases hr : ls.flatten = []
      · rw [hr, (groupFolds_eq_nil m ls).mpr hr, List.append_nil, fold_single m hm]
      · rw [fold_cons m hm _ _ (fun h => hr ((groupFolds_eq_nil m ls).mp h)), ih,
          fold_append m hm l _ hl hr]

/-! ### the specification -/

/-- all values given for key `k`, in row order -/
def valuesOf (rows : List (Key × Nat)) (k : Key) : List Nat :=
  (rows.filter (·.1 == k)).map (·.2)

/-- strictly ascending keys -/
def Canon (l : KV) : Prop := l.Pairwise fun a b => lexLt a.1 b.1 = true

def insertKey (k : Key) : List Key → List Key
  | [] => [k]
  | x :: xs =>
    if lexLt k x then k :: x :: xs
    else if k == x then x :: xs
    else x :: insertKey k xs

/-- the distinct keys of the rows, ascending -/
def Spec.keys (rows : List (Key × Nat)) : List Key := (rows.map (·.1)).foldr insertKey []

/-- **Specification of `fst map` (sum, max, min) and `fst set` on unsorted input**: one entry
per distinct key, keys ascending, the value is the merge of all values given for the key. -/
def Spec.merged (m : MergeMode) (rows : List (Key × Nat)) : KV :=
  (Spec.keys rows).map fun k => (k, m.fold (valuesOf rows k))

theorem mem_insertKey (k a : Key) (l : List Key) : a ∈ insertKey k l ↔ a = k ∨ a ∈ l := by
  induction l with
  | nil => simp [insertKey]
  | cons x xs ih =>
    simp only [insertKey]
    split
    · simp
    · split
      · rename_i h; have : k = x := by simpa using h
        subst this; simp
      · simp only [List.mem_cons, ih]
        constructor
        · rintro (h | h | h) <;> simp [h]
        · rintro (h | h | h) <;> simp [h]

theorem sorted_insertKey (k : Key) (l : List Key) (h : l.Pairwise fun a b => lexLt a b = true) :
    (insertKey k l).Pairwise fun a b => lexLt a b = true := by
  induction l with
  | nil => simp [insertKey]
  | cons x xs ih =>
    rw [List.pairwise_cons] at h
    simp only [insertKey]
    split
    · rename_i hk
      exact List.pairwise_cons.mpr ⟨fun y hy => by
        rcases List.mem_cons.mp hy with rfl | hy
        · exact hk
        · exact lexLt_trans hk (h.1 y hy), List.pairwise_cons.mpr h⟩
    · split
      · exact List.pairwise_cons.mpr h
      · rename_i h1 h2
        have hxk : lexLt x k = true := by
          rcases lexLt_trichotomy k x with h' | h' | h'
          · exact absurd h' h1
          · subst h'; simp at h2
          · exact h'
        refine List.pairwise_cons.mpr ⟨fun y hy => ?_, ih h.2⟩
        rcases (mem_insertKey k y xs).mp hy with rfl | hy
        · exact hxk
        · exact h.1 y hy

theorem mem_keys (rows : List (Key × Nat)) (k : Key) :
    k ∈ Spec.keys rows ↔ k ∈ rows.map (·.1) := by
  induction rows with
  | nil => simp [Spec.keys]
  | cons r rows ih =>
    have : Spec.keys (r :: rows) = insertKey r.1 (Spec.keys rows) := rfl
    rw [this, mem_insertKey, ih]; simp

theorem keys_sorted (rows : List (Key × Nat)) :
    (Spec.keys rows).Pairwise fun a b => lexLt a b = true := by
  induction rows with
  | nil => simp [Spec.keys]
  | cons r rows ih => exact sorted_insertKey r.1 _ ih

theorem merged_canon (m : MergeMode) (rows : List (Key × Nat)) : Canon (Spec.merged m rows) := by
  unfold Canon Spec.merged
  rw [List.pairwise_map]
  exact keys_sorted rows

/-- membership in the specification -/
theorem mem_merged (m : MergeMode) (rows : List (Key × Nat)) (k : Key) (v : Nat) :
    (k, v) ∈ Spec.merged m rows ↔ k ∈ rows.map (·.1) ∧ v = m.fold (valuesOf rows k) := by
  unfold Spec.merged
  constructor
  · intro h
    obtain ⟨a, ha, he⟩ := List.mem_map.mp h
    simp only [Prod.mk.injEq] at he
    obtain ⟨rfl, rfl⟩ := he
    exact ⟨(mem_keys rows a).mp ha, rfl⟩
  · rintro ⟨hk, rfl⟩
    exact List.mem_map.mpr ⟨k, (mem_keys rows k).mpr hk, rfl⟩

theorem canon_ext {a b : KV} (ha : Canon a) (hb : Canon b) (h : ∀ x, x ∈ a ↔ x ∈ b) : a = b :=
  pairwise_ext (fun x y hxy hyx => by
    have := lexLt_asymm hxy; rw [this] at hyx; cases hyx) a b ha hb h

/-- **the specification is determined by membership**: any key-ascending list with exactly
these entries is `Spec.merged m rows`. -/
theorem merged_unique (m : MergeMode) (rows : List (Key × Nat)) (out : KV) (hc : Canon out)
    (h : ∀ k v, (k, v) ∈ out ↔ k ∈ rows.map (·.1) ∧ v = m.fold (valuesOf rows k)) :
    out = Spec.merged m rows :=
  canon_ext hc (merged_canon m rows) fun x => by
    obtain ⟨k, v⟩ := x
    rw [h, mem_merged]

theorem valuesOf_perm {r1 r2 : List (Key × Nat)} (h : r1.Perm r2) (k : Key) :
    (valuesOf r1 k).Perm (valuesOf r2 k) :=
  (h.filter _).map _

/-- the specification depends only on the multiset of rows -/
theorem merged_perm (m : MergeMode) {r1 r2 : List (Key × Nat)} (h : r1.Perm r2) :
    Spec.merged m r1 = Spec.merged m r2 :=
  merged_unique m r2 _ (merged_canon m r1) fun k v => by
    rw [mem_merged, fold_perm m (valuesOf_perm h k)]
    constructor
    · rintro ⟨h1, h2⟩; exact ⟨(h.map _).mem_iff.mp h1, h2⟩
    · rintro ⟨h1, h2⟩; exact ⟨(h.map _).mem_iff.mpr h1, h2⟩

theorem valuesOf_append (a b : List (Key × Nat)) (k : Key) :
    valuesOf (a ++ b) k = valuesOf a k ++ valuesOf b k := by
  simp [valuesOf]

theorem valuesOf_ne_nil (rows : List (Key × Nat)) (k : Key) :
    valuesOf rows k ≠ [] ↔ k ∈ rows.map (·.1) := by
  induction rows with
  | nil => simp [valuesOf]
  | cons r rows ih =>
    by_cases h : r.1 = k
    · simp [valuesOf, h]
    · have h' : ¬ k = r.1 := fun e => h e.symm
      simp only [valuesOf, List.filter_cons, beq_iff_eq, h, if_false, List.map_cons,
        List.mem_cons, h', false_or] at *
      exact ih


/-! ### `KvBatch`: sort, group, merge -/

/-- keys ascending, not necessarily strictly -/
def KSorted (l : List (Key × Nat)) : Prop := l.Pairwise fun a b => lexLt b.1 a.1 = false

theorem insertRow_perm (r : Key × Nat) (l : List (Key × Nat)) : (insertRow r l).Perm (r :: l) := by
  induction l with
  | nil => exact List.Perm.refl _
  | cons x xs ih =>
    simp only [insertRow]
    split
    · exact List.Perm.refl _
    · exact ((List.Perm.cons x ih).trans (List.Perm.swap r x xs))

theorem sortRows_perm (rows : List (Key × Nat)) : (sortRows rows).Perm rows := by
  induction rows with
  | nil => exact List.Perm.refl _
  | cons r rows ih => exact (insertRow_perm r _).trans (List.Perm.cons r ih)

theorem insertRow_sorted (r : Key × Nat) (l : List (Key × Nat)) (h : KSorted l) :
    KSorted (insertRow r l) := by
  induction l with
  | nil => simp [insertRow, KSorted]
  | cons x xs ih =>
    unfold KSorted at h ih
    rw [List.pairwise_cons] at h
    simp only [insertRow]
    split
    · rename_i hc
      have hrx : lexLt x.1 r.1 = false := by
        simp only [Bool.or_eq_true, Bool.and_eq_true, beq_iff_eq, decide_eq_true_eq] at hc
        rcases hc with hc | ⟨hc, _⟩
        · exact lexLt_asymm hc
        · rw [hc]; exact lexLt_irrefl _
      refine List.pairwise_cons.mpr ⟨fun y hy => ?_, List.pairwise_cons.mpr h⟩
      rcases List.mem_cons.mp hy with rfl | hy
      · exact hrx
      · exact lexLe_trans hrx (h.1 y hy)
    · rename_i hc
      have hxr : lexLt r.1 x.1 = false := by
        cases hlt : lexLt r.1 x.1 with
        | false => rfl
        | true => simp [hlt] at hc
      refine List.pairwise_cons.mpr ⟨fun y hy => ?_, ih h.2⟩
      rcases List.mem_cons.mp ((insertRow_perm r xs).mem_iff.mp hy) with rfl | hy
      · exact hxr
      · exact h.1 y hy

theorem sortRows_sorted (rows : List (Key × Nat)) : KSorted (sortRows rows) := by
  induction rows with
  | nil => simp [sortRows, KSorted]
  | cons r rows ih => exact insertRow_sorted r _ ih

/-- the rows an accumulator of `groupMerge` stands for, in input order -/
def flat (acc : List (Key × List Nat)) : List (Key × Nat) :=
  acc.reverse.flatMap fun g => g.2.reverse.map fun v => (g.1, v)

theorem flat_cons (g : Key × List Nat) (acc : List (Key × List Nat)) :
    flat (g :: acc) = flat acc ++ g.2.reverse.map fun v => (g.1, v) := by
  simp [flat]

/-- accumulator invariant: group keys strictly descending (newest first), groups non-empty -/
structure GoodAcc (acc : List (Key × List Nat)) : Prop where
  desc : (acc.map (·.1)).Pairwise fun a b => lexLt b a = true
  nonempty : ∀ g ∈ acc, g.2 ≠ []

theorem valuesOf_group (k' k : Key) (vs : List Nat) :
    valuesOf (vs.map fun v => (k', v)) k = if k' = k then vs else [] := by
  induction vs with
  | nil => simp [valuesOf]
  | cons v vs ih =>
    simp only [valuesOf] at ih
    by_cases h : k' = k <;> simp [valuesOf, h] at * <;> exact ih

theorem mem_flat_keys (acc : List (Key × List Nat)) (hne : ∀ g ∈ acc, g.2 ≠ []) (k : Key) :
    k ∈ (flat acc).map (·.1) ↔ k ∈ acc.map (·.1) := by
  induction acc with
  | nil => simp [flat]
  | cons g acc ih =>
    have ih := ih fun g' hg' => hne g' (List.mem_cons_of_mem _ hg')
    rw [flat_cons, List.map_append, List.mem_append, ih]
    have hg := hne g (by simp)
    have : k ∈ List.map (fun x => x.1) (g.2.reverse.map fun v => (g.1, v)) ↔ k = g.1 := by
      simp only [List.map_map, List.mem_map, Function.comp]
      constructor
      · rintro ⟨_, _, rfl⟩; rfl
      · rintro rfl
        cases hv : g.2.reverse with
        | nil => simp at hv; exact absurd hv hg
        | cons v _ => exact ⟨v, by simp, rfl⟩
    rw [this]; simp only [List.map_cons, List.mem_cons]
    constructor
    · rintro (h | h); exact .inr h; exact .inl h
    · rintro (h | h); exact .inr h; exact .inl h

theorem valuesOf_flat (acc : List (Key × List Nat)) (hd : (acc.map (·.1)).Pairwise fun a b => lexLt b a = true)
    (k : Key) (vs : List Nat) (h : (k, vs) ∈ acc) : valuesOf (flat acc) k = vs.reverse := by
  induction acc with
  | nil => cases h
  | cons g acc ih =>
    rw [List.map_cons, List.pairwise_cons] at hd
    rw [flat_cons, valuesOf_append, valuesOf_group]
    rcases List.mem_cons.mp h with e | h'
    · subst e
      have : valuesOf (flat acc) k = [] := by
        cases hv : valuesOf (flat acc) k with
        | nil => rfl
        | cons a l =>
          exfalso
          have hne : valuesOf (flat acc) k ≠ [] := by rw [hv]; simp
          have hk := (valuesOf_ne_nil _ _).mp hne
          -- every key of `flat acc` is a key of `acc`
          have : k ∈ acc.map (·.1) := by
            simp only [flat, List.map_flatMap, List.mem_flatMap, List.mem_reverse, List.map_map,
              List.mem_map, Function.comp] at hk
            obtain ⟨g', hg', _, _, rfl⟩ := hk
            exact List.mem_map.mpr ⟨g', hg', rfl⟩
          exact lexLt_ne (hd.1 k this) rfl
      simp [this]
    · have hne : g.1 ≠ k := by
        have : k ∈ acc.map (·.1) := List.mem_map.mpr ⟨(k, vs), h', rfl⟩
        exact fun e => lexLt_ne (hd.1 k this) e.symm
      simp [hne, ih hd.2 h']

/-- the final step of `groupMerge` is the specification of the rows it grouped -/
theorem groupMerge_nil (m : MergeMode) (acc : List (Key × List Nat)) (hg : GoodAcc acc) :
    groupMerge m [] acc = Spec.merged m (flat acc) := by
  apply merged_unique
  · -- ascending keys
    unfold Canon groupMerge
    rw [List.pairwise_reverse, List.pairwise_map]
    have := hg.desc
    rw [List.pairwise_map] at this
    exact this.imp (fun h => h)
  · intro k v
    rw [mem_flat_keys acc hg.nonempty]
    simp only [groupMerge, List.mem_reverse, List.mem_map, Prod.mk.injEq]
    constructor
    · rintro ⟨⟨k', vs⟩, hmem, rfl, rfl⟩
      exact ⟨⟨(k', vs), hmem, rfl⟩, by rw [valuesOf_flat acc hg.desc k' vs hmem]⟩
    · rintro ⟨⟨⟨k', vs⟩, hmem, rfl⟩, rfl⟩
      exact ⟨(k', vs), hmem, rfl, by rw [valuesOf_flat acc hg.desc k' vs hmem]⟩

theorem groupMerge_spec (m : MergeMode) : ∀ (rest : List (Key × Nat)) (acc : List (Key × List Nat)),
    GoodAcc acc → KSorted (flat acc ++ rest) →
    groupMerge m rest acc = Spec.merged m (flat acc ++ rest) := by
  intro rest
  induction rest with
  | nil => intro acc hg _; rw [List.append_nil]; exact groupMerge_nil m acc hg
  | cons r rest ih =>
    intro acc hg hs
    obtain ⟨k, v⟩ := r
    cases acc with
    | nil =>
      have := ih [(k, [v])] ⟨by simp, by simp⟩ (by simpa [flat] using hs)
      simpa [groupMerge, flat] using this
    | cons g acc =>
      obtain ⟨k', vs⟩ := g
      have hvs : vs ≠ [] := hg.nonempty (k', vs) (by simp)
      by_cases hk : k = k'
      · subst hk
        have e : flat ((k, v :: vs) :: acc) ++ rest = flat ((k, vs) :: acc) ++ (k, v) :: rest := by
          simp [flat_cons]
        have hg' : GoodAcc ((k, v :: vs) :: acc) :=
          ⟨hg.desc, fun g hg0 => by
            rcases List.mem_cons.mp hg0 with rfl | h
            · simp
            · exact hg.nonempty g (List.mem_cons_of_mem _ h)⟩
        have := ih _ hg' (by rw [e]; exact hs)
        rw [e] at this
        simpa [groupMerge] using this
      · have e : flat ((k, [v]) :: (k', vs) :: acc) ++ rest =
            flat ((k', vs) :: acc) ++ (k, v) :: rest := by
          simp [flat_cons]
        -- the previous group's key is below the new key
        have hlt : lexLt k' k = true := by
          have hmem : (k', vs.head hvs) ∈ flat ((k', vs) :: acc) := by
            rw [flat_cons]; apply List.mem_append_right
            exact List.mem_map.mpr ⟨vs.head hvs, by simp, rfl⟩
          have hle : lexLt k k' = false := by
            have := (List.pairwise_append.mp hs).2.2 _ hmem (k, v) (by simp)
            exact this
          rcases lexLt_trichotomy k' k with h | h | h
          · exact h
          · exact absurd h.symm hk
          · rw [h] at hle; cases hle
        have hg' : GoodAcc ((k, [v]) :: (k', vs) :: acc) := by
          refine ⟨?_, fun g hg0 => ?_⟩
          · rw [List.map_cons, List.pairwise_cons]
            refine ⟨fun y hy => ?_, hg.desc⟩
            have hd := hg.desc
            rw [List.map_cons, List.pairwise_cons] at hd
            rcases List.mem_cons.mp hy with rfl | hy
            · exact hlt
            · exact lexLt_trans (hd.1 y hy) hlt
          · rcases List.mem_cons.mp hg0 with rfl | h
            · simp
            · exact hg.nonempty g h
        have := ih _ hg' (by rw [e]; exact hs)
        rw [e] at this
        have hbeq : (k == k') = false := by simpa using hk
        simpa [groupMerge, hbeq] using this

/-- **`KvBatch::create_fst` writes the specification of its rows** -/
theorem kvBatch_spec (m : MergeMode) (rows : List (Key × Nat)) :
    kvBatch m rows = Spec.merged m rows := by
  have h := groupMerge_spec m (sortRows rows) [] ⟨by simp, by simp⟩
    (by simpa [flat] using sortRows_sorted rows)
  unfold kvBatch
  rw [h]
  simpa [flat] using merged_perm m (sortRows_perm rows)


/-! ### the union specification (hypothesis; proved in Proofs/Ops.lean) -/

/-- all `(index, value)` occurrences of key `k` in the streams, by stream index -/
def occ (streams : List KV) (k : Key) : List IndexedValue :=
  streams.zipIdx.flatMap fun si => (si.1.filter (·.1 == k)).map fun kv => ⟨si.2, kv.2⟩

/-- What `Union` yields over key-ascending streams: every key once, ascending, with the
`(index, value)` occurrences of that key in some order. -/
def UnionSpec : Prop :=
  ∀ streams : List KV, (∀ s ∈ streams, Canon s) →
    ∃ out, opCollect popMin .union streams = some out ∧
      (out.map (·.1)).Pairwise (fun a b => lexLt a b = true) ∧
      (∀ k, k ∈ out.map (·.1) ↔ ∃ s ∈ streams, k ∈ s.map (·.1)) ∧
      ∀ k outs, (k, outs) ∈ out → outs.Perm (occ streams k)

/-- the part of `UnionSpec` the merge needs: only the values matter -/
def UnionSpecV : Prop :=
  ∀ streams : List KV, (∀ s ∈ streams, Canon s) →
    ∃ out, opCollect popMin .union streams = some out ∧
      (out.map (·.1)).Pairwise (fun a b => lexLt a b = true) ∧
      (∀ k, k ∈ out.map (·.1) ↔ ∃ s ∈ streams, k ∈ s.map (·.1)) ∧
      ∀ k outs, (k, outs) ∈ out →
        (outs.map (·.value)).Perm (streams.flatMap (valuesOf · k))

theorem occ_values (streams : List KV) (k : Key) :
    (occ streams k).map (·.value) = streams.flatMap (valuesOf · k) := by
  unfold occ
  generalize 0 = n
  induction streams generalizing n with
  | nil => rfl
  | cons s ss ih =>
    rw [List.zipIdx_cons, List.flatMap_cons, List.map_append, ih, List.flatMap_cons]
    simp [valuesOf]

theorem UnionSpec.toV (h : UnionSpec) : UnionSpecV := by
  intro streams hs
  obtain ⟨out, h1, h2, h3, h4⟩ := h streams hs
  exact ⟨out, h1, h2, h3, fun k outs hm => by
    rw [← occ_values]; exact (h4 k outs hm).map _⟩

theorem canon_iff_sortedKV : ∀ (l : KV), Canon l ↔ SortedKV l
  | [] => by simp [Canon, SortedKV]
  | [_] => by simp [Canon, SortedKV]
  | a :: b :: rest => by
    have ih := canon_iff_sortedKV (b :: rest)
    unfold Canon at *
    simp only [SortedKV]
    rw [← ih, List.pairwise_cons]
    constructor
    · rintro ⟨h1, h2⟩; exact ⟨h1 b (by simp), h2⟩
    · rintro ⟨h1, h2⟩
      refine ⟨fun y hy => ?_, h2⟩
      rcases List.mem_cons.mp hy with rfl | hy
      · exact h1
      · exact lexLt_trans h1 ((List.pairwise_cons.mp h2).1 y hy)

/-! ### `UnionBatch` -/

theorem filter_eq_sorted (l : List Key) (h : l.Pairwise fun a b => lexLt a b = true) (k : Key) :
    l.filter (· == k) = if k ∈ l then [k] else [] := by
  induction l with
  | nil => simp
  | cons x xs ih =>
    rw [List.pairwise_cons] at h
    by_cases hx : x = k
    · subst hx
      have hnot : x ∉ xs := fun hm => lexLt_ne (h.1 x hm) rfl
      have := ih h.2
      rw [if_neg hnot] at this
      simp [this]
    · have hx' : ¬ k = x := fun e => hx e.symm
      simp [hx, hx', ih h.2]

theorem valuesOf_merged (m : MergeMode) (R : List (Key × Nat)) (k : Key) :
    valuesOf (Spec.merged m R) k =
      if valuesOf R k = [] then [] else [m.fold (valuesOf R k)] := by
  have hf : (Spec.merged m R).filter (·.1 == k) =
      ((Spec.keys R).filter (· == k)).map fun k => (k, m.fold (valuesOf R k)) := by
    unfold Spec.merged; rw [List.filter_map]; rfl
  unfold valuesOf at *
  rw [hf, filter_eq_sorted _ (keys_sorted R)]
  have hiff := valuesOf_ne_nil R k
  unfold valuesOf at hiff
  by_cases hk : k ∈ Spec.keys R
  · have hk' := (mem_keys R k).mp hk
    rw [if_pos hk, if_neg (hiff.mpr hk')]; rfl
  · have hk' : k ∉ R.map (·.1) := fun h => hk ((mem_keys R k).mpr h)
    have : List.map (fun x => x.2) (List.filter (fun x => x.1 == k) R) = [] := by
      cases hv : List.map (fun x => x.2) (List.filter (fun x => x.1 == k) R) with
      | nil => rfl
      | cons a l => exact absurd (hiff.mp (by rw [hv]; simp)) hk'
    rw [if_neg hk, if_pos this]; rfl

theorem flatMap_valuesOf_merged (m : MergeMode) (Rs : List (List (Key × Nat))) (k : Key) :
    (Rs.map (Spec.merged m)).flatMap (valuesOf · k) = groupFolds m (Rs.map (valuesOf · k)) := by
  induction Rs with
  | nil => rfl
  | cons R Rs ih =>
    simp only [List.map_cons, List.flatMap_cons, groupFolds] at *
    rw [ih, valuesOf_merged]

theorem valuesOf_flatten (Rs : List (List (Key × Nat))) (k : Key) :
    valuesOf Rs.flatten k = (Rs.map (valuesOf · k)).flatten := by
  induction Rs with
  | nil => rfl
  | cons R Rs ih => rw [List.flatten_cons, valuesOf_append, ih]; rfl

/-- **`UnionBatch::create_fst` over batch results writes the specification of all their rows**:
`Spec.merged` is a homomorphism from concatenation of row lists to the key-wise merge. -/
theorem unionBatch_spec (hU : UnionSpecV) (m : MergeMode) (Rs : List (List (Key × Nat))) :
    unionBatch m (Rs.map (Spec.merged m)) = Spec.merged m Rs.flatten := by
  obtain ⟨out, ho, hsorted, hkeys, hvals⟩ := hU (Rs.map (Spec.merged m)) (fun s hs => by
    obtain ⟨R, _, rfl⟩ := List.mem_map.mp hs; exact merged_canon m R)
  have hub : unionBatch m (Rs.map (Spec.merged m)) =
      out.map fun ko => (ko.1, m.fold (ko.2.map (·.value))) := by
    simp only [unionBatch, ho]
  rw [hub]
  have hval : ∀ k outs, (k, outs) ∈ out →
      m.fold (outs.map (·.value)) = m.fold (valuesOf Rs.flatten k) := by
    intro k outs hm
    rw [fold_perm m (hvals k outs hm), flatMap_valuesOf_merged, fold_groups, valuesOf_flatten]
  have hkey : ∀ k, k ∈ out.map (·.1) ↔ k ∈ Rs.flatten.map (·.1) := by
    intro k
    rw [hkeys]
    constructor
    · rintro ⟨s, hs, hk⟩
      obtain ⟨R, hR, rfl⟩ := List.mem_map.mp hs
      obtain ⟨⟨k', v⟩, hkv, rfl⟩ := List.mem_map.mp hk
      have := ((mem_merged m R k' v).mp hkv).1
      obtain ⟨r, hr, hrk⟩ := List.mem_map.mp this
      exact List.mem_map.mpr ⟨r, List.mem_flatten.mpr ⟨R, hR, hr⟩, hrk⟩
    · intro hk
      obtain ⟨r, hr, hrk⟩ := List.mem_map.mp hk
      obtain ⟨R, hR, hrR⟩ := List.mem_flatten.mp hr
      refine ⟨Spec.merged m R, List.mem_map.mpr ⟨R, hR, rfl⟩, ?_⟩
      have : (k, m.fold (valuesOf R k)) ∈ Spec.merged m R :=
        (mem_merged m R k _).mpr ⟨List.mem_map.mpr ⟨r, hrR, hrk⟩, rfl⟩
      exact List.mem_map.mpr ⟨_, this, rfl⟩
  apply merged_unique
  · unfold Canon; rw [List.pairwise_map]; rw [List.pairwise_map] at hsorted; exact hsorted
  · intro k v
    rw [← hkey]
    constructor
    · intro h
      obtain ⟨⟨k', outs⟩, hm, he⟩ := List.mem_map.mp h
      simp only [Prod.mk.injEq] at he
      obtain ⟨rfl, rfl⟩ := he
      exact ⟨List.mem_map.mpr ⟨_, hm, rfl⟩, hval k' outs hm⟩
    · rintro ⟨hk, rfl⟩
      obtain ⟨⟨k', outs⟩, hm, rfl⟩ := List.mem_map.mp hk
      exact List.mem_map.mpr ⟨(k', outs), hm, by rw [hval k' outs hm]⟩


/-! ### `batcher` -/

theorem batches_step {α : Type} (n fuel : Nat) (x : α) (xs : List α) :
    batches n (fuel+1) (x :: xs) =
      (x :: xs).take (max n 1) :: batches n fuel ((x :: xs).drop (max n 1)) := by
  simp [batches]

theorem batches_nil {α : Type} (n fuel : Nat) : batches n fuel ([] : List α) = [] := by
  cases fuel <;> simp [batches]

/-- the chunks are consecutive pieces of the input (every batch size, 0 included) -/
theorem batches_flatten {α : Type} (n : Nat) : ∀ (fuel : Nat) (xs : List α), xs.length < fuel →
    (batches n fuel xs).flatten = xs
  | 0, _, h => by omega
  | fuel+1, xs, h => by
    cases xs with
    | nil => rw [batches_nil]; rfl
    | cons x xs =>
      rw [batches_step, List.flatten_cons, batches_flatten n fuel _ (by
        simp only [List.length_drop, List.length_cons] at *; omega), List.take_append_drop]

/-- … and none of them is empty -/
theorem batches_nonempty {α : Type} (n : Nat) : ∀ (fuel : Nat) (xs : List α),
    ∀ c ∈ batches n fuel xs, c ≠ []
  | 0, _, c, h => by simp [batches] at h
  | fuel+1, xs, c, h => by
    cases xs with
    | nil => rw [batches_nil] at h; cases h
    | cons x xs =>
      rw [batches_step] at h
      rcases List.mem_cons.mp h with rfl | h
      · obtain ⟨k, hk⟩ : ∃ k, max n 1 = k + 1 := ⟨max n 1 - 1, by omega⟩
        rw [hk]; simp
      · exact batches_nonempty n fuel _ c h

theorem batches_map {α β : Type} (f : α → β) (n : Nat) : ∀ (fuel : Nat) (xs : List α),
    batches n fuel (xs.map f) = (batches n fuel xs).map (List.map f)
  | 0, _ => rfl
  | fuel+1, xs => by
    cases xs with
    | nil => rw [List.map_nil, batches_nil]; rfl
    | cons x xs =>
      rw [List.map_cons, batches_step, batches_step, List.map_cons, ← List.map_cons,
        ← List.map_drop, batches_map f n fuel, ← List.map_take]

theorem batches_length_le {α : Type} (n : Nat) : ∀ (fuel : Nat) (xs : List α),
    (batches n fuel xs).length ≤ xs.length
  | 0, _ => by simp [batches]
  | fuel+1, xs => by
    cases xs with
    | nil => rw [batches_nil]; simp
    | cons x xs =>
      rw [batches_step]
      have := batches_length_le n fuel (List.drop (max n 1) (x :: xs))
      simp only [List.length_cons, List.length_drop] at *
      omega

/-- with a group size of at least two, a generation has fewer results than its input -/
theorem batches_length_lt {α : Type} (n : Nat) (hn : 2 ≤ n) (fuel : Nat) (xs : List α)
    (hx : 2 ≤ xs.length) : (batches n fuel xs).length < xs.length := by
  cases fuel with
  | zero => simp [batches]; omega
  | succ fuel =>
    cases xs with
    | nil => simp at hx
    | cons x xs =>
      rw [batches_step]
      have := batches_length_le n fuel (List.drop (max n 1) (x :: xs))
      simp only [List.length_cons, List.length_drop] at *
      omega

/-- group size 0 or 1: every item is its own group -/
theorem batches_le_one_length {α : Type} (n : Nat) (hn : n ≤ 1) : ∀ (fuel : Nat) (xs : List α),
    xs.length < fuel → (batches n fuel xs).length = xs.length
  | 0, _, h => by omega
  | fuel+1, xs, h => by
    cases xs with
    | nil => rw [batches_nil]; rfl
    | cons x xs =>
      have h1 : max n 1 = 1 := by omega
      rw [batches_step, h1]
      have := batches_le_one_length n hn fuel xs (by simp at h; omega)
      simp [this]

theorem batches_one_length {α : Type} (fuel : Nat) (xs : List α) (h : xs.length < fuel) :
    (batches 1 fuel xs).length = xs.length :=
  batches_le_one_length 1 (by omega) fuel xs h

/-! ### generations -/

theorem perm_map_inv {α β : Type} (f : α → β) {l1 l2 : List β} (h : l1.Perm l2) :
    ∀ parts : List α, l2 = parts.map f → ∃ parts' : List α, parts'.Perm parts ∧ l1 = parts'.map f := by
  induction h with
  | nil => intro parts hp; exact ⟨[], by cases parts <;> simp_all, rfl⟩
  | cons x _ ih =>
    intro parts hp
    cases parts with
    | nil => cases hp
    | cons p ps =>
      simp only [List.map_cons, List.cons.injEq] at hp
      obtain ⟨ps', h1, h2⟩ := ih ps hp.2
      exact ⟨p :: ps', h1.cons p, by simp [hp.1, h2]⟩
  | swap x y l =>
    intro parts hp
    match parts, hp with
    | p :: q :: ps, hp =>
      simp only [List.map_cons, List.cons.injEq] at hp
      exact ⟨q :: p :: ps, List.Perm.swap _ _ _, by simp [hp.1, hp.2.1, hp.2.2]⟩
  | trans _ _ ih1 ih2 =>
    intro parts hp
    obtain ⟨p2, h1, h2⟩ := ih2 parts hp
    obtain ⟨p1, h3, h4⟩ := ih1 p2 h2
    exact ⟨p1, h3.trans h1, h4⟩

theorem merged_nil (m : MergeMode) : Spec.merged m [] = [] := rfl

theorem mergeGens_nil (m : MergeMode) (fd : Nat) (sched : Nat → List KV → List KV)
    (fuel g : Nat) : mergeGens m fd sched fuel g [] = some [] := by
  cases fuel <;> rfl

theorem mergeGens_single (m : MergeMode) (fd : Nat) (sched : Nat → List KV → List KV)
    (fuel g : Nat) (r : KV) : mergeGens m fd sched fuel g [r] = some r := by
  cases fuel <;> rfl

theorem mergeGens_step (m : MergeMode) (fd : Nat) (sched : Nat → List KV → List KV)
    (fuel g : Nat) (a b : KV) (rest : List KV) :
    mergeGens m fd sched (fuel+1) g (a :: b :: rest) =
      mergeGens m fd sched fuel (g + 1)
        (sched (g + 1) ((batches fd ((a :: b :: rest).length + 1) (a :: b :: rest)).map
          (unionBatch m))) := rfl

/-- one generation of unions over results that are specifications of row lists -/
theorem generation_spec (hU : UnionSpecV) (m : MergeMode) (fd : Nat)
    (parts : List (List (Key × Nat))) :
    (batches fd (parts.length + 1) (parts.map (Spec.merged m))).map (unionBatch m) =
      ((batches fd (parts.length + 1) parts).map List.flatten).map (Spec.merged m) := by
  rw [batches_map, List.map_map, List.map_map]
  apply List.map_congr_left
  intro g _
  exact unionBatch_spec hU m g

theorem mergeGens_spec (hU : UnionSpecV) (m : MergeMode) (fd : Nat) (hfd : 2 ≤ fd)
    (sched : Nat → List KV → List KV) (hsched : ∀ g xs, (sched g xs).Perm xs)
    (rows : List (Key × Nat)) :
    ∀ (fuel g : Nat) (parts : List (List (Key × Nat))), parts.flatten.Perm rows →
      parts.length ≤ fuel →
      mergeGens m fd sched fuel g (parts.map (Spec.merged m)) = some (Spec.merged m rows) := by
  intro fuel
  induction fuel with
  | zero =>
    intro g parts hp hl
    have : parts = [] := List.length_eq_zero_iff.mp (by omega)
    subst this
    have : rows = [] := by simpa using hp.symm
    subst this
    rfl
  | succ fuel ih =>
    intro g parts hp hl
    match parts, hp, hl with
    | [], hp, _ =>
      have : rows = [] := by simpa using hp.symm
      subst this
      exact mergeGens_nil ..
    | [p], hp, _ =>
      rw [List.map_cons, List.map_nil, mergeGens_single]
      simp only [List.flatten_cons, List.flatten_nil, List.append_nil] at hp
      rw [merged_perm m hp]
    | p :: q :: ps, hp, hl =>
      simp only [List.map_cons]
      rw [mergeGens_step]
      have hlen : (Spec.merged m p :: Spec.merged m q :: List.map (Spec.merged m) ps).length
          = (p :: q :: ps).length := by simp
      rw [hlen]
      have hgen := generation_spec hU m fd (p :: q :: ps)
      simp only [List.map_cons] at hgen
      rw [hgen]
      obtain ⟨parts', hperm, heq⟩ := perm_map_inv (Spec.merged m) (hsched (g + 1) _) _ rfl
      rw [heq]
      apply ih
      · refine hperm.flatten.trans ?_
        rw [← List.flatten_flatten, batches_flatten fd _ _ (by omega)]
        exact hp
      · have h1 := hperm.length_eq
        have h2 := batches_length_lt fd hfd ((p :: q :: ps).length + 1) (p :: q :: ps)
          (by simp)
        simp only [List.length_map] at h1
        simp only [List.length_cons] at *
        omega

/-- **C19**: whatever the batch size, the group size (`fd_limit ≥ 2`) and the order in which
each generation's results come back, `Merger::merge` writes the specification of its rows. -/
theorem C19_result_any (hU : UnionSpecV) (m : MergeMode) (batchSize fd : Nat)
    (hfd : 2 ≤ fd) (sched : Nat → List KV → List KV)
    (hsched : ∀ g xs, (sched g xs).Perm xs) (rows : List (Key × Nat)) :
    mergeAll m batchSize fd sched rows = some (Spec.merged m rows) := by
  unfold mergeAll
  simp only
  have hk : (batches batchSize (rows.length + 1) rows).map (kvBatch m) =
      (batches batchSize (rows.length + 1) rows).map (Spec.merged m) :=
    List.map_congr_left fun r _ => kvBatch_spec m r
  rw [hk]
  obtain ⟨parts', hperm, heq⟩ := perm_map_inv (Spec.merged m) (hsched 0 _) _ rfl
  rw [heq]
  apply mergeGens_spec hU m fd hfd sched hsched rows
  · refine hperm.flatten.trans ?_
    rw [batches_flatten batchSize _ _ (by omega)]
  · simp

theorem C19_result (hU : UnionSpecV) (m : MergeMode) (batchSize fd : Nat)
    (_hb : 1 ≤ batchSize) (hfd : 2 ≤ fd) (sched : Nat → List KV → List KV)
    (hsched : ∀ g xs, (sched g xs).Perm xs) (rows : List (Key × Nat)) :
    mergeAll m batchSize fd sched rows = some (Spec.merged m rows) :=
  C19_result_any hU m batchSize fd hfd sched hsched rows

/-- the same under the full union specification -/
theorem C19_result' (hU : UnionSpec) (m : MergeMode) (batchSize fd : Nat)
    (hb : 1 ≤ batchSize) (hfd : 2 ≤ fd) (sched : Nat → List KV → List KV)
    (hsched : ∀ g xs, (sched g xs).Perm xs) (rows : List (Key × Nat)) :
    mergeAll m batchSize fd sched rows = some (Spec.merged m rows) :=
  C19_result hU.toV m batchSize fd hb hfd sched hsched rows

/-- in particular the result does not depend on batch size, group size or scheduling -/
theorem C19_independent (hU : UnionSpecV) (m : MergeMode) (b1 b2 fd1 fd2 : Nat)
    (hb1 : 1 ≤ b1) (hb2 : 1 ≤ b2) (hf1 : 2 ≤ fd1) (hf2 : 2 ≤ fd2)
    (s1 s2 : Nat → List KV → List KV) (hs1 : ∀ g xs, (s1 g xs).Perm xs)
    (hs2 : ∀ g xs, (s2 g xs).Perm xs) (rows : List (Key × Nat)) :
    mergeAll m b1 fd1 s1 rows = mergeAll m b2 fd2 s2 rows := by
  rw [C19_result hU m b1 fd1 hb1 hf1 s1 hs1, C19_result hU m b2 fd2 hb2 hf2 s2 hs2]

/-- **outside the contract**: with `fd_limit = 1` and at least two results no generation makes
progress (the Rust loop does not terminate; the model runs out of fuel). -/
theorem C19_no_progress_fd1 (m : MergeMode) (sched : Nat → List KV → List KV)
    (hsched : ∀ g xs, (sched g xs).Perm xs) :
    ∀ (fuel g : Nat) (results : List KV), 2 ≤ results.length →
      mergeGens m 1 sched fuel g results = none := by
  intro fuel
  induction fuel with
  | zero =>
    intro g results h
    match results, h with
    | a :: b :: rest, _ => rfl
  | succ fuel ih =>
    intro g results h
    match results, h with
    | a :: b :: rest, h =>
      rw [mergeGens_step]
      apply ih
      rw [(hsched _ _).length_eq, List.length_map, batches_one_length _ _ (by omega)]
      exact h


/-- the same for `fd_limit = 0`, which `batcher` treats like 1 -/
theorem C19_no_progress_fd_le1 (m : MergeMode) (fd : Nat) (hfd : fd ≤ 1)
    (sched : Nat → List KV → List KV) (hsched : ∀ g xs, (sched g xs).Perm xs) :
    ∀ (fuel g : Nat) (results : List KV), 2 ≤ results.length →
      mergeGens m fd sched fuel g results = none := by
  intro fuel
  induction fuel with
  | zero =>
    intro g results h
    match results, h with
    | a :: b :: rest, _ => rfl
  | succ fuel ih =>
    intro g results h
    match results, h with
    | a :: b :: rest, h =>
      rw [mergeGens_step]
      apply ih
      rw [(hsched _ _).length_eq, List.length_map, batches_le_one_length fd hfd _ _ (by omega)]
      exact h

/-! ### discharging the union hypothesis -/

/-- `Union` over `popMin` satisfies the specification assumed above (from `C05_union_char`) -/
theorem unionSpecV_holds : UnionSpecV := by
  intro streams hs
  obtain ⟨out, h1, h2, h3, _, h5⟩ := C05_union_char popMin C05_popMin streams
    (fun l hl => (canon_iff_sortedKV l).mp (hs l hl))
  exact ⟨out, h1, h2, h3, h5⟩

theorem kvBatch_unionBatch_final (m : MergeMode) (Rs : List (List (Key × Nat))) :
    unionBatch m (Rs.map (kvBatch m)) = Spec.merged m Rs.flatten := by
  rw [List.map_congr_left (fun r _ => kvBatch_spec m r)]
  exact unionBatch_spec unionSpecV_holds m Rs

/-- **C19, unconditional**: for every batch size (0 included), every group size
`fd_limit ≥ 2` and every order in which the generations' results are collected,
`Merger::merge` writes the specification of its rows. -/
theorem C19_result_final (m : MergeMode) (batchSize fd : Nat) (hfd : 2 ≤ fd)
    (sched : Nat → List KV → List KV) (hsched : ∀ g xs, (sched g xs).Perm xs)
    (rows : List (Key × Nat)) :
    mergeAll m batchSize fd sched rows = some (Spec.merged m rows) :=
  C19_result_any unionSpecV_holds m batchSize fd hfd sched hsched rows

/-! ### non-vacuity and sanity checks (no hypothesis: the real `popMin` union is run) -/

def demoRows : List (Key × Nat) :=
  [([98], 1), ([97], 2), ([98], 5), ([97, 97], 7), ([98], 3), ([], 4), ([97], 9)]

example : Spec.merged .sum demoRows = [([], 4), ([97], 11), ([97, 97], 7), ([98], 9)] := by decide
example : Spec.merged .max demoRows = [([], 4), ([97], 9), ([97, 97], 7), ([98], 5)] := by decide
example : Spec.merged .min demoRows = [([], 4), ([97], 2), ([97, 97], 7), ([98], 1)] := by decide
example : Spec.merged .set demoRows = [([], 0), ([97], 0), ([97, 97], 0), ([98], 0)] := by decide

-- a schedule that is a permutation but not the identity
def revSched : Nat → List KV → List KV := fun _ xs => xs.reverse
example : ∀ g xs, (revSched g xs).Perm xs := fun _ xs => List.reverse_perm xs

-- the conclusion of `C19_result` on the model itself, for several geometries
example : mergeAll .sum 2 2 revSched demoRows = some (Spec.merged .sum demoRows) := by decide
example : mergeAll .min 1 3 (fun _ xs => xs) demoRows = some (Spec.merged .min demoRows) := by
  decide
example : mergeAll .max 3 2 revSched demoRows = some (Spec.merged .max demoRows) := by decide
-- `kvBatch_spec`, `unionBatch_spec` instances
example : kvBatch .sum demoRows = Spec.merged .sum demoRows := kvBatch_spec _ _
example : unionBatch .sum [Spec.merged .sum (demoRows.take 3), Spec.merged .sum (demoRows.drop 3)]
    = Spec.merged .sum demoRows := by decide
-- consecutive non-empty chunks
example : batches 3 8 [1, 2, 3, 4, 5, 6, 7] = [[1, 2, 3], [4, 5, 6], [7]] := by decide
-- batch size 0 behaves like 1
example : batches 0 4 [1, 2, 3] = [[1], [2], [3]] := by decide
example : mergeAll .sum 0 2 revSched demoRows = some (Spec.merged .sum demoRows) :=
  C19_result_final _ _ _ (by omega) _ (fun _ xs => List.reverse_perm xs) _
-- outside the contract
example : mergeAll .sum 2 1 revSched demoRows = none := by decide
example : mergeAll .sum 2 0 revSched demoRows = none := by decide

end MergeProofs
end Fst
