import FstVerif.Proofs.LevDfaUtf8
/-
`DfaB.addRange` / `DfaB.addSeq` (`add_utf8_range`, one sequence of `add_utf8_sequences`):
what they change in the transition tables.

* `stepS`, `Walk` — one DFA transition; a walk over a byte string through allowed intermediate states.
* `addRange_step` — the new table of the source state.
* `addSeq_frame` — `addSeq` keeps the cache, all old states but the source, and the source's
  table outside the first range.
* `addSeq_walk_new` — afterwards every byte string matched by the sequence leads to `to`
  through fresh states (overwriting, or on transitions that were `none`).
* `addSeq_walk_other` — overwriting the path of one byte string keeps every walk over a byte
  string that diverges from it: fresh intermediate states start as copies of the states they replace.
-/
namespace Fst
namespace LevDfa
open Spec

/-- one transition of the table DFA (`levAut.accept` on `some i`) -/
def stepS (states : Array DState) (i : Nat) (x : UInt8) : Option Nat :=
  (states[i]?).bind fun st => st.next.getD x.toNat none

theorem levAut_accept_some (states : Array DState) (i : Nat) (x : UInt8) :
    (levAut states).accept (some i) x = stepS states i x := rfl

theorem levAut_accept_none (states : Array DState) (x : UInt8) :
    (levAut states).accept none x = none := rfl

/-! ### `addRange` -/

def rangeFold (ow : Bool) (to lo : Nat) (nx : Array (Option Nat)) (n : Nat) : Array (Option Nat) :=
  (List.range n).foldl (fun (nx : Array (Option Nat)) k =>
      let i := lo + k
      if ow || (nx.getD i none).isNone then nx.setIfInBounds i (some to) else nx) nx

theorem rangeFold_succ (ow : Bool) (to lo : Nat) (nx : Array (Option Nat)) (n : Nat) :
    rangeFold ow to lo nx (n + 1) =
      (if ow || ((rangeFold ow to lo nx n).getD (lo + n) none).isNone
       then (rangeFold ow to lo nx n).setIfInBounds (lo + n) (some to)
       else rangeFold ow to lo nx n) := by
  unfold rangeFold
  rw [List.range_succ, List.foldl_append]
  rfl

theorem rangeFold_size (ow : Bool) (to lo : Nat) (nx : Array (Option Nat)) (n : Nat) :
    (rangeFold ow to lo nx n).size = nx.size := by
  induction n with
  | zero => rfl
  | succ n ih =>
    rw [rangeFold_succ]
    split <;> simp [ih]

theorem rangeFold_getD (ow : Bool) (to lo : Nat) (nx : Array (Option Nat)) (n : Nat)
    (h : n = 0 ∨ lo + n ≤ nx.size) (j : Nat) :
    (rangeFold ow to lo nx n).getD j none =
      if lo ≤ j ∧ j < lo + n ∧ (ow = true ∨ nx.getD j none = none) then some to
      else nx.getD j none := by
  induction n with
  | zero =>
    have : ¬ (lo ≤ j ∧ j < lo + 0 ∧ (ow = true ∨ nx.getD j none = none)) := by omega
    rw [if_neg this]; rfl
  | succ n ih =>
    have h : lo + (n + 1) ≤ nx.size := by omega
    have ih := ih (by omega)
    have hsz := rangeFold_size ow to lo nx n
    rw [rangeFold_succ]
    by_cases hj : j = lo + n
    · subst hj
      have e : (rangeFold ow to lo nx n).getD (lo + n) none = nx.getD (lo + n) none := by
        rw [ih]; exact if_neg (by omega)
      rw [e]
      have hlt : lo + n < (rangeFold ow to lo nx n).size := by omega
      by_cases hc : (ow || (nx.getD (lo + n) none).isNone) = true
      · rw [if_pos hc]
        have : lo ≤ lo + n ∧ lo + n < lo + (n + 1) ∧ (ow = true ∨ nx.getD (lo + n) none = none) := by
          refine ⟨by omega, by omega, ?_⟩
          cases ow <;> simp_all
        rw [if_pos this]
        simp [Array.getD_eq_getD_getElem?, hlt]
      · rw [if_neg hc, e]
        have : ¬ (lo ≤ lo + n ∧ lo + n < lo + (n + 1) ∧ (ow = true ∨ nx.getD (lo + n) none = none)) := by
          cases ow <;> simp_all
        rw [if_neg this]
    · have e : ∀ r : Array (Option Nat), (r.setIfInBounds (lo + n) (some to)).getD j none = r.getD j none := by
        intro r
        simp [Array.getD_eq_getD_getElem?, Ne.symm hj]
      have e2 : (if (ow || ((rangeFold ow to lo nx n).getD (lo + n) none).isNone) = true
          then (rangeFold ow to lo nx n).setIfInBounds (lo + n) (some to)
          else rangeFold ow to lo nx n).getD j none = (rangeFold ow to lo nx n).getD j none := by
        split
        · exact e _
        · rfl
      rw [e2, ih]
      have : (lo ≤ j ∧ j < lo + (n + 1) ∧ (ow = true ∨ nx.getD j none = none)) ↔
          (lo ≤ j ∧ j < lo + n ∧ (ow = true ∨ nx.getD j none = none)) := by
        constructor <;> (intro ⟨a, b, c⟩; exact ⟨a, by omega, c⟩)
      simp only [this]

/-- every transition table has 256 entries -/
def AllSz (b : DfaB) : Prop := ∀ (m : Nat) (s : DState), b.states[m]? = some s → s.next.size = 256

theorem addRange_eq (b : DfaB) (ow : Bool) (f to lo hi : Nat) (s : DState)
    (hs : b.states[f]? = some s) :
    b.addRange ow f to lo hi =
      { states := b.states.setIfInBounds f
          ({ next := rangeFold ow to lo s.next (hi + 1 - lo), isMatch := s.isMatch } : DState),
        cache := b.cache } := by
  unfold DfaB.addRange
  rw [hs]
  rfl

theorem addRange_cache (b : DfaB) (ow : Bool) (f to lo hi : Nat) :
    (b.addRange ow f to lo hi).cache = b.cache := by
  unfold DfaB.addRange
  split <;> rfl

theorem addRange_size (b : DfaB) (ow : Bool) (f to lo hi : Nat) :
    (b.addRange ow f to lo hi).states.size = b.states.size := by
  unfold DfaB.addRange
  split
  · rfl
  · simp

theorem addRange_other (b : DfaB) (ow : Bool) (f to lo hi : Nat) (m : Nat) (hm : m ≠ f) :
    (b.addRange ow f to lo hi).states[m]? = b.states[m]? := by
  unfold DfaB.addRange
  split
  · rfl
  · simp [Ne.symm hm]

theorem addRange_isMatch (b : DfaB) (ow : Bool) (f to lo hi : Nat) (m : Nat) :
    ((b.addRange ow f to lo hi).states[m]?).map (·.isMatch) = (b.states[m]?).map (·.isMatch) := by
  by_cases hm : m = f
  · subst hm
    cases hs : b.states[m]? with
    | none => simp [DfaB.addRange, hs]
    | some s =>
      rw [addRange_eq b ow m to lo hi s hs]
      have : m < b.states.size := by
        rcases Array.getElem?_eq_some_iff.mp hs with ⟨h, _⟩; exact h
      simp [this]
  · rw [addRange_other b ow f to lo hi m hm]

theorem addRange_allSz (b : DfaB) (ow : Bool) (f to lo hi : Nat) (h : AllSz b) :
    AllSz (b.addRange ow f to lo hi) := by
  unfold AllSz
  intro m s hs
  by_cases hm : m = f
  · subst hm
    cases hs0 : b.states[m]? with
    | none => simp [DfaB.addRange, hs0] at hs
    | some s0 =>
      rw [addRange_eq b ow m to lo hi s0 hs0] at hs
      have hlt : m < b.states.size := by
        rcases Array.getElem?_eq_some_iff.mp hs0 with ⟨h, _⟩; exact h
      simp [hlt] at hs
      subst hs
      simp only [rangeFold_size]
      exact h m s0 hs0
  · rw [addRange_other b ow f to lo hi m hm] at hs
    exact h m s hs

theorem addRange_step (b : DfaB) (ow : Bool) (f to lo hi : Nat) (hsz : AllSz b)
    (hf : f < b.states.size) (hhi : hi < 256) (x : UInt8) :
    stepS (b.addRange ow f to lo hi).states f x =
      if lo ≤ x.toNat ∧ x.toNat ≤ hi ∧ (ow = true ∨ stepS b.states f x = none) then some to
      else stepS b.states f x := by
  have hs : b.states[f]? = some b.states[f] := by simp [hf]
  rw [addRange_eq b ow f to lo hi _ hs]
  have h256 := hsz f _ hs
  simp only [stepS, Array.getElem?_setIfInBounds, hf, if_true, Option.bind_some, hs]
  rw [rangeFold_getD _ _ _ _ _ (by omega)]
  have : (lo ≤ x.toNat ∧ x.toNat < lo + (hi + 1 - lo) ∧ (ow = true ∨ b.states[f].next.getD x.toNat none = none))
      ↔ (lo ≤ x.toNat ∧ x.toNat ≤ hi ∧ (ow = true ∨ b.states[f].next.getD x.toNat none = none)) := by
    constructor <;> (intro ⟨a, b, c⟩; exact ⟨a, by omega, c⟩)
  simp only [this]

theorem addRange_step_other (b : DfaB) (ow : Bool) (f to lo hi : Nat) (m : Nat) (hm : m ≠ f)
    (x : UInt8) : stepS (b.addRange ow f to lo hi).states m x = stepS b.states m x := by
  simp only [stepS, addRange_other b ow f to lo hi m hm]

/-! ### walks -/

/-- continue a walk over `w` from the state `cur` just arrived at: every state that is left again
must be an allowed intermediate state; a walk may die (`none`) only with result `none` -/
def Walk (states : Array DState) (ok : Nat → Prop) : Option Nat → List UInt8 → Option Nat → Prop
  | cur, [], o => cur = o
  | cur, y :: r, o =>
    (cur = none ∧ o = none) ∨ ∃ m, cur = some m ∧ ok m ∧ Walk states ok (stepS states m y) r o

theorem Walk_none (states : Array DState) (ok : Nat → Prop) (r : List UInt8) :
    Walk states ok none r none := by
  cases r with
  | nil => rfl
  | cons y r => exact Or.inl ⟨rfl, rfl⟩

theorem run_none (states : Array DState) (r : List UInt8) :
    r.foldl (levAut states).accept none = none := by
  induction r with
  | nil => rfl
  | cons y r ih => exact ih

theorem Walk_run (states : Array DState) (ok : Nat → Prop) (cur : Option Nat) (r : List UInt8)
    (o : Option Nat) (h : Walk states ok cur r o) : r.foldl (levAut states).accept cur = o := by
  induction r generalizing cur with
  | nil => exact h
  | cons y r ih =>
    rcases h with ⟨rfl, rfl⟩ | ⟨m, rfl, _, h⟩
    · exact run_none states _
    · exact ih _ h

theorem Walk_frame (s s' : Array DState) (ok ok' : Nat → Prop)
    (hf : ∀ m, ok m → ok' m ∧ ∀ y, stepS s' m y = stepS s m y)
    (cur : Option Nat) (r : List UInt8) (o : Option Nat) (h : Walk s ok cur r o) :
    Walk s' ok' cur r o := by
  induction r generalizing cur with
  | nil => exact h
  | cons y r ih =>
    rcases h with ⟨rfl, rfl⟩ | ⟨m, rfl, hm, h⟩
    · exact Or.inl ⟨rfl, rfl⟩
    · refine Or.inr ⟨m, rfl, (hf m hm).1, ?_⟩
      rw [(hf m hm).2]
      exact ih _ h

/-! ### `addSeq` -/

/-- the new intermediate state of `addSeq` (a copy of the state it replaces when overwriting) -/
def seqPrep (b : DfaB) (ow : Bool) (f lo : Nat) : DfaB :=
  let b1 := (b.newState false).1
  let tsi := (b.newState false).2
  let old : Option Nat := if ow then ((b1.states[f]?).bind fun s => s.next.getD lo none) else none
  match old.bind (fun o => b1.states[o]?) with
  | some os => { b1 with states := b1.states.modify tsi fun t => { t with next := os.next } }
  | none => b1

theorem addSeq_nil (b : DfaB) (ow : Bool) (f to : Nat) : b.addSeq ow f to [] = b := rfl

theorem addSeq_one (b : DfaB) (ow : Bool) (f to : Nat) (r : Nat × Nat) :
    b.addSeq ow f to [r] = b.addRange ow f to r.1 r.2 := rfl

theorem addSeq_cons2 (b : DfaB) (ow : Bool) (f to : Nat) (r r2 : Nat × Nat) (rest : List (Nat × Nat)) :
    b.addSeq ow f to (r :: r2 :: rest) =
      ((seqPrep b ow f r.1).addRange ow f b.states.size r.1 r.2).addSeq ow b.states.size to
        (r2 :: rest) := rfl

theorem fresh_size (mt : Bool) : (DState.fresh mt).next.size = 256 := by simp [DState.fresh]

theorem push_modify {α} (a : Array α) (x : α) (g : α → α) :
    (a.push x).modify a.size g = a.push (g x) := by
  apply Array.ext_getElem?
  intro i
  simp only [Array.getElem?_modify, Array.getElem?_push]
  by_cases h : i = a.size
  · subst h; simp
  · simp [h, Ne.symm h]

/-- `seqPrep` pushes one state whose table is blank, or (overwriting) the table of the state
that the transition being replaced led to -/
theorem seqPrep_eq (b : DfaB) (ow : Bool) (f lo : Nat) (hsz : AllSz b) :
    ∃ T : DState, seqPrep b ow f lo = { states := b.states.push T, cache := b.cache } ∧
      T.next.size = 256 ∧
      (ow = false → T.next = (DState.fresh false).next) ∧
      (f < b.states.size → ((b.states[f]?).bind fun s => s.next.getD lo none) = none →
        T.next = (DState.fresh false).next) ∧
      (ow = true → f < b.states.size → ∀ o os,
        ((b.states[f]?).bind fun s => s.next.getD lo none) = some o →
          b.states[o]? = some os → T.next = os.next) := by
  unfold seqPrep
  simp only [DfaB.newState]
  split
  · next os heq =>
    refine ⟨{ DState.fresh false with next := os.next }, ?_, ?_, ?_, ?_, ?_⟩
    · rw [push_modify]
    · cases ow with
      | false => simp at heq
      | true =>
        simp only [if_true] at heq
        rw [Option.bind_eq_some_iff] at heq
        obtain ⟨o, _, ho⟩ := heq
        rw [Array.getElem?_push] at ho
        split at ho
        · simp only [Option.some.injEq] at ho; subst ho; exact fresh_size _
        · exact hsz o os ho
    · intro h; subst h; simp at heq
    · intro hf hnone
      cases ow with
      | false => simp at heq
      | true =>
        simp only [if_true] at heq
        rw [Array.getElem?_push, if_neg (by omega), hnone] at heq
        simp at heq
    · intro how hf o os' ho hos
      subst how
      simp only [if_true] at heq
      rw [Array.getElem?_push, if_neg (by omega), ho] at heq
      simp only [Option.bind_some] at heq
      have hlt : o < b.states.size := by
        rcases Array.getElem?_eq_some_iff.mp hos with ⟨h, _⟩; exact h
      rw [Array.getElem?_push, if_neg (by omega), hos] at heq
      simp only [Option.some.injEq] at heq
      subst heq; rfl
  · next heq =>
    refine ⟨DState.fresh false, rfl, fresh_size _, fun _ => rfl, fun _ _ => rfl, ?_⟩
    intro how hf o os' ho hos
    subst how
    simp only [if_true] at heq
    rw [Array.getElem?_push, if_neg (by omega), ho] at heq
    simp only [Option.bind_some] at heq
    have hlt : o < b.states.size := by
      rcases Array.getElem?_eq_some_iff.mp hos with ⟨h, _⟩; exact h
    rw [Array.getElem?_push, if_neg (by omega), hos] at heq
    simp at heq

theorem stepS_push_old (a : Array DState) (T : DState) (m : Nat) (hm : m < a.size) (y : UInt8) :
    stepS (a.push T) m y = stepS a m y := by
  simp only [stepS, Array.getElem?_push, if_neg (Nat.ne_of_lt hm)]

theorem stepS_push_new (a : Array DState) (T : DState) (y : UInt8) :
    stepS (a.push T) a.size y = T.next.getD y.toNat none := by
  simp [stepS]

theorem fresh_getD (mt : Bool) (j : Nat) : (DState.fresh mt).next.getD j none = none := by
  simp only [DState.fresh, Array.getD_eq_getD_getElem?, Array.getElem?_replicate]
  split <;> rfl

theorem stepS_lt {s : Array DState} {m : Nat} {y : UInt8} {o : Nat} (h : stepS s m y = some o) :
    m < s.size := by
  unfold stepS at h
  cases hm : s[m]? with
  | none => rw [hm] at h; simp at h
  | some v => rcases Array.getElem?_eq_some_iff.mp hm with ⟨h, _⟩; exact h

/-- what `addSeq` leaves alone -/
structure SeqFrame (b b' : DfaB) (f : Nat) : Prop where
  cache : b'.cache = b.cache
  size : b.states.size ≤ b'.states.size
  allSz : AllSz b'
  other : ∀ m, m < b.states.size → m ≠ f → b'.states[m]? = b.states[m]?
  isM : (b'.states[f]?).map (·.isMatch) = (b.states[f]?).map (·.isMatch)

theorem SeqFrame.step {b b' : DfaB} {f : Nat} (h : SeqFrame b b' f) (m : Nat)
    (hm : m < b.states.size) (hne : m ≠ f) (y : UInt8) : stepS b'.states m y = stepS b.states m y := by
  simp only [stepS, h.other m hm hne]

/-- frame and the new table of the source state, for both overwrite modes -/
theorem addSeq_frame (ow : Bool) (to : Nat) (seq : List (Nat × Nat)) :
    ∀ (b : DfaB) (f : Nat), AllSz b → f < b.states.size → (∀ r ∈ seq, r.2 < 256) →
    SeqFrame b (b.addSeq ow f to seq) f ∧
    ∀ r rest, seq = r :: rest → ∀ y : UInt8,
      stepS (b.addSeq ow f to seq).states f y =
        if r.1 ≤ y.toNat ∧ y.toNat ≤ r.2 ∧ (ow = true ∨ stepS b.states f y = none)
        then some (if rest = [] then to else b.states.size) else stepS b.states f y := by
  induction seq with
  | nil =>
    intro b f hsz hf hr
    exact ⟨⟨rfl, Nat.le_refl _, hsz, fun _ _ _ => rfl, rfl⟩, fun r rest h => by simp at h⟩
  | cons r rest ih =>
    intro b f hsz hf hr
    cases rest with
    | nil =>
      rw [addSeq_one]
      refine ⟨⟨addRange_cache .., Nat.le_of_eq (addRange_size ..).symm, addRange_allSz _ _ _ _ _ _ hsz,
        fun m _ hne => addRange_other _ _ _ _ _ _ m hne, addRange_isMatch ..⟩, ?_⟩
      intro r' rest' e y
      simp only [List.cons.injEq] at e
      obtain ⟨rfl, rfl⟩ := e
      rw [addRange_step b ow f to r.1 r.2 hsz hf (hr r (by simp)) y]
      simp
    | cons r2 rest =>
      rw [addSeq_cons2]
      obtain ⟨T, hb2, hT, -, -, -⟩ := seqPrep_eq b ow f r.1 hsz
      have hsz2 : AllSz (seqPrep b ow f r.1) := by
        rw [hb2]
        intro m s hs
        simp only [Array.getElem?_push] at hs
        split at hs
        · simp only [Option.some.injEq] at hs; subst hs; exact hT
        · exact hsz m s hs
      have hsize2 : (seqPrep b ow f r.1).states.size = b.states.size + 1 := by rw [hb2]; simp
      have hold2 : ∀ m, m < b.states.size → (seqPrep b ow f r.1).states[m]? = b.states[m]? := by
        intro m hm
        rw [hb2]
        simp only [Array.getElem?_push, if_neg (Nat.ne_of_lt hm)]
      have hcache2 : (seqPrep b ow f r.1).cache = b.cache := by rw [hb2]
      generalize seqPrep b ow f r.1 = b2 at hsz2 hsize2 hold2 hcache2
      have hsz3 := addRange_allSz b2 ow f b.states.size r.1 r.2 hsz2
      have hsize3 := addRange_size b2 ow f b.states.size r.1 r.2
      have hother3 := addRange_other b2 ow f b.states.size r.1 r.2
      have hstep3 := addRange_step b2 ow f b.states.size r.1 r.2 hsz2 (by omega) (hr r (by simp))
      have hism3 := addRange_isMatch b2 ow f b.states.size r.1 r.2 f
      have hcache3 := addRange_cache b2 ow f b.states.size r.1 r.2
      generalize b2.addRange ow f b.states.size r.1 r.2 = b3 at hsz3 hsize3 hother3 hstep3 hism3 hcache3
      obtain ⟨fr, -⟩ := ih b3 b.states.size hsz3 (by omega)
        (fun r' hr' => hr r' (List.mem_cons_of_mem _ hr'))
      have hf3 : b3.states[f]? = (b3.addSeq ow b.states.size to (r2 :: rest)).states[f]? :=
        (fr.other f (by omega) (by omega)).symm
      refine ⟨⟨by rw [fr.cache, hcache3, hcache2], by have := fr.size; omega, fr.allSz, ?_, ?_⟩, ?_⟩
      · intro m hm hne
        rw [fr.other m (by omega) (by omega), hother3 m hne, hold2 m hm]
      · rw [← hf3, hism3, hold2 f hf]
      · intro r' rest' e y
        simp only [List.cons.injEq] at e
        obtain ⟨rfl, rfl⟩ := e
        have e1 : stepS (b3.addSeq ow b.states.size to (r2 :: rest)).states f y = stepS b3.states f y := by
          simp only [stepS, hf3]
        have e2 : stepS b2.states f y = stepS b.states f y := by
          simp only [stepS, hold2 f hf]
        rw [e1, hstep3, e2]
        simp

/-- the first round of `addSeq` on a sequence of at least two ranges -/
theorem addSeq_cons2_struct (b : DfaB) (ow : Bool) (f to : Nat) (r r2 : Nat × Nat)
    (rest : List (Nat × Nat)) (hsz : AllSz b) (hf : f < b.states.size) :
    ∃ b3 : DfaB, b.addSeq ow f to (r :: r2 :: rest) = b3.addSeq ow b.states.size to (r2 :: rest) ∧
      AllSz b3 ∧ b3.states.size = b.states.size + 1 ∧
      (∀ m, m < b.states.size → m ≠ f → b3.states[m]? = b.states[m]?) ∧
      (ow = false → ∀ y, stepS b3.states b.states.size y = none) ∧
      (∀ x : UInt8, r.1 = x.toNat → stepS b.states f x = none →
        ∀ y, stepS b3.states b.states.size y = none) ∧
      (ow = true → ∀ x : UInt8, r.1 = x.toNat → ∀ o, stepS b.states f x = some o →
        o < b.states.size → ∀ y, stepS b3.states b.states.size y = stepS b.states o y) := by
  refine ⟨(seqPrep b ow f r.1).addRange ow f b.states.size r.1 r.2, addSeq_cons2 .., ?_⟩
  obtain ⟨T, hb2, hT, hfalse, hnone, hsome⟩ := seqPrep_eq b ow f r.1 hsz
  have hsz2 : AllSz (seqPrep b ow f r.1) := by
    rw [hb2]
    intro m s hs
    simp only [Array.getElem?_push] at hs
    split at hs
    · simp only [Option.some.injEq] at hs; subst hs; exact hT
    · exact hsz m s hs
  have hN : ∀ y, stepS ((seqPrep b ow f r.1).addRange ow f b.states.size r.1 r.2).states b.states.size y
      = T.next.getD y.toNat none := by
    intro y
    rw [addRange_step_other _ _ _ _ _ _ _ (by omega), hb2]
    exact stepS_push_new _ _ _
  refine ⟨addRange_allSz _ _ _ _ _ _ hsz2, ?_, ?_, ?_, ?_, ?_⟩
  · rw [addRange_size, hb2]; simp
  · intro m hm hne
    rw [addRange_other _ _ _ _ _ _ m hne, hb2]
    simp only [Array.getElem?_push, if_neg (Nat.ne_of_lt hm)]
  · intro how y
    rw [hN, hfalse how, fresh_getD]
  · intro x hx hst y
    rw [hN, hnone hf (by rw [hx]; exact hst), fresh_getD]
  · intro how x hx o hst ho y
    have hos : b.states[o]? = some b.states[o] := by simp [ho]
    rw [hN, hsome how hf o _ (by rw [hx]; exact hst) hos]
    simp [stepS, hos]

/-- the words matched by the sequence now lead to `to`, through fresh states only -/
theorem addSeq_walk_new (ow : Bool) (to : Nat) (seq : List (Nat × Nat)) :
    ∀ (b : DfaB) (f : Nat), AllSz b → f < b.states.size → (∀ r ∈ seq, r.2 < 256) →
    (ok' : Nat → Prop) → (∀ m, b.states.size ≤ m → m < (b.addSeq ow f to seq).states.size → ok' m) →
    (x : UInt8) → (w : List UInt8) → SeqMatches (x :: w) seq →
    (ow = true ∨ stepS b.states f x = none) →
    Walk (b.addSeq ow f to seq).states ok' (stepS (b.addSeq ow f to seq).states f x) w (some to) := by
  induction seq with
  | nil => intro b f _ _ _ ok' _ x w hm; simp [SeqMatches] at hm
  | cons r rest ih =>
    intro b f hsz hf hr ok' hok x w hm hblank
    obtain ⟨fr, hstep⟩ := addSeq_frame ow to (r :: rest) b f hsz hf hr
    cases rest with
    | nil =>
      cases w with
      | cons _ _ => simp [SeqMatches] at hm
      | nil =>
        simp only [SeqMatches, and_true] at hm
        rw [hstep r [] rfl x, if_pos ⟨hm.1, hm.2, hblank⟩]
        rfl
    | cons r2 rest =>
      cases w with
      | nil => simp [SeqMatches] at hm
      | cons x2 w =>
        simp only [SeqMatches] at hm
        obtain ⟨h1, h2, hm2⟩ := hm
        have hx2 : SeqMatches (x2 :: w) (r2 :: rest) := hm2
        rw [hstep r (r2 :: rest) rfl x, if_pos ⟨h1, h2, hblank⟩]
        simp only [reduceCtorEq, if_false]
        obtain ⟨b3, e, hsz3, hsize3, -, hfalse, -, -⟩ :=
          addSeq_cons2_struct b ow f to r r2 rest hsz hf
        have hlt : b.states.size < (b.addSeq ow f to (r :: r2 :: rest)).states.size := by
          rw [e]
          have := (addSeq_frame ow to (r2 :: rest) b3 b.states.size hsz3 (by omega)
            (fun r' hr' => hr r' (List.mem_cons_of_mem _ hr'))).1.size
          omega
        refine Or.inr ⟨b.states.size, rfl, hok _ (Nat.le_refl _) hlt, ?_⟩
        rw [e]
        apply ih b3 b.states.size hsz3 (by omega) (fun r' hr' => hr r' (List.mem_cons_of_mem _ hr'))
          ok' _ x2 w hx2
        · cases ow with
          | true => exact Or.inl rfl
          | false => exact Or.inr (hfalse rfl x2)
        · intro m h1 h2
          rw [← e] at h2
          exact hok m (by omega) h2

/-- the ranges spelling a byte string -/
def byteSeq (w : List UInt8) : List (Nat × Nat) := w.map fun x => (x.toNat, x.toNat)

theorem byteSeq_lt (w : List UInt8) : ∀ r ∈ byteSeq w, r.2 < 256 := by
  intro r hr
  simp only [byteSeq, List.mem_map] at hr
  obtain ⟨x, _, rfl⟩ := hr
  exact x.toNat_lt

theorem byteSeq_matches (w : List UInt8) : SeqMatches w (byteSeq w) := by
  induction w with
  | nil => trivial
  | cons x w ih => exact ⟨Nat.le_refl _, Nat.le_refl _, ih⟩

/-- overwriting the path of one byte string keeps every walk over a diverging byte string:
the fresh states start as copies of the states they replace -/
theorem addSeq_walk_other (to : Nat) (w : List UInt8) :
    ∀ (b : DfaB) (f : Nat) (x : UInt8), AllSz b → f < b.states.size →
    (ok ok' : Nat → Prop) → (∀ m, ok m → m < b.states.size) → ¬ ok f → (∀ m, ok m → ok' m) →
    (∀ m, b.states.size ≤ m → m < (b.addSeq true f to (byteSeq (x :: w))).states.size → ok' m) →
    (x' : UInt8) → (w' : List UInt8) → (o : Option Nat) → Diverge (x :: w) (x' :: w') →
    Walk b.states ok (stepS b.states f x') w' o →
    Walk (b.addSeq true f to (byteSeq (x :: w))).states ok' 
      (stepS (b.addSeq true f to (byteSeq (x :: w))).states f x') w' o := by
  induction w with
  | nil =>
    intro b f x hsz hf ok ok' hok hokf hsub hfresh x' w' o hdiv hwalk
    obtain ⟨fr, hstep⟩ := addSeq_frame true to (byteSeq [x]) b f hsz hf (byteSeq_lt _)
    have hne : x ≠ x' := by
      rcases hdiv with h | h
      · exact h
      · simp [Diverge] at h
    rw [hstep _ [] rfl x', if_neg (by
      intro ⟨a, b, _⟩; exact hne (UInt8.toNat_inj.mp (by simp only at a b; omega)))]
    exact Walk_frame _ _ ok ok' (fun m hm => ⟨hsub m hm, fr.step m (hok m hm) (fun e => hokf (e ▸ hm))⟩)
      _ _ _ hwalk
  | cons y w ih =>
    intro b f x hsz hf ok ok' hok hokf hsub hfresh x' w' o hdiv hwalk
    obtain ⟨fr, hstep⟩ := addSeq_frame true to (byteSeq (x :: y :: w)) b f hsz hf (byteSeq_lt _)
    by_cases hne : x = x'
    · subst hne
      have hdiv2 : Diverge (y :: w) w' := by
        rcases hdiv with h | h
        · exact absurd rfl h
        · exact h
      cases w' with
      | nil => simp [Diverge] at hdiv2
      | cons y' w' =>
        rw [hstep _ (byteSeq (y :: w)) rfl x, if_pos ⟨Nat.le_refl _, Nat.le_refl _, Or.inl rfl⟩]
        have hne2 : byteSeq (y :: w) ≠ [] := by simp [byteSeq]
        simp only [hne2, if_false]
        obtain ⟨b3, e, hsz3, hsize3, hold3, -, hnone, hsome⟩ :=
          addSeq_cons2_struct b true f to (x.toNat, x.toNat) (y.toNat, y.toNat) (byteSeq w) hsz hf
        have e' : b.addSeq true f to (byteSeq (x :: y :: w))
            = b3.addSeq true b.states.size to (byteSeq (y :: w)) := e
        have hlt : b.states.size < (b.addSeq true f to (byteSeq (x :: y :: w))).states.size := by
          rw [e']
          have := (addSeq_frame true to (byteSeq (y :: w)) b3 b.states.size hsz3 (by omega)
            (byteSeq_lt _)).1.size
          omega
        refine Or.inr ⟨b.states.size, rfl, hfresh _ (Nat.le_refl _) hlt, ?_⟩
        rw [e']
        apply ih b3 b.states.size y hsz3 (by omega) ok ok' (fun m hm => by have := hok m hm; omega)
          (fun h => by have := hok _ h; omega) hsub _ y' w' o hdiv2
        · rcases hwalk with ⟨h1, rfl⟩ | ⟨m, h1, hm, hw⟩
          · rw [hnone x rfl h1 y']
            exact Walk_none _ _ _
          · rw [hsome rfl x rfl m h1 (hok m hm) y']
            exact Walk_frame _ _ ok ok (fun m' hm' => ⟨hm', fun z => by
              simp only [stepS, hold3 m' (hok m' hm') (fun e => hokf (e ▸ hm'))]⟩) _ _ _ hw
        · intro m h1 h2
          rw [← e'] at h2
          exact hfresh m (by omega) h2
    · rw [hstep _ (byteSeq (y :: w)) rfl x', if_neg (by
        intro ⟨a, b, _⟩; exact hne (UInt8.toNat_inj.mp (by simp only at a b; omega)))]
      exact Walk_frame _ _ ok ok' (fun m hm => ⟨hsub m hm, fr.step m (hok m hm) (fun e => hokf (e ▸ hm))⟩)
        _ _ _ hwalk

end LevDfa
end Fst
