import FstVerif.Proofs.SchedA
/-
Proofs about the `Sorters` protocol, part B: completeness. Every order accepted by
`validOrder threads total` is returned by some interleaving (`sorters_complete`), so
together with `sorters_order` the predicate describes exactly the achievable orders.

Construction: cut the order into its maximal ascending runs (at most `threads`), pad
with empty vectors, give worker `j` the batches of run `j` (phase 1: `recv j, work j` for
batch 0, 1, …), close, and let the workers finish in index order (phase 2).
-/
namespace Fst.Sched

/-! ### list lemmas -/

theorem getElem?_at {α : Type} (l1 l2 : List α) (w : α) : (l1 ++ w :: l2)[l1.length]? = some w := by
  induction l1 with
  | nil => rfl
  | cons a t ih => simp

theorem set_at {α : Type} (l1 l2 : List α) (w x : α) :
    (l1 ++ w :: l2).set l1.length x = l1 ++ x :: l2 := by
  induction l1 with
  | nil => rfl
  | cons a t ih => simp

/-- pigeonhole: a list of length `n` that contains `0..n-1` is a permutation of it -/
theorem perm_range_of_length_of_mem : ∀ (n : Nat) (l : List Nat), l.length = n →
    (∀ i, i < n → i ∈ l) → l.Perm (List.range n)
  | 0, l, hl, _ => by
    have : l = [] := List.length_eq_zero_iff.1 hl
    subst this; exact List.Perm.refl _
  | n+1, l, hl, hm => by
    obtain ⟨s, t, rfl⟩ := List.append_of_mem (hm n (Nat.lt_succ_self n))
    have ih := perm_range_of_length_of_mem n (s ++ t) (by simp at hl ⊢; omega) (by
      intro i hi
      have := hm i (Nat.lt_succ_of_lt hi)
      simp only [List.mem_append, List.mem_cons] at this ⊢
      rcases this with h | h | h
      · exact Or.inl h
      · omega
      · exact Or.inr h)
    rw [List.range_succ]
    exact (List.perm_middle).trans ((ih.cons n).trans (List.perm_append_singleton n _).symm)

/-! ### forward versions of `step` -/

theorem step_recv_at (s : St) (l1 l2 : List Worker) (rs : List Nat)
    (h : s.workers = l1 ++ ⟨none, rs, false⟩ :: l2) (hlt : s.next < s.total) (hc : s.closed = false) :
    step s (.recv l1.length) =
      some { s with next := s.next + 1, workers := l1 ++ ⟨some s.next, rs, false⟩ :: l2 } := by
  simp [step, hlt, hc, h]

theorem step_work_at (s : St) (l1 l2 : List Worker) (b : Nat) (rs : List Nat)
    (h : s.workers = l1 ++ ⟨some b, rs, false⟩ :: l2) :
    step s (.work l1.length) = some { s with workers := l1 ++ ⟨none, rs ++ [b], false⟩ :: l2 } := by
  simp [step, h]

theorem step_finish_at (s : St) (l1 l2 : List Worker) (rs : List Nat)
    (h : s.workers = l1 ++ ⟨none, rs, false⟩ :: l2) (hc : s.closed = true) :
    step s (.finish l1.length) =
      some { s with workers := l1 ++ ⟨none, rs, true⟩ :: l2, collected := s.collected ++ rs } := by
  simp [step, hc, h]

/-- a waiting worker with result vector `r` -/
def mkW (r : List Nat) : Worker := ⟨none, r, false⟩
/-- a worker that has handed over `r` -/
def mkD (r : List Nat) : Worker := ⟨none, r, true⟩

/-! ### phase 1: distributing the batches according to an assignment -/

theorem last_of_asc {r : List Nat} {n : Nat} (hasc : r.Pairwise (· < ·)) (hmem : n ∈ r)
    (hlt : ∀ x ∈ r, x < n + 1) : ∃ r', r = r' ++ [n] := by
  have hne : r ≠ [] := by intro h; subst h; simp at hmem
  have hr := List.dropLast_concat_getLast hne
  refine ⟨r.dropLast, ?_⟩
  have hx : r.getLast hne < n + 1 := hlt _ (List.getLast_mem hne)
  rw [← hr] at hasc hmem
  rw [List.pairwise_append] at hasc
  rcases List.mem_append.1 hmem with h | h
  · have := hasc.2.2 n h (r.getLast hne) (by simp)
    omega
  · have : n = r.getLast hne := by simpa using h
    rw [this]; exact hr.symm

theorem phase1 : ∀ (n : Nat) (assign : List (List Nat)), (∀ r ∈ assign, r.Pairwise (· < ·)) →
    assign.flatten.Perm (List.range n) → ∀ T, n ≤ T →
    ∃ evs, run ⟨0, T, false, List.replicate assign.length ⟨none, [], false⟩, []⟩ evs
      = some ⟨n, T, false, assign.map mkW, []⟩
  | 0, assign, _, hp, T, _ => by
    have hnil : assign.flatten = [] := by simpa using hp
    have : assign = List.replicate assign.length [] :=
      List.eq_replicate_iff.2 ⟨rfl, List.flatten_eq_nil_iff.1 hnil⟩
    refine ⟨[], ?_⟩
    rw [this]
    simp [run, mkW]
  | n+1, assign, hasc, hp, T, hT => by
    have hn : n ∈ assign.flatten := hp.mem_iff.2 (List.mem_range.2 (Nat.lt_succ_self n))
    obtain ⟨r, hr, hnr⟩ := List.mem_flatten.1 hn
    obtain ⟨a1, a2, rfl⟩ := List.append_of_mem hr
    have hlt : ∀ x ∈ r, x < n + 1 := fun x hx =>
      List.mem_range.1 (hp.mem_iff.1 (List.mem_flatten.2 ⟨r, hr, hx⟩))
    obtain ⟨r', rfl⟩ := last_of_asc (hasc r hr) hnr hlt
    have hasc' : ∀ q ∈ a1 ++ r' :: a2, q.Pairwise (· < ·) := by
      intro q hq
      simp only [List.mem_append, List.mem_cons] at hq
      rcases hq with h | h | h
      · exact hasc q (by simp [h])
      · subst h
        exact (List.pairwise_append.1 (hasc _ hr)).1
      · exact hasc q (by simp [h])
    have hp' : (a1 ++ r' :: a2).flatten.Perm (List.range n) := by
      rw [List.perm_iff_count] at hp ⊢
      intro a
      have := hp a
      simp only [List.range_succ, List.flatten_append, List.flatten_cons, List.count_append] at this ⊢
      omega
    obtain ⟨evs, he⟩ := phase1 n (a1 ++ r' :: a2) hasc' hp' T (Nat.le_of_succ_le hT)
    refine ⟨evs ++ [.recv (a1.map mkW).length, .work (a1.map mkW).length], ?_⟩
    have hlen : (a1 ++ (r' ++ [n]) :: a2).length = (a1 ++ r' :: a2).length := by simp
    rw [run_append, hlen, he]
    simp only [Option.bind_some, run]
    rw [step_recv_at _ (a1.map mkW) (a2.map mkW) r' (by simp [mkW]) (show n < T from hT) rfl]
    simp only
    rw [step_work_at _ (a1.map mkW) (a2.map mkW) n r' rfl]
    simp [mkW]

/-! ### phase 2: the workers finish in index order -/

theorem phase2 (n T : Nat) : ∀ (rest : List (List Nat)) (dn : List Worker) (c : List Nat),
    ∃ evs, run ⟨n, T, true, dn ++ rest.map mkW, c⟩ evs
      = some ⟨n, T, true, dn ++ rest.map mkD, c ++ rest.flatten⟩
  | [], dn, c => ⟨[], by simp [run]⟩
  | r :: rest, dn, c => by
    obtain ⟨evs, he⟩ := phase2 n T rest (dn ++ [mkD r]) (c ++ r)
    refine ⟨.finish dn.length :: evs, ?_⟩
    simp only [run]
    rw [step_finish_at _ dn (rest.map mkW) r (by simp [mkW]) rfl]
    simp only [mkD, List.append_assoc, List.singleton_append] at he
    simp only [List.map_cons, mkD, List.flatten_cons]
    exact he

/-- any assignment of the batches to the workers (one strictly ascending vector per worker,
together a permutation of all batches) is realised by an execution -/
theorem assign_complete (total : Nat) (assign : List (List Nat))
    (hasc : ∀ r ∈ assign, r.Pairwise (· < ·)) (hp : assign.flatten.Perm (List.range total)) :
    ∃ evs s, run (init assign.length total) evs = some s ∧ s.terminal = true ∧
      s.collected = assign.flatten := by
  obtain ⟨e1, h1⟩ := phase1 total assign hasc hp total (Nat.le_refl _)
  obtain ⟨e2, h2⟩ := phase2 total total assign [] []
  refine ⟨e1 ++ .close :: e2, ⟨total, total, true, assign.map mkD, assign.flatten⟩, ?_, ?_, ?_⟩
  · rw [run_append]
    simp only [init]
    rw [h1]
    simp only [Option.bind_some, run, step, and_self, if_true]
    simpa using h2
  · simp [St.terminal, mkD]
  · simp

/-! ### cutting an order into its ascending runs -/

theorem split_runs : ∀ (l : List Nat), ∃ parts : List (List Nat),
    parts.flatten = l ∧ parts.length = runs l ∧ (∀ r ∈ parts, r.Pairwise (· < ·)) ∧
    (∀ a t, l = a :: t → ∃ r rs, parts = (a :: r) :: rs)
  | [] => ⟨[], rfl, rfl, by simp, by simp⟩
  | [a] => ⟨[[a]], rfl, rfl, by simp, by
      intro a' t h
      simp only [List.cons.injEq] at h
      exact ⟨[], [], by rw [h.1]⟩⟩
  | a :: b :: rest => by
    obtain ⟨parts, hf, hl, hasc, hhd⟩ := split_runs (b :: rest)
    obtain ⟨r, rs, rfl⟩ := hhd b rest rfl
    by_cases hab : a < b
    · refine ⟨(a :: b :: r) :: rs, by simpa using hf, by simpa [runs, hab] using hl, ?_, ?_⟩
      · intro q hq
        rcases List.mem_cons.1 hq with h | h
        · subst h
          have hbr := hasc (b :: r) (by simp)
          rw [List.pairwise_cons] at hbr ⊢
          refine ⟨?_, List.pairwise_cons.2 hbr⟩
          intro x hx
          rcases List.mem_cons.1 hx with h | h
          · omega
          · have := hbr.1 x h; omega
        · exact hasc q (by simp [h])
      · intro a' t h
        simp only [List.cons.injEq] at h
        exact ⟨b :: r, rs, by rw [h.1]⟩
    · refine ⟨[a] :: (b :: r) :: rs, by simpa using hf, by simpa [runs, hab] using hl, ?_, ?_⟩
      · intro q hq
        rcases List.mem_cons.1 hq with h | h
        · subst h; simp
        · exact hasc q h
      · intro a' t h
        simp only [List.cons.injEq] at h
        exact ⟨[], (b :: r) :: rs, by rw [h.1]⟩

/-! ### 5. completeness -/

theorem validOrder_perm {threads total : Nat} {order : List Nat}
    (h : validOrder threads total order = true) : order.Perm (List.range total) := by
  obtain ⟨hl, hm, _⟩ := validOrder_iff.1 h
  exact perm_range_of_length_of_mem total order hl hm

/-- every order accepted by `validOrder` is the result of some interleaving
(the hypothesis `1 ≤ threads` is not needed: with no worker `validOrder` forces `total = 0`,
and `close` alone is a terminal execution) -/
theorem sorters_complete {threads total : Nat} {order : List Nat} (_hth : 1 ≤ threads)
    (h : validOrder threads total order = true) :
    ∃ evs s, run (init threads total) evs = some s ∧ s.terminal = true ∧ s.collected = order := by
  obtain ⟨_, _, hr⟩ := validOrder_iff.1 h
  obtain ⟨parts, hf, hl, hasc, _⟩ := split_runs order
  have hfl : (parts ++ List.replicate (threads - parts.length) []).flatten = order := by
    simp [hf]
  have hlen : (parts ++ List.replicate (threads - parts.length) []).length = threads := by
    simp; omega
  have := assign_complete total (parts ++ List.replicate (threads - parts.length) [])
    (by
      intro r hr
      rcases List.mem_append.1 hr with h | h
      · exact hasc r h
      · rw [List.eq_of_mem_replicate h]; simp)
    (by rw [hfl]; exact validOrder_perm h)
  rw [hlen, hfl] at this
  exact this

/-- `validOrder` is exactly the set of achievable orders -/
theorem sorters_exact {threads total : Nat} {order : List Nat} (hth : 1 ≤ threads) :
    validOrder threads total order = true ↔
      ∃ s, Reachable threads total s ∧ s.terminal = true ∧ s.collected = order := by
  constructor
  · intro h
    obtain ⟨evs, s, hr, ht, hc⟩ := sorters_complete hth h
    exact ⟨s, ⟨evs, hr⟩, ht, hc⟩
  · rintro ⟨s, hr, ht, rfl⟩
    exact sorters_order hr ht

end Fst.Sched
