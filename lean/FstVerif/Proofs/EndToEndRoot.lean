import FstVerif.Proofs.Build
/-
End-to-end glue, part 1 of 3 — where the root lands.

One more builder invariant (`Cov`): every emitted address is `≤` some transition target
stored in the unfinished stack. `compile` keeps it (a node found in the registry lies above
all its targets, a freshly written node lies above everything), so after `finish` every
emitted address is `≤ root`:

* `finish_root` — for a reachable state, the root address returned by `finish` is either 0 and
  nothing at all was emitted (the FST is `{"" ↦ 0}`), or it is the address of the node
  emitted last (the root is never served from the registry).
-/
namespace Fst
namespace E2E
open BuildP

/-- every emitted address is `≤` some element of `T` -/
def Cov (out : List Emit) (T : List Nat) : Prop := ∀ e ∈ out, ∃ x ∈ T, e.addr ≤ x

theorem Cov.mono {out : List Emit} {T T' : List Nat} (h : Cov out T) (hT : ∀ x ∈ T, x ∈ T') :
    Cov out T' := fun e he => let ⟨x, hx, hle⟩ := h e he; ⟨x, hT x hx, hle⟩

def nodeTargets (n : BNode) : List Nat := n.trans.map (·.addr)

def stackTargets (st : List UNode) : List Nat := st.flatMap fun u => nodeTargets u.node

theorem stackTargets_cons (u : UNode) (st : List UNode) :
    stackTargets (u :: st) = nodeTargets u.node ++ stackTargets st := rfl

theorem stackTargets_append (xs ys : List UNode) :
    stackTargets (xs ++ ys) = stackTargets xs ++ stackTargets ys := by
  simp [stackTargets]

theorem nodeTargets_freeze_none {u : UNode} (a : Nat) (h : u.last = none) :
    nodeTargets (u.freeze a) = nodeTargets u.node := by simp [UNode.freeze, h]

theorem nodeTargets_freeze_some {u : UNode} (a : Nat) (h : u.last.isSome) :
    nodeTargets (u.freeze a) = nodeTargets u.node ++ [a] := by
  obtain ⟨bo, hbo⟩ := Option.isSome_iff_exists.mp h
  simp [UNode.freeze, hbo, nodeTargets]

theorem mem_nodeTargets_freeze {u : UNode} {a x : Nat} (h : x ∈ nodeTargets (u.freeze a)) :
    x ∈ nodeTargets u.node ∨ x = a := by
  cases hl : u.last with
  | none => rw [nodeTargets_freeze_none a hl] at h; exact Or.inl h
  | some bo =>
    rw [nodeTargets_freeze_some a (by rw [hl]; rfl)] at h
    simpa using h

theorem stackTargets_chain : ∀ bs : Key, stackTargets (chain bs) = []
  | [] => rfl
  | b :: bs => by
    rw [chain, stackTargets_cons, stackTargets_chain bs]; rfl

theorem stackTargets_setRootOutput (st : List UNode) (o : Nat) :
    stackTargets (setRootOutput st o) = stackTargets st := by
  cases st <;> rfl

theorem nodeTargets_addPrefix (v : UNode) (p : Nat) :
    nodeTargets (v.addPrefix p).node = nodeTargets v.node := by
  simp [nodeTargets, UNode.addPrefix, Function.comp_def]

theorem cps_targets (stack : List UNode) (key : Key) (out : Nat) :
    stackTargets (cps stack key out).2.2 = stackTargets stack := by
  fun_induction cps stack key out with
  | case1 u v rest bs out b' o hl c v' r ih =>
    show stackTargets (_ :: r.2.2) = _
    simp only [stackTargets_cons] at ih ⊢
    rw [ih]
    congr 1
    simp only [v']
    split
    · rw [nodeTargets_addPrefix]
    · rfl
  | case2 => rfl
  | case3 => rfl
  | case4 => rfl

/-! ### `compile`, `compileTail`, `compileFrom` -/

theorem emitted_lt_count {s : BState} (hinv : SInv s) {e : Emit} (he : e ∈ s.out) :
    e.addr < s.count := by
  have hmem : (e.addr, e.node) ∈ rstore s.out := by
    simp only [rstore, List.mem_map]; exact ⟨e, he, rfl⟩
  exact (OutOK_addr hinv.out _ hmem).2

theorem compile_cov {s s' : BState} {n : BNode} {a : Nat} (hinv : SInv s)
    (h : s.compile n = .ok (s', a)) (T : List Nat) (hc : Cov s.out (nodeTargets n ++ T)) :
    Cov s'.out (a :: T) := by
  unfold BState.compile at h
  split at h
  · rename_i he
    cases h
    simp only [isEmptyFinal, Bool.and_eq_true, List.isEmpty_iff] at he
    refine hc.mono ?_
    intro x hx
    simp only [nodeTargets, he.1.2, List.map_nil, List.nil_append] at hx
    exact List.mem_cons_of_mem _ hx
  · generalize hre : s.reg.entry n = re at h
    obtain ⟨reg', en⟩ := re
    have hnew : ∀ (cs : List (List UInt8)) (e : Emit) (es : List Emit),
        e.addr = s.count + (cs.map List.length).sum - 1 → es = e :: s.out →
        Cov es (e.addr :: T) := by
      intro cs e es hea hes e' he'
      subst hes
      rcases List.mem_cons.mp he' with rfl | he'
      · exact ⟨_, List.mem_cons_self, Nat.le_refl _⟩
      · have := emitted_lt_count hinv he'
        exact ⟨_, List.mem_cons_self, by omega⟩
    cases en with
    | found a' =>
      cases h
      obtain ⟨_, hmem⟩ := entry_found hre hinv.reg
      have hnode := (OutOK_node hinv.out a n hmem).2.2.2
      intro e hm
      obtain ⟨x, hx, hle⟩ := hc e hm
      rcases List.mem_append.mp hx with hx | hx
      · simp only [nodeTargets, List.mem_map] at hx
        obtain ⟨t, ht, rfl⟩ := hx
        exact ⟨a, List.mem_cons_self, by have := (hnode t ht).1; omega⟩
      · exact ⟨x, List.mem_cons_of_mem _ hx, hle⟩
    | notFound b =>
      simp only at h
      split at h
      · cases h
      · rename_i cs _
        cases h
        exact hnew cs _ _ rfl rfl
    | rejected =>
      simp only at h
      split at h
      · cases h
      · rename_i cs _
        cases h
        exact hnew cs _ _ rfl rfl

theorem compileTail_cov : ∀ (popped : List UNode) (s s' : BState) (a : Nat) (T : List Nat),
    s.compileTail popped = .ok (s', a) → SInv s → WFStack popped →
    (∀ u ∈ popped, UShape u) → (∀ u ∈ popped, UAddr s u) →
    Cov s.out (stackTargets popped ++ T) → Cov s'.out (a :: T) := by
  intro popped
  induction popped with
  | nil => intro s s' a T _ _ h; exact absurd h id
  | cons u rest ih =>
    intro s s' a T h hinv hwf hshape haddr hc
    cases rest with
    | nil =>
      have hl : u.last = none := hwf
      have hfz : u.freeze NONE_ADDRESS = u.node := by simp [UNode.freeze, hl]
      simp only [BState.compileTail, hl, Option.isSome_none, Bool.and_false, Bool.false_eq_true,
        if_false, hfz] at h
      refine compile_cov hinv h T (hc.mono ?_)
      intro x hx
      simpa [stackTargets] using hx
    | cons v rest' =>
      obtain ⟨hsome, hwf'⟩ := WFStack_cons_cons.mp hwf
      have hshape' : ∀ w ∈ v :: rest', UShape w := fun w hw => hshape w (List.mem_cons_of_mem _ hw)
      have haddr' : ∀ w ∈ v :: rest', UAddr s w := fun w hw => haddr w (List.mem_cons_of_mem _ hw)
      obtain ⟨s1, a1, i1, i2, i3, _, _, _, i7, i8⟩ :=
        compileTail_spec (v :: rest') s hinv hwf' hshape' haddr'
      rw [BState.compileTail, i1] at h
      simp only [List.isEmpty_cons, Bool.false_and, Bool.false_eq_true, if_false] at h
      have hc1 := ih s s1 a1 (nodeTargets u.node ++ T) i1 hinv hwf' hshape' haddr' (hc.mono (by
        intro x hx
        rw [stackTargets_cons] at hx
        simp only [List.mem_append] at hx ⊢
        grind))
      refine compile_cov i2 h T (hc1.mono ?_)
      intro x hx
      rw [nodeTargets_freeze_some a1 hsome]
      simp only [List.mem_cons, List.mem_append] at hx ⊢
      grind

theorem compileFrom_cov {s s' : BState} {front popped : List UNode} {top : UNode}
    (h : s.compileFrom front.length = .ok s') (hinv : SInv s)
    (hst : s.stack = front ++ top :: popped) (hwf : WFStack (top :: popped))
    (hshape : ∀ u ∈ top :: popped, UShape u) (haddr : ∀ u ∈ top :: popped, UAddr s u)
    (hc : Cov s.out (stackTargets (front ++ top :: popped))) :
    ∃ a, s'.stack = front ++ [⟨top.freeze a, none⟩] ∧
      Cov s'.out (stackTargets front ++ nodeTargets (top.freeze a)) := by
  unfold BState.compileFrom at h
  simp only [hst, take_split, drop_split, List.getLast?_concat, List.dropLast_concat] at h
  cases popped with
  | nil =>
    have hl : top.last = none := hwf
    simp only [BState.compileTail] at h
    cases h
    refine ⟨NONE_ADDRESS, rfl, ?_⟩
    rw [nodeTargets_freeze_none _ hl]
    simpa [stackTargets_append, stackTargets_cons, stackTargets] using hc
  | cons v rest =>
    obtain ⟨hsome, hwf'⟩ := WFStack_cons_cons.mp hwf
    have hshape' : ∀ w ∈ v :: rest, UShape w := fun w hw => hshape w (List.mem_cons_of_mem _ hw)
    have haddr' : ∀ w ∈ v :: rest, UAddr s w := fun w hw => haddr w (List.mem_cons_of_mem _ hw)
    obtain ⟨s1, a1, i1, i2, i3, _, _, _, i7, i8⟩ :=
      compileTail_spec (v :: rest) s hinv hwf' hshape' haddr'
    rw [i1] at h
    cases h
    have hc1 := compileTail_cov (v :: rest) s s1 a1 (stackTargets front ++ nodeTargets top.node)
      i1 hinv hwf' hshape' haddr' (hc.mono (by
        intro x hx
        rw [stackTargets_append, stackTargets_cons] at hx
        simp only [List.mem_append] at hx ⊢
        grind))
    refine ⟨a1, rfl, ?_⟩
    show Cov s1.out _
    refine hc1.mono ?_
    intro x hx
    rw [nodeTargets_freeze_some a1 hsome]
    simp only [List.mem_cons, List.mem_append] at hx ⊢
    grind

/-! ### the invariant between public calls -/

def CovInv (s : BState) : Prop := Cov s.out (stackTargets s.stack)

theorem CovInv_new (rows cols : Nat) : CovInv (BState.new rows cols) := by
  intro e he; simp [BState.new] at he

theorem insertOutput_new_cov {s : BState} {acc : KV} (hc : Core s acc) (b : UInt8) (bt : Key)
    (out : Option Nat) (hlt : lexLt (pathKey s.stack) (b :: bt) = true) (hC : CovInv s)
    {s' : BState} (h : s.insertOutput (b :: bt) out = .ok s') : CovInv s' := by
  obtain ⟨i, rem, front, top, popped, s2, a, b2, bs', hcps, hflen, hcf, hs2, hdrop, hins⟩ :=
    insertOutput_new_steps hc b bt out hlt
  rw [hins] at h; cases h
  have hw1 := cps_wf (b :: bt) s.stack (out.getD 0) hc.wf
  have hshape1 := cps_forall UShape (fun u b o c hl h => UShape_setLast hl h)
    (fun v p h => UShape_addPrefix p h) (b :: bt) s.stack (out.getD 0) hc.wf hc.shape
  have haddr1 := cps_forall (UAddr s) (fun u b o c _ h => h)
    (fun v p h => UAddr_addPrefix p h) (b :: bt) s.stack (out.getD 0) hc.wf hc.addr
  have htg := cps_targets s.stack (b :: bt) (out.getD 0)
  rw [hcps] at hw1 hshape1 haddr1 htg
  simp only at hw1 hshape1 haddr1 htg
  have hmem : ∀ u, u ∈ front ∨ u ∈ top :: popped → u ∈ front ++ top :: popped := by
    intro u hu; simpa using hu
  obtain ⟨hfsome, hwtp⟩ := WFStack_append.mp hw1
  have hshape' : ∀ u ∈ top :: popped, UShape u := fun u hu => hshape1 u (hmem u (Or.inr hu))
  have haddr' : ∀ u ∈ top :: popped, UAddr s u := fun u hu => haddr1 u (hmem u (Or.inr hu))
  obtain ⟨a', p2, p3⟩ :=
    compileFrom_cov (s := { s with stack := front ++ top :: popped, len := s.len + 1 })
      hcf ⟨hc.sinv.out, hc.sinv.reg⟩ rfl hwtp hshape' haddr' (by rw [htg]; exact hC)
  rw [freeze_eq_of_stack p2 hs2] at p3
  show Cov s2.out (stackTargets (front ++ ⟨top.freeze a, some (b2, rem)⟩ :: chain bs'))
  rw [stackTargets_append, stackTargets_cons, stackTargets_chain, List.append_nil]
  exact p3

theorem insertOutput_empty_cov {s : BState} (out : Option Nat) (hC : CovInv s) {s' : BState}
    (h : s.insertOutput [] out = .ok s') : CovInv s' := by
  have : s' = { s with len := 1, stack := setRootOutput s.stack (out.getD 0) } := by
    have : s.insertOutput [] out = .ok { s with len := 1, stack := setRootOutput s.stack (out.getD 0) } := rfl
    rw [this] at h; cases h; rfl
  subst this
  show Cov s.out (stackTargets (setRootOutput s.stack (out.getD 0)))
  rw [stackTargets_setRootOutput]; exact hC

theorem insertOutput_dup_cov {s : BState} {acc : KV} (hc : Core s acc) (b : UInt8)
    (bt : Key) (out : Option Nat) (hv : out.getD 0 = 0) (hp : pathKey s.stack = b :: bt)
    (hC : CovInv s) {s' : BState} (h : s.insertOutput (b :: bt) out = .ok s') : CovInv s' := by
  rw [insertOutput_cons] at h
  have hidx := cps_index (b :: bt) s.stack (out.getD 0) hc.wf
  rw [hp, lcp_self] at hidx
  obtain ⟨_, p2, _⟩ := cps_path (b :: bt) s.stack (out.getD 0) hc.wf
  have hrem : (cps s.stack (b :: bt) (out.getD 0)).2.1 = 0 := by omega
  rw [if_pos hidx, hrem] at h
  simp only [ne_eq, not_true_eq_false, if_false] at h
  cases h
  show Cov s.out (stackTargets (cps s.stack (b :: bt) (out.getD 0)).2.2)
  rw [cps_targets]; exact hC

theorem insert_cov {s s' : BState} {acc : KV} (h : Inv s acc) (hC : CovInv s) {k : Key}
    {v : Nat} (hi : s.insert k v = .ok s') : CovInv s' := by
  have hlt := insert_ok_lt hi
  have hck : s.checkLastKey k true = .ok { s with last := some k } := by
    cases hl : s.last with
    | none => exact checkLastKey_none k true hl
    | some last => rw [checkLastKey_map k hl, if_pos (hlt last hl)]
  unfold BState.insert at hi
  rw [hck] at hi
  have hcore := Core_setLast h.core (some k)
  cases k with
  | nil => exact insertOutput_empty_cov (s := { s with last := some [] }) (some v) hC hi
  | cons b bt =>
    have hp : lexLt (pathKey s.stack) (b :: bt) = true := by
      rw [h.path]
      cases hl : s.last with
      | none => rfl
      | some last => exact hlt last hl
    exact insertOutput_new_cov hcore b bt (some v) hp hC hi

theorem add_cov {s s' : BState} {acc : KV} (h : Inv s acc) (hC : CovInv s) {k : Key}
    (ha : s.add k = .ok s') : CovInv s' := by
  have hle := add_ok_le ha
  have hck : s.checkLastKey k false = .ok { s with last := some k } := by
    cases hl : s.last with
    | none => exact checkLastKey_none k false hl
    | some last => rw [checkLastKey_set k hl, if_pos (hle last hl)]
  unfold BState.add at ha
  rw [hck] at ha
  have hcore := Core_setLast h.core (some k)
  cases k with
  | nil => exact insertOutput_empty_cov (s := { s with last := some [] }) none hC ha
  | cons b bt =>
    by_cases hdup : s.last = some (b :: bt)
    · have hp : pathKey s.stack = b :: bt := by rw [h.path, hdup]; rfl
      exact insertOutput_dup_cov hcore b bt none rfl hp hC ha
    · have hp : lexLt (pathKey s.stack) (b :: bt) = true := by
        rw [h.path]
        cases hl : s.last with
        | none => rfl
        | some last =>
          rcases lexLe_iff.mp (hle last hl) with h1 | h1
          · exact h1
          · subst h1; exact absurd hl hdup
      exact insertOutput_new_cov hcore b bt none hp hC ha

theorem reachable_cov {s : BState} (h : Reachable s) : CovInv s := by
  induction h with
  | new rows cols => exact CovInv_new rows cols
  | insert k v hr hi ih =>
    obtain ⟨acc, hinv⟩ := reachable_inv hr
    exact insert_cov hinv ih hi
  | add k hr ha ih =>
    obtain ⟨acc, hinv⟩ := reachable_inv hr
    exact add_cov hinv ih ha

/-- after `finish` every emitted address is `≤ root` -/
theorem finish_cov {s s' : BState} {acc : KV} {root : Nat} (h : Core s acc) (hC : CovInv s)
    (hf : s.finish = .ok (s', root)) : Cov s'.out [root] := by
  obtain ⟨top, popped, hst⟩ : ∃ top popped, s.stack = top :: popped := by
    cases hs : s.stack with
    | nil => have := h.wf; rw [hs] at this; exact absurd this id
    | cons t p => exact ⟨t, p, rfl⟩
  have hwf : WFStack (top :: popped) := hst ▸ h.wf
  have hshape : ∀ u ∈ top :: popped, UShape u := fun u hu => h.shape u (hst ▸ hu)
  have haddr : ∀ u ∈ top :: popped, UAddr s u := fun u hu => h.addr u (hst ▸ hu)
  obtain ⟨s1, a, c1, c2, c3, c4, c5, c6, c7, c8⟩ :=
    compileFrom_spec (s := s) (front := []) (popped := popped) (top := top) h.sinv (by simpa using hst)
      hwf hshape haddr
  obtain ⟨a', p2, p3⟩ := compileFrom_cov (front := []) c1 h.sinv (by simpa using hst)
    hwf hshape haddr (by rw [List.nil_append, ← hst]; exact hC)
  rw [freeze_eq_of_stack p2 c4] at p3
  unfold BState.finish at hf
  simp only [List.length_nil] at c1
  rw [c1] at hf
  simp only [c4, List.nil_append, Option.isSome_none, Bool.false_eq_true, if_false] at hf
  exact compile_cov c2 hf [] (by simpa [stackTargets] using p3)

/-- ROOT: the root address of a finished build is 0 with nothing emitted at all, or the
address of the node emitted last, which is the last byte of the node region -/
theorem finish_root {s s' : BState} {root : Nat} (hr : Reachable s)
    (hf : s.finish = .ok (s', root)) :
    (root = 0 ∧ s'.out = [] ∧ s'.count = 16) ∨
    (∃ e rest, s'.out = e :: rest ∧ e.addr = root ∧ root = s'.count - 1 ∧ 16 ≤ root) := by
  obtain ⟨acc, hinv⟩ := reachable_inv hr
  have hcov := finish_cov hinv.core (reachable_cov hr) hf
  obtain ⟨s'', root', f1, f2, _, f4, _, _⟩ := finish_spec hinv.core
  rw [hf] at f1; cases f1
  have hlay := layout_of_SInv f2
  have hle : ∀ e ∈ s'.out, e.addr ≤ root := by
    intro e he
    obtain ⟨x, hx, h⟩ := hcov e he
    simp only [List.mem_singleton] at hx
    subst hx; exact h
  cases hout : s'.out with
  | nil =>
    left
    have hc := hlay.count
    rw [hout] at hc
    rcases f4.2 with h0 | ⟨n, hn⟩
    · exact ⟨h0, rfl, by simpa [totalSize] using hc⟩
    · rw [hout] at hn; simp [rstore] at hn
  | cons e rest =>
    right
    have he : e ∈ s'.out := by rw [hout]; exact List.mem_cons_self
    have h16 := (hlay.range e he).1
    have hroot : e.addr = root := by
      rcases f4.2 with h0 | ⟨n, hn⟩
      · have := hle e he; omega
      · simp only [rstore, List.mem_map, Prod.mk.injEq] at hn
        obtain ⟨e', he', ha, _⟩ := hn
        have h1 := hle e he
        rw [hout] at he'
        rcases List.mem_cons.mp he' with rfl | he'
        · exact ha
        · have hinc := hlay.increasing
          rw [hout, List.reverse_cons, List.pairwise_append] at hinc
          have := hinc.2.2 e' (by simpa using he') e (by simp)
          omega
    refine ⟨e, rest, rfl, hroot, ?_, by omega⟩
    -- the last emitted node ends at `count - 1`
    have hsinv := f2.out
    rw [hout] at hsinv
    obtain ⟨c0, l0, _, _, g2, g3, g4, _⟩ := hsinv
    omega

/-- the hypotheses of `finish_root` are satisfiable: any reachable state finishes
(a full concrete build is in `Proofs/EndToEnd.lean`, `ex_hyps`) -/
example : ∃ s s' root, Reachable s ∧ s.finish = .ok (s', root) := by
  obtain ⟨s', root, h, _⟩ := build_layout_finish (Reachable.new 3 2)
  exact ⟨_, s', root, Reachable.new 3 2, h⟩

end E2E
end Fst
