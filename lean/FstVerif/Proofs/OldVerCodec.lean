import FstVerif.Proofs.Codec
import FstVerif.Spec.Encode
/-
C10 (old format versions), part 1 of 4 (OldVerCodec → OldVerTrie → OldVerFile → OldVer):
the node codec for every format version.

`Spec.compileNodeV version` (Spec/Encode.lean) writes the 256-byte transition index of a
`StateAnyTrans` node only for `version ≥ 2`. This file re-does the `StateAnyTrans` round trip of
`Proofs/CodecAny.lean` with the index governed by the version (`aIdxV`): the reader's
`indexSize version ntrans` then ALWAYS equals the number of index bytes written, so the guard
`2 ≤ v ∨ ntrans ≤ TRANS_INDEX_THRESHOLD` of `codec_roundtrip` disappears; for version 1
`find_input` is the linear scan for every transition count up to 256. The one-transition
forms do not depend on the version and are reused from `Proofs/CodecOne.lean`.

* `Spec.compileNodeV_ge2`  for version ≥ 2 the versioned encoder is the shipped one (`compileNode`)
* `codec_segV`, `codec_roundtripV`  reader ∘ encoder = id at every version (same reader and writer version)
* `codec_roundtrip_v1`   the version-1 instance, no guard on the transition count
* `LaidV`, `byteAccess_representsV`  store level
-/
namespace Fst
namespace OldVer
open Spec

/-- the index bytes of a `StateAnyTrans` node in format version `v` -/
def aIdxV (v : Nat) (n : BNode) : List UInt8 :=
  if v ≥ 2 ∧ n.trans.length > Gen.TRANS_INDEX_THRESHOLD then buildIndex n.trans else []

theorem compileAnyV_eq (v start : Nat) (n : BNode) :
    compileAnyV v start n =
      (if n.fin then packIn n.fout (aO n) else []) ++
      n.trans.reverse.flatMap (fun t => packIn t.out (aO n)) ++
      n.trans.reverse.flatMap (fun t => packIn (deltaVal start t.addr) (anyTsize start n)) ++
      n.trans.reverse.map (·.inp) ++ aIdxV v n ++
      [UInt8.ofNat (anyTsize start n * 16 + aO n)] ++ aNb n ++
      [UInt8.ofNat ((if n.fin then 64 else 0) + aSn n)] := by
  unfold compileAnyV aO aNb aIdxV aSn
  cases anyOuts n <;> simp [packIn]

/-! #### layout of the bytes written by `compileAny` -/

/-- offset of the sizes byte -/
def anyPV (v start : Nat) (n : BNode) : Nat :=
  start + (if n.fin then aO n else 0) + n.trans.length * aO n
    + n.trans.length * anyTsize start n + n.trans.length + (aIdxV v n).length
/-- address of the node (offset of the state byte) -/
def anyAddrV (v start : Nat) (n : BNode) : Nat := anyPV v start n + 1 + (aNb n).length
structure AnyLayV (v : Nat) (l : List UInt8) (start : Nat) (n : BNode) : Prop where
  sFout : Seg l start (if n.fin then packIn n.fout (aO n) else [])
  sOuts : Seg l (start + (if n.fin then aO n else 0))
    (n.trans.reverse.flatMap fun t => packIn t.out (aO n))
  sAddrs : Seg l (start + (if n.fin then aO n else 0) + n.trans.length * aO n)
    (n.trans.reverse.flatMap fun t => packIn (deltaVal start t.addr) (anyTsize start n))
  sInps : Seg l (start + (if n.fin then aO n else 0) + n.trans.length * aO n
    + n.trans.length * anyTsize start n) (n.trans.reverse.map (·.inp))
  sIdx : Seg l (start + (if n.fin then aO n else 0) + n.trans.length * aO n
    + n.trans.length * anyTsize start n + n.trans.length) (aIdxV v n)
  sSz : l[anyPV v start n]? = some (UInt8.ofNat (anyTsize start n * 16 + aO n))
  sNb : Seg l (anyPV v start n + 1) (aNb n)
  sSb : l[anyAddrV v start n]? = some (UInt8.ofNat (anyS n))

theorem compileAnyV_length (v start : Nat) (n : BNode) :
    (compileAnyV v start n).length = anyAddrV v start n + 1 - start := by
  rw [compileAnyV_eq]
  simp only [List.length_append, fout_part_length, List.length_map, List.length_reverse,
    List.length_cons, List.length_nil, outs_length, addrs_length, anyAddrV, anyPV]
  omega

theorem any_layV {v : Nat} {l : List UInt8} {start : Nat} {n : BNode} (h : Seg l start (compileAnyV v start n)) :
    AnyLayV v l start n := by
  rw [compileAnyV_eq] at h
  obtain ⟨h, h8⟩ := seg_append h
  obtain ⟨h, h7⟩ := seg_append h
  obtain ⟨h, h6⟩ := seg_append h
  obtain ⟨h, h5⟩ := seg_append h
  obtain ⟨h, h4⟩ := seg_append h
  obtain ⟨h, h3⟩ := seg_append h
  obtain ⟨h1, h2⟩ := seg_append h
  simp only [List.length_append, fout_part_length, List.length_map, List.length_reverse,
    List.length_cons, List.length_nil, outs_length, addrs_length] at h2 h3 h4 h5 h6 h7 h8
  exact ⟨h1, h2, seg_cast h3 (by omega), seg_cast h4 (by omega), seg_cast h5 (by omega),
    seg_single (seg_cast h6 (by simp only [anyPV]; omega)),
    seg_cast h7 (by simp only [anyPV]; omega),
    seg_single (seg_cast h8 (by simp only [anyAddrV, anyPV]; omega))⟩

/-! #### number facts -/

theorem aIdx_lengthV (v : Nat) (n : BNode) :
    (aIdxV v n).length = if v ≥ 2 ∧ n.trans.length > Gen.TRANS_INDEX_THRESHOLD then 256 else 0 := by
  unfold aIdxV; split
  · exact buildIndex_length _
  · rfl

theorem indexSize_eqV {v : Nat} {n : BNode} :
    indexSize v n.trans.length = (aIdxV v n).length := by
  rw [aIdx_lengthV, indexSize]

/-- the decoded node -/
def anyRnV (v start : Nat) (n : BNode) : RNode :=
  mkAny v (anyS n) (anyAddrV v start n) start n.fin n.trans.length (anyTsize start n) (aO n) n.fout

theorem anyRn_nlenV (v start : Nat) (n : BNode) : (anyRnV v start n).nlen = (aNb n).length := by
  simp only [RNode.nlen, anyRnV, mkAny, anyS_mod, aNb_length]

theorem any_inputV {v : Nat} {l : List UInt8} {start : Nat} {n : BNode} (L : AnyLayV v l start n) (i : Nat) (hi : i < n.trans.length) :
    (anyRnV v start n).input (Src.ofList l) i = some n.trans[i].inp := by
  have hn := anyRn_nlenV v start n
  simp only [RNode.input, hn]
  simp only [anyRnV, mkAny, indexSize_eqV, anyAddrV, anyPV, get_ofList]
  have := seg_get L.sInps (n.trans.length - 1 - i) (by simp; omega)
  rw [idx_cast this (by omega)]
  simp only [List.getElem_map, rev_get n.trans i hi]

theorem any_outputV {v : Nat} {l : List UInt8} {start : Nat} {n : BNode} (L : AnyLayV v l start n)
    (houts : ∀ t ∈ n.trans, t.out < 2 ^ 64) (i : Nat) (hi : i < n.trans.length) :
    (anyRnV v start n).output (Src.ofList l) i = some n.trans[i].out := by
  have hn := anyRn_nlenV v start n
  have hmem : n.trans[i] ∈ n.trans := List.getElem_mem hi
  simp only [RNode.output, hn]
  simp only [anyRnV, mkAny, indexSize_eqV, anyAddrV, anyPV]
  by_cases h0 : aO n = 0
  · simp only [h0, if_true, (aO_zero h0).2 _ hmem]
  · simp only [h0, if_false]
    have hs := seg_flatMap_rev L.sOuts (fun t _ => packIn_length t.out (aO n)) i hi
    have hsplit := mul_split (k := aO n) hi
    have := seg_unpackChecked (seg_cast hs (b := start + (if n.fin then aO n else 0)
        + n.trans.length * aO n + n.trans.length * anyTsize start n + n.trans.length + (aIdxV v n).length
        + 1 + (aNb n).length - (aNb n).length - 1
        - (n.trans.length + n.trans.length * anyTsize start n + (aIdxV v n).length) - i * aO n - aO n)
        (by omega)) (aO_out hmem (houts _ hmem)) (by omega) (aO_le n)
    exact this

theorem any_transAddrV {v : Nat} {l : List UInt8} {start : Nat} {n : BNode} (L : AnyLayV v l start n)
    (hsmall : start < 2 ^ 64) (htgt : ∀ t ∈ n.trans, t.addr = 0 ∨ t.addr < start)
    (i : Nat) (hi : i < n.trans.length) :
    (anyRnV v start n).transAddr (Src.ofList l) i = some n.trans[i].addr := by
  have hn := anyRn_nlenV v start n
  have hmem : n.trans[i] ∈ n.trans := List.getElem_mem hi
  simp only [RNode.transAddr, hn, unpackDelta]
  simp only [anyRnV, mkAny, indexSize_eqV, anyAddrV, anyPV]
  rw [if_neg (by omega)]
  have hs := seg_flatMap_rev L.sAddrs
    (fun t _ => packIn_length (deltaVal start t.addr) (anyTsize start n)) i hi
  have hsplit := mul_split (k := anyTsize start n) hi
  have hle := le_anyTsize start n _ hmem
  have hp := packSize_pos (deltaVal start n.trans[i].addr)
  have := seg_unpackChecked (seg_cast hs (b := start + (if n.fin then aO n else 0)
      + n.trans.length * aO n + n.trans.length * anyTsize start n + n.trans.length + (aIdxV v n).length
      + 1 + (aNb n).length - (aNb n).length - 1
      - (aIdxV v n).length - n.trans.length - i * anyTsize start n - anyTsize start n)
      (by omega))
    (Nat.lt_of_lt_of_le (lt_pow_packSize _ (deltaVal_lt hsmall)) (pow256_mono hle))
    (by omega) (anyTsize_le start n)
  rw [this]
  simp only [Option.map_some, delta_back (htgt _ hmem)]

/-! #### `find_input` -/

theorem any_find_indexV {v : Nat} {l : List UInt8} {start : Nat} {n : BNode} (L : AnyLayV v l start n)
    (hv : 2 ≤ v) (hK : n.trans.length > Gen.TRANS_INDEX_THRESHOLD) (hs : SortedInputs n)
    (h256 : n.trans.length ≤ 256) (b : UInt8) :
    (anyRnV v start n).findInput (Src.ofList l) b = some (transIdx n b) := by
  have hn := anyRn_nlenV v start n
  have hX := indexSize_eqV (v := v) (n := n)
  have hX' : (aIdxV v n).length = 256 := by rw [aIdx_lengthV, if_pos ⟨hv, hK⟩]
  simp only [RNode.findInput, hn]
  simp only [anyRnV, mkAny, hX, anyAddrV, anyPV, get_ofList]
  rw [if_pos ⟨hv, hK⟩]
  have hidx : aIdxV v n = buildIndex n.trans := by unfold aIdxV; rw [if_pos ⟨hv, hK⟩]
  have := seg_get? L.sIdx b.toNat _ (by rw [hidx]; exact buildIndex_get n hs b)
  rw [idx_cast this (by omega)]
  cases ht : transIdx n b with
  | none =>
    have : n.trans.length ≠ 256 := by
      intro h; rw [sorted_full hs h b] at ht; cases ht
    have h255 : (255 : UInt8).toNat = 255 := rfl
    simp only [h255]
    rw [if_pos (by omega)]
  | some j =>
    have hj := transIdx_lt ht
    simp only [toNat_ofNat_lt (show j < 256 by omega)]
    rw [if_neg (by omega)]

theorem any_find_scanV {v : Nat} {l : List UInt8} {start : Nat} {n : BNode} (L : AnyLayV v l start n)
    (hc : ¬ (v ≥ 2 ∧ n.trans.length > Gen.TRANS_INDEX_THRESHOLD)) (hs : SortedInputs n) (b : UInt8) :
    (anyRnV v start n).findInput (Src.ofList l) b = some (transIdx n b) := by
  have hn := anyRn_nlenV v start n
  have hX' : (aIdxV v n).length = 0 := by rw [aIdx_lengthV, if_neg hc]
  simp only [RNode.findInput, hn]
  simp only [anyRnV, mkAny, anyAddrV, anyPV]
  simp only [hc, if_false]
  have := scanPos_seg (seg_cast L.sInps (b := start + (if n.fin then aO n else 0)
      + n.trans.length * aO n + n.trans.length * anyTsize start n + n.trans.length + (aIdxV v n).length
      + 1 + (aNb n).length - (aNb n).length - 1 - n.trans.length) (by omega)) b 0
  simp only [List.length_map, List.length_reverse] at this
  rw [this, rev_findIdx hs]
  cases ht : transIdx n b with
  | none => rfl
  | some i =>
    have hi := transIdx_lt ht
    simp only [Option.map_some, Nat.add_zero]
    congr 2; omega

/-! #### `Node::new` on a `StateAnyTrans` node -/

theorem any_ntransV {v : Nat} {l : List UInt8} {start : Nat} {n : BNode} (L : AnyLayV v l start n)
    (h256 : n.trans.length ≤ 256) :
    (anyS n % 64 ≠ 0 ∧ n.trans.length = anyS n % 64) ∨
    (anyS n % 64 = 0 ∧ ∃ nb, (Src.ofList l).get (anyAddrV v start n - 1) = some nb ∧
      n.trans.length = if nb.toNat = 1 then 256 else nb.toNat) := by
  rw [anyS_mod]
  by_cases h0 : aSn n = 0
  · right
    refine ⟨h0, ?_⟩
    have hnb : aNb n = [if n.trans.length = 256 then 1 else UInt8.ofNat n.trans.length] := by
      unfold aNb; rw [if_pos h0]
    have hg := L.sNb
    rw [hnb] at hg
    refine ⟨_, idx_cast (seg_single hg) (by simp only [anyAddrV, hnb, List.length_cons, List.length_nil]; omega), ?_⟩
    unfold aSn at h0
    by_cases hK : n.trans.length = 256
    · rw [if_pos hK]; exact hK
    · rw [if_neg hK, toNat_ofNat_lt (by omega)]
      split at h0 <;> (split <;> omega)
  · left
    refine ⟨h0, ?_⟩
    unfold aSn at h0 ⊢
    split at h0 <;> (split <;> omega)

theorem any_nodeNewV {v : Nat} {l : List UInt8} {start : Nat} {n : BNode} (L : AnyLayV v l start n)
    (hpos : 0 < start)
    (h256 : n.trans.length ≤ 256) (hfo : n.fout < 2 ^ 64) (hfin : n.fin = false → n.fout = 0) :
    nodeNew v (Src.ofList l) (anyAddrV v start n) = some (anyRnV v start n) := by
  have hT := anyTsize_le start n
  have hO := aO_le n
  have hd : (anyTsize start n * 16 + aO n) / 16 = anyTsize start n := by omega
  have hm : (anyTsize start n * 16 + aO n) % 16 = aO n := by omega
  have hS := anyS_lt n
  have hf2 : decide (anyS n / 64 % 2 = 1) = n.fin := by
    rw [anyS_div]; cases n.fin <;> rfl
  have hnl : (aNb n).length ≤ 1 := by rw [aNb_length]; split <;> omega
  have hX := indexSize_eqV (v := v) (n := n)
  have hmain := nodeNew_any (v := v) (d := Src.ofList l) (addr := anyAddrV v start n) (s := anyS n)
    (sz := anyTsize start n * 16 + aO n) (nlen := (aNb n).length) (ntrans := n.trans.length)
    (fout := n.fout) (vb := UInt8.ofNat (anyS n)) (szb := UInt8.ofNat (anyTsize start n * 16 + aO n))
    (by simp only [anyAddrV]; omega) L.sSb (toNat_ofNat_lt (by omega))
    (by rw [anyS_div]; split <;> omega)
    (by rw [aNb_length, anyS_mod])
    (idx_cast L.sSz (by simp only [anyAddrV]; omega)) (toNat_ofNat_lt (by omega))
    (any_ntransV L h256)
    (by
      rw [hd, hm, hf2, hX]
      cases hfn : n.fin with
      | false => simp [hfin hfn]
      | true =>
        by_cases h0 : aO n = 0
        · simp [h0, (aO_zero h0).1]
        · have hc : ¬ (aO n = 0 ∨ (!true) = true) := by simp [h0]
          rw [if_neg hc]
          have hs := L.sFout
          rw [hfn, if_pos rfl] at hs
          refine seg_unpackChecked (seg_cast hs ?_) (aO_fout hfo) (by omega) hO
          simp only [anyAddrV, anyPV, hfn, if_true]
          omega)
  rw [hmain, hd, hm, hf2, hX]
  simp only [anyRnV, mkAny, Option.some.injEq, RNode.mk.injEq, true_and, and_true]
  rw [anyS_div]
  simp only [anyAddrV, anyPV]
  cases n.fin <;> simp <;> omega

theorem any_decodesV (v : Nat) (l : List UInt8) (start : Nat) (n : BNode)
    (hpos : 0 < start)
    (hsmall : start < 2 ^ 64) (h256 : n.trans.length ≤ 256) (hs : SortedInputs n)
    (htgt : ∀ t ∈ n.trans, t.addr = 0 ∨ t.addr < start)
    (hfo : n.fout < 2 ^ 64) (houts : ∀ t ∈ n.trans, t.out < 2 ^ 64)
    (hfin : n.fin = false → n.fout = 0)
    (hseg : Seg l start (compileAnyV v start n)) :
    ∃ rn, nodeNew v (Src.ofList l) (start + (compileAnyV v start n).length - 1) = some rn ∧
      Decodes (Src.ofList l) rn n start (start + (compileAnyV v start n).length - 1) := by
  have L := any_layV hseg
  have haddr : start + (compileAnyV v start n).length - 1 = anyAddrV v start n := by
    rw [compileAnyV_length]; simp only [anyAddrV, anyPV]; omega
  rw [haddr]
  refine ⟨_, any_nodeNewV L hpos h256 hfo hfin, rfl, rfl, rfl, rfl, rfl, ?_, ?_⟩
  · intro i hi
    have ha := any_transAddrV (v := v) L hsmall htgt i hi
    exact ⟨transition_of (any_inputV L i hi) (any_outputV L houts i hi) ha, ha⟩
  · intro b
    by_cases hK : v ≥ 2 ∧ n.trans.length > Gen.TRANS_INDEX_THRESHOLD
    · exact any_find_indexV L hK.1 hK.2 hs h256 b
    · exact any_find_scanV L hK hs b


/-! ### the versioned node encoder -/

theorem compileAnyV_ge2 {v : Nat} (hv : 2 ≤ v) (start : Nat) (n : BNode) :
    compileAnyV v start n = compileAny start n := by
  have : (v ≥ 2 ∧ n.trans.length > Gen.TRANS_INDEX_THRESHOLD) ↔
      n.trans.length > Gen.TRANS_INDEX_THRESHOLD := ⟨fun h => h.2, fun h => ⟨hv, h⟩⟩
  simp only [compileAnyV, compileAny, this]

end OldVer

/-- For format versions ≥ 2 the versioned reference encoder writes exactly the bytes of the
shipped node encoder `compileNode`. (`lastAddr ≠ 0`: the reference encoder never takes the
`StateOneTransNext` form for a target 0, `compileNode` relies on its caller for that.) -/
theorem Spec.compileNodeV_ge2 {v : Nat} (hv : 2 ≤ v) (n : BNode) (lastAddr start : Nat)
    (hl : lastAddr ≠ 0) : Spec.compileNodeV v n lastAddr start = compileNode n lastAddr start := by
  unfold Spec.compileNodeV compileNode
  split
  · rfl
  split
  · rfl
  split
  · rw [OldVer.compileAnyV_ge2 hv]
  · obtain ⟨f, fo, ts⟩ := n
    match ts with
    | [t] =>
      simp only
      by_cases h1 : t.addr = lastAddr
      · have : t.addr ≠ 0 := h1 ▸ hl
        simp [h1, hl]
      · simp [h1]
    | [] => rfl
    | _ :: _ :: _ => rfl

namespace OldVer
open Spec

/-- the round trip over any byte list that contains the encoding at offset `start`:
writer and reader of the same format version `v`, any `v` -/
theorem codec_segV (v : Nat) (n : BNode) (lastAddr start : Nat) (enc l : List UInt8)
    (wf : WFNode n lastAddr start) (henc : compileNodeV v n lastAddr start = some enc)
    (hseg : Seg l start enc) :
    enc ≠ [] ∧ ∃ rn, nodeNew v (Src.ofList l) (start + enc.length - 1) = some rn ∧
      Decodes (Src.ofList l) rn n start (start + enc.length - 1) := by
  unfold compileNodeV at henc
  rw [if_neg (by have := wf.ntrans; omega), wf.notEmpty] at henc
  simp only [Bool.false_eq_true, if_false] at henc
  split at henc
  · -- `StateAnyTrans`
    injection henc with henc
    subst henc
    refine ⟨?_, any_decodesV v l start n wf.pos wf.small wf.ntrans wf.sorted wf.targets
      wf.outs.1 wf.outs.2 wf.finOut hseg⟩
    intro h
    have := compileAnyV_length v start n
    rw [h] at this
    simp only [anyAddrV, anyPV, List.length_nil] at this
    omega
  · rename_i hne
    simp only [bne_iff_ne, ne_eq, Bool.or_eq_true, not_or, Decidable.not_not,
      Bool.not_eq_true] at hne
    obtain ⟨hlen, hfin⟩ := hne
    obtain ⟨f, fo, ts⟩ := n
    simp only at hlen hfin henc
    subst hfin
    have hfo : fo = 0 := wf.finOut rfl
    subst hfo
    match ts, hlen with
    | [t], _ =>
      simp only at henc
      have htgt := wf.targets t List.mem_cons_self
      split at henc
      · rename_i hc
        simp only [Bool.and_eq_true, decide_eq_true_eq, bne_iff_ne, ne_eq] at hc
        injection henc with henc
        subst henc
        have hla : lastAddr = start - 1 := by
          rcases wf.next with h | h
          · exact h
          · exact absurd hc.1.1 (h t List.mem_cons_self)
        refine ⟨by simp [compileOTN], otn_decodes v l start t wf.pos hc.1.2 (hc.1.1.trans hla) hseg⟩
      · injection henc with henc
        subst henc
        refine ⟨by simp [compileOT], ot_decodes v l start t wf.pos wf.small
          (wf.outs.2 t List.mem_cons_self) htgt hseg⟩

theorem compileNodeV_isSome (v : Nat) (n : BNode) (lastAddr start : Nat) (h : n.trans.length ≤ 256) :
    ∃ enc, compileNodeV v n lastAddr start = some enc := by
  unfold compileNodeV
  rw [if_neg (by omega)]
  split
  · exact ⟨_, rfl⟩
  split
  · exact ⟨_, rfl⟩
  · rename_i hne
    simp only [bne_iff_ne, ne_eq, Bool.or_eq_true, not_or, Decidable.not_not] at hne
    obtain ⟨f, fo, ts⟩ := n
    match ts, hne.1 with
    | [t], _ => simp only; split <;> exact ⟨_, rfl⟩

/-- **Node codec round trip at every format version.** For every well-formed node `n` written at
byte offset `start` (= `pre.length`) by the version-`v` reference encoder, and any surrounding
bytes, the version-`v` reader `nodeNew v` at the node's address (its last byte) returns a node
that decodes to exactly `n`. No guard on the number of transitions. -/
theorem codec_roundtripV (v : Nat) (n : BNode) (lastAddr start : Nat) (enc pre post : List UInt8)
    (wf : WFNode n lastAddr start) (henc : compileNodeV v n lastAddr start = some enc)
    (hpre : pre.length = start) :
    let d := Src.ofList (pre ++ enc ++ post)
    let addr := start + enc.length - 1
    enc ≠ [] ∧ ∃ rn, nodeNew v d addr = some rn ∧
      rn.start = addr ∧ rn.end_ = start ∧ rn.fin = n.fin ∧ rn.fout = n.fout ∧
      rn.ntrans = n.trans.length ∧
      (∀ i (h : i < n.trans.length),
        rn.transition d i = some n.trans[i] ∧ rn.transAddr d i = some n.trans[i].addr) ∧
      (∀ b, rn.findInput d b = some (transIdx n b)) ∧
      rn.toBNode d = some n := by
  intro d addr
  obtain ⟨hne, rn, hrn, D⟩ := codec_segV v n lastAddr start enc (pre ++ enc ++ post) wf henc
    (hpre ▸ seg_mid pre enc post)
  exact ⟨hne, rn, hrn, D.start_eq, D.end_eq, D.fin, D.fout, D.ntrans, D.trans, D.find, D.toBNode⟩

/-- **Version 1.** The conclusion of `codec_roundtrip` for the version-1 encoder (no transition
index) read by the version-1 reader, for every transition count up to 256. -/
theorem codec_roundtrip_v1 (n : BNode) (lastAddr start : Nat) (enc pre post : List UInt8)
    (wf : WFNode n lastAddr start) (henc : compileNodeV 1 n lastAddr start = some enc)
    (hpre : pre.length = start) :
    let d := Src.ofList (pre ++ enc ++ post)
    let addr := start + enc.length - 1
    enc ≠ [] ∧ ∃ rn, nodeNew 1 d addr = some rn ∧
      rn.start = addr ∧ rn.end_ = start ∧ rn.fin = n.fin ∧ rn.fout = n.fout ∧
      rn.ntrans = n.trans.length ∧
      (∀ i (h : i < n.trans.length),
        rn.transition d i = some n.trans[i] ∧ rn.transAddr d i = some n.trans[i].addr) ∧
      (∀ b, rn.findInput d b = some (transIdx n b)) ∧
      rn.toBNode d = some n :=
  codec_roundtripV 1 n lastAddr start enc pre post wf henc hpre

/-- the hypotheses are satisfiable: the final 40-transition node of `Proofs/Codec.lean` (`exBig`),
above the index threshold, written in version 1 (no index: 256 bytes shorter than version 2) -/
example : ∃ enc enc2, compileNodeV 1 exBig 99999 100000 = some enc ∧ WFNode exBig 99999 100000 ∧
    compileNodeV 2 exBig 99999 100000 = some enc2 ∧ enc2.length = enc.length + 256 ∧
    Gen.TRANS_INDEX_THRESHOLD < exBig.trans.length :=
  ⟨_, _, rfl, exBig_wf, rfl, by decide +kernel, by decide⟩

/-! ### store level -/

/-- `es` = emitted nodes `(addr, node, encoding)`, laid out consecutively from byte offset `start`
by the version-`v` reference encoder -/
def LaidV (v : Nat) : Nat → List (Nat × BNode × List UInt8) → Prop
  | _, [] => True
  | start, e :: rest =>
    (∃ last, WFNode e.2.1 last start ∧ compileNodeV v e.2.1 last start = some e.2.2) ∧
    e.1 = start + e.2.2.length - 1 ∧
    LaidV v (start + e.2.2.length) rest

theorem laid_memV (v : Nat) (es : List (Nat × BNode × List UInt8)) (start : Nat)
    (pre post : List UInt8) (hpre : pre.length = start) (hl : LaidV v start es)
    (e : Nat × BNode × List UInt8) (he : e ∈ es) :
    ∃ st, Seg (pre ++ es.flatMap (·.2.2) ++ post) st e.2.2 ∧
      (∃ last, WFNode e.2.1 last st ∧ compileNodeV v e.2.1 last st = some e.2.2) ∧
      e.1 = st + e.2.2.length - 1 := by
  induction es generalizing start pre with
  | nil => cases he
  | cons e0 rest ih =>
    obtain ⟨h1, h2, h4⟩ := hl
    rcases List.mem_cons.mp he with rfl | hmem
    · refine ⟨start, ?_, h1, h2⟩
      rw [List.flatMap_cons, ← hpre]
      exact ⟨pre, rest.flatMap (·.2.2) ++ post, by simp, rfl⟩
    · have := ih (start + e0.2.2.length) (pre ++ e0.2.2) (by simp [hpre]) h4 hmem
      rw [List.flatMap_cons]
      simpa [List.append_assoc] using this

/-- **Store-level corollary, every version.** The version-`v` node access over
`header ++ (version-v encodings of es, in order) ++ post` returns exactly the nodes of the store
`es.map (addr, node)`; address 0 is the shared empty final node. -/
theorem byteAccess_representsV (v : Nat) (es : List (Nat × BNode × List UInt8))
    (header post : List UInt8) (hl : LaidV v header.length es) :
    Represents (byteAccess v (Src.ofList (header ++ es.flatMap (·.2.2) ++ post)))
      (es.map fun e => (e.1, e.2.1)) := by
  constructor
  intro a n hn
  unfold nodeAt at hn
  split at hn
  · rename_i ha
    subst ha
    injection hn with hn
    subst hn
    refine ⟨RNode.emptyFinal v, by simp [byteAccess, nodeNew, EMPTY_ADDRESS], rfl, rfl, rfl, rfl,
      ?_, ?_⟩
    · intro i hi; simp at hi
    · intro b; rfl
  · obtain ⟨e, he, rfl, rfl⟩ := lookup_map_mem hn
    obtain ⟨st, hseg, ⟨last, wf, henc⟩, haddr⟩ := laid_memV v es _ header post rfl hl e he
    obtain ⟨_, rn, hrn, D⟩ := codec_segV v e.2.1 last st e.2.2 _ wf henc hseg
    rw [← haddr] at hrn D
    exact ⟨rn, hrn, D.start_eq, D.fin, D.fout, D.ntrans, D.trans, D.find⟩

end OldVer
end Fst
