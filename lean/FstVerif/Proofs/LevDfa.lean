import FstVerif.Proofs.LevDfaStep
/-
C17 at byte level, for EVERY query: the DFA built by `levNew` (`Model/Lev.lean`,
mirror of `DfaBuilder::build_with_limit` in `src/automaton/levenshtein.rs`)
accepts exactly the UTF-8 encodings of the keys within the edit distance.

Layers
* `Spec/Utf8.lean`         — `ValidScalar`, `utf8Full` (the nine range sequences), `SeqMatches`.
* `Proofs/LevDfaUtf8.lean` — UTF-8 facts about `utf8Enc`: matched by exactly one sequence
                              (`utf8Enc_matches_unique`), injective and prefix-free
                              (`utf8Enc_diverge`, `utf8Enc_inj`, `utf8Enc_prefix_free`), and every
                              matched byte string is an encoding (`utf8Full_matches_enc`).
* `Proofs/LevDfaRow.lean`  — DP-row facts: a skipped query character steps like the mismatch
                              character (`accept_skip_eq`), `canMatch_accept_mono`, rows are never
                              re-entered from themselves (`accept_ne_self`, `accept_ne_start`).
* `Proofs/LevDfaSeq.lean`  — `addRange`, `addSeq`: frame (`addSeq_frame`), the new path
                              (`addSeq_walk_new`), and the copy-on-write property of the
                              overwriting mode (`addSeq_walk_other`).
* `Proofs/LevDfaInv.lean`  — the invariant vocabulary (`Base`, `MBase`, `Processed`, `Ext`),
                              `addSeqs false` on a blank state, `cached`.
* `Proofs/LevDfaStep.lean` — one `levStep` keeps the worklist invariant `Inv` (`levStep_inv`).
* this file                — the loop, the start, `run_tracks`, `C17_dfa`, `C17_dfa_can_match`.
-/
namespace Fst
namespace LevDfa
open Spec

/-! ### the worklist loop -/

theorem levBuild_inv (l : DynLev) (hq : ∀ c ∈ l.query, ValidScalar c) (limit : Nat)
    (states : Array DState) :
    ∀ (fuel : Nat) (w : LevWork), Inv l w →
      levBuild l utf8Full limit fuel w = some (.ok states) →
      ∃ b seen, b.states = states ∧ Inv l ⟨b, [], seen⟩ := by
  intro fuel
  induction fuel with
  | zero => intro w _ h; simp [levBuild] at h
  | succ fuel ih =>
    intro w hw h
    obtain ⟨b, stack, seen⟩ := w
    unfold levBuild at h
    cases stack with
    | nil =>
      simp only [Option.some.injEq, Except.ok.injEq] at h
      exact ⟨b, seen, h, hw⟩
    | cons R rest =>
      simp only at h
      split at h
      · simp at h
      · exact ih _ (levStep_inv l hq b R rest seen hw) h

/-- the builder after `cached(start)` -/
def b0 (l : DynLev) : DfaB := ⟨#[DState.fresh (l.isMatch l.start)], [(l.start, 0)]⟩

theorem lookup_b0 (l : DynLev) (R : List Nat) (i : Nat) (h : (b0 l).cache.lookup R = some i) :
    R = l.start ∧ i = 0 := by
  by_cases e : R = l.start
  · subst e
    simp only [b0, lookup_cons_self, Option.some.injEq] at h
    exact ⟨rfl, h.symm⟩
  · simp [b0, lookup_cons_ne _ _ _ _ e] at h

theorem inv_b0 (l : DynLev) : Inv l ⟨b0 l, [l.start], []⟩ := by
  have hl0 : (b0 l).cache.lookup l.start = some 0 := lookup_cons_self _ _ _
  refine ⟨⟨?_, ?_, ?_, hl0, ?_, ?_⟩, by simp, ?_, ?_⟩
  · intro m s hs
    simp only [b0] at hs
    cases m with
    | zero => simp at hs; subst hs; exact fresh_size _
    | succ m => simp at hs
  · intro R i h
    obtain ⟨rfl, rfl⟩ := lookup_b0 l R i h
    exact ⟨by simp [b0], start_canMatch l, by simp [b0, DState.fresh]⟩
  · intro R R' i h h'
    rw [(lookup_b0 l R i h).1, (lookup_b0 l R' i h').1]
  · intro R i h; exact Or.inl (lookup_b0 l R i h).2
  · intro i hi; simp at hi
  · intro R hR
    simp only [List.mem_singleton] at hR
    subst hR
    refine ⟨0, hl0, ?_⟩
    intro y
    have : stepS (b0 l).states 0 y = (DState.fresh (l.isMatch l.start)).next.getD y.toNat none := by
      simp [stepS, b0]
    rw [this, fresh_getD]
  · intro R i h hns
    exact absurd (List.mem_singleton.mpr (lookup_b0 l R i h).1) hns

theorem levStep_first (l : DynLev) (full : List (List (Nat × Nat))) :
    levStep l full ⟨⟨#[], []⟩, [], []⟩ l.start = levStep l full ⟨b0 l, [], []⟩ l.start := by
  rw [levStep_eq, levStep_eq]
  have h1 : (⟨#[], []⟩ : DfaB).cached l l.start = (b0 l, some (0, false)) := by
    unfold DfaB.cached
    simp [start_canMatch, b0]
  have h2 : (b0 l).cached l l.start = (b0 l, some (0, true)) :=
    cached_hit l _ _ _ (start_canMatch l) (lookup_cons_self _ _ _)
  simp only [h1, h2]

theorem levNew_inv (query : List Nat) (dist limit fuel : Nat) (states : Array DState)
    (hq : ∀ c ∈ query, ValidScalar c)
    (hb : levNew query dist utf8Full limit fuel = some (.ok states)) :
    ∃ b seen, b.states = states ∧ Inv ⟨query, dist⟩ ⟨b, [], seen⟩ := by
  unfold levNew at hb
  simp only at hb
  cases fuel with
  | zero => simp [levBuild] at hb
  | succ fuel =>
    have e : levBuild ⟨query, dist⟩ utf8Full limit (fuel + 1)
          ⟨⟨#[], []⟩, [DynLev.start ⟨query, dist⟩], []⟩
        = levBuild ⟨query, dist⟩ utf8Full limit (fuel + 1)
          ⟨b0 ⟨query, dist⟩, [DynLev.start ⟨query, dist⟩], []⟩ := by
      unfold levBuild
      simp only [levStep_first]
    rw [e] at hb
    exact levBuild_inv ⟨query, dist⟩ hq limit states _ _ (inv_b0 _) hb

/-! ### the DFA tracks the DP row -/

theorem WalkTo_run (b : DfaB) (i : Nat) (w : List UInt8) (o : Option Nat) (h : WalkTo b i w o) :
    w.foldl (levAut b.states).accept (some i) = o := by
  cases w with
  | nil => exact absurd h (by simp [WalkTo])
  | cons x r => exact Walk_run b.states (okI b) (stepS b.states i x) r o h

/-- from the state of the row `R`, the encoding of `k` leads to the state of the row after `k`;
or the run has died, and then the row after `k` has no matching continuation -/
theorem run_tracks (l : DynLev) (b : DfaB) (seen : List Nat) (h : Inv l ⟨b, [], seen⟩)
    (k : List Nat) (hk : ∀ c ∈ k, ValidScalar c) :
    ∀ (R : List Nat) (i : Nat), b.cache.lookup R = some i →
      (∃ j, (k.flatMap utf8Enc).foldl (levAut b.states).accept (some i) = some j ∧
        b.cache.lookup (k.foldl (fun st c => l.accept st (some c)) R) = some j) ∨
      ((k.flatMap utf8Enc).foldl (levAut b.states).accept (some i) = none ∧
        ∀ k' : List Nat, l.isMatch (k'.foldl (fun st c => l.accept st (some c))
          (k.foldl (fun st c => l.accept st (some c)) R)) = false) := by
  induction k with
  | nil => intro R i hl; exact Or.inl ⟨i, rfl, hl⟩
  | cons c k ih =>
    intro R i hl
    obtain ⟨o, h1, h2⟩ := h.done R i hl (by simp) c (hk c (by simp))
    have h1 := WalkTo_run _ _ _ _ h1
    simp only [List.flatMap_cons, List.foldl_append, List.foldl_cons, h1]
    rcases h2 with ⟨hcm, rfl⟩ | ⟨t, ht, rfl⟩
    · right
      refine ⟨run_none _ _, ?_⟩
      intro k'
      rw [← List.foldl_append]
      exact C17_dp_can l _ hcm (k ++ k')
    · exact ih (fun c' hc' => hk c' (List.mem_cons_of_mem _ hc')) _ t ht

end LevDfa
open LevDfa Spec

/-- C17 at byte level: the DFA built for `query`/`dist` accepts exactly the UTF-8 encodings of
the keys (sequences of scalar values) within edit distance `dist` of the query.
For every query, distance, state limit and fuel for which the construction returns a DFA. -/
theorem C17_dfa (query : List Nat) (dist limit fuel : Nat) (states : Array DState)
    (hq : ∀ c ∈ query, ValidScalar c)
    (hb : levNew query dist Spec.utf8Full limit fuel = some (.ok states))
    (k : List Nat) (hk : ∀ c ∈ k, ValidScalar c) :
    (levAut states).accepts (k.flatMap utf8Enc) = true ↔ Spec.lev query k ≤ dist := by
  obtain ⟨b, seen, rfl, hinv⟩ := levNew_inv query dist limit fuel states hq hb
  have hdp := C17_dp ⟨query, dist⟩ k
  simp only at hdp
  rw [← hdp]
  have hrun := run_tracks ⟨query, dist⟩ b seen hinv k hk _ 0 hinv.base.start0
  unfold Aut.accepts Aut.run
  rcases hrun with ⟨j, h1, h2⟩ | ⟨h1, h2⟩
  · have hs : (levAut b.states).start = some 0 := rfl
    rw [hs, h1]
    have := (hinv.base.cacheOk _ j h2).2.2
    simp only [levAut]
    cases hj : b.states[j]? with
    | none => rw [hj] at this; simp at this
    | some s =>
      rw [hj] at this
      simp only [Option.map_some, Option.some.injEq] at this
      simp only [Option.map_some, Option.getD_some, this]
  · have hs : (levAut b.states).start = some 0 := rfl
    rw [hs, h1]
    have := h2 []
    simp only [List.foldl_nil] at this
    rw [this]
    simp [levAut]

/-- `can_match` of the DFA is sound: if the run over the encoding of a key has died (state `None`,
`can_match = false`), no extension of the key is within the distance -/
theorem C17_dfa_can_match (query : List Nat) (dist limit fuel : Nat) (states : Array DState)
    (hq : ∀ c ∈ query, ValidScalar c)
    (hb : levNew query dist Spec.utf8Full limit fuel = some (.ok states))
    (k : List Nat) (hk : ∀ c ∈ k, ValidScalar c)
    (hdead : (levAut states).canMatch ((levAut states).run (levAut states).start
      (k.flatMap utf8Enc)) = false) (k' : List Nat) :
    ¬ Spec.lev query (k ++ k') ≤ dist := by
  obtain ⟨b, seen, rfl, hinv⟩ := levNew_inv query dist limit fuel states hq hb
  have hdp := C17_dp ⟨query, dist⟩ (k ++ k')
  simp only at hdp
  rw [← hdp, List.foldl_append]
  have hrun := run_tracks ⟨query, dist⟩ b seen hinv k hk _ 0 hinv.base.start0
  unfold Aut.run at hdead
  have hs : (levAut b.states).start = some 0 := rfl
  rw [hs] at hdead
  rcases hrun with ⟨j, h1, _⟩ | ⟨_, h2⟩
  · rw [h1] at hdead
    simp [levAut] at hdead
  · rw [h2 k']
    simp

/-- the same inside a character: if the run has died after the encoding of `k` followed by some
prefix `p` of the encoding of `c`, then no key `k ++ c :: k'` is within the distance -/
theorem C17_dfa_can_match_prefix (query : List Nat) (dist limit fuel : Nat) (states : Array DState)
    (hq : ∀ c ∈ query, ValidScalar c)
    (hb : levNew query dist Spec.utf8Full limit fuel = some (.ok states))
    (k : List Nat) (hk : ∀ c ∈ k, ValidScalar c) (c : Nat) (hc : ValidScalar c)
    (p : List UInt8) (hp : p <+: utf8Enc c)
    (hdead : (levAut states).canMatch ((levAut states).run (levAut states).start
      (k.flatMap utf8Enc ++ p)) = false) (k' : List Nat) :
    ¬ Spec.lev query (k ++ c :: k') ≤ dist := by
  obtain ⟨b, seen, rfl, hinv⟩ := levNew_inv query dist limit fuel states hq hb
  have hdp := C17_dp ⟨query, dist⟩ (k ++ c :: k')
  simp only at hdp
  rw [← hdp, List.foldl_append]
  have hrun := run_tracks ⟨query, dist⟩ b seen hinv k hk _ 0 hinv.base.start0
  unfold Aut.run at hdead
  have hs : (levAut b.states).start = some 0 := rfl
  rw [hs, List.foldl_append] at hdead
  rcases hrun with ⟨j, h1, h2⟩ | ⟨_, h2⟩
  · rw [h1] at hdead
    have hnone : p.foldl (levAut b.states).accept (some j) = none := by
      cases hr : p.foldl (levAut b.states).accept (some j) with
      | none => rfl
      | some t => rw [hr] at hdead; simp [levAut] at hdead
    obtain ⟨o, h3, h4⟩ := hinv.done _ j h2 (by simp) c hc
    have h3 := WalkTo_run _ _ _ _ h3
    obtain ⟨r, hr⟩ := hp
    rw [← hr, List.foldl_append, hnone, run_none] at h3
    subst h3
    rcases h4 with ⟨hcm, _⟩ | ⟨t, _, ht⟩
    · rw [List.foldl_cons, C17_dp_can _ _ hcm k']
      simp
    · simp at ht
  · rw [h2 (c :: k')]
    simp

/-! ### the hypotheses are satisfiable -/

set_option maxRecDepth 100000 in
example : ∃ states, levNew [233, 0x2603] 0 Spec.utf8Full 100 100 = some (.ok states) := ⟨_, rfl⟩
example : ∀ c ∈ [233, 0x2603], ValidScalar c := by decide
example : ∀ c ∈ [233, 0x2604, 0x1F600], ValidScalar c := by decide

-- `C17_dfa_can_match`: a run that has died (query "é☃", distance 0, key "a")
set_option maxRecDepth 100000 in
example : ∃ states, levNew [233, 0x2603] 0 Spec.utf8Full 100 100 = some (.ok states) ∧
    (levAut states).canMatch ((levAut states).run (levAut states).start ([97].flatMap utf8Enc)) = false :=
  ⟨_, rfl, rfl⟩

-- `C17_dfa_can_match_prefix`: dead after the lead byte `0xE2` of "☄" (read after "é")
set_option maxRecDepth 100000 in
example : ∃ states, levNew [233, 0x2603] 0 Spec.utf8Full 100 100 = some (.ok states) ∧
    [0xE2, 0x98] <+: utf8Enc 0x2604 ∧
    (levAut states).canMatch ((levAut states).run (levAut states).start
      ([233].flatMap utf8Enc ++ [0xE2, 0x98])) = true ∧
    (levAut states).canMatch ((levAut states).run (levAut states).start
      ([233].flatMap utf8Enc ++ [0xE2, 0x98, 0x84])) = false :=
  ⟨_, rfl, by decide, rfl, rfl⟩

/-- the repaired behaviour (finding F4): `Levenshtein::new("é", 1)` accepts "ê" and "ñ", whatever
the state limit — read off `C17_dfa` without running the construction -/
example (limit fuel : Nat) (states : Array DState)
    (hb : levNew [0xE9] 1 Spec.utf8Full limit fuel = some (.ok states)) :
    (levAut states).accepts ([0xEA].flatMap utf8Enc) = true ∧
    (levAut states).accepts ([0xF1].flatMap utf8Enc) = true ∧
    (levAut states).accepts ([0xEA, 0xF1].flatMap utf8Enc) = false := by
  refine ⟨(C17_dfa _ _ _ _ _ (by decide) hb _ (by decide)).mpr (by decide),
    (C17_dfa _ _ _ _ _ (by decide) hb _ (by decide)).mpr (by decide), ?_⟩
  have := C17_dfa _ _ _ _ _ (by decide) hb [0xEA, 0xF1] (by decide)
  cases h : (levAut states).accepts ([0xEA, 0xF1].flatMap utf8Enc) with
  | false => rfl
  | true => exact absurd (this.mp h) (by decide)

end Fst
