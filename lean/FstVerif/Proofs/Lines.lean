import FstVerif.Model.Lines
/-
`byte_lines` on the BYTES of the input files of `fst set` (`Model/Lines.lean`), for inputs of any
length: reading back what the harness renders gives the keys `lineKey`/`fileRows` of
`Model/Glue.lean` promise (with the one exception of an empty unterminated last row, which leaves
no byte in the file); files that end with a newline can be concatenated, others cannot (one
reader per file is needed); basic facts and counts; a line is never split, whatever its length.
-/
namespace Fst.Lines
open Fst

/-! ### 0. The reader loop -/

/-- a row content without the byte `\n` -/
def NoNL (c : Key) : Prop := (10 : UInt8) ∉ c

instance (c : Key) : Decidable (NoNL c) := by unfold NoNL; infer_instance

theorem go_nil (acc : Key) : byteLinesGo [] acc = if acc = [] then [] else [acc] := by
  cases acc <;> simp [byteLinesGo]

theorem go_nl (rest : List UInt8) (acc : Key) :
    byteLinesGo (10 :: rest) acc = lineKey acc true :: byteLinesGo rest [] := by
  simp [byteLinesGo]

theorem go_other (b : UInt8) (rest : List UInt8) (acc : Key) (h : b ≠ 10) :
    byteLinesGo (b :: rest) acc = byteLinesGo rest (acc ++ [b]) := by
  simp [byteLinesGo, h]

/-- scanning a newline-free stretch only extends the current line -/
theorem go_append (c : Key) (rest : List UInt8) (acc : Key) (h : NoNL c) :
    byteLinesGo (c ++ rest) acc = byteLinesGo rest (acc ++ c) := by
  induction c generalizing acc with
  | nil => simp
  | cons b c ih =>
    have hb : b ≠ 10 := by intro e; exact h (by simp [e])
    have hc : NoNL c := by intro e; exact h (by simp [e])
    rw [List.cons_append, go_other b _ acc hb, ih _ hc]; simp

/-- a newline-free stretch followed by `\n` is one line (minus one CR), whatever its length -/
theorem go_line (c : Key) (rest : List UInt8) (acc : Key) (h : NoNL c) :
    byteLinesGo (c ++ 10 :: rest) acc = lineKey (acc ++ c) true :: byteLinesGo rest [] := by
  rw [go_append c _ acc h, go_nl]

/-- a newline-free stretch at the end of the input is a line as it is, unless there is nothing -/
theorem go_last (c : Key) (acc : Key) (h : NoNL c) :
    byteLinesGo c acc = if acc ++ c = [] then [] else [acc ++ c] := by
  have := go_append c [] acc h
  rw [List.append_nil] at this
  rw [this, go_nil]

theorem byteLines_line (c : Key) (rest : List UInt8) (h : NoNL c) :
    byteLines (c ++ 10 :: rest) = lineKey c true :: byteLines rest := by
  unfold byteLines; rw [go_line c rest [] h]; simp

theorem byteLines_last (c : Key) (h : NoNL c) :
    byteLines c = if c = [] then [] else [c] := by
  unfold byteLines; rw [go_last c [] h]; simp

/-! ### 1. Reading back what the harness renders -/

/-- the lines promised by `Model/Glue.lean` for the rows of one file, by recursion on the rows -/
def expected : List Key → Bool → List Key
  | [], _ => []
  | [r], t => [lineKey r t]
  | r :: r' :: rest, t => lineKey r true :: expected (r' :: rest) t

theorem expected_eq_zipIdx_aux (rows : List Key) (t : Bool) (k n : Nat) (h : k + rows.length = n) :
    (rows.zipIdx k).map (fun (c, i) => lineKey c (t || i + 1 != n)) = expected rows t := by
  induction rows generalizing k with
  | nil => simp [expected]
  | cons r rest ih =>
    cases rest with
    | nil =>
      simp only [List.length_cons, List.length_nil] at h
      simp [expected, h]
    | cons r' rest =>
      have h' : k + 1 + (r' :: rest).length = n := by simp only [List.length_cons] at h ⊢; omega
      have hk : (k + 1 != n) = true := by simp only [List.length_cons] at h; simp; omega
      rw [List.zipIdx_cons, List.map_cons, ih (k + 1) h']
      simp only [expected, hk, Bool.or_true]

theorem expected_eq_zipIdx (rows : List Key) (t : Bool) :
    rows.zipIdx.map (fun (c, i) => lineKey c (t || i + 1 != rows.length)) = expected rows t :=
  expected_eq_zipIdx_aux rows t 0 rows.length (by simp)

theorem expected_true (rows : List Key) : expected rows true = rows.map (fun c => lineKey c true) := by
  induction rows with
  | nil => rfl
  | cons r rest ih =>
    cases rest with
    | nil => rfl
    | cons r' rest => simp only [expected, List.map_cons] at ih ⊢; rw [ih]

theorem byteLines_render_expected (rows : List Key) (t : Bool)
    (hnl : ∀ r ∈ rows, NoNL r) (hlast : t = true ∨ rows.getLast? ≠ some []) :
    byteLines (renderLines rows t) = expected rows t := by
  induction rows with
  | nil => simp [renderLines, expected, byteLines, byteLinesGo]
  | cons r rest ih =>
    have hr : NoNL r := hnl r (by simp)
    cases rest with
    | nil =>
      cases t with
      | true =>
        simp only [renderLines, expected, if_true]
        rw [byteLines_line r [] hr]; simp [byteLines, byteLinesGo]
      | false =>
        have hne : r ≠ [] := by
          rcases hlast with h | h
          · cases h
          · intro e; exact h (by simp [e])
        show byteLines r = [lineKey r false]
        rw [byteLines_last r hr]; simp [hne, lineKey]
    | cons r' rest =>
      have hrest : ∀ x ∈ r' :: rest, NoNL x := fun x hx => hnl x (List.mem_cons_of_mem _ hx)
      have hl : t = true ∨ (r' :: rest).getLast? ≠ some [] := by
        rcases hlast with h | h
        · exact Or.inl h
        · right; simpa [List.getLast?_cons_cons] using h
      simp only [renderLines, expected]
      rw [byteLines_line r _ hr, ih hrest hl]

/-- **Reading back a rendered file.** For rows none of which contains `\n`: the lines
`byte_lines` yields on the rendered bytes are the keys `lineKey` gives the rows (one trailing CR
of every terminated row dropped, the unterminated last row as it is) — provided the file is not
rendered with an EMPTY unterminated last row (see `byteLines_render_empty_last`). -/
theorem byteLines_render (rows : List Key) (lastTerminated : Bool)
    (hnl : ∀ r ∈ rows, (10 : UInt8) ∉ r)
    (hlast : lastTerminated = true ∨ rows.getLast? ≠ some []) :
    byteLines (renderLines rows lastTerminated) =
      rows.zipIdx.map (fun (c, i) => lineKey c (lastTerminated || i + 1 != rows.length)) := by
  rw [expected_eq_zipIdx]; exact byteLines_render_expected rows lastTerminated hnl hlast

example :
    byteLines (renderLines [[97, 13], [], [13, 13], [98, 13]] false) = [[97], [], [13], [98, 13]] ∧
    byteLines (renderLines [[97, 13], [], [13, 13], [98, 13]] true) = [[97], [], [13], [98]] ∧
    (∀ r ∈ [[97, 13], [], [13, 13], [98, 13]], (10 : UInt8) ∉ r) ∧
    ([[97, 13], [], [13, 13], [98, 13]] : List Key).getLast? ≠ some [] := by decide

theorem render_append_empty_false (init : List Key) :
    renderLines (init ++ [[]]) false = renderLines init true := by
  induction init with
  | nil => simp [renderLines]
  | cons r rest ih =>
    cases rest with
    | nil => simp [renderLines]
    | cons r' rest =>
      simp only [List.cons_append, renderLines] at ih ⊢
      rw [ih]

/-- **The excluded case.** An empty unterminated last row leaves no byte in the file: the bytes
are those of the other rows, all terminated, … -/
theorem renderLines_empty_last (init : List Key) :
    renderLines (init ++ [[]]) false = renderLines init true := render_append_empty_false init

/-- … so that row disappears: the lines read back are those of the rows before it, all of them
terminated (one line fewer than rows). -/
theorem byteLines_render_empty_last (init : List Key) (hnl : ∀ r ∈ init, (10 : UInt8) ∉ r) :
    byteLines (renderLines (init ++ [[]]) false) = init.map (fun c => lineKey c true) := by
  rw [render_append_empty_false, byteLines_render_expected init true hnl (Or.inl rfl),
    expected_true]

/-- the side condition of `byteLines_render` is necessary: in the excluded case the two sides
differ in length -/
theorem byteLines_render_empty_last_ne (init : List Key) (hnl : ∀ r ∈ init, (10 : UInt8) ∉ r) :
    byteLines (renderLines (init ++ [[]]) false) ≠
      (init ++ [[]]).zipIdx.map
        (fun (c, i) => lineKey c (false || i + 1 != (init ++ [[]]).length)) := by
  intro h
  have := congrArg List.length h
  rw [byteLines_render_empty_last init hnl] at this
  simp at this

example : byteLines (renderLines [[97, 13], []] false) = [[97]] ∧
    byteLines (renderLines [[]] false) = [] := by decide

/-! ### 2. Connection to `fileRows` -/

theorem fileRows_one_fst (rows : List (Key × Nat)) (t : Bool) (k n : Nat)
    (h : k + rows.length = n) :
    ((rows.zipIdx k).map fun ((c, v), i) => (lineKey c (t || i + 1 != n), v)).map (·.1) =
      expected (rows.map (·.1)) t := by
  rw [← expected_eq_zipIdx_aux (rows.map (·.1)) t k n (by simpa using h)]
  rw [List.zipIdx_map, List.map_map, List.map_map]
  apply List.map_congr_left
  intro p _
  rfl

/-- what can be written to a file and read back: newline-free contents, and no empty
unterminated last row -/
def Renderable (f : List (Key × Nat) × Bool) : Prop :=
  (∀ r ∈ f.1, (10 : UInt8) ∉ r.1) ∧ (f.2 = true ∨ (f.1.map (·.1)).getLast? ≠ some [])

/-- **`fileRows` is what the tool reads.** The input files of `fst set` rendered to bytes and
read by one `byte_lines` reader each give exactly the keys of `fileRows true`. -/
theorem concat_render_eq_fileRows (files : List (List (Key × Nat) × Bool))
    (h : ∀ f ∈ files, Renderable f) :
    (files.flatMap fun (rows, t) => byteLines (renderLines (rows.map (·.1)) t)) =
      (fileRows true files).map (·.1) := by
  induction files with
  | nil => simp [fileRows]
  | cons f files ih =>
    obtain ⟨rows, t⟩ := f
    have hf : Renderable (rows, t) := h _ (by simp)
    have ih' := ih (fun g hg => h g (List.mem_cons_of_mem _ hg))
    simp only [List.flatMap_cons, fileRows, List.map_append] at ih' ⊢
    rw [ih']
    congr 1
    rw [byteLines_render_expected (rows.map (·.1)) t
      (by intro r hr; obtain ⟨p, hp, rfl⟩ := List.mem_map.mp hr; exact hf.1 p hp) hf.2]
    have := fileRows_one_fst rows t 0 rows.length (by simp)
    simp only [if_true] at this ⊢
    exact this.symm

/-- the same in terms of `concatFilesLines` on the rendered files -/
theorem concatFilesLines_render (files : List (List (Key × Nat) × Bool))
    (h : ∀ f ∈ files, Renderable f) :
    concatFilesLines (files.map fun (rows, t) => renderLines (rows.map (·.1)) t) =
      (fileRows true files).map (·.1) := by
  rw [← concat_render_eq_fileRows files h]
  simp only [concatFilesLines, List.flatMap_map]

example :
    let files : List (List (Key × Nat) × Bool) :=
      [([([98, 13], 0), ([97], 0)], false), ([], true), ([([99, 13], 0), ([], 0)], true)]
    (∀ f ∈ files, Renderable f) ∧
    concatFilesLines (files.map fun (rows, t) => renderLines (rows.map (·.1)) t) =
      [[98], [97], [99], []] := by
  refine ⟨?_, by decide⟩
  intro f hf
  simp only [List.mem_cons, List.not_mem_nil, or_false] at hf
  rcases hf with rfl | rfl | rfl <;> (unfold Renderable; decide)

/-! ### 3. Concatenating files -/

theorem go_append_terminated (a b : List UInt8) (acc : Key) :
    byteLinesGo (a ++ 10 :: b) acc = byteLinesGo (a ++ [10]) acc ++ byteLinesGo b [] := by
  induction a generalizing acc with
  | nil => simp [byteLinesGo]
  | cons x a ih =>
    by_cases hx : x = 10
    · subst hx
      simp only [List.cons_append, go_nl, ih]
    · simp only [List.cons_append, go_other x _ acc hx, ih]

/-- **Files that end with a newline can be concatenated**: the lines of `a ++ b` are the lines
of `a` followed by the lines of `b`. -/
theorem byteLines_append_terminated (a b : List UInt8)
    (h : a = [] ∨ a.getLast? = some 10) :
    byteLines (a ++ b) = byteLines a ++ byteLines b := by
  rcases h with rfl | h
  · simp [byteLines, byteLinesGo]
  · obtain ⟨a', rfl⟩ : ∃ a', a = a' ++ [10] := by
      have hne : a ≠ [] := by intro e; simp [e] at h
      refine ⟨a.dropLast, ?_⟩
      have h1 := List.dropLast_concat_getLast hne
      have h2 : a.getLast hne = 10 := by
        rw [List.getLast?_eq_some_getLast hne] at h; exact Option.some.inj h
      rw [h2] at h1; exact h1.symm
    unfold byteLines
    rw [List.append_assoc, List.singleton_append, go_append_terminated]

example : byteLines ([97, 10] ++ [98]) = byteLines [97, 10] ++ byteLines [98] ∧
    ([97, 10] : List UInt8).getLast? = some 10 := by decide

/-- without the hypothesis the last line of `a` merges with the first line of `b`: chaining the
readers of two files instead of one reader per file turns the keys `a`, `b` into one key `ab` -/
example : byteLines ([97] ++ [98, 10]) = [[97, 98]] ∧
    byteLines [97] ++ byteLines [98, 10] = [[97], [98]] ∧
    concatFilesLines [[97], [98, 10]] = [[97], [98]] := by decide

/-- in general: an unterminated newline-free last line `c` of the first file merges with the
first line of the second -/
theorem byteLines_append_unterminated (a c d rest : List UInt8) (ha : a = [] ∨ a.getLast? = some 10)
    (hc : (10 : UInt8) ∉ c) (hd : (10 : UInt8) ∉ d) :
    byteLines ((a ++ c) ++ (d ++ 10 :: rest)) =
      byteLines a ++ lineKey (c ++ d) true :: byteLines rest := by
  rw [List.append_assoc, byteLines_append_terminated a _ ha, ← List.append_assoc]
  rw [byteLines_line (c ++ d) rest (by unfold NoNL; simp [hc, hd])]

/-- `ConcatLines` over several files is `byte_lines` of the concatenated bytes only when every
file ends with a newline (or is empty) -/
theorem concatFilesLines_flatten (files : List (List UInt8))
    (h : ∀ f ∈ files, f = [] ∨ f.getLast? = some 10) :
    concatFilesLines files = byteLines files.flatten := by
  induction files with
  | nil => simp [concatFilesLines, byteLines, byteLinesGo]
  | cons f files ih =>
    have ih' := ih (fun g hg => h g (List.mem_cons_of_mem _ hg))
    simp only [concatFilesLines, List.flatMap_cons, List.flatten_cons] at ih' ⊢
    rw [byteLines_append_terminated f _ (h f (by simp)), ih']

/-! ### 4. Basic facts -/

theorem byteLines_nil : byteLines [] = [] := by decide
theorem byteLines_nl : byteLines [10] = [[]] := by decide
theorem byteLines_crnl : byteLines [13, 10] = [[]] := by decide
theorem byteLines_cr : byteLines [13] = [[13]] := by decide
theorem byteLines_crcrnl : byteLines [97, 13, 13, 10] = [[97, 13]] := by decide

theorem lineKey_sublist (c : Key) (t : Bool) : (lineKey c t).Sublist c := by
  unfold lineKey
  split
  · exact List.dropLast_sublist c
  · exact List.Sublist.refl c

theorem lineKey_length_le (c : Key) (t : Bool) : (lineKey c t).length ≤ c.length :=
  (lineKey_sublist c t).length_le

theorem go_noNL (bs : List UInt8) (acc : Key) (hacc : NoNL acc) :
    ∀ l ∈ byteLinesGo bs acc, NoNL l := by
  induction bs generalizing acc with
  | nil =>
    intro l hl
    rw [go_nil] at hl
    split at hl
    · cases hl
    · simp only [List.mem_singleton] at hl; subst hl; exact hacc
  | cons b bs ih =>
    by_cases hb : b = 10
    · subst hb
      rw [go_nl]
      intro l hl
      rcases List.mem_cons.mp hl with rfl | hl
      · intro hm; exact hacc ((lineKey_sublist acc true).subset hm)
      · exact ih [] (by unfold NoNL; simp) l hl
    · rw [go_other b bs acc hb]
      exact ih _ (by unfold NoNL at hacc ⊢; simp [hacc]; exact fun e => hb e.symm)

/-- no yielded line contains the byte `\n` -/
theorem byteLines_noNL (bs : List UInt8) : ∀ l ∈ byteLines bs, (10 : UInt8) ∉ l :=
  go_noNL bs [] (by unfold NoNL; simp)

theorem go_length_sum (bs : List UInt8) (acc : Key) :
    ((byteLinesGo bs acc).map List.length).sum ≤ acc.length + bs.length := by
  induction bs generalizing acc with
  | nil => rw [go_nil]; split <;> simp
  | cons b bs ih =>
    by_cases hb : b = 10
    · subst hb
      rw [go_nl]
      have := ih []
      have := lineKey_length_le acc true
      simp only [List.map_cons, List.sum_cons, List.length_cons, List.length_nil] at *
      omega
    · rw [go_other b bs acc hb]
      have := ih (acc ++ [b])
      simp only [List.length_append, List.length_cons, List.length_nil] at *
      omega

/-- the lines together are no longer than the input -/
theorem byteLines_length_sum (bs : List UInt8) :
    ((byteLines bs).map List.length).sum ≤ bs.length := by
  have := go_length_sum bs []
  simpa [byteLines] using this

theorem go_count (bs : List UInt8) (acc : Key) :
    (byteLinesGo bs acc).length =
      bs.count 10 + (if bs.getLast? = some 10 ∨ (bs = [] ∧ acc = []) then 0 else 1) := by
  induction bs generalizing acc with
  | nil => rw [go_nil]; by_cases h : acc = [] <;> simp [h]
  | cons b bs ih =>
    by_cases hb : b = 10
    · subst hb
      rw [go_nl, List.length_cons, ih []]
      cases bs with
      | nil => simp
      | cons x xs => simp [List.getLast?_cons_cons]; omega
    · rw [go_other b bs acc hb, ih]
      have hb' : ¬ (b == 10) = true := by simpa using hb
      cases bs with
      | nil => simp [hb]
      | cons x xs => simp [List.getLast?_cons_cons, List.count_cons, hb']

/-- the number of lines is the number of `\n` bytes, plus one if the input is non-empty and does
not end with `\n` -/
theorem byteLines_length (bs : List UInt8) :
    (byteLines bs).length =
      bs.count 10 + (if bs ≠ [] ∧ bs.getLast? ≠ some 10 then 1 else 0) := by
  unfold byteLines
  rw [go_count]
  by_cases h : bs = []
  · simp [h]
  · by_cases h2 : bs.getLast? = some 10 <;> simp [h, h2]

example : (byteLines [97, 10, 10, 98]).length = 3 ∧ (byteLines [97, 10, 10]).length = 2 := by decide

/-! ### 5. Lines longer than any buffer -/

theorem noNL_replicate (n : Nat) (b : UInt8) (h : b ≠ 10) : NoNL (List.replicate n b) := by
  unfold NoNL
  intro hm
  exact h (List.eq_of_mem_replicate hm).symm

theorem lineKey_replicate (n : Nat) (b : UInt8) (h : b ≠ 13) (t : Bool) :
    lineKey (List.replicate n b) t = List.replicate n b := by
  unfold lineKey
  cases n with
  | zero => simp
  | succ n =>
    have : (List.replicate (n + 1) b).getLast? = some b := by
      rw [List.getLast?_eq_some_getLast (by simp)]; simp
    simp [this, h]

/-- **A line is never split, whatever its length**: `n` bytes `L` and a newline are one line of
`n` bytes, for every `n`. -/
theorem byteLines_long_line (n : Nat) :
    byteLines (List.replicate n 76 ++ [10]) = [List.replicate n 76] := by
  rw [byteLines_line _ [] (noNL_replicate n 76 (by decide)),
    lineKey_replicate n 76 (by decide) true]
  rfl

/-- the same without the final newline, for `n > 0` -/
theorem byteLines_long_line_unterminated (n : Nat) (h : 0 < n) :
    byteLines (List.replicate n 76) = [List.replicate n 76] := by
  rw [byteLines_last _ (noNL_replicate n 76 (by decide))]
  have : List.replicate n (76 : UInt8) ≠ [] := by
    intro e; have := congrArg List.length e; simp at this; omega
  simp [this]

/-- and in the middle of a file, with a CR LF terminator -/
theorem byteLines_long_line_crlf (n : Nat) (before rest : List UInt8)
    (hb : before = [] ∨ before.getLast? = some 10) :
    byteLines (before ++ (List.replicate n 76 ++ [13]) ++ 10 :: rest) =
      byteLines before ++ List.replicate n 76 :: byteLines rest := by
  rw [List.append_assoc, byteLines_append_terminated before _ hb]
  rw [byteLines_line _ rest (by
    have := noNL_replicate n 76 (by decide)
    unfold NoNL at this ⊢; simp [this])]
  simp [lineKey]

example : byteLines (List.replicate 5 76 ++ [10]) = [[76, 76, 76, 76, 76]] := by decide

end Fst.Lines
