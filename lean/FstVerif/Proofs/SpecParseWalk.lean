import FstVerif.Proofs.SpecParse
/-
T-SpecParse, part 2: whole stores. The traversal `Spec.walk` of the format description
over the bytes of a laid-out store (`Laid` of Proofs/Codec.lean) spells exactly the
store's denotation and visits exactly the emitted nodes reachable from the start address,
each with the extent of its encoding.
-/
namespace Fst

/-- emitted nodes `(addr, node, encoding)` as in `Laid` -/
abbrev Emits := List (Nat × BNode × List UInt8)

/-- what the format description must read at the address of an emitted node -/
def snOf (e : Nat × BNode × List UInt8) : Spec.SNode :=
  specOf e.2.1 (e.1 + 1 - e.2.2.length) e.1

/-- `b` is reachable from `a` along transitions of stored nodes -/
inductive ReachFrom (s : Store) : Nat → Nat → Prop
  | refl (a : Nat) : ReachFrom s a a
  | step {a : Nat} {n : BNode} {t : Tr} {b : Nat} :
      (a, n) ∈ s → t ∈ n.trans → ReachFrom s t.addr b → ReachFrom s a b

/-! helper lemmas live in `Fst.SpecP` to avoid clashes with other proof files -/
/-! ### G. facts about `Laid` -/

namespace SpecP

theorem compileNode_ne_nil {n : BNode} {last start : Nat} {enc : List UInt8}
    (wf : WFNode n last start) (henc : compileNode n last start = some enc) : enc ≠ [] := by
  have := spec_parseNode_seg 2 n last start enc (List.replicate start 0 ++ enc ++ []) (Or.inl (by decide))
    wf henc ⟨_, _, rfl, by simp⟩
  exact this.1

theorem laid_lb (v : Nat) : ∀ (es : Emits) (start : Nat), Laid v start es →
    ∀ e ∈ es, start + e.2.2.length ≤ e.1 + 1 ∧ 1 ≤ e.2.2.length
  | [], _, _, e, he => by cases he
  | e0 :: rest, start, hl, e, he => by
    obtain ⟨⟨last, wf, henc⟩, h2, _, h4⟩ := hl
    have hne := List.length_pos_iff.mpr (compileNode_ne_nil wf henc)
    rcases List.mem_cons.mp he with rfl | hmem
    · omega
    · have := laid_lb v rest _ h4 e hmem; omega

theorem laid_inj (v : Nat) : ∀ (es : Emits) (start : Nat), Laid v start es →
    ∀ e ∈ es, ∀ e' ∈ es, e.1 = e'.1 → e = e'
  | [], _, _, e, he, _, _, _ => by cases he
  | e0 :: rest, start, hl, e, he, e', he', heq => by
    have hl' := hl
    obtain ⟨⟨last, wf, henc⟩, h2, _, h4⟩ := hl
    have hne := List.length_pos_iff.mpr (compileNode_ne_nil wf henc)
    rcases List.mem_cons.mp he with rfl | hmem <;> rcases List.mem_cons.mp he' with rfl | hmem'
    · rfl
    · have := laid_lb v rest _ h4 e' hmem'; omega
    · have := laid_lb v rest _ h4 e hmem; omega
    · exact laid_inj v rest _ h4 e hmem e' hmem' heq

/-- the format description reads every emitted node at its address -/
theorem laid_parse (v : Nat) (es : Emits) (pre post : List UInt8) (hl : Laid v pre.length es)
    (e : Nat × BNode × List UInt8) (he : e ∈ es) :
    Spec.parseNode v (pre ++ es.flatMap (·.2.2) ++ post).toArray e.1 = some (snOf e) := by
  obtain ⟨st, hseg, ⟨last, wf, henc⟩, haddr, hv⟩ := laid_mem v es _ pre post rfl hl e he
  obtain ⟨hne, h⟩ := spec_parseNode_seg v e.2.1 last st e.2.2 _ hv wf henc hseg
  have hne := List.length_pos_iff.mpr hne
  rw [← haddr] at h
  rw [h, snOf, show e.1 + 1 - e.2.2.length = st by omega]

/-! ### H. the traversal -/

theorem lift_map (b : UInt8) (o : Nat) (l : KV) (pfx : List UInt8) (out : Nat) :
    (lift b o l).map (fun kv => (pfx.reverse ++ kv.1, out + kv.2))
      = l.map (fun kv => ((b :: pfx).reverse ++ kv.1, out + o + kv.2)) := by
  simp [lift, List.map_map, Function.comp_def, Nat.add_assoc]

end SpecP
open SpecP

/-- the nodes `nodes` visited from `addr` are exactly the emitted nodes reachable from it -/
def VisitOK (es : Emits) (addr : Nat) (nodes : List Spec.SNode) : Prop :=
  (∀ sn ∈ nodes, ∃ e ∈ es, sn = snOf e ∧ ReachFrom (es.map fun e => (e.1, e.2.1)) addr e.1) ∧
  (∀ e ∈ es, ReachFrom (es.map fun e => (e.1, e.2.1)) addr e.1 → snOf e ∈ nodes)

def WalkOK (v : Nat) (a : Array UInt8) (es : Emits) (den : Nat → KV) (fuel addr : Nat) : Prop :=
  ∀ pfx out, ∃ nodes, Spec.walk v a fuel addr pfx out
      = some ((den addr).map fun kv => (pfx.reverse ++ kv.1, out + kv.2), nodes) ∧
    VisitOK es addr nodes

namespace SpecP

theorem goT_spec {v : Nat} {a : Array UInt8} {es : Emits} {den : Nat → KV} {fuel addr : Nat}
    (pfx : List UInt8) (out : Nat) :
    ∀ (ts : List Tr), (∀ t ∈ ts, WalkOK v a es den fuel t.addr) → (∀ t ∈ ts, t.addr < addr) →
    ∀ (kvs : List (List UInt8 × Nat)) (ns : List Spec.SNode),
    ∃ nodes', Spec.walk.goT v a fuel addr pfx out (ts.map fun t => (t.inp, t.out, t.addr)) kvs ns
        = some (kvs ++ (ts.flatMap fun t => lift t.inp t.out (den t.addr)).map
            (fun kv => (pfx.reverse ++ kv.1, out + kv.2)), ns ++ nodes') ∧
      (∀ sn ∈ nodes', ∃ t ∈ ts, ∃ e ∈ es, sn = snOf e ∧
        ReachFrom (es.map fun e => (e.1, e.2.1)) t.addr e.1) ∧
      (∀ t ∈ ts, ∀ e ∈ es, ReachFrom (es.map fun e => (e.1, e.2.1)) t.addr e.1 → snOf e ∈ nodes')
  | [], _, _, kvs, ns => ⟨[], by simp [Spec.walk.goT], by simp, by simp⟩
  | t :: rest, hW, hlt, kvs, ns => by
    obtain ⟨n2, hw, hv1, hv2⟩ := hW t List.mem_cons_self (t.inp :: pfx) (out + t.out)
    obtain ⟨n3, hg, hr1, hr2⟩ := goT_spec pfx out rest
      (fun t' ht' => hW t' (List.mem_cons_of_mem _ ht'))
      (fun t' ht' => hlt t' (List.mem_cons_of_mem _ ht'))
      (kvs ++ (den t.addr).map fun kv => ((t.inp :: pfx).reverse ++ kv.1, out + t.out + kv.2)) (ns ++ n2)
    refine ⟨n2 ++ n3, ?_, ?_, ?_⟩
    · have := hlt t List.mem_cons_self
      rw [List.map_cons, Spec.walk.goT.eq_2, if_neg (by omega), hw]
      simp only
      rw [hg, List.flatMap_cons, List.map_append, lift_map, List.append_assoc, List.append_assoc]
    · intro sn hsn
      rcases List.mem_append.mp hsn with h | h
      · obtain ⟨e, he, h1, h2⟩ := hv1 sn h
        exact ⟨t, List.mem_cons_self, e, he, h1, h2⟩
      · obtain ⟨t', ht', e, he, h1, h2⟩ := hr1 sn h
        exact ⟨t', List.mem_cons_of_mem _ ht', e, he, h1, h2⟩
    · intro t' ht' e he hr
      rcases List.mem_cons.mp ht' with rfl | ht'
      · exact List.mem_append_left _ (hv2 e he hr)
      · exact List.mem_append_right _ (hr2 t' ht' e he hr)

theorem reach_cases {s : Store} {a b : Nat} (h : ReachFrom s a b) :
    a = b ∨ ∃ n t, (a, n) ∈ s ∧ t ∈ n.trans ∧ ReachFrom s t.addr b := by
  cases h with
  | refl => exact Or.inl rfl
  | step hm ht hr => exact Or.inr ⟨_, _, hm, ht, hr⟩

theorem reach_zero {s : Store} {den : Nat → KV} (hg : GoodStore s den) {b : Nat}
    (h : ReachFrom s 0 b) : b = 0 := by
  cases h with
  | refl => rfl
  | step hm _ _ => exact absurd (hg.addr_pos _ _ hm) (by omega)

theorem mem_store {es : Emits} {e : Nat × BNode × List UInt8} (he : e ∈ es) :
    (e.1, e.2.1) ∈ es.map fun e => (e.1, e.2.1) :=
  List.mem_map.mpr ⟨e, he, rfl⟩

theorem walkOK_all (v : Nat) (es : Emits) (pre post : List UInt8) (den : Nat → KV)
    (hl : Laid v pre.length es) (hg : GoodStore (es.map fun e => (e.1, e.2.1)) den) :
    ∀ (addr : Nat), (addr = 0 ∨ ∃ e ∈ es, e.1 = addr) → ∀ fuel, addr < fuel →
      WalkOK v (pre ++ es.flatMap (·.2.2) ++ post).toArray es den fuel addr := by
  intro addr
  induction addr using Nat.strongRecOn with
  | _ addr ih =>
    intro hin fuel hfuel pfx out
    obtain ⟨fuel, rfl⟩ : ∃ f, fuel = f + 1 := ⟨fuel - 1, by omega⟩
    rw [Spec.walk.eq_2]
    rcases hin with rfl | ⟨e, he, rfl⟩
    · refine ⟨[], ?_, ?_, ?_⟩
      · rw [spec_parseNode_zero, hg.den_zero]
        simp [Spec.walk.goT]
      · simp
      · intro e he hr
        have := reach_zero hg hr
        have := hg.addr_pos _ _ (mem_store he)
        omega
    · have hpos := hg.addr_pos _ _ (mem_store he)
      have hac := hg.acyclic _ _ (mem_store he)
      obtain ⟨n3, hgo, hr1, hr2⟩ := goT_spec (v := v) (a := (pre ++ es.flatMap (·.2.2) ++ post).toArray)
        (es := es) (den := den) (fuel := fuel) (addr := e.1) pfx out e.2.1.trans
        (fun t ht => ih t.addr (hac t ht).1 (by
          rcases (hac t ht).2 with h0 | ⟨m, hm⟩
          · exact Or.inl h0
          · obtain ⟨e', he', heq⟩ := List.mem_map.mp hm
            exact Or.inr ⟨e', he', by simpa using (congrArg Prod.fst heq)⟩) fuel
          (by have := (hac t ht).1; omega))
        (fun t ht => (hac t ht).1)
        (if (snOf e).fin = true then [(pfx.reverse, out + (snOf e).fout)] else []) [snOf e]
      refine ⟨[snOf e] ++ n3, ?_, ?_, ?_⟩
      · rw [laid_parse v es pre post hl e he]
        simp only [if_neg (show ¬ e.1 = 0 by omega)]
        have htr : (snOf e).trans = e.2.1.trans.map fun t => (t.inp, t.out, t.addr) := rfl
        rw [htr, hgo, hg.unfold _ _ (mem_store he), denNodeWith, List.map_append]
        congr 3
        simp only [snOf, specOf, own]
        by_cases hf : e.2.1.fin = true <;> simp [hf]
      · intro sn hsn
        rcases List.mem_append.mp hsn with h | h
        · exact ⟨e, he, by simpa using h, ReachFrom.refl _⟩
        · obtain ⟨t, ht, e', he', h1, h2⟩ := hr1 sn h
          exact ⟨e', he', h1, ReachFrom.step (mem_store he) ht h2⟩
      · intro e' he' hr
        rcases reach_cases hr with heq | ⟨n, t, hm, ht, hr'⟩
        · rw [laid_inj v es _ hl e' he' e he heq.symm]
          exact List.mem_append_left _ List.mem_cons_self
        · have := hg.functional _ _ _ hm (mem_store he)
          subst this
          exact List.mem_append_right _ (hr2 _ ht e' he' hr')

end SpecP
open SpecP

/-- **Store-level theorem (traversal).** Over the bytes `pre ++ encodings ++ post` of a laid-out
store with denotation `den`, the traversal of the format description from an emitted address
(or the sentinel 0), with fuel above the address, returns the denotation of that address
(prefixed by the path so far) and visits exactly the emitted nodes reachable from it, each read
back as `snOf e` — content and extent of the emit. -/
theorem spec_walk_den (v : Nat) (es : Emits) (pre post : List UInt8) (den : Nat → KV)
    (hl : Laid v pre.length es) (hg : GoodStore (es.map fun e => (e.1, e.2.1)) den)
    (addr : Nat) (hin : addr = 0 ∨ ∃ e ∈ es, e.1 = addr) (fuel : Nat) (hfuel : addr < fuel)
    (pfx : List UInt8) (out : Nat) :
    ∃ nodes, Spec.walk v (pre ++ es.flatMap (·.2.2) ++ post).toArray fuel addr pfx out
        = some ((den addr).map fun kv => (pfx.reverse ++ kv.1, out + kv.2), nodes) ∧
      (∀ sn ∈ nodes, ∃ e ∈ es, sn = snOf e ∧ ReachFrom (es.map fun e => (e.1, e.2.1)) addr e.1) ∧
      (∀ e ∈ es, ReachFrom (es.map fun e => (e.1, e.2.1)) addr e.1 → snOf e ∈ nodes) :=
  walkOK_all v es pre post den hl hg addr hin fuel hfuel pfx out

/-- with empty prefix and zero output: exactly the denotation -/
theorem spec_walk_root (v : Nat) (es : Emits) (pre post : List UInt8) (den : Nat → KV)
    (hl : Laid v pre.length es) (hg : GoodStore (es.map fun e => (e.1, e.2.1)) den)
    (root : Nat) (hin : root = 0 ∨ ∃ e ∈ es, e.1 = root) (fuel : Nat) (hfuel : root < fuel) :
    ∃ nodes, Spec.walk v (pre ++ es.flatMap (·.2.2) ++ post).toArray fuel root [] 0
        = some (den root, nodes) ∧ VisitOK es root nodes := by
  obtain ⟨nodes, h1, h2⟩ := walkOK_all v es pre post den hl hg root hin fuel hfuel [] 0
  refine ⟨nodes, ?_, h2⟩
  rw [h1]
  congr 2
  conv => rhs; rw [← List.map_id (den root)]
  apply List.map_congr_left
  intro kv _
  simp

/-! ### I. the extents tile the body -/

/-- extent (first byte, last byte) of an emitted node -/
def extOf (e : Nat × BNode × List UInt8) : Nat × Nat := (e.1 + 1 - e.2.2.length, e.1)

namespace SpecP

def FstLt (p q : Nat × Nat) : Prop := p.1 < q.1

theorem ins_spec (p : Nat × Nat) : ∀ (S : List (Nat × Nat)), S.Pairwise FstLt →
    (∀ q ∈ S, q.1 = p.1 → q = p) →
    (Spec.tiles.ins p S).Pairwise FstLt ∧ ∀ x, x ∈ Spec.tiles.ins p S ↔ x = p ∨ x ∈ S
  | [], _, _ => by simp [Spec.tiles.ins]
  | q :: qs, hS, hinj => by
    rw [List.pairwise_cons] at hS
    obtain ⟨hq, hqs⟩ := hS
    unfold Spec.tiles.ins
    by_cases h1 : p.1 < q.1
    · rw [if_pos h1]
      refine ⟨?_, fun x => by simp⟩
      rw [List.pairwise_cons, List.pairwise_cons]
      refine ⟨?_, hq, hqs⟩
      intro x hx
      rcases List.mem_cons.mp hx with rfl | hx
      · exact h1
      · exact Nat.lt_trans h1 (hq x hx)
    · rw [if_neg h1]
      by_cases h2 : p = q
      · subst h2
        simp only [beq_self_eq_true, if_true]
        refine ⟨List.pairwise_cons.mpr ⟨hq, hqs⟩, fun x => by simp⟩
      · have h2' : (p == q) = false := by simpa using h2
        rw [h2']
        simp only [Bool.false_eq_true, if_false]
        obtain ⟨i1, i2⟩ := ins_spec p qs hqs (fun x hx => hinj x (List.mem_cons_of_mem _ hx))
        have hlt : q.1 < p.1 := by
          have : q.1 ≠ p.1 := fun h => h2 (hinj q List.mem_cons_self h).symm
          omega
        refine ⟨?_, ?_⟩
        · rw [List.pairwise_cons]
          refine ⟨?_, i1⟩
          intro x hx
          rcases (i2 x).mp hx with rfl | hx
          · exact hlt
          · exact hq x hx
        · intro x
          simp only [List.mem_cons, i2 x]
          constructor
          · rintro (h | h | h)
            · exact Or.inr (Or.inl h)
            · exact Or.inl h
            · exact Or.inr (Or.inr h)
          · rintro (h | h | h)
            · exact Or.inr (Or.inl h)
            · exact Or.inl h
            · exact Or.inr (Or.inr h)

theorem foldr_ins_spec : ∀ (xs : List (Nat × Nat)),
    (∀ p ∈ xs, ∀ q ∈ xs, p.1 = q.1 → p = q) →
    (xs.foldr Spec.tiles.ins []).Pairwise FstLt ∧ ∀ x, x ∈ xs.foldr Spec.tiles.ins [] ↔ x ∈ xs
  | [], _ => by simp
  | p :: xs, hinj => by
    obtain ⟨i1, i2⟩ := foldr_ins_spec xs
      (fun a ha b hb => hinj a (List.mem_cons_of_mem _ ha) b (List.mem_cons_of_mem _ hb))
    obtain ⟨j1, j2⟩ := ins_spec p _ i1
      (fun q hq h => hinj q (List.mem_cons_of_mem _ ((i2 q).mp hq)) p List.mem_cons_self h)
    rw [List.foldr_cons]
    refine ⟨j1, fun x => ?_⟩
    rw [j2 x, i2 x, List.mem_cons]

theorem fstLt_inj {L : List (Nat × Nat)} (h : L.Pairwise FstLt) :
    ∀ p ∈ L, ∀ q ∈ L, p.1 = q.1 → p = q := by
  induction L with
  | nil => intro p hp; cases hp
  | cons x xs ih =>
    rw [List.pairwise_cons] at h
    intro p hp q hq heq
    rcases List.mem_cons.mp hp with hp' | hp' <;> rcases List.mem_cons.mp hq with hq' | hq'
    · rw [hp', hq']
    · have := h.1 q hq'; unfold FstLt at this; rw [hp'] at heq; omega
    · have := h.1 p hp'; unfold FstLt at this; rw [hq'] at heq; omega
    · exact ih h.2 p hp' q hq' heq

theorem fstLt_ext : ∀ (S T : List (Nat × Nat)), S.Pairwise FstLt → T.Pairwise FstLt →
    (∀ x, x ∈ S ↔ x ∈ T) → S = T
  | [], [], _, _, _ => rfl
  | [], y :: T, _, _, h => by have := (h y).mpr List.mem_cons_self; cases this
  | x :: S, [], _, _, h => by have := (h x).mp List.mem_cons_self; cases this
  | x :: S, y :: T, hS, hT, h => by
    rw [List.pairwise_cons] at hS hT
    have hxy : x = y := by
      rcases List.mem_cons.mp ((h x).mp List.mem_cons_self) with e | hx
      · exact e
      · rcases List.mem_cons.mp ((h y).mpr List.mem_cons_self) with e | hy
        · exact e.symm
        · have h1 := hT.1 x hx
          have h2 := hS.1 y hy
          unfold FstLt at h1 h2; omega
    subst hxy
    congr 1
    apply fstLt_ext S T hS.2 hT.2
    intro z
    constructor
    · intro hz
      rcases List.mem_cons.mp ((h z).mp (List.mem_cons_of_mem _ hz)) with e | hz'
      · have := hS.1 z hz; unfold FstLt at this; rw [e] at this; omega
      · exact hz'
    · intro hz
      rcases List.mem_cons.mp ((h z).mpr (List.mem_cons_of_mem _ hz)) with e | hz'
      · have := hT.1 z hz; unfold FstLt at this; rw [e] at this; omega
      · exact hz'

theorem laid_ext_sorted (v : Nat) : ∀ (es : Emits) (start : Nat), Laid v start es →
    (es.map extOf).Pairwise FstLt
  | [], _, _ => List.Pairwise.nil
  | e0 :: rest, start, hl => by
    have hlb := laid_lb v _ _ hl
    obtain ⟨_, h2, _, h4⟩ := hl
    rw [List.map_cons, List.pairwise_cons]
    refine ⟨?_, laid_ext_sorted v rest _ h4⟩
    intro x hx
    obtain ⟨e, he, rfl⟩ := List.mem_map.mp hx
    have h0 := hlb e0 List.mem_cons_self
    have h1 := laid_lb v rest _ h4 e he
    simp only [FstLt, extOf]; omega

theorem laid_chk (v root : Nat) : ∀ (es : Emits) (start : Nat), Laid v start es →
    start + (es.flatMap (·.2.2)).length = root + 1 →
    Spec.tiles.chk root start (es.map extOf) = true
  | [], start, _, h => by
    simp only [List.flatMap_nil, List.length_nil, Nat.add_zero] at h
    simp [Spec.tiles.chk, h]
  | e0 :: rest, start, hl, h => by
    have hlb := laid_lb v _ _ hl e0 List.mem_cons_self
    obtain ⟨_, h2, _, h4⟩ := hl
    simp only [List.flatMap_cons, List.length_append] at h
    have ih := laid_chk v root rest (start + e0.2.2.length) h4 (by omega)
    rw [List.map_cons]
    simp only [Spec.tiles.chk, extOf, Bool.and_eq_true, beq_iff_eq]
    refine ⟨⟨by omega, decide_eq_true (by omega)⟩, ?_⟩
    rw [show e0.1 + 1 = start + e0.2.2.length by omega]
    exact ih

end SpecP
open SpecP

/-- **The node extents tile the body.** If every emitted node is reachable from the root, the
extents read by the format description, sorted and de-duplicated, are exactly the consecutive
extents of the emitted nodes: they start at byte 16 and end at the root's address. -/
theorem spec_tiles (v : Nat) (es : Emits) (den : Nat → KV) (hl : Laid v 16 es)
    (hg : GoodStore (es.map fun e => (e.1, e.2.1)) den) (root : Nat) (nodes : List Spec.SNode)
    (hvis : VisitOK es root nodes)
    (hreach : ∀ e ∈ es, ReachFrom (es.map fun e => (e.1, e.2.1)) root e.1)
    (hroot : root ≠ 0 → 16 + (es.flatMap (·.2.2)).length = root + 1) :
    Spec.tiles nodes root = true := by
  have hmem : ∀ x, x ∈ nodes.map (fun n => (n.first, n.last)) ↔ x ∈ es.map extOf := by
    intro x
    constructor
    · intro hx
      obtain ⟨sn, hsn, rfl⟩ := List.mem_map.mp hx
      obtain ⟨e, he, rfl, _⟩ := hvis.1 sn hsn
      exact List.mem_map.mpr ⟨e, he, rfl⟩
    · intro hx
      obtain ⟨e, he, rfl⟩ := List.mem_map.mp hx
      exact List.mem_map.mpr ⟨snOf e, hvis.2 e he (hreach e he), rfl⟩
  have hsorted := laid_ext_sorted v es 16 hl
  obtain ⟨f1, f2⟩ := foldr_ins_spec (nodes.map fun n => (n.first, n.last))
    (fun p hp q hq => fstLt_inj hsorted p ((hmem p).mp hp) q ((hmem q).mp hq))
  have heq : (nodes.map fun n => (n.first, n.last)).foldr Spec.tiles.ins [] = es.map extOf :=
    fstLt_ext _ _ f1 hsorted (fun x => by rw [f2 x, hmem x])
  unfold Spec.tiles
  simp only [heq]
  by_cases h0 : root = 0
  · rw [if_pos h0]
    subst h0
    cases es with
    | nil => rfl
    | cons e rest =>
      have := reach_zero hg (hreach e List.mem_cons_self)
      have := hg.addr_pos _ _ (mem_store (List.mem_cons_self (a := e) (l := rest)))
      omega
  · rw [if_neg h0]
    exact laid_chk v root es 16 hl (hroot h0)

/-! ### J. the whole file -/

namespace SpecP

theorem parseFst_unfold (bytes : List UInt8) (ty len root B : Nat)
    (kvs : List (List UInt8 × Nat)) (ns : List Spec.SNode)
    (h1 : Spec.le bytes.toArray 0 8 = some 3) (h2 : Spec.le bytes.toArray 8 8 = some ty)
    (hsz : bytes.length = 36 + B)
    (h3 : Spec.le bytes.toArray (16 + B) 8 = some len)
    (h4 : Spec.le bytes.toArray (24 + B) 8 = some root)
    (hc1 : root ≠ 0 → root + 1 = 16 + B) (hc2 : root = 0 → B = 0)
    (hw : Spec.walk 3 bytes.toArray (36 + B + 2) root [] 0 = some (kvs, ns)) :
    Spec.parseFst bytes = some ⟨3, ty, len, kvs, Spec.tiles ns root⟩ := by
  unfold Spec.parseFst
  simp only [h1, h2, Spec.VERSION_MAX, List.size_toArray, hsz]
  simp only [show ¬ ((3 : Nat) = 0 ∨ 3 > 3) by omega, if_false, ge_iff_le, Nat.le_refl, if_true,
    show ¬ (36 + B < 32 + 4) by omega, show 36 + B - 4 - 16 = 16 + B by omega,
    show 36 + B - 4 - 8 = 24 + B by omega, h3, h4]
  rw [if_neg (by intro h; have := hc1 h.1; omega), if_neg (by intro h; have := hc2 h.1; omega), hw]


theorem laid_total (v : Nat) : ∀ (es : Emits) (start : Nat) (e : Nat × BNode × List UInt8),
    Laid v start es → es.getLast? = some e → start + (es.flatMap (·.2.2)).length = e.1 + 1
  | [], _, _, _, h => by cases h
  | e0 :: rest, start, e, hl, h => by
    have hlb := laid_lb v _ _ hl e0 List.mem_cons_self
    obtain ⟨_, h2, _, h4⟩ := hl
    simp only [List.flatMap_cons, List.length_append]
    cases rest with
    | nil =>
      simp only [List.getLast?_singleton, Option.some.injEq] at h
      subst h
      simp only [List.flatMap_nil, List.length_nil]; omega
    | cons e1 rest' =>
      rw [List.getLast?_cons_cons] at h
      have := laid_total v (e1 :: rest') _ e h4 h
      omega

end SpecP
open SpecP

/-- **Whole file, parsed by the format description alone.** For a version-3 file whose body is a
laid-out store with denotation `den` and whose footer names `root` (0 with an empty body, or the
address of the last byte of the body), `Spec.parseFst` returns the header fields, `len`, and
exactly `den root`; if moreover every emitted node is reachable from the root, the visited node
extents tile the body. -/
theorem spec_parseFst (es : Emits) (den : Nat → KV) (hl : Laid 3 16 es)
    (hg : GoodStore (es.map fun e => (e.1, e.2.1)) den) (ty len root crc : Nat)
    (hty : ty < 2 ^ 64) (hlen : len < 2 ^ 64) (hroot : root < 2 ^ 64)
    (hin : root = 0 ∨ ∃ e ∈ es, e.1 = root)
    (hr0 : root = 0 → es = [])
    (hr1 : root ≠ 0 → 16 + (es.flatMap (·.2.2)).length = root + 1) :
    ∃ tiled, Spec.parseFst (u64le 3 ++ u64le ty ++ es.flatMap (·.2.2) ++ u64le len ++ u64le root
        ++ u32le crc) = some ⟨3, ty, len, den root, tiled⟩ ∧
      ((∀ e ∈ es, ReachFrom (es.map fun e => (e.1, e.2.1)) root e.1) → tiled = true) := by
  have e64 : (256 : Nat) ^ 8 = 2 ^ 64 := by decide
  have hpre : (u64le 3 ++ u64le ty).length = 16 := by simp [u64le, packIn_length]
  have hbytes : u64le 3 ++ u64le ty ++ es.flatMap (·.2.2) ++ u64le len ++ u64le root ++ u32le crc
      = (u64le 3 ++ u64le ty) ++ es.flatMap (·.2.2) ++ (u64le len ++ u64le root ++ u32le crc) := by
    simp only [List.append_assoc]
  have hsz : (u64le 3 ++ u64le ty ++ es.flatMap (·.2.2) ++ u64le len ++ u64le root ++ u32le crc).length
      = 36 + (es.flatMap (·.2.2)).length := by
    simp only [List.length_append, u64le, u32le, packIn_length]; omega
  obtain ⟨nodes, hw, hvis⟩ := spec_walk_root 3 es (u64le 3 ++ u64le ty)
    (u64le len ++ u64le root ++ u32le crc) den (hpre ▸ hl) hg root hin
    (36 + (es.flatMap (·.2.2)).length + 2) (by
      rcases hin with h | ⟨e, he, h⟩
      · omega
      · have := hr1 (by have := hg.addr_pos _ _ (mem_store he); omega); omega)
  rw [← hbytes] at hw
  refine ⟨Spec.tiles nodes root, ?_, fun hreach => spec_tiles 3 es den hl hg root nodes hvis hreach hr1⟩
  apply parseFst_unfold _ ty len root (es.flatMap (·.2.2)).length (den root) nodes
  · exact le_seg (x := 3) ⟨[], u64le ty ++ es.flatMap (·.2.2) ++ u64le len ++ u64le root ++ u32le crc,
      by simp [u64le], rfl⟩ (by decide)
  · exact le_seg ⟨u64le 3, es.flatMap (·.2.2) ++ u64le len ++ u64le root ++ u32le crc,
      by simp [u64le], by simp [u64le, packIn_length]⟩ (e64 ▸ hty)
  · exact hsz
  · exact le_seg ⟨u64le 3 ++ u64le ty ++ es.flatMap (·.2.2), u64le root ++ u32le crc,
      by simp [u64le], by simp [u64le, packIn_length]; omega⟩ (e64 ▸ hlen)
  · exact le_seg ⟨u64le 3 ++ u64le ty ++ es.flatMap (·.2.2) ++ u64le len, u32le crc,
      by simp [u64le], by simp [u64le, packIn_length]; omega⟩ (e64 ▸ hroot)
  · intro h; have := hr1 h; omega
  · intro h; rw [hr0 h]; rfl
  · exact hw

/-- the same with the root given as the last emitted node -/
theorem spec_parseFst_last (es : Emits) (den : Nat → KV) (hl : Laid 3 16 es)
    (hg : GoodStore (es.map fun e => (e.1, e.2.1)) den) (ty len root crc : Nat)
    (hty : ty < 2 ^ 64) (hlen : len < 2 ^ 64) (hroot : root < 2 ^ 64)
    (hlast : (root = 0 ∧ es = []) ∨ ∃ e, es.getLast? = some e ∧ e.1 = root) :
    ∃ tiled, Spec.parseFst (u64le 3 ++ u64le ty ++ es.flatMap (·.2.2) ++ u64le len ++ u64le root
        ++ u32le crc) = some ⟨3, ty, len, den root, tiled⟩ ∧
      ((∀ e ∈ es, ReachFrom (es.map fun e => (e.1, e.2.1)) root e.1) → tiled = true) := by
  rcases hlast with ⟨h0, hes⟩ | ⟨e, he, rfl⟩
  · exact spec_parseFst es den hl hg ty len root crc hty hlen hroot (Or.inl h0) (fun _ => hes)
      (fun h => absurd h0 h)
  · have hmem := List.mem_of_getLast? he
    have hpos := hg.addr_pos _ _ (mem_store hmem)
    exact spec_parseFst es den hl hg ty len e.1 crc hty hlen hroot (Or.inr ⟨e, hmem, rfl⟩)
      (fun h => by omega) (fun _ => laid_total 3 es 16 e hl he)



namespace SpecP

theorem laid_ub (v : Nat) : ∀ (es : Emits) (start : Nat), Laid v start es →
    ∀ e ∈ es, e.1 + 1 ≤ start + (es.flatMap (·.2.2)).length
  | [], _, _, e, he => by cases he
  | e0 :: rest, start, hl, e, he => by
    have hlb := laid_lb v _ _ hl e0 List.mem_cons_self
    obtain ⟨_, h2, _, h4⟩ := hl
    simp only [List.flatMap_cons, List.length_append]
    rcases List.mem_cons.mp he with rfl | hmem
    · omega
    · have := laid_ub v rest _ h4 e hmem; omega

theorem reach_le {s : Store} {den : Nat → KV} (hg : GoodStore s den) {a b : Nat}
    (h : ReachFrom s a b) : b ≤ a := by
  induction h with
  | refl => exact Nat.le_refl _
  | step hm ht _ ih => have := (hg.acyclic _ _ hm _ ht).1; omega

end SpecP
open SpecP

/-- **Whole file, all nodes reachable.** If every emitted node is reachable from `root`
(an emitted address or the sentinel 0), then `root` is necessarily the address of the last byte
of the body (or the body is empty), and the format description reads the file as exactly
`den root` with a tiled body. -/
theorem spec_parseFst_reach (es : Emits) (den : Nat → KV) (hl : Laid 3 16 es)
    (hg : GoodStore (es.map fun e => (e.1, e.2.1)) den) (ty len root crc : Nat)
    (hty : ty < 2 ^ 64) (hlen : len < 2 ^ 64) (hroot : root < 2 ^ 64)
    (hin : root = 0 ∨ ∃ e ∈ es, e.1 = root)
    (hreach : ∀ e ∈ es, ReachFrom (es.map fun e => (e.1, e.2.1)) root e.1) :
    Spec.parseFst (u64le 3 ++ u64le ty ++ es.flatMap (·.2.2) ++ u64le len ++ u64le root
        ++ u32le crc) = some ⟨3, ty, len, den root, true⟩ := by
  have hr0 : root = 0 → es = [] := by
    intro h0
    subst h0
    cases es with
    | nil => rfl
    | cons e rest =>
      have := reach_zero hg (hreach e List.mem_cons_self)
      have := hg.addr_pos _ _ (mem_store (List.mem_cons_self (a := e) (l := rest)))
      omega
  have hr1 : root ≠ 0 → 16 + (es.flatMap (·.2.2)).length = root + 1 := by
    intro h0
    rcases hin with h | ⟨e, he, rfl⟩
    · exact absurd h h0
    · cases hlast : es.getLast? with
      | none => rw [List.getLast?_eq_none_iff.mp hlast] at he; cases he
      | some e' =>
        have h1 := laid_total 3 es 16 e' hl hlast
        have h2 := reach_le hg (hreach e' (List.mem_of_getLast? hlast))
        have h3 := laid_ub 3 es 16 hl e he
        omega
  obtain ⟨tiled, h1, h2⟩ := spec_parseFst es den hl hg ty len root crc hty hlen hroot hin hr0 hr1
  rw [h2 hreach] at h1
  exact h1


namespace SpecExample

/-! examples: a two-node store (`{"a" ↦ 5}`): a final leaf with output 5 at bytes 16..19 and the
root, a `StateOneTransNext` node on `a` at byte 20 -/

def exEmits : Emits := [(19, ⟨true, 5, []⟩, [5, 1, 0, 64]), (20, ⟨false, 0, [⟨97, 0, 19⟩]⟩, [197])]

def exDen (a : Nat) : KV :=
  if a = 0 then [([], 0)] else if a = 19 then [([], 5)] else if a = 20 then [([97], 5)] else []

theorem exEmits_laid : Laid 3 16 exEmits := by
  refine ⟨⟨NONE_ADDRESS, ⟨by decide, by unfold SortedInputs; decide, by decide, by decide, by decide,
    by decide, by decide, Or.inr (by decide), by decide⟩, by decide +kernel⟩, by decide, Or.inl (by decide),
    ⟨19, ⟨by decide, by unfold SortedInputs; decide, by decide, by decide, by decide,
    by decide, by decide, Or.inl rfl, by decide⟩, by decide +kernel⟩, by decide, Or.inl (by decide), trivial⟩

theorem exEmits_good : GoodStore (exEmits.map fun e => (e.1, e.2.1)) exDen := by
  have hm : ∀ a n, (a, n) ∈ (exEmits.map fun e => (e.1, e.2.1)) →
      (a = 19 ∧ n = ⟨true, 5, []⟩) ∨ (a = 20 ∧ n = ⟨false, 0, [⟨97, 0, 19⟩]⟩) := by
    intro a n h
    simpa [exEmits] using h
  refine ⟨rfl, ?_, ?_, ?_, ?_, ?_⟩
  · intro a n h
    rcases hm a n h with ⟨rfl, rfl⟩ | ⟨rfl, rfl⟩ <;> decide
  · intro a n h
    rcases hm a n h with ⟨rfl, rfl⟩ | ⟨rfl, rfl⟩ <;> decide
  · intro a n m h1 h2
    rcases hm a n h1 with ⟨rfl, rfl⟩ | ⟨rfl, rfl⟩ <;> rcases hm _ m h2 with ⟨h, rfl⟩ | ⟨h, rfl⟩ <;>
      first | rfl | omega
  · intro a n h t ht
    rcases hm a n h with ⟨rfl, rfl⟩ | ⟨rfl, rfl⟩
    · cases ht
    · have : t = ⟨97, 0, 19⟩ := by simpa using ht
      subst this
      exact ⟨by decide, Or.inr ⟨⟨true, 5, []⟩, by simp [exEmits]⟩⟩
  · intro a n h
    rcases hm a n h with ⟨rfl, rfl⟩ | ⟨rfl, rfl⟩ <;> (unfold SortedInputs; decide)

theorem exEmits_reach : ∀ e ∈ exEmits, ReachFrom (exEmits.map fun e => (e.1, e.2.1)) 20 e.1 := by
  intro e he
  have : e = (19, ⟨true, 5, []⟩, [5, 1, 0, 64]) ∨ e = (20, ⟨false, 0, [⟨97, 0, 19⟩]⟩, [197]) := by
    simpa [exEmits] using he
  rcases this with rfl | rfl
  · exact ReachFrom.step (n := ⟨false, 0, [⟨97, 0, 19⟩]⟩) (t := ⟨97, 0, 19⟩) (by simp [exEmits])
      (by simp) (ReachFrom.refl _)
  · exact ReachFrom.refl _

/-- `spec_walk_den` and `spec_tiles`: hypotheses satisfiable (root 20) -/
example : ∃ nodes, Spec.walk 3 ((List.replicate 16 (0 : UInt8)) ++ exEmits.flatMap (fun e : Nat × BNode × List UInt8 => e.2.2) ++ [1, 2, 3]).toArray
      21 20 [] 0 = some (exDen 20, nodes) ∧ Spec.tiles nodes 20 = true := by
  obtain ⟨nodes, h1, h2⟩ := spec_walk_root 3 exEmits (List.replicate 16 0) [1, 2, 3] exDen
    exEmits_laid exEmits_good 20 (Or.inr ⟨(20, ⟨false, 0, [⟨97, 0, 19⟩]⟩, [197]), by simp [exEmits], rfl⟩) 21 (by decide)
  exact ⟨nodes, h1, spec_tiles 3 exEmits exDen exEmits_laid exEmits_good 20 nodes h2 exEmits_reach
    (fun _ => by decide)⟩

/-- `spec_parseFst` on a complete file: type 7, one key, root 20, some checksum -/
example : Spec.parseFst (u64le 3 ++ u64le 7 ++ [5, 1, 0, 64, 197] ++ u64le 1 ++ u64le 20 ++ u32le 12345)
    = some ⟨3, 7, 1, [([97], 5)], true⟩ := by
  exact spec_parseFst_reach exEmits exDen exEmits_laid exEmits_good 7 1 20 12345
    (by decide) (by decide) (by decide) (Or.inr ⟨(20, ⟨false, 0, [⟨97, 0, 19⟩]⟩, [197]), by simp [exEmits], rfl⟩)
    exEmits_reach

/-- `spec_parseFst_last`: without the reachability hypothesis the map is still `den root` -/
example : ∃ tiled, Spec.parseFst (u64le 3 ++ u64le 7 ++ [5, 1, 0, 64, 197] ++ u64le 1 ++ u64le 20
    ++ u32le 12345) = some ⟨3, 7, 1, [([97], 5)], tiled⟩ := by
  obtain ⟨tiled, h1, _⟩ := spec_parseFst_last exEmits exDen exEmits_laid exEmits_good 7 1 20 12345
    (by decide) (by decide) (by decide) (Or.inr ⟨_, rfl, rfl⟩)
  exact ⟨tiled, h1⟩


end SpecExample

end Fst
