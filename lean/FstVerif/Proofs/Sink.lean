import FstVerif.Model.Sink
/-
C07 (the byte counter equals what the sink accepted; over a benign sink the bytes
are those of the in-memory build) and C11 (faults surface, success implies a clean
script) for the scripted `io::Write`, std's `write_all` and `CountingWriter`
(`src/raw/counting_writer.rs`) of `Model/Sink.lean`.

The chunking law of the checksum, `ChunkLaw`, is a hypothesis here; it is proved in
Proofs/Crc.lean.

Vocabulary: `Ran c c' used written` — going from writer state `c` to `c'` consumed
the script prefix `used` and the sink accepted exactly `written`;
`Ended buf used written r` — how a `write_all` of `buf` ended.
-/
namespace Fst
namespace SinkProofs

def Benign (script : List Resp) : Prop :=
  ∀ r ∈ script, (∃ n, r = .take n ∧ 1 ≤ n) ∨ r = .interrupted
def Bad (r : Resp) : Prop := r = .take 0 ∨ ∃ k, r = .fail k
def errOf : Resp → IoErr
  | .take _ => .writeZero
  | .fail k => .other (k+1)
  | .interrupted => .other 0
def ChunkLaw : Prop :=
  ∀ (s : Summer) (a b : List UInt8), (s.update a).update b = s.update (a ++ b)

variable {W : Type} (write : W → List UInt8 → W × Except IoErr Nat)

theorem waw_nil (fuel : Nat) (w : W) : writeAllWith write fuel w [] = some (w, .ok ()) := by
  cases fuel <;> rfl

theorem waw_zero (fuel : Nat) (w w' : W) (buf : List UInt8) (hb : buf ≠ [])
    (h : write w buf = (w', .ok 0)) :
    writeAllWith write (fuel+1) w buf = some (w', .error .writeZero) := by
  cases buf with
  | nil => contradiction
  | cons b bs => simp [writeAllWith, h]

theorem waw_succ (fuel : Nat) (w w' : W) (buf : List UInt8) (hb : buf ≠ []) (n : Nat)
    (h : write w buf = (w', .ok (n+1))) :
    writeAllWith write (fuel+1) w buf = writeAllWith write fuel w' (buf.drop (n+1)) := by
  cases buf with
  | nil => contradiction
  | cons b bs => simp [writeAllWith, h]

theorem waw_intr (fuel : Nat) (w w' : W) (buf : List UInt8) (hb : buf ≠ [])
    (h : write w buf = (w', .error (.other 0))) :
    writeAllWith write (fuel+1) w buf = writeAllWith write fuel w' buf := by
  cases buf with
  | nil => contradiction
  | cons b bs => simp [writeAllWith, h]

theorem waw_err (fuel : Nat) (w w' : W) (buf : List UInt8) (hb : buf ≠ []) (e : IoErr)
    (he : e ≠ .other 0) (h : write w buf = (w', .error e)) :
    writeAllWith write (fuel+1) w buf = some (w', .error e) := by
  cases buf with
  | nil => contradiction
  | cons b bs =>
    cases e with
    | writeZero => simp [writeAllWith, h]
    | other k =>
      cases k with
      | zero => contradiction
      | succ k => simp [writeAllWith, h]

theorem waw_fuel0 (w : W) (buf : List UInt8) (hb : buf ≠ []) :
    writeAllWith write 0 w buf = none := by
  cases buf with
  | nil => contradiction
  | cons b bs => rfl

theorem CW.write_nil (c : CW) (buf : List UInt8) (h : c.sink.script = []) :
    c.write buf =
      (⟨{ c.sink with held := c.sink.held ++ buf.toArray, calls := c.sink.calls + 1 },
        c.cnt + buf.length, c.summer.update (buf.take buf.length)⟩, .ok buf.length) := by
  simp [CW.write, Sink.write, h]

theorem CW.write_take (c : CW) (buf : List UInt8) (n : Nat) (rest : List Resp)
    (h : c.sink.script = .take n :: rest) :
    c.write buf =
      (⟨{ c.sink with script := rest, calls := c.sink.calls + 1,
                      held := c.sink.held ++ (buf.take (min n buf.length)).toArray },
        c.cnt + min n buf.length, c.summer.update (buf.take (min n buf.length))⟩,
       .ok (min n buf.length)) := by
  simp [CW.write, Sink.write, h]

theorem CW.write_intr (c : CW) (buf : List UInt8) (rest : List Resp)
    (h : c.sink.script = .interrupted :: rest) :
    c.write buf =
      ({ c with sink := { c.sink with script := rest, calls := c.sink.calls + 1 } },
       .error (.other 0)) := by
  simp [CW.write, Sink.write, h]

theorem CW.write_fail (c : CW) (buf : List UInt8) (k : Nat) (rest : List Resp)
    (h : c.sink.script = .fail k :: rest) :
    c.write buf =
      ({ c with sink := { c.sink with script := rest, calls := c.sink.calls + 1 } },
       .error (.other (k+1))) := by
  simp [CW.write, Sink.write, h]

theorem Summer.update_nil (s : Summer) : s.update [] = s := by
  cases s with | mk sum => simp [Summer.update, crc32cSlice16, crcLoop]

structure Ran (c c' : CW) (used : List Resp) (written : List UInt8) : Prop where
  held : c'.sink.held = c.sink.held ++ written.toArray
  cnt : c'.cnt = c.cnt + written.length
  summer : ChunkLaw → c'.summer = c.summer.update written
  flush : c'.sink.flushFails = c.sink.flushFails
  script : c.sink.script = used ++ c'.sink.script

theorem Ran.refl (c : CW) : Ran c c [] [] :=
  ⟨by simp, by simp, fun _ => (Summer.update_nil _).symm, rfl, by simp⟩

theorem Ran.trans {c c1 c2 : CW} {u1 u2 : List Resp} {w1 w2 : List UInt8}
    (h1 : Ran c c1 u1 w1) (h2 : Ran c1 c2 u2 w2) : Ran c c2 (u1 ++ u2) (w1 ++ w2) where
  held := by rw [h2.held, h1.held]; simp [Array.append_assoc]
  cnt := by rw [h2.cnt, h1.cnt]; simp; omega
  summer := fun hc => by rw [h2.summer hc, h1.summer hc, hc]
  flush := by rw [h2.flush, h1.flush]
  script := by rw [h1.script, h2.script]; simp

/-- how a `write_all` (or a sequence of them) over `buf` ended -/
def Ended (buf : List UInt8) (used : List Resp) (written : List UInt8) :
    Except IoErr Unit → Prop
  | .ok () => Benign used ∧ written = buf
  | .error e => ∃ good bad, used = good ++ [bad] ∧ Benign good ∧ Bad bad ∧ e = errOf bad ∧
      written <+: buf

theorem Benign.nil : Benign [] := by intro r h; cases h
theorem Benign.append {a b : List Resp} (ha : Benign a) (hb : Benign b) : Benign (a ++ b) := by
  intro r h
  rcases List.mem_append.mp h with h | h
  · exact ha r h
  · exact hb r h
theorem Benign.of_append_right {a b : List Resp} (h : Benign (a ++ b)) : Benign b :=
  fun r hr => h r (List.mem_append_right a hr)
theorem Benign.of_append_left {a b : List Resp} (h : Benign (a ++ b)) : Benign a :=
  fun r hr => h r (List.mem_append_left b hr)
theorem Benign.not_bad {a : List Resp} (h : Benign a) {r : Resp} (hr : r ∈ a) : ¬ Bad r := by
  intro hb
  rcases h r hr with ⟨n, rfl, hn⟩ | rfl
  · rcases hb with hb | ⟨k, hb⟩
    · cases hb; omega
    · cases hb
  · rcases hb with hb | ⟨k, hb⟩ <;> cases hb

theorem Ended.prepend {buf2 : List UInt8} {used : List Resp} {written : List UInt8}
    {r : Except IoErr Unit} (u1 : List Resp) (w1 : List UInt8) (hu : Benign u1)
    (h : Ended buf2 used written r) : Ended (w1 ++ buf2) (u1 ++ used) (w1 ++ written) r := by
  match r, h with
  | .ok (), ⟨hb, hw⟩ => exact ⟨hu.append hb, by rw [hw]⟩
  | .error e, ⟨good, bad, hused, hg, hbad, he, hpre⟩ =>
    exact ⟨u1 ++ good, bad, by rw [hused, List.append_assoc], hu.append hg, hbad, he,
      (List.prefix_append_right_inj w1).mpr hpre⟩

theorem waw_ran : ∀ (fuel : Nat) (c : CW) (buf : List UInt8) (c' : CW) (r : Except IoErr Unit),
    writeAllWith CW.write fuel c buf = some (c', r) →
    ∃ used written, Ran c c' used written ∧ Ended buf used written r := by
  intro fuel
  induction fuel with
  | zero =>
    intro c buf c' r h
    by_cases hb : buf = []
    · subst hb; rw [waw_nil] at h; cases h
      exact ⟨[], [], Ran.refl c, Benign.nil, rfl⟩
    · rw [waw_fuel0 _ _ _ hb] at h; cases h
  | succ fuel ih =>
    intro c buf c' r h
    by_cases hb : buf = []
    · subst hb; rw [waw_nil] at h; cases h
      exact ⟨[], [], Ran.refl c, Benign.nil, rfl⟩
    have hlen : 0 < buf.length := List.length_pos_iff.mpr hb
    cases hs : c.sink.script with
    | nil =>
      have hw := CW.write_nil c buf hs
      obtain ⟨n, hn⟩ : ∃ n, buf.length = n + 1 := ⟨buf.length - 1, by omega⟩
      rw [hn] at hw
      rw [waw_succ _ _ _ _ _ hb n hw] at h
      obtain ⟨used, written, hran, hend⟩ := ih _ _ _ _ h
      have ht : buf.take (n+1) = buf := List.take_of_length_le (by omega)
      refine ⟨[] ++ used, buf.take (n+1) ++ written, Ran.trans ?_ hran, ?_⟩
      · exact ⟨by simp [ht], by simp; omega, fun _ => rfl, rfl, by simp [hs]⟩
      · have := hend.prepend [] (buf.take (n+1)) Benign.nil
        rwa [List.take_append_drop] at this
    | cons r0 rest =>
      cases r0 with
      | take m =>
        have hw := CW.write_take c buf m rest hs
        cases hk : min m buf.length with
        | zero =>
          have hm : m = 0 := by omega
          rw [hk] at hw
          rw [waw_zero _ _ _ _ _ hb hw] at h
          cases h
          refine ⟨[.take m], [], ⟨by simp, by simp, fun _ => by simp [Summer.update_nil], rfl,
            by simp [hs]⟩, [], .take m, rfl, Benign.nil, .inl (by rw [hm]), rfl,
            List.nil_prefix⟩
        | succ k =>
          rw [hk] at hw
          rw [waw_succ _ _ _ _ _ hb k hw] at h
          obtain ⟨used, written, hran, hend⟩ := ih _ _ _ _ h
          have hben : Benign [.take m] := by
            intro r hr; simp at hr; subst hr; exact .inl ⟨m, rfl, by omega⟩
          refine ⟨[.take m] ++ used, buf.take (k+1) ++ written, Ran.trans ?_ hran, ?_⟩
          · exact ⟨rfl, by simp; omega, fun _ => rfl, rfl, by simp [hs]⟩
          · have := hend.prepend [.take m] (buf.take (k+1)) hben
            rwa [List.take_append_drop] at this
      | interrupted =>
        have hw := CW.write_intr c buf rest hs
        rw [waw_intr _ _ _ _ _ hb hw] at h
        obtain ⟨used, written, hran, hend⟩ := ih _ _ _ _ h
        have hben : Benign [.interrupted] := by
          intro r hr; simp at hr; subst hr; exact .inr rfl
        refine ⟨[.interrupted] ++ used, [] ++ written, Ran.trans ?_ hran, ?_⟩
        · exact ⟨by simp, by simp, fun _ => by simp [Summer.update_nil], rfl, by simp [hs]⟩
        · exact hend.prepend [.interrupted] [] hben
      | fail k =>
        have hw := CW.write_fail c buf k rest hs
        rw [waw_err _ _ _ _ _ hb _ (by simp) hw] at h
        cases h
        exact ⟨[.fail k], [], ⟨by simp, by simp, fun _ => by simp [Summer.update_nil], rfl,
          by simp [hs]⟩, [], .fail k, rfl, Benign.nil, .inr ⟨k, rfl⟩, rfl, List.nil_prefix⟩


/-! ### (a) the fuel of `write_all` suffices -/

theorem waw_fuel : ∀ (fuel : Nat) (c : CW) (buf : List UInt8),
    c.sink.script.length + buf.length ≤ fuel →
    (writeAllWith CW.write fuel c buf).isSome := by
  intro fuel
  induction fuel with
  | zero =>
    intro c buf h
    have : buf = [] := List.length_eq_zero_iff.mp (by omega)
    subst this; rfl
  | succ fuel ih =>
    intro c buf h
    by_cases hb : buf = []
    · subst hb; rw [waw_nil]; rfl
    have hlen : 0 < buf.length := List.length_pos_iff.mpr hb
    cases hs : c.sink.script with
    | nil =>
      have hw := CW.write_nil c buf hs
      obtain ⟨n, hn⟩ : ∃ n, buf.length = n + 1 := ⟨buf.length - 1, by omega⟩
      rw [hn] at hw
      rw [waw_succ _ _ _ _ _ hb n hw]
      apply ih; simp [hs]; omega
    | cons r0 rest =>
      rw [hs] at h; simp at h
      cases r0 with
      | take m =>
        have hw := CW.write_take c buf m rest hs
        cases hk : min m buf.length with
        | zero => rw [hk] at hw; rw [waw_zero _ _ _ _ _ hb hw]; rfl
        | succ k =>
          rw [hk] at hw; rw [waw_succ _ _ _ _ _ hb k hw]
          apply ih; simp; omega
      | interrupted =>
        have hw := CW.write_intr c buf rest hs
        rw [waw_intr _ _ _ _ _ hb hw]
        apply ih; simp; omega
      | fail k =>
        have hw := CW.write_fail c buf k rest hs
        rw [waw_err _ _ _ _ _ hb _ (by simp) hw]; rfl

/-- (a) `CW.writeAll` never takes its fuel-exhausted branch. -/
theorem writeAll_fuel (c : CW) (buf : List UInt8) :
    writeAllWith CW.write (fuelFor c.sink buf) c buf = some (c.writeAll buf) := by
  have h := waw_fuel (fuelFor c.sink buf) c buf (by simp [fuelFor])
  unfold CW.writeAll
  cases hr : writeAllWith CW.write (fuelFor c.sink buf) c buf with
  | none => rw [hr] at h; cases h
  | some r => rfl

/-! ### the sink under a `CountingWriter` behaves like the bare sink -/

theorem waw_proj : ∀ (fuel : Nat) (c : CW) (buf : List UInt8),
    (writeAllWith CW.write fuel c buf).map (fun p => (p.1.sink, p.2)) =
      writeAllWith Sink.write fuel c.sink buf := by
  intro fuel
  induction fuel with
  | zero =>
    intro c buf
    cases buf <;> rfl
  | succ fuel ih =>
    intro c buf
    cases buf with
    | nil => rfl
    | cons b bs =>
      have hb : b :: bs ≠ [] := by simp
      cases hw : c.sink.write (b :: bs) with
      | mk s' r =>
        cases r with
        | ok n =>
          have hcw : c.write (b :: bs) = (⟨s', c.cnt + n, c.summer.update ((b :: bs).take n)⟩, .ok n) := by
            simp [CW.write, hw]
          cases n with
          | zero => rw [waw_zero _ _ _ _ _ hb hcw, waw_zero _ _ _ _ _ hb hw]; rfl
          | succ n => rw [waw_succ _ _ _ _ _ hb n hcw, waw_succ _ _ _ _ _ hb n hw, ih]
        | error e =>
          have hcw : c.write (b :: bs) = ({ c with sink := s' }, .error e) := by
            simp [CW.write, hw]
          by_cases he : e = .other 0
          · subst he
            rw [waw_intr _ _ _ _ _ hb hcw, waw_intr _ _ _ _ _ hb hw, ih]
          · rw [waw_err _ _ _ _ _ hb _ he hcw, waw_err _ _ _ _ _ hb _ he hw]; rfl

theorem Sink.writeAll_eq (s : Sink) (buf : List UInt8) (cnt : Nat) (sm : Summer) :
    s.writeAll buf = (((⟨s, cnt, sm⟩ : CW).writeAll buf).1.sink, ((⟨s, cnt, sm⟩ : CW).writeAll buf).2) := by
  have h1 := writeAll_fuel ⟨s, cnt, sm⟩ buf
  have h2 := waw_proj (fuelFor s buf) ⟨s, cnt, sm⟩ buf
  simp only [h1, Option.map_some] at h2
  unfold Sink.writeAll
  rw [← h2]

/-- the emitted-node list only grows (at the front) -/
def OutExt (s s' : BState) : Prop := ∃ added, s'.out = added ++ s.out

theorem OutExt.refl (s : BState) : OutExt s s := ⟨[], rfl⟩
theorem OutExt.of_eq {s s' : BState} (h : s'.out = s.out) : OutExt s s' := ⟨[], by simp [h]⟩
theorem OutExt.trans {a b c : BState} (h1 : OutExt a b) (h2 : OutExt b c) : OutExt a c := by
  obtain ⟨x, hx⟩ := h1; obtain ⟨y, hy⟩ := h2
  exact ⟨y ++ x, by rw [hy, hx, List.append_assoc]⟩

theorem compile_ext (s : BState) (n : BNode) (s' : BState) (a : Nat)
    (h : s.compile n = .ok (s', a)) : OutExt s s' := by
  unfold BState.compile at h
  split at h
  · cases h; exact OutExt.refl _
  · simp only at h
    split at h
    · cases h; exact OutExt.of_eq rfl
    · split at h
      · cases h
      · cases h; exact ⟨[_], rfl⟩

theorem compileTail_ext (s : BState) (us : List UNode) (s' : BState) (a : Nat)
    (h : s.compileTail us = .ok (s', a)) : OutExt s s' := by
  induction us generalizing s' a with
  | nil => simp [BState.compileTail] at h; cases h.1; exact OutExt.refl _
  | cons u rest ih =>
    simp only [BState.compileTail] at h
    split at h
    · cases h
    · rename_i s1 a1 h1
      split at h
      · cases h
      · exact (ih _ _ h1).trans (compile_ext _ _ _ _ h)

theorem compileFrom_ext (s : BState) (i : Nat) (s' : BState)
    (h : s.compileFrom i = .ok s') : OutExt s s' := by
  simp only [BState.compileFrom] at h
  split at h
  · cases h
  · rename_i s1 a1 h1
    split at h
    · cases h
    · cases h; exact (compileTail_ext _ _ _ _ h1).trans (OutExt.of_eq rfl)

theorem checkLastKey_out (s : BState) (k : Key) (d : Bool) (s' : BState)
    (h : s.checkLastKey k d = .ok s') : s'.out = s.out := by
  unfold BState.checkLastKey at h
  split at h
  · split at h
    · cases h
    · split at h
      · cases h
      · cases h; rfl
  · cases h; rfl

theorem insertOutput_ext (s : BState) (k : Key) (o : Option Nat) (s' : BState)
    (h : s.insertOutput k o = .ok s') : OutExt s s' := by
  unfold BState.insertOutput at h
  split at h
  · cases h; exact OutExt.of_eq rfl
  · simp only at h
    split at h
    · split at h
      · cases h
      · cases h; exact OutExt.of_eq rfl
    · split at h
      · cases h
      · rename_i s1 h1
        cases h
        exact (OutExt.trans (OutExt.of_eq rfl) (compileFrom_ext _ _ _ h1)).trans (OutExt.of_eq rfl)

theorem add_ext (s : BState) (k : Key) (s' : BState) (h : s.add k = .ok s') : OutExt s s' := by
  unfold BState.add at h
  split at h
  · cases h
  · rename_i s1 h1
    exact (OutExt.of_eq (checkLastKey_out _ _ _ _ h1)).trans (insertOutput_ext _ _ _ _ h)

theorem insert_ext (s : BState) (k : Key) (v : Nat) (s' : BState) (h : s.insert k v = .ok s') :
    OutExt s s' := by
  unfold BState.insert at h
  split at h
  · cases h
  · rename_i s1 h1
    exact (OutExt.of_eq (checkLastKey_out _ _ _ _ h1)).trans (insertOutput_ext _ _ _ _ h)

theorem finish_ext (s : BState) (s' : BState) (root : Nat) (h : s.finish = .ok (s', root)) :
    OutExt s s' := by
  unfold BState.finish at h
  split at h
  · cases h
  · rename_i s1 h1
    split at h
    · split at h
      · cases h
      · exact (compileFrom_ext _ _ _ h1).trans (compile_ext _ _ _ _ h)
    · cases h


/-! ### `writeAll`, `write`, `writeChunks` in terms of `Ran` / `Ended` -/

theorem CW.writeAll_ran (c : CW) (buf : List UInt8) :
    ∃ used written, Ran c (c.writeAll buf).1 used written ∧
      Ended buf used written (c.writeAll buf).2 :=
  waw_ran _ _ _ _ _ (writeAll_fuel c buf)

theorem CW.write_ran (c : CW) (buf : List UInt8) :
    ∃ used written, Ran c (c.write buf).1 used written ∧ used.length ≤ 1 ∧ written <+: buf := by
  cases hs : c.sink.script with
  | nil =>
    rw [CW.write_nil c buf hs]
    exact ⟨[], buf, ⟨rfl, rfl, fun _ => by simp, rfl, by simp [hs]⟩, by simp, List.prefix_refl _⟩
  | cons r0 rest =>
    cases r0 with
    | take m =>
      rw [CW.write_take c buf m rest hs]
      exact ⟨[.take m], buf.take (min m buf.length),
        ⟨rfl, by simp, fun _ => rfl, rfl, by simp [hs]⟩, by simp, List.take_prefix _ _⟩
    | interrupted =>
      rw [CW.write_intr c buf rest hs]
      exact ⟨[.interrupted], [], ⟨by simp, by simp, fun _ => by simp [Summer.update_nil], rfl,
        by simp [hs]⟩, by simp, List.nil_prefix⟩
    | fail k =>
      rw [CW.write_fail c buf k rest hs]
      exact ⟨[.fail k], [], ⟨by simp, by simp, fun _ => by simp [Summer.update_nil], rfl,
        by simp [hs]⟩, by simp, List.nil_prefix⟩

theorem Ended.error_extend {buf : List UInt8} {used : List Resp} {written : List UInt8}
    {e : IoErr} (more : List UInt8) (h : Ended buf used written (.error e)) :
    Ended (buf ++ more) used written (.error e) := by
  obtain ⟨good, bad, h1, h2, h3, h4, h5⟩ := h
  exact ⟨good, bad, h1, h2, h3, h4, h5.trans (List.prefix_append _ _)⟩

theorem CW.writeChunks_ran (c : CW) (chunks : List (List UInt8)) :
    ∃ used written, Ran c (c.writeChunks chunks).1 used written ∧
      Ended chunks.flatten used written (c.writeChunks chunks).2 := by
  induction chunks generalizing c with
  | nil => exact ⟨[], [], Ran.refl c, Benign.nil, rfl⟩
  | cons b bs ih =>
    obtain ⟨u1, w1, hran1, hend1⟩ := CW.writeAll_ran c b
    cases hres : c.writeAll b with
    | mk c1 r1 =>
      rw [hres] at hran1 hend1
      cases r1 with
      | error e =>
        have : c.writeChunks (b :: bs) = (c1, .error e) := by simp [CW.writeChunks, hres]
        rw [this]
        exact ⟨u1, w1, hran1, by simpa using hend1.error_extend bs.flatten⟩
      | ok u =>
        cases u
        have : c.writeChunks (b :: bs) = c1.writeChunks bs := by simp [CW.writeChunks, hres]
        rw [this]
        obtain ⟨u2, w2, hran2, hend2⟩ := ih c1
        obtain ⟨hben1, hw1⟩ := hend1
        subst hw1
        exact ⟨u1 ++ u2, w1 ++ w2, hran1.trans hran2, by simpa using hend2.prepend u1 w1 hben1⟩

/-- a run over a benign script ends well and leaves a benign script -/
theorem ended_of_benign {c c' : CW} {buf : List UInt8} {used : List Resp} {written : List UInt8}
    {r : Except IoErr Unit} (hran : Ran c c' used written) (hend : Ended buf used written r)
    (hb : Benign c.sink.script) : r = .ok () ∧ written = buf ∧ Benign c'.sink.script := by
  have hs := hran.script
  rw [hs] at hb
  match r, hend with
  | .ok (), ⟨_, hw⟩ => exact ⟨rfl, hw, hb.of_append_right⟩
  | .error e, ⟨good, bad, hu, _, hbad, _, _⟩ =>
    exact absurd hbad (hb.of_append_left.not_bad (by rw [hu]; simp))

/-- the consumed part of the script is determined by the scripts before and after -/
theorem Ran.used_unique {c c' : CW} {used used' : List Resp} {written : List UInt8}
    (hran : Ran c c' used written) (h : c.sink.script = used' ++ c'.sink.script) :
    used' = used := by
  have := hran.script
  rw [h] at this
  exact List.append_cancel_right this

/-! ### (b) benign sinks -/

theorem writeAll_benign (hchunk : ChunkLaw) (c : CW) (buf : List UInt8)
    (hb : Benign c.sink.script) :
    ∃ c', c.writeAll buf = (c', .ok ()) ∧ c'.sink.held = c.sink.held ++ buf.toArray ∧
      c'.cnt = c.cnt + buf.length ∧ c'.summer = c.summer.update buf ∧
      Benign c'.sink.script ∧ c'.sink.flushFails = c.sink.flushFails := by
  obtain ⟨used, written, hran, hend⟩ := CW.writeAll_ran c buf
  obtain ⟨hr, hw, hb'⟩ := ended_of_benign hran hend hb
  rw [hw] at hran
  exact ⟨(c.writeAll buf).1, by rw [← hr], hran.held, hran.cnt, hran.summer hchunk, hb', hran.flush⟩

theorem writeChunks_benign (hchunk : ChunkLaw) (c : CW) (chunks : List (List UInt8))
    (hb : Benign c.sink.script) :
    ∃ c', c.writeChunks chunks = (c', .ok ()) ∧
      c'.sink.held = c.sink.held ++ chunks.flatten.toArray ∧
      c'.cnt = c.cnt + chunks.flatten.length ∧ c'.summer = c.summer.update chunks.flatten ∧
      Benign c'.sink.script ∧ c'.sink.flushFails = c.sink.flushFails := by
  obtain ⟨used, written, hran, hend⟩ := CW.writeChunks_ran c chunks
  obtain ⟨hr, hw, hb'⟩ := ended_of_benign hran hend hb
  rw [hw] at hran
  exact ⟨(c.writeChunks chunks).1, by rw [← hr], hran.held, hran.cnt, hran.summer hchunk, hb',
    hran.flush⟩

theorem Sink.writeAll_benign (s : Sink) (buf : List UInt8) (hb : Benign s.script) :
    ∃ s', s.writeAll buf = (s', .ok ()) ∧ s'.held = s.held ++ buf.toArray ∧
      Benign s'.script ∧ s'.flushFails = s.flushFails := by
  obtain ⟨used, written, hran, hend⟩ := CW.writeAll_ran ⟨s, 0, {}⟩ buf
  obtain ⟨hr, hw, hb'⟩ := ended_of_benign hran hend hb
  rw [hw] at hran
  refine ⟨((⟨s, 0, {}⟩ : CW).writeAll buf).1.sink, ?_, hran.held, hb', hran.flush⟩
  rw [Sink.writeAll_eq s buf 0 {}, hr]

/-! ### (c) C07: the count is what the sink accepted -/

theorem Ran.count {c c' : CW} {used : List Resp} {written : List UInt8}
    (h : Ran c c' used written) :
    c'.cnt - c.cnt = c'.sink.held.size - c.sink.held.size ∧ c.cnt ≤ c'.cnt ∧
      c.sink.held.size ≤ c'.sink.held.size := by
  have h1 := h.cnt; have h2 := congrArg Array.size h.held
  simp at h2; omega

theorem C07_count_write (c : CW) (buf : List UInt8) :
    (c.write buf).1.cnt - c.cnt = (c.write buf).1.sink.held.size - c.sink.held.size := by
  obtain ⟨_, _, h, _⟩ := CW.write_ran c buf; exact h.count.1

theorem C07_count_writeAll (c : CW) (buf : List UInt8) :
    (c.writeAll buf).1.cnt - c.cnt = (c.writeAll buf).1.sink.held.size - c.sink.held.size := by
  obtain ⟨_, _, h, _⟩ := CW.writeAll_ran c buf; exact h.count.1

theorem C07_count (c : CW) (chunks : List (List UInt8)) :
    (c.writeChunks chunks).1.cnt - c.cnt =
      (c.writeChunks chunks).1.sink.held.size - c.sink.held.size := by
  obtain ⟨_, _, h, _⟩ := CW.writeChunks_ran c chunks; exact h.count.1

/-- the counter never runs ahead of or behind the sink: invariant form -/
def CountInv (prefill : Nat) (c : CW) : Prop := c.cnt + prefill = c.sink.held.size

theorem CountInv.ran {p : Nat} {c c' : CW} {used : List Resp} {written : List UInt8}
    (hi : CountInv p c) (h : Ran c c' used written) : CountInv p c' := by
  have := h.count; unfold CountInv at *; omega

theorem CountInv.new (s : Sink) : CountInv s.held.size (CW.new s) := by simp [CountInv, CW.new]

/-- `IOB.new`: whatever the script, the counter of the returned writer equals the number
of bytes the sink accepted beyond its prefill. -/
theorem C07_count_new (sink : Sink) (ty rows cols : Nat) :
    CountInv sink.held.size (IOB.new sink ty rows cols).1 ∧
    ∀ x, (IOB.new sink ty rows cols).2 = .ok x →
      x.cw = (IOB.new sink ty rows cols).1 ∧ CountInv sink.held.size x.cw := by
  obtain ⟨_, _, h, _⟩ := CW.writeChunks_ran (CW.new sink) (headerChunks ty)
  have hi := (CountInv.new sink).ran h
  unfold IOB.new
  cases hres : (CW.new sink).writeChunks (headerChunks ty) with
  | mk cw r =>
    rw [hres] at hi
    cases r with
    | error e => exact ⟨hi, fun x hx => by cases hx⟩
    | ok u => cases u; exact ⟨hi, fun x hx => by cases hx; exact ⟨rfl, hi⟩⟩

theorem C07_count_step (p : Nat) (x : IOB) (r : Except BErr BState) (hi : CountInv p x.cw) :
    CountInv p (x.step r).1.cw := by
  cases r with
  | error e => exact hi
  | ok b' =>
    obtain ⟨_, _, h, _⟩ := CW.writeChunks_ran x.cw (newChunks x.b b')
    have hi' := hi.ran h
    cases hres : x.cw.writeChunks (newChunks x.b b') with
    | mk cw r =>
      rw [hres] at hi'
      cases r with
      | error e => simpa only [IOB.step, hres] using hi'
      | ok u => cases u; simpa only [IOB.step, hres] using hi'


/-! ### (d) C07_bytes: what a benign sink holds is the in-memory build -/

/-- the node buffers of a pure state, oldest first -/
def nodeChunks (b : BState) : List (List UInt8) := b.out.reverse.flatMap (·.chunks)

theorem nodeChunks_ext {old new : BState} (h : OutExt old new) :
    nodeChunks new = nodeChunks old ++ newChunks old new := by
  obtain ⟨added, ha⟩ := h
  simp [nodeChunks, newChunks, ha]

/-- everything written before the footer -/
def bodySoFar (ty : Nat) (b : BState) : List UInt8 := (headerChunks ty ++ nodeChunks b).flatten

theorem bodySoFar_ext (ty : Nat) {old new : BState} (h : OutExt old new) :
    bodySoFar ty new = bodySoFar ty old ++ (newChunks old new).flatten := by
  simp [bodySoFar, nodeChunks_ext h]

theorem body_eq (ty : Nat) {b b' : BState} (root : Nat) (h : OutExt b b') :
    (b'.bodyChunks ty root).flatten =
      bodySoFar ty b ++ (newChunks b b' ++ footerChunks b'.len root).flatten := by
  have : b'.bodyChunks ty root = headerChunks ty ++ nodeChunks b' ++ footerChunks b'.len root := rfl
  rw [this, nodeChunks_ext h]
  simp [bodySoFar]

/-- the state of a builder over a benign sink prefilled with `p` -/
structure Inv (p : List UInt8) (ty : Nat) (x : IOB) : Prop where
  benign : Benign x.cw.sink.script
  flush : x.cw.sink.flushFails = none
  held : x.cw.sink.held = (p ++ bodySoFar ty x.b).toArray
  summer : x.cw.summer = ({} : Summer).update (bodySoFar ty x.b)
  cnt : x.cw.cnt = (bodySoFar ty x.b).length

theorem new_benign (hchunk : ChunkLaw) (sink : Sink) (p : List UInt8) (ty rows cols : Nat)
    (hb : Benign sink.script) (hf : sink.flushFails = none) (hp : sink.held = p.toArray) :
    ∃ cw, IOB.new sink ty rows cols = (cw, .ok ⟨BState.new rows cols, cw⟩) ∧
      Inv p ty ⟨BState.new rows cols, cw⟩ := by
  obtain ⟨cw, h1, h2, h3, h4, h5, h6⟩ :=
    writeChunks_benign hchunk (CW.new sink) (headerChunks ty) hb
  refine ⟨cw, by simp [IOB.new, h1], h5, by rw [h6]; exact hf, ?_, ?_, ?_⟩
  · rw [h2]; simp [CW.new, hp, bodySoFar, nodeChunks, BState.new]
  · rw [h4]; simp [CW.new, bodySoFar, nodeChunks, BState.new]
  · rw [h3]; simp [CW.new, bodySoFar, nodeChunks, BState.new]

theorem step_benign (hchunk : ChunkLaw) {p : List UInt8} {ty : Nat} {x : IOB} (hi : Inv p ty x)
    (b' : BState) (hext : OutExt x.b b') :
    ∃ cw, x.step (.ok b') = (⟨b', cw⟩, .ok ()) ∧ Inv p ty ⟨b', cw⟩ := by
  obtain ⟨cw, h1, h2, h3, h4, h5, h6⟩ :=
    writeChunks_benign hchunk x.cw (newChunks x.b b') hi.benign
  refine ⟨cw, by simp [IOB.step, h1], h5, by rw [h6]; exact hi.flush, ?_, ?_, ?_⟩
  · rw [h2, hi.held, bodySoFar_ext ty hext]; simp
  · rw [h4, hi.summer, hchunk, bodySoFar_ext ty hext]
  · rw [h3, hi.cnt, bodySoFar_ext ty hext]; simp

/-- the two mutating calls of the builder API -/
inductive Call
  | insert (k : Key) (v : Nat)
  | add (k : Key)
deriving Repr

def BState.call (s : BState) : Call → Except BErr BState
  | .insert k v => s.insert k v
  | .add k => s.add k

def IOB.call (x : IOB) : Call → IOB × Except CallErr Unit
  | .insert k v => x.insert k v
  | .add k => x.add k

theorem IOB.call_eq (x : IOB) (c : Call) : IOB.call x c = x.step (BState.call x.b c) := by
  cases c <;> rfl

theorem call_ext (s : BState) (c : Call) (s' : BState) (h : BState.call s c = .ok s') :
    OutExt s s' := by
  cases c with
  | insert k v => exact insert_ext _ _ _ _ h
  | add k => exact add_ext _ _ _ h

/-- a sequence of calls on the pure state machine, stopping at the first error -/
def BState.run (s : BState) : List Call → Except BErr BState
  | [] => .ok s
  | c :: cs => match BState.call s c with
    | .error e => .error e
    | .ok s' => BState.run s' cs

/-- a sequence of calls on the writer-backed builder, all of which must succeed -/
def IOB.run (x : IOB) : List Call → Option IOB
  | [] => some x
  | c :: cs => match IOB.call x c with
    | (x', .ok ()) => IOB.run x' cs
    | (_, .error _) => none

theorem run_benign (hchunk : ChunkLaw) {p : List UInt8} {ty : Nat} (calls : List Call) :
    ∀ {x : IOB}, Inv p ty x → ∀ b, BState.run x.b calls = .ok b →
    ∃ x', IOB.run x calls = some x' ∧ x'.b = b ∧ Inv p ty x' := by
  induction calls with
  | nil => intro x hi b h; cases h; exact ⟨x, rfl, rfl, hi⟩
  | cons c cs ih =>
    intro x hi b h
    simp only [BState.run] at h
    split at h
    · cases h
    · rename_i s' hs'
      obtain ⟨cw, h1, h2⟩ := step_benign hchunk hi s' (call_ext _ _ _ hs')
      obtain ⟨x', h3, h4, h5⟩ := ih h2 b h
      exact ⟨x', by simp [IOB.run, IOB.call_eq, hs', h1, h3], h4, h5⟩

/-- an IO run that succeeded is a run of the pure machine (any script) -/
theorem run_pure (calls : List Call) : ∀ (x x' : IOB), IOB.run x calls = some x' →
    BState.run x.b calls = .ok x'.b := by
  induction calls with
  | nil => intro x x' h; cases h; rfl
  | cons c cs ih =>
    intro x x' h
    simp only [IOB.run, IOB.call_eq] at h
    cases hc : BState.call x.b c with
    | error e => simp [hc, IOB.step] at h
    | ok s' =>
      rw [hc] at h
      simp only [BState.run, hc]
      cases hres : x.cw.writeChunks (newChunks x.b s') with
      | mk cw r =>
        cases r with
        | error e => simp [IOB.step, hres] at h
        | ok u =>
          cases u
          simp only [IOB.step, hres] at h
          exact ih _ _ h

theorem masked_eq (body : List UInt8) :
    (({} : Summer).update body).masked = maskedSum (crc32cSlice16 0 body) := rfl

theorem intoInner_benign (hchunk : ChunkLaw) {p : List UInt8} {ty : Nat} {x : IOB}
    (hi : Inv p ty x) (bytes : List UInt8) (hf : x.b.fileBytes ty = .ok bytes) :
    ∃ s, x.intoInner = (s, .ok ()) ∧ s.held = (p ++ bytes).toArray := by
  unfold BState.fileBytes at hf
  cases hfin : x.b.finish with
  | error e => rw [hfin] at hf; cases hf
  | ok br =>
    obtain ⟨b', root⟩ := br
    rw [hfin] at hf
    simp only [Except.ok.injEq] at hf
    have hext := finish_ext _ _ _ hfin
    obtain ⟨cw, h1, h2, h3, h4, h5, h6⟩ := writeChunks_benign hchunk x.cw
      (newChunks x.b b' ++ footerChunks b'.len root) hi.benign
    obtain ⟨s, g1, g2, g3, g4⟩ := Sink.writeAll_benign cw.sink (u32le cw.summer.masked.toNat) h5
    have hflush : s.flushFails = none := by rw [g4, h6]; exact hi.flush
    refine ⟨s, by simp [IOB.intoInner, hfin, h1, g1, hflush], ?_⟩
    have hsum : cw.summer = ({} : Summer).update (b'.bodyChunks ty root).flatten := by
      rw [h4, hi.summer, hchunk, body_eq ty root hext]
    rw [g2, h2, hi.held, hsum, masked_eq, ← hf, body_eq ty root hext]
    simp

/-- **C07 (bytes)**: over any benign sink prefilled with `p`, the calls that succeed on
the pure state machine succeed on the writer-backed builder, and after `into_inner`
the sink holds `p` followed by exactly the bytes of the in-memory build —
independently of the script. -/
theorem C07_bytes (hchunk : ChunkLaw) (p : List UInt8) (script : List Resp)
    (hb : Benign script) (ty rows cols : Nat) (calls : List Call) (b : BState)
    (bytes : List UInt8) (hrun : BState.run (BState.new rows cols) calls = .ok b)
    (hfile : b.fileBytes ty = .ok bytes) :
    ∃ cw x0 x s, IOB.new (Sink.new p script) ty rows cols = (cw, .ok x0) ∧
      IOB.run x0 calls = some x ∧ x.b = b ∧ x.intoInner = (s, .ok ()) ∧
      s.held = (p ++ bytes).toArray := by
  obtain ⟨cw, h1, h2⟩ := new_benign hchunk (Sink.new p script) p ty rows cols hb rfl rfl
  obtain ⟨x, h3, h4, h5⟩ := run_benign hchunk calls h2 b hrun
  subst h4
  obtain ⟨s, h6, h7⟩ := intoInner_benign hchunk h5 bytes hfile
  exact ⟨cw, _, x, s, h1, h3, rfl, h6, h7⟩


/-- converse reading of `C07_bytes`: whenever the writer-backed run over a benign sink
went through, the sink holds the prefill followed by the in-memory build of the same
calls. -/
theorem C07_bytes_of_io (hchunk : ChunkLaw) (p : List UInt8) (script : List Resp)
    (hb : Benign script) (ty rows cols : Nat) (calls : List Call) (cw : CW) (x0 x : IOB)
    (s : Sink) (hnew : IOB.new (Sink.new p script) ty rows cols = (cw, .ok x0))
    (hrun : IOB.run x0 calls = some x) (hfin : x.intoInner = (s, .ok ())) :
    ∃ bytes, BState.run (BState.new rows cols) calls = .ok x.b ∧
      x.b.fileBytes ty = .ok bytes ∧ s.held = (p ++ bytes).toArray := by
  obtain ⟨cw', h1, _⟩ := new_benign hchunk (Sink.new p script) p ty rows cols hb rfl rfl
  rw [h1] at hnew
  have hx0 : x0 = ⟨BState.new rows cols, cw'⟩ := by cases hnew; rfl
  have hpure := run_pure calls x0 x hrun
  rw [hx0] at hpure
  simp only at hpure
  have hfile : ∃ bytes, x.b.fileBytes ty = .ok bytes := by
    unfold BState.fileBytes
    cases hf : x.b.finish with
    | error e => simp [IOB.intoInner, hf] at hfin
    | ok br => exact ⟨_, rfl⟩
  obtain ⟨bytes, hfile⟩ := hfile
  obtain ⟨cw2, x02, x2, s2, g1, g2, g3, g4, g5⟩ :=
    C07_bytes hchunk p script hb ty rows cols calls x.b bytes hpure hfile
  rw [h1] at g1
  have : x02 = x0 := by cases g1; exact hx0.symm
  subst this
  rw [hrun] at g2
  cases g2
  rw [hfin] at g4
  cases g4
  exact ⟨bytes, hpure, hfile, g5⟩

/-- any sequence of calls, continuing after errors -/
def IOB.runAny (x : IOB) : List Call → IOB
  | [] => x
  | c :: cs => IOB.runAny (IOB.call x c).1 cs

/-- **C07 (count)**: `bytes_written` plus the prefill is the size of what the sink holds,
after any sequence of calls over any script. -/
theorem C07_count_runAny (p : Nat) (calls : List Call) : ∀ (x : IOB), CountInv p x.cw →
    CountInv p (IOB.runAny x calls).cw := by
  induction calls with
  | nil => intro x h; exact h
  | cons c cs ih =>
    intro x h
    exact ih _ (by rw [IOB.call_eq]; exact C07_count_step p x _ h)

/-! ### (e) C11: faults surface, success implies a clean script -/

/-- a `.take 0` or `.fail k` served during `writeChunks` makes it return an error -/
theorem C11_fault (c : CW) (chunks : List (List UInt8)) (used : List Resp)
    (hu : c.sink.script = used ++ (c.writeChunks chunks).1.sink.script)
    (bad : Resp) (hmem : bad ∈ used) (hbad : Bad bad) :
    ∃ e, (c.writeChunks chunks).2 = .error e := by
  obtain ⟨used', written, hran, hend⟩ := CW.writeChunks_ran c chunks
  have := hran.used_unique hu
  subst this
  cases hr : (c.writeChunks chunks).2 with
  | error e => exact ⟨e, rfl⟩
  | ok u =>
    cases u
    rw [hr] at hend
    exact absurd hbad (hend.1.not_bad hmem)

/-- … and the error reports the first fault: `WriteZero` for `Ok(0)`, the sink's own
error otherwise; everything before it was benign. -/
theorem C11_fault_kind (c : CW) (chunks : List (List UInt8)) (e : IoErr)
    (h : (c.writeChunks chunks).2 = .error e) :
    ∃ good bad, c.sink.script = good ++ bad :: (c.writeChunks chunks).1.sink.script ∧
      Benign good ∧ Bad bad ∧ e = errOf bad := by
  obtain ⟨used, written, hran, hend⟩ := CW.writeChunks_ran c chunks
  rw [h] at hend
  obtain ⟨good, bad, hu, hg, hbad, he, _⟩ := hend
  exact ⟨good, bad, by rw [hran.script, hu]; simp, hg, hbad, he⟩

theorem C11_fault_step (x : IOB) (r : Except BErr BState) (used : List Resp)
    (hu : x.cw.sink.script = used ++ (x.step r).1.cw.sink.script)
    (bad : Resp) (hmem : bad ∈ used) (hbad : Bad bad) :
    ∃ e, (x.step r).2 = .error (.io e) := by
  cases r with
  | error e =>
    have : used = [] := by
      have : x.cw.sink.script = used ++ x.cw.sink.script := hu
      exact List.append_cancel_right (as := used) (bs := x.cw.sink.script) (cs := [])
        (by simpa using this.symm)
    subst this; cases hmem
  | ok b' =>
    cases hres : x.cw.writeChunks (newChunks x.b b') with
    | mk cw r =>
      have hfault := C11_fault x.cw (newChunks x.b b') used
      rw [hres] at hfault
      cases r with
      | error e => exact ⟨e, by simp [IOB.step, hres]⟩
      | ok u =>
        cases u
        have hs : (x.step (.ok b')).1.cw.sink.script = cw.sink.script := by
          simp [IOB.step, hres]
        rw [hs] at hu
        obtain ⟨e, he⟩ := hfault hu bad hmem hbad
        cases he

/-- everything `into_inner` writes: the pending nodes, the footer, the checksum -/
def tailBytes (x : IOB) (b' : BState) (root : Nat) : List UInt8 :=
  let w := (newChunks x.b b' ++ footerChunks b'.len root).flatten
  w ++ u32le (x.cw.summer.update w).masked.toNat

/-- complete description of `into_inner` over an arbitrary sink -/
theorem intoInner_spec (x : IOB) :
    ∃ used written, x.cw.sink.script = used ++ x.intoInner.1.script ∧
      x.intoInner.1.held = x.cw.sink.held ++ written.toArray ∧
      x.intoInner.1.flushFails = x.cw.sink.flushFails ∧
      match x.intoInner.2 with
      | .ok () => Benign used ∧ x.cw.sink.flushFails = none ∧
          ∃ b' root, x.b.finish = .ok (b', root) ∧ (ChunkLaw → written = tailBytes x b' root)
      | .error (.fst e) => used = [] ∧ written = [] ∧ x.b.finish = .error e
      | .error (.io e) => (∃ b' root, x.b.finish = .ok (b', root)) ∧
          ((∃ good bad, used = good ++ [bad] ∧ Benign good ∧ Bad bad ∧ e = errOf bad) ∨
           (Benign used ∧ ∃ k, x.cw.sink.flushFails = some k ∧ e = .other (k + 1))) := by
  cases hfin : x.b.finish with
  | error e =>
    have : x.intoInner = (x.cw.sink, .error (.fst e)) := by simp [IOB.intoInner, hfin]
    rw [this]
    exact ⟨[], [], by simp, by simp, rfl, rfl, rfl, rfl⟩
  | ok br =>
    obtain ⟨b', root⟩ := br
    obtain ⟨u1, w1, hran1, hend1⟩ :=
      CW.writeChunks_ran x.cw (newChunks x.b b' ++ footerChunks b'.len root)
    cases hres : x.cw.writeChunks (newChunks x.b b' ++ footerChunks b'.len root) with
    | mk cw r1 =>
      rw [hres] at hran1 hend1
      cases r1 with
      | error e =>
        have : x.intoInner = (cw.sink, .error (.io e)) := by simp [IOB.intoInner, hfin, hres]
        rw [this]
        obtain ⟨good, bad, h1, h2, h3, h4, _⟩ := hend1
        exact ⟨u1, w1, hran1.script, hran1.held, hran1.flush, ⟨b', root, rfl⟩,
          .inl ⟨good, bad, h1, h2, h3, h4⟩⟩
      | ok u =>
        cases u
        obtain ⟨hben1, hw1⟩ := hend1
        obtain ⟨u2, w2, hran2, hend2⟩ := CW.writeAll_ran cw (u32le cw.summer.masked.toNat)
        have hsw := Sink.writeAll_eq cw.sink (u32le cw.summer.masked.toNat) cw.cnt cw.summer
        have hcw : (⟨cw.sink, cw.cnt, cw.summer⟩ : CW) = cw := rfl
        rw [hcw] at hsw
        cases hres2 : cw.writeAll (u32le cw.summer.masked.toNat) with
        | mk cw2 r2 =>
          rw [hres2] at hran2 hend2 hsw
          simp only at hsw hran2 hend2
          have hran := hran1.trans hran2
          cases r2 with
          | error e =>
            have : x.intoInner = (cw2.sink, .error (.io e)) := by
              simp [IOB.intoInner, hfin, hres, hsw]
            rw [this]
            obtain ⟨good, bad, h1, h2, h3, h4, _⟩ := hend2
            exact ⟨u1 ++ u2, w1 ++ w2, hran.script, hran.held, hran.flush, ⟨b', root, rfl⟩,
              .inl ⟨u1 ++ good, bad, by rw [h1, List.append_assoc], hben1.append h2, h3, h4⟩⟩
          | ok u =>
            cases u
            obtain ⟨hben2, hw2⟩ := hend2
            cases hff : cw2.sink.flushFails with
            | some k =>
              have : x.intoInner = (cw2.sink, .error (.io (.other (k + 1)))) := by
                simp [IOB.intoInner, hfin, hres, hsw, hff]
              rw [this]
              exact ⟨u1 ++ u2, w1 ++ w2, hran.script, hran.held, hran.flush, ⟨b', root, rfl⟩,
                .inr ⟨hben1.append hben2, k, by rw [← hran.flush, hff], rfl⟩⟩
            | none =>
              have : x.intoInner = (cw2.sink, .ok ()) := by
                simp [IOB.intoInner, hfin, hres, hsw, hff]
              rw [this]
              refine ⟨u1 ++ u2, w1 ++ w2, hran.script, hran.held, hran.flush,
                hben1.append hben2, by rw [← hran.flush, hff], b', root, rfl, ?_⟩
              intro hchunk
              rw [hw1, hw2, hran1.summer hchunk, hw1]
              rfl

/-- a fault served during `into_inner` makes it return an IO error -/
theorem C11_fault_intoInner (x : IOB) (used : List Resp)
    (hu : x.cw.sink.script = used ++ x.intoInner.1.script)
    (bad : Resp) (hmem : bad ∈ used) (hbad : Bad bad) :
    ∃ e, x.intoInner.2 = .error (.io e) := by
  obtain ⟨used', written, hs, _, _, hm⟩ := intoInner_spec x
  have : used = used' := List.append_cancel_right (hu.symm.trans hs)
  subst this
  match hr : x.intoInner.2, hm with
  | .ok (), ⟨hben, _⟩ => exact absurd hbad (hben.not_bad hmem)
  | .error (.fst e), ⟨h, _⟩ => subst h; cases hmem
  | .error (.io e), _ => exact ⟨e, rfl⟩

/-- **C11**: `into_inner` returns `Ok` only if no write failed or returned `Ok(0)`, the flush
succeeded, and the sink holds everything that was written. -/
theorem C11_finish_ok_only_if (x : IOB) (s : Sink) (h : x.intoInner = (s, .ok ())) :
    ∃ used b' root, x.cw.sink.script = used ++ s.script ∧ Benign used ∧
      s.flushFails = none ∧ x.b.finish = .ok (b', root) ∧
      (ChunkLaw → s.held = x.cw.sink.held ++ (tailBytes x b' root).toArray) := by
  obtain ⟨used, written, hs, hheld, hfl, hm⟩ := intoInner_spec x
  rw [h] at hs hheld hfl hm
  obtain ⟨hben, hnone, b', root, hfin, hw⟩ := hm
  exact ⟨used, b', root, hs, hben, by rw [hfl]; exact hnone, hfin,
    fun hc => by rw [hheld, hw hc]⟩


/-- (a) for the bare sink -/
theorem Sink.writeAll_fuel (s : Sink) (buf : List UInt8) :
    writeAllWith Sink.write (fuelFor s buf) s buf = some (s.writeAll buf) := by
  have h1 := Fst.SinkProofs.writeAll_fuel (⟨s, 0, {}⟩ : CW) buf
  have h2 := waw_proj (fuelFor s buf) (⟨s, 0, {}⟩ : CW) buf
  simp only [h1, Option.map_some] at h2
  rw [← h2, Fst.SinkProofs.Sink.writeAll_eq s buf 0 {}]

/-! ### non-vacuity -/

def demoScript : List Resp := [.take 1, .interrupted, .take 3, .interrupted, .take 2]

theorem demoScript_benign : Benign demoScript := by
  intro r hr
  simp [demoScript] at hr
  rcases hr with rfl | rfl | rfl | rfl | rfl
  · exact .inl ⟨1, rfl, by omega⟩
  · exact .inr rfl
  · exact .inl ⟨3, rfl, by omega⟩
  · exact .inr rfl
  · exact .inl ⟨2, rfl, by omega⟩

def demoCalls : List Call := [.insert [97] 5, .insert [97, 98] 2, .add [99]]

theorem fileBytes_isOk (ty : Nat) (b b' : BState) (root : Nat) (h : b.finish = .ok (b', root)) :
    ∃ bytes, b.fileBytes ty = .ok bytes := by
  simp [BState.fileBytes, h]

def demoFinishes : Bool :=
  match BState.run (BState.new 4 2) demoCalls with
  | .ok b => (match b.finish with | .ok _ => true | .error _ => false)
  | .error _ => false

/-- the hypotheses of `C07_bytes` are satisfiable (three keys, a five-entry benign script) -/
example : Benign demoScript ∧ ∃ b bytes, BState.run (BState.new 4 2) demoCalls = .ok b ∧
    b.fileBytes 0 = .ok bytes := by
  refine ⟨demoScript_benign, ?_⟩
  have h : demoFinishes = true := by decide
  unfold demoFinishes at h
  split at h
  · rename_i b hb
    split at h
    · rename_i r hr
      obtain ⟨bytes, hbytes⟩ := fileBytes_isOk 0 b r.1 r.2 hr
      exact ⟨b, bytes, hb, hbytes⟩
    · cases h
  · cases h

-- the scripted sink really interleaves short writes and interruptions
example : ((CW.new (Sink.new [1, 2] demoScript)).writeChunks [[10, 11, 12], [13, 14]]).1.sink.held
    = #[1, 2, 10, 11, 12, 13, 14] := by decide
example : ((CW.new (Sink.new [1, 2] demoScript)).writeChunks [[10, 11, 12], [13, 14]]).1.sink.calls
    = 5 := by decide
-- faults: `Ok(0)` and a hard error
example : ((CW.new (Sink.new [] [.take 1, .take 0])).writeChunks [[10, 11]]).2
    = .error .writeZero := by rfl
example : ((CW.new (Sink.new [] [.take 1, .fail 4])).writeChunks [[10, 11]]).1.cnt = 1 := by decide

end SinkProofs
end Fst
