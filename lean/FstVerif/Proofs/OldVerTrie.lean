import FstVerif.Proofs.OldVerCodec
import FstVerif.Proofs.Build
import FstVerif.Proofs.Lookup
/-
C10 (old format versions), part 2 of 4: the trie encoder of `Spec/Encode.lean` is correct at
the store level, for every `style` and with or without sharing.

* `EmOK`        layout and shape of the written nodes (newest first), with their bytes
* `goodStore_of_EmOK`   the written nodes form a `GoodStore` under the table denotation `denE`
* `emit_spec`   one call of `Enc::emit` (empty final node / memo hit / new node)
* `groups_spec` the grouping of a sorted list by first byte
* `go_spec`     `Enc::go` returns an address that spells exactly the given sorted list
* `encode_spec` the whole run: `denE root = kvs`
* `emOK_laid`   the bytes are laid out consecutively from offset 16 (`LaidV` of OldVerCodec)
-/
namespace Fst
namespace OldVer
open Spec

abbrev Em := Nat × BNode × List UInt8

/-- the store of the written nodes, newest first -/
def rst (es : List Em) : List (Nat × BNode) := es.map fun x => (x.1, x.2.1)

/-- what every address spells (table built oldest first, `Proofs/Build.lean`) -/
def denE (es : List Em) : Nat → KV := lookT (denTbl (rst es))

theorem denE_zero (es : List Em) : denE es 0 = [([], 0)] := by simp [denE, lookT]

theorem denE_cons_ne (x : Em) (es : List Em) {a : Nat} (h : a ≠ x.1) :
    denE (x :: es) a = denE es a :=
  lookT_cons_ne _ _ h

theorem denE_cons_self (x : Em) (es : List Em) (h : x.1 ≠ 0) :
    denE (x :: es) x.1 = denNodeWith (denE es) x.2.1 :=
  lookT_cons_self _ _ _ h

/-- `EmOK v emits len last`: layout and shape of the written nodes, newest first -/
def EmOK (v : Nat) : List Em → Nat → Nat → Prop
  | [], c, l => c = 16 ∧ l = NO_LAST
  | x :: es, c, l => ∃ c0 l0, EmOK v es c0 l0 ∧
      compileNodeV v x.2.1 l0 c0 = some x.2.2 ∧ 1 ≤ x.2.2.length ∧
      x.1 = c0 + x.2.2.length - 1 ∧ c = c0 + x.2.2.length ∧ l = x.1 ∧
      SortedInputs x.2.1 ∧ isEmptyFinal x.2.1 = false ∧
      (x.2.1.fin = false → x.2.1.fout = 0) ∧
      (x.2.1.fout < 2^64 ∧ ∀ t ∈ x.2.1.trans, t.out < 2^64) ∧
      ∀ t ∈ x.2.1.trans, TargetOK (rst es) c0 t.addr

theorem EmOK_count_ge {v : Nat} : ∀ {es : List Em} {c l : Nat}, EmOK v es c l → 16 ≤ c
  | [], c, l, h => by simp only [EmOK] at h; omega
  | x :: es, c, l, h => by
    obtain ⟨c0, l0, h0, _, _, _, hc, _⟩ := h
    have := EmOK_count_ge h0
    omega

theorem EmOK_addr {v : Nat} : ∀ {es : List Em} {c l : Nat}, EmOK v es c l →
    ∀ p ∈ rst es, 16 ≤ p.1 ∧ p.1 < c
  | [], c, l, _ => by intro p hp; simp [rst] at hp
  | x :: es, c, l, h => by
    obtain ⟨c0, l0, h0, _, h1, ha, hc, _⟩ := h
    intro p hp
    simp only [rst, List.map_cons, List.mem_cons] at hp
    have h16 := EmOK_count_ge h0
    rcases hp with rfl | hp
    · simp only; omega
    · have := EmOK_addr h0 p hp; omega

theorem rst_cons_mem {x : Em} {es : List Em} {p : Nat × BNode} (hp : p ∈ rst es) :
    p ∈ rst (x :: es) := by
  simp only [rst, List.map_cons, List.mem_cons]; exact Or.inr hp

/-- facts about a stored node -/
theorem EmOK_node {v : Nat} : ∀ {es : List Em} {c l : Nat}, EmOK v es c l → ∀ a n, (a, n) ∈ rst es →
    SortedInputs n ∧ isEmptyFinal n = false ∧ (n.fin = false → n.fout = 0) ∧
      ∀ t ∈ n.trans, TargetOK (rst es) a t.addr
  | [], c, l, _ => by intro a n hp; simp [rst] at hp
  | x :: es, c, l, h => by
    obtain ⟨c0, l0, h0, _, h1, ha, hc, _, hs, hef, hff, _, ht⟩ := h
    intro a n hp
    simp only [rst, List.map_cons, List.mem_cons, Prod.mk.injEq] at hp
    rcases hp with ⟨rfl, rfl⟩ | hp
    · refine ⟨hs, hef, hff, fun t htm => ?_⟩
      exact TargetOK_mono (by omega) (fun p hp => rst_cons_mem hp) (ht t htm)
    · obtain ⟨i1, i2, i3, i4⟩ := EmOK_node h0 a n hp
      refine ⟨i1, i2, i3, fun t htm => ?_⟩
      exact TargetOK_mono (Nat.le_refl _) (fun p hp => rst_cons_mem hp) (i4 t htm)

theorem EmOK_functional {v : Nat} : ∀ {es : List Em} {c l : Nat}, EmOK v es c l → ∀ a n m,
    (a, n) ∈ rst es → (a, m) ∈ rst es → n = m
  | [], c, l, _ => by intro a n m hp; simp [rst] at hp
  | x :: es, c, l, h => by
    obtain ⟨c0, l0, h0, _, h1, ha, hc, _⟩ := h
    intro a n m hn hm
    simp only [rst, List.map_cons, List.mem_cons, Prod.mk.injEq] at hn hm
    rcases hn with ⟨rfl, rfl⟩ | hn
    · rcases hm with ⟨_, rfl⟩ | hm
      · rfl
      · have := (EmOK_addr h0 _ hm).2; simp only at this; omega
    · rcases hm with ⟨rfl, rfl⟩ | hm
      · have := (EmOK_addr h0 _ hn).2; simp only at this; omega
      · exact EmOK_functional h0 a n m hn hm

/-- the table really is a denotation: every stored address spells its node -/
theorem denE_unfold {v : Nat} : ∀ {es : List Em} {c l : Nat}, EmOK v es c l → ∀ a n, (a, n) ∈ rst es →
    denE es a = denNodeWith (denE es) n
  | [], c, l, _ => by intro a n hp; simp [rst] at hp
  | x :: es, c, l, h => by
    have hfull := h
    obtain ⟨c0, l0, h0, _, h1, ha, hc, _, _, _, _, _, ht⟩ := h
    intro a n hp
    have h16 := EmOK_count_ge h0
    have hnode := (EmOK_node hfull a n hp).2.2.2
    have hcongr : denNodeWith (denE (x :: es)) n = denNodeWith (denE es) n := by
      apply denNodeWith_congr
      intro t htm
      apply denE_cons_ne
      have h1 := (hnode t htm).1
      have h2 := (EmOK_addr hfull (a, n) hp).2
      simp only at h2
      simp only [rst, List.map_cons, List.mem_cons, Prod.mk.injEq] at hp
      rcases hp with ⟨rfl, _⟩ | hp
      · omega
      · have := (EmOK_addr h0 _ hp).2; simp only at this; omega
    rw [hcongr]
    simp only [rst, List.map_cons, List.mem_cons, Prod.mk.injEq] at hp
    rcases hp with ⟨rfl, rfl⟩ | hp
    · exact denE_cons_self x es (by omega)
    · rw [denE_cons_ne x es (by have := (EmOK_addr h0 _ hp).2; simp only at this; omega)]
      exact denE_unfold h0 a n hp

/-- the written nodes, in emission order, with the table denotation, are a `GoodStore` -/
theorem goodStore_of_EmOK {v : Nat} {es : List Em} {c l : Nat} (h : EmOK v es c l) :
    GoodStore (rst es).reverse (denE es) := by
  refine ⟨denE_zero _, ?_, ?_, ?_, ?_, ?_⟩
  · intro a n hp; exact denE_unfold h a n (List.mem_reverse.mp hp)
  · intro a n hp; have := (EmOK_addr h _ (List.mem_reverse.mp hp)).1; simp only at this; omega
  · intro a n m hn hm
    exact EmOK_functional h a n m (List.mem_reverse.mp hn) (List.mem_reverse.mp hm)
  · intro a n hp t ht
    obtain ⟨h1, h2⟩ := (EmOK_node h a n (List.mem_reverse.mp hp)).2.2.2 t ht
    refine ⟨h1, ?_⟩
    rcases h2 with h0 | ⟨m, hm⟩
    · exact Or.inl h0
    · exact Or.inr ⟨m, List.mem_reverse.mpr hm⟩
  · intro a n hp; exact (EmOK_node h a n (List.mem_reverse.mp hp)).1

theorem EmOK_last {v : Nat} {es : List Em} {c l : Nat} (h : EmOK v es c l) :
    l = c - 1 ∨ l = NO_LAST := by
  cases es with
  | nil => exact Or.inr h.2
  | cons x es =>
    obtain ⟨c0, l0, _, _, h1, ha, hc, hl, _⟩ := h
    left; omega

/-! ### the encoder state -/

/-- an address the next node may point to -/
def AddrOK (e : Enc) (a : Nat) : Prop := TargetOK (rst e.emits) e.len a

structure EInv (e : Enc) : Prop where
  ok : EmOK e.version e.emits e.len e.last
  memo : ∀ x ∈ e.memo, (x.2.2, x.2.1) ∈ rst e.emits

/-- the state only grows: old nodes stay, old addresses keep their meaning -/
structure Le (e e' : Enc) : Prop where
  version : e'.version = e.version
  share : e'.share = e.share
  len : e.len ≤ e'.len
  mem : ∀ p ∈ rst e.emits, p ∈ rst e'.emits
  den : ∀ a, AddrOK e a → denE e'.emits a = denE e.emits a

theorem Le.refl (e : Enc) : Le e e := ⟨rfl, rfl, Nat.le_refl _, fun _ h => h, fun _ _ => rfl⟩

theorem AddrOK.mono {e e' : Enc} {a : Nat} (hle : Le e e') (h : AddrOK e a) : AddrOK e' a :=
  TargetOK_mono hle.len hle.mem h

theorem Le.trans {e1 e2 e3 : Enc} (h12 : Le e1 e2) (h23 : Le e2 e3) : Le e1 e3 :=
  ⟨h23.version.trans h12.version, h23.share.trans h12.share, Nat.le_trans h12.len h23.len,
    fun p hp => h23.mem p (h12.mem p hp),
    fun a ha => (h23.den a (ha.mono h12)).trans (h12.den a ha)⟩

/-- what `emit` needs to know about the node -/
structure NodeOK (e : Enc) (n : BNode) : Prop where
  sorted : SortedInputs n
  finOut : n.fin = false → n.fout = 0
  outs : n.fout < 2^64 ∧ ∀ t ∈ n.trans, t.out < 2^64
  targets : ∀ t ∈ n.trans, AddrOK e t.addr

theorem isEmptyFinal_eq {n : BNode} (h : isEmptyFinal n = true) : n = ⟨true, 0, []⟩ := by
  obtain ⟨f, fo, ts⟩ := n
  simp only [isEmptyFinal, Bool.and_eq_true, List.isEmpty_iff, beq_iff_eq] at h
  obtain ⟨⟨rfl, rfl⟩, rfl⟩ := h
  rfl

theorem compileNodeV_ne_nil {v : Nat} {n : BNode} {l c : Nat} {enc : List UInt8}
    (hne : isEmptyFinal n = false) (h : compileNodeV v n l c = some enc) : 1 ≤ enc.length := by
  unfold compileNodeV at h
  split at h
  · cases h
  rw [hne] at h
  simp only [Bool.false_eq_true, if_false] at h
  split at h
  · injection h with h; subst h
    rw [compileAnyV_eq]
    simp only [List.length_append, List.length_cons, List.length_nil]; omega
  · split at h
    · split at h <;> (injection h with h; subst h)
      · simp [compileOTN]
      · simp only [compileOT, List.length_append, List.length_cons, List.length_nil]; omega
    · cases h

theorem memoGet_some {memo : List (UInt64 × BNode × Nat)} {n : BNode} {a : Nat}
    (h : memoGet memo n = some a) : ∃ x ∈ memo, x.2.1 = n ∧ x.2.2 = a := by
  unfold memoGet at h
  simp only [Option.map_eq_some_iff] at h
  obtain ⟨x, hx, rfl⟩ := h
  have hm := List.mem_of_find?_eq_some hx
  have hp := List.find?_some hx
  simp only [Bool.and_eq_true, beq_iff_eq] at hp
  exact ⟨x, hm, hp.2, rfl⟩

/-- ONE CALL OF `emit`. On a good state and a good node, `emit` returns an address that spells
the node, in a good state that extends the old one; address 0 is returned only for the empty
final node, and then nothing is written. -/
theorem emit_spec {e : Enc} {n : BNode} (hinv : EInv e) (hn : NodeOK e n) :
    ∃ a e', emit e n = (a, e') ∧ EInv e' ∧ Le e e' ∧ AddrOK e' a ∧
      denE e'.emits a = denNodeWith (denE e.emits) n ∧ (a = 0 → e' = e) := by
  have h16 := EmOK_count_ge hinv.ok
  unfold emit
  by_cases hE : isEmptyFinal n = true
  · rw [if_pos hE]
    refine ⟨0, e, rfl, hinv, Le.refl e, ⟨by omega, Or.inl rfl⟩, ?_, fun _ => rfl⟩
    rw [isEmptyFinal_eq hE, denE_zero]
    simp [denNodeWith, own]
  · rw [if_neg hE]
    have hE' : isEmptyFinal n = false := by simpa using hE
    cases hm : (if e.share then memoGet e.memo n else none) with
    | some a =>
      simp only
      have hget : memoGet e.memo n = some a := by
        split at hm
        · exact hm
        · cases hm
      obtain ⟨x, hx, rfl, rfl⟩ := memoGet_some hget
      have hmem := hinv.memo x hx
      have haddr := EmOK_addr hinv.ok _ hmem
      refine ⟨_, e, rfl, hinv, Le.refl e, ⟨haddr.2, Or.inr ⟨_, hmem⟩⟩,
        denE_unfold hinv.ok _ _ hmem, ?_⟩
      intro h0; simp only at haddr; omega
    | none =>
      simp only
      obtain ⟨enc, henc⟩ := compileNodeV_isSome e.version n e.last e.len
        (sortedInputs_length hn.sorted)
      rw [henc, Option.getD_some]
      have hlen := compileNodeV_ne_nil hE' henc
      refine ⟨_, _, rfl, ⟨?_, ?_⟩, ⟨rfl, rfl, ?_, ?_, ?_⟩, ?_, ?_, ?_⟩
      · exact ⟨e.len, e.last, hinv.ok, henc, hlen, rfl, rfl, rfl, hn.sorted, hE', hn.finOut,
          hn.outs, hn.targets⟩
      · intro x hx
        simp only at hx ⊢
        split at hx
        · rcases List.mem_cons.mp hx with rfl | hx
          · simp [rst]
          · exact rst_cons_mem (hinv.memo x hx)
        · exact rst_cons_mem (hinv.memo x hx)
      · simp only; omega
      · intro p hp; exact rst_cons_mem hp
      · intro a ha
        simp only
        apply denE_cons_ne
        have := ha.1
        simp only; omega
      · refine ⟨by simp only; omega, Or.inr ⟨n, by simp [rst]⟩⟩
      · simp only
        exact denE_cons_self (e.len + enc.length - 1, n, enc) e.emits (by simp only; omega)
      · intro h0; omega

/-! ### grouping a sorted list by first byte -/

theorem lexLt_cons_same {b : UInt8} {x y : Key} (h : lexLt (b :: x) (b :: y) = true) :
    lexLt x y = true := by
  simp only [lexLt, Bool.or_eq_true, decide_eq_true_eq, Bool.and_eq_true, beq_iff_eq] at h
  rcases h with h | h
  · exact absurd h (UInt8.lt_irrefl b)
  · exact h.2

theorem lexLt_cons_head {b c : UInt8} {x y : Key} (h : lexLt (b :: x) (c :: y) = true) :
    b < c ∨ b = c := by
  simp only [lexLt, Bool.or_eq_true, decide_eq_true_eq, Bool.and_eq_true, beq_iff_eq] at h
  rcases h with h | h
  · exact Or.inl h
  · exact Or.inr h.1

/-- what a list of groups spells -/
def ungroup (gs : List (UInt8 × KV)) : KV := gs.flatMap fun g => lift g.1 0 g.2

theorem lift_zero_cons (b : UInt8) (k : Key) (v : Nat) (g : KV) :
    lift b 0 ((k, v) :: g) = (b :: k, v) :: lift b 0 g := by
  simp [lift]

theorem mem_ungroup {gs : List (UInt8 × KV)} {g : UInt8 × KV} {y : Key × Nat}
    (hg : g ∈ gs) (hy : y ∈ g.2) : (g.1 :: y.1, y.2) ∈ ungroup gs := by
  simp only [ungroup, List.mem_flatMap]
  refine ⟨g, hg, ?_⟩
  simp only [lift, List.mem_map]
  exact ⟨y, hy, by simp⟩

theorem groups_cons (b : UInt8) (k' : Key) (v : Nat) (rest : KV) :
    groups ((b :: k', v) :: rest) =
      match groups rest with
      | (b', g) :: gs =>
        if b' = b then (b, (k', v) :: g) :: gs else (b, [(k', v)]) :: (b', g) :: gs
      | [] => [(b, [(k', v)])] := rfl

/-- GROUPS. For a strictly sorted list without the empty key, `groups` splits it into runs
with strictly increasing first bytes; every run is non-empty and strictly sorted, and the runs
spell the list back. -/
theorem groups_spec : ∀ (rest : KV), PSorted rest → (∀ kv ∈ rest, kv.1 ≠ []) →
    ungroup (groups rest) = rest ∧ (groups rest).Pairwise (fun a b => a.1 < b.1) ∧
      ∀ g ∈ groups rest, g.2 ≠ [] ∧ PSorted g.2
  | [], _, _ => ⟨rfl, List.Pairwise.nil, fun g hg => by simp [groups] at hg⟩
  | (k, v) :: rest, hs, hne => by
    have hs' := List.pairwise_cons.mp hs
    obtain ⟨ih1, ih2, ih3⟩ := groups_spec rest hs'.2 (fun kv h => hne kv (List.mem_cons_of_mem _ h))
    obtain ⟨b, k', rfl⟩ : ∃ b k', k = b :: k' := by
      cases k with
      | nil => exact absurd rfl (hne _ List.mem_cons_self)
      | cons b k' => exact ⟨b, k', rfl⟩
    rw [groups_cons]
    cases hg : groups rest with
    | nil =>
      rw [hg] at ih1
      simp only [ungroup, List.flatMap_nil] at ih1
      subst ih1
      refine ⟨by simp [ungroup, lift], List.pairwise_singleton _ _, ?_⟩
      intro g hgm
      simp only [List.mem_singleton] at hgm
      subst hgm
      exact ⟨by simp, List.pairwise_singleton _ _⟩
    | cons g0 gs =>
      obtain ⟨b', g⟩ := g0
      rw [hg] at ih1 ih2 ih3
      simp only
      have hg0 := ih3 (b', g) List.mem_cons_self
      have ih2' := List.pairwise_cons.mp ih2
      -- every entry of the first group is in `rest`
      have hin : ∀ y ∈ g, (b' :: y.1, y.2) ∈ rest := by
        intro y hy
        rw [← ih1]
        exact mem_ungroup (g := (b', g)) List.mem_cons_self hy
      split
      · rename_i hb
        subst hb
        refine ⟨?_, ?_, ?_⟩
        · rw [← ih1]
          simp only [ungroup, List.flatMap_cons, lift_zero_cons, List.cons_append]
        · exact List.pairwise_cons.mpr ⟨ih2'.1, ih2'.2⟩
        · intro g' hg'
          rcases List.mem_cons.mp hg' with rfl | hg'
          · refine ⟨by simp, List.pairwise_cons.mpr ⟨?_, hg0.2⟩⟩
            intro y hy
            exact lexLt_cons_same (hs'.1 _ (hin y hy))
          · exact ih3 g' (List.mem_cons_of_mem _ hg')
      · rename_i hb
        obtain ⟨y, hy⟩ := List.exists_mem_of_ne_nil _ hg0.1
        have hlt : b < b' := by
          rcases lexLt_cons_head (hs'.1 _ (hin y hy)) with h | h
          · exact h
          · exact absurd h.symm hb
        refine ⟨?_, ?_, ?_⟩
        · rw [← ih1]
          simp only [ungroup, List.flatMap_cons, lift_zero_cons, List.cons_append]
          simp [lift]
        · refine List.pairwise_cons.mpr ⟨?_, ih2⟩
          intro g' hg'
          rcases List.mem_cons.mp hg' with rfl | hg'
          · exact hlt
          · exact UInt8.lt_trans hlt (ih2'.1 g' hg')
        · intro g' hg'
          rcases List.mem_cons.mp hg' with rfl | hg'
          · exact ⟨by simp, List.pairwise_singleton _ _⟩
          · exact ih3 g' hg'

/-! ### the recursion -/

/-- the result of compiling a sub-trie: an address that spells exactly `kvs` -/
def Spells (kvs : KV) (e : Enc) (r : Nat × Enc) : Prop :=
  EInv r.2 ∧ Le e r.2 ∧ AddrOK r.2 r.1 ∧ denE r.2.emits r.1 = kvs ∧ (r.1 = 0 → r.2 = e)

/-- a compiler of sub-tries that is correct on keys of length at most `f` -/
def ChildSpec (child : KV → Enc → Nat × Enc) (f : Nat) : Prop :=
  ∀ kvs e, EInv e → PSorted kvs → (∀ kv ∈ kvs, kv.1.length ≤ f) → (∀ kv ∈ kvs, kv.2 < 2^64) →
    Spells kvs e (child kvs e)

theorem minVal_le : ∀ (sub : KV) (kv : Key × Nat), kv ∈ sub → minVal sub ≤ kv.2
  | [], _, h => by cases h
  | [x], kv, h => by
    simp only [List.mem_singleton] at h; subst h; exact Nat.le_refl _
  | x :: y :: rest, kv, h => by
    have ih := minVal_le (y :: rest)
    simp only [minVal]
    rcases List.mem_cons.mp h with rfl | h
    · exact Nat.min_le_left _ _
    · exact Nat.le_trans (Nat.min_le_right _ _) (ih kv h)

theorem minVal_lt (sub : KV) (h : ∀ kv ∈ sub, kv.2 < 2^64) : minVal sub < 2^64 := by
  cases sub with
  | nil => simp [minVal]
  | cons x rest =>
    exact Nat.lt_of_le_of_lt (minVal_le _ x List.mem_cons_self) (h x List.mem_cons_self)

theorem lift_sub (b : UInt8) (m : Nat) (sub : KV) (hm : ∀ kv ∈ sub, m ≤ kv.2) :
    lift b m (sub.map fun kv => (kv.1, kv.2 - m)) = lift b 0 sub := by
  simp only [lift, List.map_map]
  apply List.map_congr_left
  intro kv hkv
  have := hm kv hkv
  simp only [Function.comp, Prod.mk.injEq, true_and]
  omega

theorem pSorted_map_val {sub : KV} (f : Nat → Nat) (h : PSorted sub) :
    PSorted (sub.map fun kv => (kv.1, f kv.2)) := by
  unfold PSorted
  rw [List.pairwise_map]
  exact h

theorem flatMap_congr_mem {α β : Type} {l : List α} {f g : α → List β}
    (h : ∀ x ∈ l, f x = g x) : l.flatMap f = l.flatMap g := by
  induction l with
  | nil => rfl
  | cons a l ih =>
    simp only [List.flatMap_cons]
    rw [h a List.mem_cons_self, ih (fun x hx => h x (List.mem_cons_of_mem _ hx))]

/-- THE CHILDREN. `goGroups` over well-formed groups returns transitions with the groups' bytes,
good targets and small outputs, that together spell what the groups spell. -/
theorem goGroups_spec (style : Nat) (child : KV → Enc → Nat × Enc) (f : Nat)
    (hc : ChildSpec child f) : ∀ (gs : List (UInt8 × KV)) (e : Enc), EInv e →
    (∀ g ∈ gs, PSorted g.2 ∧ ∀ kv ∈ g.2, kv.1.length ≤ f ∧ kv.2 < 2^64) →
    ∃ ts e', goGroups style child gs e = (ts, e') ∧
      EInv e' ∧ Le e e' ∧ ts.map (·.inp) = gs.map (·.1) ∧
      (∀ t ∈ ts, AddrOK e' t.addr ∧ t.out < 2^64) ∧
      (ts.flatMap fun t => lift t.inp t.out (denE e'.emits t.addr)) = ungroup gs ∧
      (gs = [] → e' = e)
  | [], e, hinv, _ =>
    ⟨[], e, rfl, hinv, Le.refl e, rfl, (fun t ht => by cases ht), rfl, fun _ => rfl⟩
  | (b, sub) :: gs, e, hinv, hgs => by
    obtain ⟨ts, e1, heq, i1, i2, i3, i4, i5, _⟩ := goGroups_spec style child f hc gs e hinv
      (fun g hg => hgs g (List.mem_cons_of_mem _ hg))
    obtain ⟨hsub, hkv⟩ := hgs (b, sub) List.mem_cons_self
    simp only at hsub hkv
    simp only [goGroups, heq]
    generalize hm : (if style = 1 then minVal sub else 0) = m
    have hmle : ∀ kv ∈ sub, m ≤ kv.2 := by
      intro kv hkv'
      rw [← hm]; split
      · exact minVal_le sub kv hkv'
      · exact Nat.zero_le _
    have hmlt : m < 2^64 := by
      rw [← hm]; split
      · exact minVal_lt sub (fun kv h => (hkv kv h).2)
      · decide
    obtain ⟨c1, c2, c3, c4, _⟩ := hc (sub.map fun kv => (kv.1, kv.2 - m)) e1 i1
      (pSorted_map_val (· - m) hsub)
      (by intro kv h
          simp only [List.mem_map] at h
          obtain ⟨kv', h', rfl⟩ := h
          exact (hkv kv' h').1)
      (by intro kv h
          simp only [List.mem_map] at h
          obtain ⟨kv', h', rfl⟩ := h
          have := (hkv kv' h').2
          simp only; omega)
    generalize child (sub.map fun kv => (kv.1, kv.2 - m)) e1 = c at c1 c2 c3 c4
    refine ⟨_, _, rfl, c1, i2.trans c2, by simp [i3], ?_, ?_, fun h => by cases h⟩
    · intro t ht
      rcases List.mem_cons.mp ht with rfl | ht
      · exact ⟨c3, hmlt⟩
      · exact ⟨(i4 t ht).1.mono c2, (i4 t ht).2⟩
    · simp only [List.flatMap_cons, ungroup]
      rw [c4, lift_sub b m sub hmle]
      congr 1
      rw [← ungroup, ← i5]
      apply flatMap_congr_mem
      intro t ht
      rw [c2.den _ (i4 t ht).1]

theorem lexLt_nil_right (k : Key) : lexLt k [] = false := by cases k <;> rfl

/-- the head of a sorted list is the entry of the empty key (if present); the rest has none -/
theorem split_own (kvs : KV) (hs : PSorted kvs) :
    kvs = (if isFin kvs then [([], finVal kvs)] else []) ++ restOf kvs ∧
      PSorted (restOf kvs) ∧ (∀ kv ∈ restOf kvs, kv.1 ≠ [] ∧ kv ∈ kvs) ∧
      (isFin kvs = false → finVal kvs = 0) ∧
      (finVal kvs = 0 ∨ ∃ k, (k, finVal kvs) ∈ kvs) := by
  cases kvs with
  | nil => simp [isFin, finVal, restOf, PSorted]
  | cons kv rest =>
    obtain ⟨k, v⟩ := kv
    have hs' := List.pairwise_cons.mp hs
    cases k with
    | nil =>
      have hr : restOf (([], v) :: rest) = rest := by simp [isFin, restOf]
      refine ⟨by simp [isFin, finVal, restOf], by rw [hr]; exact hs'.2, ?_,
        by simp [isFin], Or.inr ⟨[], by simp [finVal]⟩⟩
      intro kv hkv
      have hkv' : kv ∈ rest := by simpa [isFin, restOf] using hkv
      refine ⟨?_, List.mem_cons_of_mem _ hkv'⟩
      intro h0
      have := hs'.1 kv hkv'
      rw [h0] at this
      simp [lexLt] at this
    | cons b k' =>
      have hr : restOf ((b :: k', v) :: rest) = (b :: k', v) :: rest := by simp [isFin, restOf]
      refine ⟨by simp [isFin, restOf], by rw [hr]; exact hs, ?_,
        by simp [finVal], Or.inl (by simp [finVal])⟩
      intro kv hkv
      have hkv' : kv ∈ (b :: k', v) :: rest := by simpa [isFin, restOf] using hkv
      refine ⟨?_, hkv'⟩
      rcases List.mem_cons.mp hkv' with rfl | hr
      · simp
      · intro h0
        have := hs'.1 kv hr
        rw [h0, lexLt_nil_right] at this
        cases this

theorem finVal_lt (kvs : KV) (hs : PSorted kvs) (hv : ∀ kv ∈ kvs, kv.2 < 2^64) :
    finVal kvs < 2^64 := by
  rcases (split_own kvs hs).2.2.2.2 with h | ⟨k, h⟩
  · rw [h]; decide
  · exact hv _ h

theorem denNodeWith_mk (d : Nat → KV) (f : Bool) (fo : Nat) (ts : List Tr) :
    denNodeWith d ⟨f, fo, ts⟩ =
      (if f then [([], fo)] else []) ++ ts.flatMap fun t => lift t.inp t.out (d t.addr) := by
  simp only [denNodeWith, own]

theorem sortedInputs_of_map {ts : List Tr} {gs : List (UInt8 × KV)}
    (h : ts.map (·.inp) = gs.map (·.1)) (hp : gs.Pairwise fun a b => a.1 < b.1) :
    ts.Pairwise fun a b => a.inp < b.inp := by
  have h1 : (gs.map (·.1)).Pairwise (· < ·) := by rw [List.pairwise_map]; exact hp
  rw [← h, List.pairwise_map] at h1
  exact h1

/-- `Enc::go`. On a good state, for a strictly sorted list with 64-bit values and keys no longer
than the fuel, `go` returns the address of a node that spells exactly that list. -/
theorem go_spec (style : Nat) : ∀ f : Nat, ChildSpec (go style f) f
  | 0 => by
    intro kvs e hinv hs hlen hval
    obtain ⟨s1, s2, s3, s4, _⟩ := split_own kvs hs
    have hrest : restOf kvs = [] := by
      apply List.eq_nil_iff_forall_not_mem.mpr
      intro kv hkv
      obtain ⟨h1, h2⟩ := s3 kv hkv
      have := hlen kv h2
      exact h1 (List.eq_nil_of_length_eq_zero (by omega))
    obtain ⟨a, e', heq, j1, j2, j3, j4, j5⟩ := emit_spec (n := ⟨isFin kvs, finVal kvs, []⟩) hinv
      ⟨List.Pairwise.nil, s4, ⟨finVal_lt kvs hs hval, fun t ht => by cases ht⟩,
        fun t ht => by cases ht⟩
    simp only [go, heq]
    refine ⟨j1, j2, j3, ?_, j5⟩
    simp only
    rw [j4, denNodeWith_mk, List.flatMap_nil, List.append_nil]
    rw [hrest, List.append_nil] at s1
    exact s1.symm
  | f+1 => by
    intro kvs e hinv hs hlen hval
    obtain ⟨s1, s2, s3, s4, _⟩ := split_own kvs hs
    obtain ⟨g1, g2, g3⟩ := groups_spec (restOf kvs) s2 (fun kv h => (s3 kv h).1)
    -- every entry of a group comes from `kvs` with one more leading byte
    have hgrp : ∀ g ∈ groups (restOf kvs), PSorted g.2 ∧
        ∀ kv ∈ g.2, kv.1.length ≤ f ∧ kv.2 < 2^64 := by
      intro g hg
      refine ⟨(g3 g hg).2, fun kv hkv => ?_⟩
      have hm := mem_ungroup hg hkv
      rw [g1] at hm
      have hm' := (s3 _ hm).2
      have := hlen _ hm'
      simp only [List.length_cons] at this
      exact ⟨by omega, hval (g.1 :: kv.1, kv.2) hm'⟩
    obtain ⟨ts, e1, heq, i1, i2, i3, i4, i5, i6⟩ :=
      goGroups_spec style (go style f) f (go_spec style f) (groups (restOf kvs)) e hinv hgrp
    obtain ⟨a, e', heq2, j1, j2, j3, j4, j5⟩ := emit_spec (n := ⟨isFin kvs, finVal kvs, ts⟩) i1
      ⟨sortedInputs_of_map i3 g2, s4,
        ⟨finVal_lt kvs hs hval, fun t ht => (i4 t ht).2⟩, fun t ht => (i4 t ht).1⟩
    simp only [go, heq, heq2]
    refine ⟨j1, i2.trans j2, j3, ?_, ?_⟩
    · simp only
      rw [j4, denNodeWith_mk, i5, g1]
      exact s1.symm
    · intro h0
      simp only at h0
      have he := j5 h0
      simp only at he ⊢
      rw [he]
      -- address 0 is the empty final node: no transitions, so no groups, so nothing was written
      have hn : isEmptyFinal ⟨isFin kvs, finVal kvs, ts⟩ = true := by
        rcases Bool.eq_false_or_eq_true (isEmptyFinal ⟨isFin kvs, finVal kvs, ts⟩) with hn | hne'
        · exact hn
        exfalso
        unfold emit at heq2
        rw [hne'] at heq2
        simp only [Bool.false_eq_true, if_false] at heq2
        have h16 := EmOK_count_ge i1.ok
        split at heq2
        · rename_i a' hm
          have hget : memoGet e1.memo ⟨isFin kvs, finVal kvs, ts⟩ = some a' := by
            split at hm
            · exact hm
            · cases hm
          obtain ⟨x, hx, _, rfl⟩ := memoGet_some hget
          have := (EmOK_addr i1.ok _ (i1.memo x hx)).1
          simp only [Prod.mk.injEq] at heq2
          simp only at this
          omega
        · simp only [Prod.mk.injEq] at heq2
          omega
      have hts : ts = [] := by
        simp only [isEmptyFinal, Bool.and_eq_true, List.isEmpty_iff] at hn
        exact hn.1.2
      have hgs : groups (restOf kvs) = [] := by
        rw [hts] at i3
        simpa using i3.symm
      exact i6 hgs

theorem le_maxKeyLen (kvs : KV) : ∀ kv ∈ kvs, kv.1.length ≤ maxKeyLen kvs := fun kv h =>
  foldl_max_ge_mem (fun kv : Key × Nat => kv.1.length) kvs 0 kv h

theorem EInv_init (version : Nat) (share : Bool) : EInv { version, share } :=
  ⟨⟨rfl, rfl⟩, fun x hx => by cases hx⟩

/-- THE WHOLE RUN. For a strictly sorted list with 64-bit values, the reference encoder ends
in a good state, and the root address spells exactly the list; root address 0 means that
nothing was written. -/
theorem encode_spec (version : Nat) (kvs : KV) (style : Nat) (share : Bool)
    (hs : SortedKV kvs) (hval : ∀ kv ∈ kvs, kv.2 < 2^64) :
    let r := encodeState version kvs style share
    EInv r.2 ∧ r.2.version = version ∧ AddrOK r.2 r.1 ∧ denE r.2.emits r.1 = kvs ∧
      (r.1 = 0 → r.2.emits = []) := by
  intro r
  obtain ⟨h1, h2, h3, h4, h5⟩ := go_spec style (maxKeyLen kvs) kvs { version, share }
    (EInv_init version share) hs.pSorted (le_maxKeyLen kvs) hval
  refine ⟨h1, h2.version, h3, h4, fun h0 => ?_⟩
  have := h5 h0
  show (encodeState version kvs style share).2.emits = []
  unfold encodeState
  rw [this]

/-- the hypotheses of `encode_spec` are satisfiable, and the run really writes nodes: four keys
with equal sub-tries give two written nodes with sharing and three without -/
example : SortedKV [([97], 1), ([97, 98], 2), ([98], 7), ([98, 98], 8)] ∧
    (∀ kv ∈ [([97], 1), ([97, 98], 2), ([98], 7), ([98, 98], 8)], kv.2 < 2^64) ∧
    (encodeState 1 [([97], 1), ([97, 98], 2), ([98], 7), ([98, 98], 8)] 1 true).2.emits.length = 2 ∧
    (encodeState 1 [([97], 1), ([97, 98], 2), ([98], 7), ([98, 98], 8)] 1 false).2.emits.length = 3 := by
  refine ⟨by simp only [SortedKV]; decide, by decide, by decide +kernel, by decide +kernel⟩

/-! ### the bytes are laid out consecutively -/

theorem laidV_append (v : Nat) : ∀ (A B : List Em) (start : Nat),
    LaidV v start (A ++ B) ↔ LaidV v start A ∧ LaidV v (start + (A.flatMap (·.2.2)).length) B
  | [], B, start => by simp [LaidV]
  | x :: A, B, start => by
    simp only [List.cons_append, LaidV, laidV_append v A B, List.flatMap_cons, List.length_append]
    rw [Nat.add_assoc]
    constructor
    · rintro ⟨h1, h2, h3, h4⟩; exact ⟨⟨h1, h2, h3⟩, h4⟩
    · rintro ⟨⟨h1, h2, h3⟩, h4⟩; exact ⟨h1, h2, h3, h4⟩

theorem emOK_len {v : Nat} : ∀ {es : List Em} {c l : Nat}, EmOK v es c l →
    16 + (es.reverse.flatMap (·.2.2)).length = c
  | [], c, l, h => by simp only [EmOK] at h; simp [h.1]
  | x :: es, c, l, h => by
    obtain ⟨c0, l0, h0, _, _, _, hcc, _⟩ := h
    have := emOK_len h0
    rw [List.reverse_cons, List.flatMap_append, List.length_append]
    simp only [List.flatMap_cons, List.flatMap_nil, List.append_nil]; omega

/-- LAYOUT. The nodes of a good state, oldest first, are laid out consecutively from byte 16,
each one well-formed and encoded by `compileNodeV`, provided the node region ends below `2^64`. -/
theorem emOK_laid {v : Nat} : ∀ {es : List Em} {c l : Nat}, EmOK v es c l → c ≤ 2^64 →
    LaidV v 16 es.reverse
  | [], c, l, h, _ => trivial
  | x :: es, c, l, h, hc => by
    obtain ⟨c0, l0, h0, henc, h1, ha, hcc, _, hs, hef, hff, hout, ht⟩ := h
    have ih1 := emOK_laid h0 (by omega)
    have ih2 := emOK_len h0
    have h16 := EmOK_count_ge h0
    have wf : WFNode x.2.1 l0 c0 :=
      { ntrans := sortedInputs_length hs
        sorted := hs
        targets := fun t htm => Or.inr (ht t htm).1
        outs := hout
        small := by omega
        pos := by omega
        notEmpty := hef
        finOut := hff
        next := by
          rcases EmOK_last h0 with hl | hl
          · exact Or.inl hl
          · right
            intro t htm
            have := (ht t htm).1
            rw [hl]; simp only [NO_LAST]; omega }
    rw [List.reverse_cons, laidV_append, ih2]
    exact ⟨ih1, ⟨l0, wf, henc⟩, ha, trivial⟩

end OldVer
end Fst
