import FstVerif.Model.Wrappers
import FstVerif.Proofs.Seek
import FstVerif.Proofs.Ops
/-
The public wrapper layer (`src/map.rs`, `src/set.rs`, model in `Model/Wrappers.lean`)
transfers the theorems about the raw layer to user-level statements:

1. range / search queries of `Map` and `Set` (`mapRange_correct`, `setRange_correct`,
   `mapSearch_correct`, `setSearch_correct`, with-state variants, `Map::stream/keys/values`);
2. `Keys` / `Values` / collectors are the two projections of `Stream` (`keys_values_zip` …);
3. the range setters: last setter of a side wins, different sides commute;
4. `set::OpBuilder` operations in terms of key lists only;
5. `Set::is_disjoint / is_subset / is_superset`;
6. `map::OpBuilder` operations are the raw ones (`mapOp_eq`, `mapOp_union` …).
-/
namespace Fst.Wrap
open Fst Fst.Ops

variable {N σ : Type}

/-! ## 2. projections and collectors -/

theorem foldl_push {α β : Type} (f : α → β) (l : List α) (init : List β) :
    l.foldl (fun vs x => vs ++ [f x]) init = init ++ l.map f := by
  induction l generalizing init with
  | nil => simp
  | cons a t ih => simp [ih]

/-- `map::Stream` yields the raw items unchanged (`Output::value` is the identity) -/
@[simp] theorem mapStream_eq (raw : List (Key × Nat)) : mapStream raw = raw := by
  simp [mapStream]

@[simp] theorem mapStreamWithState_eq (items : List (Key × Nat × σ)) :
    mapStreamWithState items = items := by
  simp [mapStreamWithState]

theorem mapKeys_eq (raw : List (Key × Nat)) : mapKeys raw = raw.map (·.1) := rfl
theorem mapValues_eq (raw : List (Key × Nat)) : mapValues raw = raw.map (·.2) := rfl
theorem setStream_eq (raw : List (Key × Nat)) : setStream raw = raw.map (·.1) := rfl

/-- `into_byte_vec` collects exactly the items of the stream, in order -/
theorem intoByteVec_eq (raw : List (Key × Nat)) : intoByteVec raw = mapStream raw := by
  simp [intoByteVec, rawIntoByteVec, foldl_push (fun kv : Key × Nat => (kv.1, kv.2))]

/-- `into_byte_keys` collects exactly the items of `Keys` -/
theorem intoByteKeys_eq (raw : List (Key × Nat)) : intoByteKeys raw = mapKeys raw := by
  simp [intoByteKeys, rawIntoByteKeys, mapKeys, foldl_push (fun kv : Key × Nat => kv.1)]

/-- `into_values` collects exactly the items of `Values` -/
theorem intoValues_eq (raw : List (Key × Nat)) : intoValues raw = mapValues raw := by
  simp [intoValues, rawIntoValues, mapValues, foldl_push (fun kv : Key × Nat => kv.2)]

/-- `set::Stream::into_bytes` collects exactly the items of the set stream -/
theorem intoBytes_eq (raw : List (Key × Nat)) : intoBytes raw = setStream raw := by
  simp [intoBytes, rawIntoByteKeys, setStream, foldl_push (fun kv : Key × Nat => kv.1)]

/-- `Keys` and `Values` are the two halves of `Stream`: zipping them gives the stream back -/
theorem keys_values_zip (raw : List (Key × Nat)) :
    (mapKeys raw).zip (mapValues raw) = mapStream raw ∧
    (mapKeys raw).length = (mapStream raw).length ∧
    (mapValues raw).length = (mapStream raw).length := by
  refine ⟨?_, by simp [mapKeys], by simp [mapValues]⟩
  rw [mapStream_eq]
  induction raw with
  | nil => rfl
  | cons a t ih => simpa [mapKeys, mapValues] using ih

/-- the same for the collectors -/
theorem intoByteKeys_intoValues_zip (raw : List (Key × Nat)) :
    (intoByteKeys raw).zip (intoValues raw) = intoByteVec raw ∧
    (intoByteKeys raw).length = (intoByteVec raw).length ∧
    (intoValues raw).length = (intoByteVec raw).length := by
  rw [intoByteKeys_eq, intoValues_eq, intoByteVec_eq]
  exact keys_values_zip raw

/-- the set stream is the key half of the map stream over the same FST -/
theorem setStream_eq_mapKeys (raw : List (Key × Nat)) : setStream raw = mapKeys raw := rfl

/-- the with-state streams forget to the plain ones -/
theorem mapStreamWithState_forget (items : List (Key × Nat × σ)) :
    (mapStreamWithState items).map (fun x => (x.1, x.2.1)) = mapStream (rawStream items) := by
  simp [rawStream]

theorem setStreamWithState_forget (items : List (Key × Nat × σ)) :
    (setStreamWithState items).map (·.1) = setStream (rawStream items) := by
  simp [setStreamWithState, setStream, rawStream]

example : mapKeys [([1], 7), ([1, 2], 0), ([3], 7)] = [[1], [1, 2], [3]] ∧
    mapValues [([1], 7), ([1, 2], 0), ([3], 7)] = [7, 0, 7] ∧
    intoByteVec [([1], 7), ([1, 2], 0), ([3], 7)] = [([1], 7), ([1, 2], 0), ([3], 7)] ∧
    intoBytes [([1], 7), ([1, 2], 0), ([3], 7)] = [[1], [1, 2], [3]] := by decide

/-! ## 3. the range setters -/

/-- last setter of the lower bound wins -/
theorem ge_ge (rs : RangeSpec) (a b : Key) : (rs.ge a).ge b = rs.ge b := rfl
theorem gt_ge (rs : RangeSpec) (a b : Key) : (rs.gt a).ge b = rs.ge b := rfl
theorem ge_gt (rs : RangeSpec) (a b : Key) : (rs.ge a).gt b = rs.gt b := rfl
theorem gt_gt (rs : RangeSpec) (a b : Key) : (rs.gt a).gt b = rs.gt b := rfl
/-- last setter of the upper bound wins -/
theorem le_le (rs : RangeSpec) (a b : Key) : (rs.le a).le b = rs.le b := rfl
theorem lt_le (rs : RangeSpec) (a b : Key) : (rs.lt a).le b = rs.le b := rfl
theorem le_lt (rs : RangeSpec) (a b : Key) : (rs.le a).lt b = rs.lt b := rfl
theorem lt_lt (rs : RangeSpec) (a b : Key) : (rs.lt a).lt b = rs.lt b := rfl
/-- setters of different sides commute -/
theorem ge_le_comm (rs : RangeSpec) (a b : Key) : (rs.ge a).le b = (rs.le b).ge a := rfl
theorem ge_lt_comm (rs : RangeSpec) (a b : Key) : (rs.ge a).lt b = (rs.lt b).ge a := rfl
theorem gt_le_comm (rs : RangeSpec) (a b : Key) : (rs.gt a).le b = (rs.le b).gt a := rfl
theorem gt_lt_comm (rs : RangeSpec) (a b : Key) : (rs.gt a).lt b = (rs.lt b).gt a := rfl

/-- one call of a `StreamBuilder` setter -/
inductive Setter
  | ge (k : Key) | gt (k : Key) | le (k : Key) | lt (k : Key)

def Setter.apply (rs : RangeSpec) : Setter → RangeSpec
  | .ge k => rs.ge k
  | .gt k => rs.gt k
  | .le k => rs.le k
  | .lt k => rs.lt k

/-- `range().s₁(..).s₂(..)…` -/
def applySetters (l : List Setter) : RangeSpec := l.foldl Setter.apply {}

/-- every `RangeSpec` is the result of at most two setter calls on `range()`, so a statement
"for every `rs : RangeSpec`" is a statement about every chain of setter calls (and conversely
every chain gives some `RangeSpec`) -/
theorem rangeSpec_reachable (rs : RangeSpec) : ∃ l : List Setter, applySetters l = rs := by
  obtain ⟨mn, mx⟩ := rs
  cases mn with
  | included a =>
    cases mx with
    | included b => exact ⟨[.ge a, .le b], rfl⟩
    | excluded b => exact ⟨[.ge a, .lt b], rfl⟩
    | unbounded => exact ⟨[.ge a], rfl⟩
  | excluded a =>
    cases mx with
    | included b => exact ⟨[.gt a, .le b], rfl⟩
    | excluded b => exact ⟨[.gt a, .lt b], rfl⟩
    | unbounded => exact ⟨[.gt a], rfl⟩
  | unbounded =>
    cases mx with
    | included b => exact ⟨[.le b], rfl⟩
    | excluded b => exact ⟨[.lt b], rfl⟩
    | unbounded => exact ⟨[], rfl⟩

/-- a key is inside the range described by a `RangeSpec` -/
def inRange (rs : RangeSpec) (k : Key) : Bool := lowerOK rs.min k && upperOK rs.max k

/-- what the setters mean for `inRange`: `ge a` = "`a ≤ k`", `gt a` = "`a < k`",
`le b` = "`k ≤ b`", `lt b` = "`k < b`", no setter = no constraint -/
theorem inRange_default (k : Key) : inRange {} k = true := rfl
theorem inRange_ge (rs : RangeSpec) (a k : Key) :
    inRange (rs.ge a) k = (lexLe a k && upperOK rs.max k) := rfl
theorem inRange_gt (rs : RangeSpec) (a k : Key) :
    inRange (rs.gt a) k = (lexLt a k && upperOK rs.max k) := rfl
theorem inRange_le (rs : RangeSpec) (b k : Key) :
    inRange (rs.le b) k = (lowerOK rs.min k && lexLe k b) := rfl
theorem inRange_lt (rs : RangeSpec) (b k : Key) :
    inRange (rs.lt b) k = (lowerOK rs.min k && lexLt k b) := by
  simp [inRange, upperOK, RangeSpec.lt, Bound.exceededBy]

example : applySetters [.ge [1], .lt [9], .gt [2], .le [7, 7]] = (({} : RangeSpec).gt [2]).le [7, 7] := rfl
example : inRange (applySetters [.ge [1], .lt [9], .gt [2], .le [7, 7]]) [2] = false ∧
    inRange (applySetters [.ge [1], .lt [9], .gt [2], .le [7, 7]]) [2, 0] = true ∧
    inRange (applySetters [.ge [1], .lt [9], .gt [2], .le [7, 7]]) [7, 7] = true ∧
    inRange (applySetters [.ge [1], .lt [9], .gt [2], .le [7, 7]]) [8] = false := by decide


/-! ## 1. range and search queries -/

section Queries
open Fst.StreamExample Fst.StreamP

variable {acc : NodeAccess N} {A : Aut σ} {s : Store} {den : Nat → KV}

/-- the raw stream behind every query: never panics and yields the in-range accepted entries
(`stream_correct` with `streamNew` and `streamCollect` composed) -/
theorem rawQuery_correct (hg : GoodStore s den) (hr : Represents acc s) (root : Nat)
    (hroot : root = 0 ∨ ∃ n, (root, n) ∈ s)
    (hEof : ∀ x, A.acceptEof x = none)
    (hCan : ∀ x, A.canMatch x = false → ∀ w, A.isMatch (A.run x w) = false)
    (rs : RangeSpec) :
    ∃ N, ∀ fuel, N ≤ fuel → rawQuery acc A root rs fuel =
      some (((den root).filter fun kv => inRange rs kv.1 && A.accepts kv.1).map
        fun kv => (kv.1, kv.2, A.run A.start kv.1)) := by
  obtain ⟨s0, h0, N0, hN⟩ := stream_correct hg hr root hroot hEof hCan rs.min rs.max
  refine ⟨N0, fun fuel hf => ?_⟩
  simp only [rawQuery, h0, hN fuel hf]
  rfl

theorem rawStream_triples (l : KV) (f : Key → σ) :
    rawStream (l.map fun kv => (kv.1, kv.2, f kv.1)) = l := by
  induction l with
  | nil => rfl
  | cons a t ih => simp only [rawStream, List.map_cons, List.map_map] at ih ⊢; rw [ih]

theorem filter_const_true {α : Type} (l : List α) : l.filter (fun _ => true) = l := by
  induction l with
  | nil => rfl
  | cons a t ih => simp [ih]

/-- `map.search(aut).ge(..)…into_stream()` yields exactly the entries of the map that are in the
range and accepted by the automaton, in key order, and then ends (for every automaton obeying
the `can_match` contract, every chain of setters) -/
theorem mapSearch_correct (hg : GoodStore s den) (hr : Represents acc s) (root : Nat)
    (hroot : root = 0 ∨ ∃ n, (root, n) ∈ s)
    (hEof : ∀ x, A.acceptEof x = none)
    (hCan : ∀ x, A.canMatch x = false → ∀ w, A.isMatch (A.run x w) = false)
    (rs : RangeSpec) :
    ∃ N, ∀ fuel, N ≤ fuel → mapSearch acc A root rs fuel =
      some ((den root).filter fun kv =>
        lowerOK rs.min kv.1 && upperOK rs.max kv.1 && A.accepts kv.1) := by
  obtain ⟨N0, hN⟩ := rawQuery_correct hg hr root hroot hEof hCan rs
  refine ⟨N0, fun fuel hf => ?_⟩
  simp only [mapSearch, hN fuel hf, Option.map_some, rawStream_triples, mapStream_eq]
  rfl

/-- `map.search_with_state(aut)…`: additionally each entry carries the automaton state after its key -/
theorem mapSearchWithState_correct (hg : GoodStore s den) (hr : Represents acc s) (root : Nat)
    (hroot : root = 0 ∨ ∃ n, (root, n) ∈ s)
    (hEof : ∀ x, A.acceptEof x = none)
    (hCan : ∀ x, A.canMatch x = false → ∀ w, A.isMatch (A.run x w) = false)
    (rs : RangeSpec) :
    ∃ N, ∀ fuel, N ≤ fuel → mapSearchWithState acc A root rs fuel =
      some (((den root).filter fun kv =>
        lowerOK rs.min kv.1 && upperOK rs.max kv.1 && A.accepts kv.1).map
          fun kv => (kv.1, kv.2, A.run A.start kv.1)) := by
  obtain ⟨N0, hN⟩ := rawQuery_correct hg hr root hroot hEof hCan rs
  refine ⟨N0, fun fuel hf => ?_⟩
  simp only [mapSearchWithState, hN fuel hf, Option.map_some, mapStreamWithState_eq]
  rfl

/-- `set.search(aut)…`: the keys of `mapSearch_correct` -/
theorem setSearch_correct (hg : GoodStore s den) (hr : Represents acc s) (root : Nat)
    (hroot : root = 0 ∨ ∃ n, (root, n) ∈ s)
    (hEof : ∀ x, A.acceptEof x = none)
    (hCan : ∀ x, A.canMatch x = false → ∀ w, A.isMatch (A.run x w) = false)
    (rs : RangeSpec) :
    ∃ N, ∀ fuel, N ≤ fuel → setSearch acc A root rs fuel =
      some (((den root).filter fun kv =>
        lowerOK rs.min kv.1 && upperOK rs.max kv.1 && A.accepts kv.1).map (·.1)) := by
  obtain ⟨N0, hN⟩ := rawQuery_correct hg hr root hroot hEof hCan rs
  refine ⟨N0, fun fuel hf => ?_⟩
  simp only [setSearch, hN fuel hf, Option.map_some, rawStream_triples, setStream_eq]
  rfl

/-- `set.search_with_state(aut)…`: keys with the automaton state after the key -/
theorem setSearchWithState_correct (hg : GoodStore s den) (hr : Represents acc s) (root : Nat)
    (hroot : root = 0 ∨ ∃ n, (root, n) ∈ s)
    (hEof : ∀ x, A.acceptEof x = none)
    (hCan : ∀ x, A.canMatch x = false → ∀ w, A.isMatch (A.run x w) = false)
    (rs : RangeSpec) :
    ∃ N, ∀ fuel, N ≤ fuel → setSearchWithState acc A root rs fuel =
      some (((den root).filter fun kv =>
        lowerOK rs.min kv.1 && upperOK rs.max kv.1 && A.accepts kv.1).map
          fun kv => (kv.1, A.run A.start kv.1)) := by
  obtain ⟨N0, hN⟩ := rawQuery_correct hg hr root hroot hEof hCan rs
  refine ⟨N0, fun fuel hf => ?_⟩
  simp only [setSearchWithState, hN fuel hf, Option.map_some, setStreamWithState, List.map_map]
  rfl

/-- `map.range().ge(..)…into_stream()`: exactly the entries of the map inside the range, in key
order — for every `RangeSpec`, i.e. (by `rangeSpec_reachable`) every chain of setter calls -/
theorem mapRange_correct (hg : GoodStore s den) (hr : Represents acc s) (root : Nat)
    (hroot : root = 0 ∨ ∃ n, (root, n) ∈ s) (rs : RangeSpec) :
    ∃ N, ∀ fuel, N ≤ fuel → mapRange acc root rs fuel =
      some ((den root).filter fun kv => lowerOK rs.min kv.1 && upperOK rs.max kv.1) := by
  have := mapSearch_correct (A := autAlways) hg hr root hroot
    autAlways_contract.1 autAlways_contract.2 rs
  simpa [mapRange, Aut.accepts, autAlways] using this

/-- `set.range()…into_stream()`: the keys of `mapRange_correct` -/
theorem setRange_correct (hg : GoodStore s den) (hr : Represents acc s) (root : Nat)
    (hroot : root = 0 ∨ ∃ n, (root, n) ∈ s) (rs : RangeSpec) :
    ∃ N, ∀ fuel, N ≤ fuel → setRange acc root rs fuel =
      some (((den root).filter fun kv => lowerOK rs.min kv.1 && upperOK rs.max kv.1).map (·.1)) := by
  have := setSearch_correct (A := autAlways) hg hr root hroot
    autAlways_contract.1 autAlways_contract.2 rs
  simpa [setRange, Aut.accepts, autAlways] using this

/-- the same, spelled with an explicit chain of setter calls -/
theorem mapRange_correct_setters (hg : GoodStore s den) (hr : Represents acc s) (root : Nat)
    (hroot : root = 0 ∨ ∃ n, (root, n) ∈ s) (l : List Setter) :
    ∃ N, ∀ fuel, N ≤ fuel → mapRange acc root (applySetters l) fuel =
      some ((den root).filter fun kv => inRange (applySetters l) kv.1) :=
  mapRange_correct hg hr root hroot (applySetters l)

/-- `Map::stream()`: all entries -/
theorem mapAll_correct (hg : GoodStore s den) (hr : Represents acc s) (root : Nat)
    (hroot : root = 0 ∨ ∃ n, (root, n) ∈ s) :
    ∃ N, ∀ fuel, N ≤ fuel → mapAll acc root fuel = some (den root) := by
  have := mapRange_correct hg hr root hroot {}
  simpa [mapAll, lowerOK, upperOK, Bound.exceededBy, filter_const_true] using this

/-- `Set::stream()`: all keys -/
theorem setAll_correct (hg : GoodStore s den) (hr : Represents acc s) (root : Nat)
    (hroot : root = 0 ∨ ∃ n, (root, n) ∈ s) :
    ∃ N, ∀ fuel, N ≤ fuel → setAll acc root fuel = some ((den root).map (·.1)) := by
  have := setRange_correct hg hr root hroot {}
  simpa [setAll, lowerOK, upperOK, Bound.exceededBy, filter_const_true] using this

/-- `Map::keys()` / `Map::values()`: the two projections of `Map::stream()` -/
theorem mapAllKeys_values_correct (hg : GoodStore s den) (hr : Represents acc s) (root : Nat)
    (hroot : root = 0 ∨ ∃ n, (root, n) ∈ s) :
    ∃ N, ∀ fuel, N ≤ fuel → mapAllKeys acc root fuel = some ((den root).map (·.1)) ∧
      mapAllValues acc root fuel = some ((den root).map (·.2)) := by
  obtain ⟨N0, hN⟩ := rawQuery_correct (A := autAlways) hg hr root hroot
    autAlways_contract.1 autAlways_contract.2 {}
  refine ⟨N0, fun fuel hf => ?_⟩
  simp only [mapAllKeys, mapAllValues, hN fuel hf, Option.map_some, rawStream_triples]
  simp [mapKeys, mapValues, inRange, lowerOK, upperOK, Bound.exceededBy, Aut.accepts, autAlways,
    filter_const_true]

/-- the result of a range query over a set is strictly ascending -/
theorem setRange_sorted (hg : GoodStore s den) (root : Nat)
    (hroot : root = 0 ∨ ∃ n, (root, n) ∈ s) (rs : RangeSpec) :
    SortedK (((den root).filter fun kv => lowerOK rs.min kv.1 && upperOK rs.max kv.1).map (·.1)) := by
  unfold SortedK
  rw [List.pairwise_map]
  exact (den_asc hg root hroot).filter _

/-! the hypotheses are satisfiable: the store of `Proofs/Stream.lean` (keys `a ↦ 1`, `ab ↦ 2`,
`b ↦ 3`, root 5) -/

example : ∃ N, ∀ fuel, N ≤ fuel →
    mapRange (storeAccess exStore) 5 ((({} : RangeSpec).ge [97]).gt [97]) fuel =
      some [([97, 98], 2), ([98], 3)] :=
  mapRange_correct exGood (storeAccess_represents exStore) 5 exRoot _
example : ∃ N, ∀ fuel, N ≤ fuel →
    setRange (storeAccess exStore) 5 (applySetters [.lt [98], .ge [97]]) fuel = some [[97], [97, 98]] :=
  setRange_correct exGood (storeAccess_represents exStore) 5 exRoot _
example : ∃ N, ∀ fuel, N ≤ fuel →
    mapSearchWithState (storeAccess exStore) (autStr [97, 98]) 5 {} fuel = some [([97, 98], 2, some 2)] :=
  mapSearchWithState_correct exGood (storeAccess_represents exStore) 5 exRoot
    (autStr_contract [97, 98]).1 (autStr_contract [97, 98]).2 {}
example : ∃ N, ∀ fuel, N ≤ fuel →
    setSearchWithState (storeAccess exStore) (autStr [97, 98]) 5 (({} : RangeSpec).le [98]) fuel =
      some [([97, 98], some 2)] :=
  setSearchWithState_correct exGood (storeAccess_represents exStore) 5 exRoot
    (autStr_contract [97, 98]).1 (autStr_contract [97, 98]).2 _
/-- the model computes these values -/
example : mapRange (storeAccess exStore) 5 ((({} : RangeSpec).ge [97]).gt [97]) 20 =
      some [([97, 98], 2), ([98], 3)] ∧
    setRange (storeAccess exStore) 5 (applySetters [.lt [98], .ge [97]]) 20 = some [[97], [97, 98]] ∧
    mapSearchWithState (storeAccess exStore) (autStr [97, 98]) 5 {} 20 = some [([97, 98], 2, some 2)] ∧
    mapAllKeys (storeAccess exStore) 5 20 = some [[97], [97, 98], [98]] ∧
    mapAllValues (storeAccess exStore) 5 20 = some [1, 2, 3] := by decide

end Queries

/-! ## `StreamOutput` / `StreamZeroOutput` and the vocabulary of `Proofs/Ops.lean` -/

/-- `StreamOutput` changes nothing (`Output::new` is the identity in the model) -/
@[simp] theorem withOutput_eq (l : KV) : withOutput l = l := by
  simp [withOutput]

@[simp] theorem map_withOutput (streams : List KV) : streams.map withOutput = streams := by
  induction streams with
  | nil => rfl
  | cons a t ih => simp [ih]

@[simp] theorem keys_zeroOutput (l : List Key) : (zeroOutput l).map (·.1) = l := by
  induction l with
  | nil => rfl
  | cons a t ih => simp only [zeroOutput, List.map_cons, List.map_map] at ih ⊢; rw [ih]

theorem values_zeroOutput (l : List Key) : ∀ kv ∈ zeroOutput l, kv.2 = 0 := by
  intro kv h
  simp only [zeroOutput, List.mem_map] at h
  obtain ⟨k, -, rfl⟩ := h
  rfl

theorem sortedKV_zeroOutput (l : List Key) : SortedKV (zeroOutput l) ↔ SortedK l := by
  rw [sortedKV_iff]
  unfold SortedL SortedK zeroOutput
  rw [List.pairwise_map]

theorem keyOf_zeroOutput (l : List Key) (k : Key) : KeyOf (zeroOutput l) k ↔ k ∈ l := by
  rw [keyOf_iff_mem, keys_zeroOutput]

theorem hasKey_zeroOutput (streams : List (List Key)) (k : Key) :
    HasKey (streams.map zeroOutput) k ↔ ∃ l ∈ streams, k ∈ l := by
  unfold HasKey
  constructor
  · rintro ⟨l', hl', hv⟩
    obtain ⟨l, hl, rfl⟩ := List.mem_map.1 hl'
    exact ⟨l, hl, (keyOf_zeroOutput l k).1 hv⟩
  · rintro ⟨l, hl, hk⟩
    exact ⟨zeroOutput l, List.mem_map_of_mem hl, (keyOf_zeroOutput l k).2 hk⟩

theorem sorted_zeroStreams {streams : List (List Key)} (hs : ∀ l ∈ streams, SortedK l) :
    ∀ l ∈ streams.map zeroOutput, SortedKV l := by
  intro l' hl'
  obtain ⟨l, hl, rfl⟩ := List.mem_map.1 hl'
  exact (sortedKV_zeroOutput l).2 (hs l hl)

theorem filter_eq_length {l : List Key} (hn : l.Nodup) (k : Key) :
    (l.filter (· == k)).length = if k ∈ l then 1 else 0 := by
  rw [← List.count_eq_length_filter, hn.count]

/-- over zero-output streams, the number of occurrences of a key is the number of streams
containing it -/
theorem occ_zero_length {streams : List (List Key)} (hs : ∀ l ∈ streams, SortedK l) (k : Key) :
    (occ (streams.map zeroOutput) k).length = (streams.filter (k ∈ ·)).length := by
  have h := congrArg List.length (occ_values (streams.map zeroOutput) k)
  rw [List.length_map] at h
  rw [h]
  clear h
  induction streams with
  | nil => rfl
  | cons l t ih =>
    have ih := ih fun x hx => hs x (List.mem_cons_of_mem _ hx)
    have hl : (((zeroOutput l).filter (·.1 == k)).map (·.2)).length = if k ∈ l then 1 else 0 := by
      rw [List.length_map, ← filter_eq_length (nodup_of_sortedK (hs l (List.mem_cons_self ..))) k]
      simp only [zeroOutput, List.filter_map, List.length_map]
      rfl
    simp only [List.map_cons, List.flatMap_cons, List.length_append, hl, ih, List.filter_cons]
    by_cases hk : k ∈ l <;> simp [hk] <;> omega

/-! ## 6. `map::OpBuilder`: the raw operations, unchanged -/

/-- `map::OpBuilder` is `raw::OpBuilder` -/
theorem mapOp_eq (pop : PopFn) (kind : OpKind) (streams : List KV) :
    mapOp pop kind streams = opCollect pop kind streams := by
  simp [mapOp]

theorem mapOp_union (pop : PopFn) (hp : PopSpec pop) (streams : List KV) (hs : ∀ l ∈ streams, SortedKV l) :
    ∃ out, mapOp pop .union streams = some out ∧ out.map (·.1) = allKeys streams ∧
      ∀ k outs, (k, outs) ∈ out → outs.Perm (occ streams k) := by
  rw [mapOp_eq]; exact C05_union pop hp streams hs

theorem mapOp_inter (pop : PopFn) (hp : PopSpec pop) (streams : List KV) (hs : ∀ l ∈ streams, SortedKV l) :
    ∃ out, mapOp pop .intersection streams = some out ∧
      out.map (·.1) = (allKeys streams).filter (fun k => decide ((occ streams k).length = streams.length)) ∧
      ∀ k outs, (k, outs) ∈ out → outs.Perm (occ streams k) := by
  rw [mapOp_eq]; exact C05_inter pop hp streams hs

theorem mapOp_symdiff (pop : PopFn) (hp : PopSpec pop) (streams : List KV) (hs : ∀ l ∈ streams, SortedKV l) :
    ∃ out, mapOp pop .symmetricDifference streams = some out ∧
      out.map (·.1) = (allKeys streams).filter (fun k => decide ((occ streams k).length % 2 = 1)) ∧
      ∀ k outs, (k, outs) ∈ out → outs.Perm (occ streams k) := by
  rw [mapOp_eq]; exact C05_symdiff pop hp streams hs

theorem mapOp_diff (pop : PopFn) (hp : PopSpec pop) (streams : List KV) (hne : streams ≠ [])
    (hs : ∀ l ∈ streams, SortedKV l) :
    mapOp pop .difference streams =
      some (((streams.head hne).filter (fun kv => !hasKeyB streams.tail kv.1)).map
        (fun kv => (kv.1, [⟨0, kv.2⟩]))) := by
  rw [mapOp_eq]; exact C05_diff pop hp streams hne hs

/-- `OpBuilder::new().difference()` with no stream panics (`swap_remove(0)`) -/
theorem mapOp_diff_empty (pop : PopFn) : mapOp pop .difference [] = none := rfl

example : mapOp popMin .union exStreams = some
    [([], [⟨2, 1⟩, ⟨0, 1⟩]), ([1], [⟨0, 2⟩, ⟨3, 2⟩, ⟨2, 7⟩]), ([1, 2], [⟨0, 3⟩, ⟨3, 9⟩]),
     ([2], [⟨2, 5⟩]), ([3], [⟨3, 0⟩, ⟨0, 4⟩]), ([5], [⟨0, 6⟩])] := by decide
example : ∃ out, mapOp popMin .symmetricDifference exStreams = some out ∧
    out.map (·.1) = (allKeys exStreams).filter (fun k => decide ((occ exStreams k).length % 2 = 1)) ∧
    ∀ k outs, (k, outs) ∈ out → outs.Perm (occ exStreams k) :=
  mapOp_symdiff popMin popSpec_popMin exStreams exStreams_sorted

/-! ## 4. `set::OpBuilder`: the operations on key lists -/

theorem setOp_eq (pop : PopFn) (kind : OpKind) (streams : List (List Key)) :
    setOp pop kind streams =
      (opCollect pop kind (streams.map zeroOutput)).map fun items => items.map (·.1) := rfl

/-- all keys of all streams, ascending, each once — defined from the key lists only -/
def unionKeys (streams : List (List Key)) : List Key := streams.flatten.foldr insertKey []

/-- the keys of all streams (of at least one stream) that are in every stream -/
def interKeys (streams : List (List Key)) : List Key :=
  (unionKeys streams).filter fun k => streams.all fun l => decide (k ∈ l)

/-- the keys that are in an odd number of the streams -/
def symDiffKeys (streams : List (List Key)) : List Key :=
  (unionKeys streams).filter fun k => decide ((streams.filter (k ∈ ·)).length % 2 = 1)

/-- the keys of the first stream that are in none of the others -/
def diffKeys (first : List Key) (rest : List (List Key)) : List Key :=
  first.filter fun k => !rest.any fun l => decide (k ∈ l)

theorem allKeys_zeroOutput (streams : List (List Key)) :
    allKeys (streams.map zeroOutput) = unionKeys streams := by
  unfold allKeys unionKeys
  congr 1
  rw [List.map_flatten, List.map_map]
  congr 1
  induction streams with
  | nil => rfl
  | cons a t ih => simp [ih]

theorem sorted_unionKeys (streams : List (List Key)) : SortedK (unionKeys streams) := by
  rw [← allKeys_zeroOutput]; exact sorted_allKeys _

theorem mem_unionKeys (streams : List (List Key)) (k : Key) :
    k ∈ unionKeys streams ↔ ∃ l ∈ streams, k ∈ l := by
  rw [← allKeys_zeroOutput, mem_allKeys, hasKey_zeroOutput]

theorem sorted_interKeys (streams : List (List Key)) : SortedK (interKeys streams) :=
  (sorted_unionKeys streams).filter _

/-- membership in `interKeys`; for the empty list of streams the right-hand side is false
(there is no stream to take the key from), see `mem_interKeys_of_ne` and `setOp_inter_nil` -/
theorem mem_interKeys (streams : List (List Key)) (k : Key) :
    k ∈ interKeys streams ↔ (∃ l ∈ streams, k ∈ l) ∧ ∀ l ∈ streams, k ∈ l := by
  simp [interKeys, List.mem_filter, mem_unionKeys]

theorem mem_interKeys_of_ne (streams : List (List Key)) (hne : streams ≠ []) (k : Key) :
    k ∈ interKeys streams ↔ ∀ l ∈ streams, k ∈ l := by
  rw [mem_interKeys]
  constructor
  · exact fun h => h.2
  · intro h
    cases streams with
    | nil => exact absurd rfl hne
    | cons a t => exact ⟨⟨a, List.mem_cons_self .., h a (List.mem_cons_self ..)⟩, h⟩

theorem sorted_symDiffKeys (streams : List (List Key)) : SortedK (symDiffKeys streams) :=
  (sorted_unionKeys streams).filter _

theorem mem_symDiffKeys (streams : List (List Key)) (k : Key) :
    k ∈ symDiffKeys streams ↔ (streams.filter (k ∈ ·)).length % 2 = 1 := by
  simp only [symDiffKeys, List.mem_filter, mem_unionKeys, decide_eq_true_eq, and_iff_right_iff_imp]
  intro h
  have hpos : 0 < (streams.filter (k ∈ ·)).length := by omega
  obtain ⟨l, hl⟩ := List.exists_mem_of_length_pos hpos
  rw [List.mem_filter] at hl
  exact ⟨l, hl.1, by simpa using hl.2⟩

theorem sorted_diffKeys {first : List Key} (h : SortedK first) (rest : List (List Key)) :
    SortedK (diffKeys first rest) :=
  List.Pairwise.filter _ h

theorem mem_diffKeys (first : List Key) (rest : List (List Key)) (k : Key) :
    k ∈ diffKeys first rest ↔ k ∈ first ∧ ∀ l ∈ rest, k ∉ l := by
  simp [diffKeys, List.mem_filter]

/-- `set::Union`: drained, it is `unionKeys` -/
theorem setOp_union (pop : PopFn) (hp : PopSpec pop) (streams : List (List Key))
    (hs : ∀ l ∈ streams, SortedK l) :
    setOp pop .union streams = some (unionKeys streams) := by
  obtain ⟨out, h1, h2, -⟩ := C05_union pop hp _ (sorted_zeroStreams hs)
  rw [setOp_eq, h1, Option.map_some, h2, allKeys_zeroOutput]

/-- `set::Intersection` -/
theorem setOp_inter (pop : PopFn) (hp : PopSpec pop) (streams : List (List Key))
    (hs : ∀ l ∈ streams, SortedK l) :
    setOp pop .intersection streams = some (interKeys streams) := by
  obtain ⟨out, h1, h2, -⟩ := C05_inter pop hp _ (sorted_zeroStreams hs)
  rw [setOp_eq, h1, Option.map_some, h2, allKeys_zeroOutput]
  congr 1
  apply List.filter_congr
  intro k _
  rw [occ_zero_length hs, List.length_map, Bool.eq_iff_iff]
  simp only [decide_eq_true_eq, List.length_filter_eq_length_iff, List.all_eq_true]

/-- `set::SymmetricDifference` -/
theorem setOp_symdiff (pop : PopFn) (hp : PopSpec pop) (streams : List (List Key))
    (hs : ∀ l ∈ streams, SortedK l) :
    setOp pop .symmetricDifference streams = some (symDiffKeys streams) := by
  obtain ⟨out, h1, h2, -⟩ := C05_symdiff pop hp _ (sorted_zeroStreams hs)
  rw [setOp_eq, h1, Option.map_some, h2, allKeys_zeroOutput]
  congr 1
  apply List.filter_congr
  intro k _
  rw [occ_zero_length hs]

theorem hasKeyB_zeroOutput (rest : List (List Key)) (k : Key) :
    hasKeyB (rest.map zeroOutput) k = rest.any fun l => decide (k ∈ l) := by
  rw [Bool.eq_iff_iff, hasKeyB_iff, hasKey_zeroOutput]
  simp

theorem diff_keys_aux (first : List Key) (p : Key → Bool) :
    (((zeroOutput first).filter (fun kv => p kv.1)).map
      (fun kv => (kv.1, [(⟨0, kv.2⟩ : IndexedValue)]))).map (·.1) = first.filter p := by
  induction first with
  | nil => rfl
  | cons a t ih =>
    have e : zeroOutput (a :: t) = (a, 0) :: zeroOutput t := rfl
    rw [e, List.filter_cons, List.filter_cons]
    by_cases h : p a <;> simp [h, ih]

/-- `set::Difference` -/
theorem setOp_diff (pop : PopFn) (hp : PopSpec pop) (first : List Key) (rest : List (List Key))
    (hs : ∀ l ∈ first :: rest, SortedK l) :
    setOp pop .difference (first :: rest) = some (diffKeys first rest) := by
  have h := C05_diff pop hp ((first :: rest).map zeroOutput) (by simp) (sorted_zeroStreams hs)
  rw [setOp_eq, h, Option.map_some]
  simp only [List.map_cons, List.head_cons, List.tail_cons]
  rw [diff_keys_aux first (fun k => !hasKeyB (rest.map zeroOutput) k)]
  unfold diffKeys
  congr 1
  apply List.filter_congr
  intro k _
  rw [hasKeyB_zeroOutput]

/-- `set::OpBuilder::new().difference()` with no stream panics (`swap_remove(0)`) -/
theorem setOp_diff_nil (pop : PopFn) : setOp pop .difference [] = none := rfl

/-- the intersection of no streams is empty (not "everything") -/
theorem setOp_inter_nil (pop : PopFn) (hp : PopSpec pop) : setOp pop .intersection [] = some [] :=
  setOp_inter pop hp [] (by simp)

/-! ### the user-level statements: the result is the strictly ascending list of the keys with the
membership property; by `sortedK_ext` this determines the result -/

theorem setUnion_correct (pop : PopFn) (hp : PopSpec pop) (streams : List (List Key))
    (hs : ∀ l ∈ streams, SortedK l) :
    ∃ out, setOp pop .union streams = some out ∧ out = allKeys (streams.map zeroOutput) ∧
      SortedK out ∧ ∀ k, k ∈ out ↔ ∃ l ∈ streams, k ∈ l :=
  ⟨_, setOp_union pop hp streams hs, (allKeys_zeroOutput streams).symm, sorted_unionKeys streams,
    mem_unionKeys streams⟩

/-- side condition `streams ≠ []`: for no streams the result is `some []` (`setOp_inter_nil`)
while `∀ l ∈ [], k ∈ l` holds for every key; `setInter_correct'` is the form without it -/
theorem setInter_correct (pop : PopFn) (hp : PopSpec pop) (streams : List (List Key))
    (hne : streams ≠ []) (hs : ∀ l ∈ streams, SortedK l) :
    ∃ out, setOp pop .intersection streams = some out ∧
      SortedK out ∧ ∀ k, k ∈ out ↔ ∀ l ∈ streams, k ∈ l :=
  ⟨_, setOp_inter pop hp streams hs, sorted_interKeys streams, mem_interKeys_of_ne streams hne⟩

theorem setInter_correct' (pop : PopFn) (hp : PopSpec pop) (streams : List (List Key))
    (hs : ∀ l ∈ streams, SortedK l) :
    ∃ out, setOp pop .intersection streams = some out ∧
      SortedK out ∧ ∀ k, k ∈ out ↔ (∃ l ∈ streams, k ∈ l) ∧ ∀ l ∈ streams, k ∈ l :=
  ⟨_, setOp_inter pop hp streams hs, sorted_interKeys streams, mem_interKeys streams⟩

theorem setSymDiff_correct (pop : PopFn) (hp : PopSpec pop) (streams : List (List Key))
    (hs : ∀ l ∈ streams, SortedK l) :
    ∃ out, setOp pop .symmetricDifference streams = some out ∧
      SortedK out ∧ ∀ k, k ∈ out ↔ (streams.filter (k ∈ ·)).length % 2 = 1 :=
  ⟨_, setOp_symdiff pop hp streams hs, sorted_symDiffKeys streams, mem_symDiffKeys streams⟩

theorem setDiff_correct (pop : PopFn) (hp : PopSpec pop) (first : List Key) (rest : List (List Key))
    (hs : ∀ l ∈ first :: rest, SortedK l) :
    ∃ out, setOp pop .difference (first :: rest) = some out ∧
      SortedK out ∧ ∀ k, k ∈ out ↔ k ∈ first ∧ ∀ l ∈ rest, k ∉ l :=
  ⟨_, setOp_diff pop hp first rest hs, sorted_diffKeys (hs first (List.mem_cons_self ..)) rest,
    mem_diffKeys first rest⟩

/-- the `set::OpBuilder` result does not depend on the heap's tie-break at all (the map-level
result does: the order of the `IndexedValue`s, see `Proofs/Ops.lean`) -/
theorem setOp_pop_independent (pop pop' : PopFn) (hp : PopSpec pop) (hp' : PopSpec pop')
    (kind : OpKind) (streams : List (List Key)) (hs : ∀ l ∈ streams, SortedK l) :
    setOp pop kind streams = setOp pop' kind streams := by
  cases kind with
  | union => rw [setOp_union pop hp streams hs, setOp_union pop' hp' streams hs]
  | intersection => rw [setOp_inter pop hp streams hs, setOp_inter pop' hp' streams hs]
  | symmetricDifference => rw [setOp_symdiff pop hp streams hs, setOp_symdiff pop' hp' streams hs]
  | difference =>
    cases streams with
    | nil => rfl
    | cons first rest => rw [setOp_diff pop hp first rest hs, setOp_diff pop' hp' first rest hs]

/-- example streams: the empty key, a key in all three, keys in one or two -/
def exSets : List (List Key) := [[[], [1], [2], [2, 0]], [[2], [3]], [[], [2], [2, 0], [7]]]

theorem exSets_sorted : ∀ l ∈ exSets, SortedK l := by
  simp [exSets, SortedK, lexLt]

example : ∃ out, setOp popMin .union exSets = some out ∧ out = allKeys (exSets.map zeroOutput) ∧
    SortedK out ∧ ∀ k, k ∈ out ↔ ∃ l ∈ exSets, k ∈ l :=
  setUnion_correct popMin popSpec_popMin exSets exSets_sorted
example : ∃ out, setOp popMin .intersection exSets = some out ∧
    SortedK out ∧ ∀ k, k ∈ out ↔ ∀ l ∈ exSets, k ∈ l :=
  setInter_correct popMin popSpec_popMin exSets (by simp [exSets]) exSets_sorted
example : ∃ out, setOp popMin .symmetricDifference exSets = some out ∧
    SortedK out ∧ ∀ k, k ∈ out ↔ (exSets.filter (k ∈ ·)).length % 2 = 1 :=
  setSymDiff_correct popMin popSpec_popMin exSets exSets_sorted
example : ∃ out, setOp popMin .difference exSets = some out ∧
    SortedK out ∧ ∀ k, k ∈ out ↔ k ∈ exSets.head! ∧ ∀ l ∈ exSets.tail, k ∉ l :=
  setDiff_correct popMin popSpec_popMin _ _ exSets_sorted
example : setOp popMin .union exSets = some [[], [1], [2], [2, 0], [3], [7]] ∧
    setOp popMin .intersection exSets = some [[2]] ∧
    setOp popMin .symmetricDifference exSets = some [[1], [2], [3], [7]] ∧
    setOp popMin .difference exSets = some [[1]] ∧
    unionKeys exSets = [[], [1], [2], [2, 0], [3], [7]] ∧ interKeys exSets = [[2]] ∧
    symDiffKeys exSets = [[1], [2], [3], [7]] ∧ diffKeys exSets.head! exSets.tail = [[1]] := by decide
example : setOp popMin .symmetricDifference [[[1], [2]], [[2], [3]], [[2]]] = some [[1], [2], [3]] := by
  decide
example : setOp popMinLast .symmetricDifference [[[1], [2]], [[2], [3]], [[2]]] = some [[1], [2], [3]] := by
  decide

/-! ## 5. `Set::is_disjoint` / `is_subset` / `is_superset` -/

/-- `self` any FST (arbitrary outputs), `b` the items of the argument stream -/
theorem setIsDisjointFst_iff (pop : PopFn) (hp : PopSpec pop) (self : KV) (b : List Key)
    (ha : SortedKV self) (hb : SortedK b) :
    setIsDisjointFst pop self b = true ↔ ∀ k, ¬ (KeyOf self k ∧ k ∈ b) := by
  unfold setIsDisjointFst
  rw [C05_disjoint pop hp self _ ha ((sortedKV_zeroOutput b).2 hb)]
  simp only [keyOf_zeroOutput]

theorem setIsSubsetFst_iff (pop : PopFn) (hp : PopSpec pop) (self : KV) (b : List Key)
    (ha : SortedKV self) (hb : SortedK b) :
    setIsSubsetFst pop self b = true ↔ ∀ k, KeyOf self k → k ∈ b := by
  unfold setIsSubsetFst
  rw [C05_subset pop hp self _ ha ((sortedKV_zeroOutput b).2 hb)]
  simp only [keyOf_zeroOutput]

theorem setIsSupersetFst_iff (pop : PopFn) (hp : PopSpec pop) (self : KV) (b : List Key)
    (ha : SortedKV self) (hb : SortedK b) :
    setIsSupersetFst pop self b = true ↔ ∀ k, k ∈ b → KeyOf self k := by
  unfold setIsSupersetFst
  rw [C05_superset pop hp self _ ha ((sortedKV_zeroOutput b).2 hb)]
  simp only [keyOf_zeroOutput]

/-- `set.is_disjoint(stream)`: no common key -/
theorem setIsDisjoint_iff (pop : PopFn) (hp : PopSpec pop) (a b : List Key)
    (ha : SortedK a) (hb : SortedK b) :
    setIsDisjoint pop a b = true ↔ ∀ k, ¬ (k ∈ a ∧ k ∈ b) := by
  unfold setIsDisjoint
  rw [setIsDisjointFst_iff pop hp _ b ((sortedKV_zeroOutput a).2 ha) hb]
  simp only [keyOf_zeroOutput]

/-- `set.is_subset(stream)`: every key of the set is in the stream -/
theorem setIsSubset_iff (pop : PopFn) (hp : PopSpec pop) (a b : List Key)
    (ha : SortedK a) (hb : SortedK b) :
    setIsSubset pop a b = true ↔ ∀ k ∈ a, k ∈ b := by
  unfold setIsSubset
  rw [setIsSubsetFst_iff pop hp _ b ((sortedKV_zeroOutput a).2 ha) hb]
  simp only [keyOf_zeroOutput]

/-- `set.is_superset(stream)`: every key of the stream is in the set -/
theorem setIsSuperset_iff (pop : PopFn) (hp : PopSpec pop) (a b : List Key)
    (ha : SortedK a) (hb : SortedK b) :
    setIsSuperset pop a b = true ↔ ∀ k ∈ b, k ∈ a := by
  unfold setIsSuperset
  rw [setIsSupersetFst_iff pop hp _ b ((sortedKV_zeroOutput a).2 ha) hb]
  simp only [keyOf_zeroOutput]

def exKa : List Key := [[], [1], [2, 0]]
def exKb : List Key := [[], [0], [1], [2, 0], [9]]
def exKc : List Key := [[0], [9]]
theorem exKa_sorted : SortedK exKa := by simp [exKa, SortedK, lexLt]
theorem exKb_sorted : SortedK exKb := by simp [exKb, SortedK, lexLt]
theorem exKc_sorted : SortedK exKc := by simp [exKc, SortedK, lexLt]

example : setIsDisjoint popMin exKa exKc = true ↔ ∀ k, ¬ (k ∈ exKa ∧ k ∈ exKc) :=
  setIsDisjoint_iff popMin popSpec_popMin exKa exKc exKa_sorted exKc_sorted
example : setIsSubset popMin exKa exKb = true ↔ ∀ k ∈ exKa, k ∈ exKb :=
  setIsSubset_iff popMin popSpec_popMin exKa exKb exKa_sorted exKb_sorted
example : setIsSuperset popMin exKb exKa = true ↔ ∀ k ∈ exKa, k ∈ exKb :=
  setIsSuperset_iff popMin popSpec_popMin exKb exKa exKb_sorted exKa_sorted
/-- a set view of a map FST (non-zero outputs) against a key stream -/
example : setIsSubsetFst popMin exA exKb = true ↔ ∀ k, KeyOf exA k → k ∈ exKb :=
  setIsSubsetFst_iff popMin popSpec_popMin exA exKb exA_sorted exKb_sorted
example : setIsDisjoint popMin exKa exKc = true ∧ setIsDisjoint popMin exKa exKb = false ∧
    setIsSubset popMin exKa exKb = true ∧ setIsSubset popMin exKb exKa = false ∧
    setIsSuperset popMin exKb exKa = true ∧ setIsSuperset popMin exKa exKb = false ∧
    setIsSubsetFst popMin exA exKb = true ∧ setIsDisjointFst popMin exB exKc = false := by decide

end Fst.Wrap
