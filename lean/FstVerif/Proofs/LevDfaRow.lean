import FstVerif.Proofs.Lev
/-
Facts about the DP row (`DynLev`) that the DFA construction relies on.
-/
namespace Fst
namespace LevDfa
open Spec

theorem canMatch_ne_nil (l : DynLev) (R : List Nat) (h : l.canMatch R = true) : R ≠ [] := by
  intro e; subst e; simp [DynLev.canMatch] at h

/-- entry 0 grows with every character: a row is never re-entered from itself -/
theorem accept_ne_self (l : DynLev) (R : List Nat) (chr : Option Nat) (h : R ≠ []) :
    l.accept R chr ≠ R := by
  cases R with
  | nil => exact absurd rfl h
  | cons s0 st =>
    simp only [DynLev.accept, ne_eq, List.cons.injEq, not_and]
    intro e; omega

/-- … and the start row is never re-entered -/
theorem accept_ne_start (l : DynLev) (R : List Nat) (chr : Option Nat) (h : R ≠ []) :
    l.accept R chr ≠ l.start := by
  cases R with
  | nil => exact absurd rfl h
  | cons s0 st =>
    simp only [DynLev.accept, DynLev.start, List.range_succ_eq_map, ne_eq, List.cons.injEq, not_and]
    intro e; omega

theorem start_canMatch (l : DynLev) : l.canMatch l.start = true := by
  have h : l.canMatch l.start ≠ false := by
    intro h
    rw [canMatch_false_iff] at h
    have := h 0 (by simp [DynLev.start])
    omega
  cases hc : l.canMatch l.start with
  | true => rfl
  | false => exact absurd hc h

/-- a query character whose diagonal entries all exceed the bound steps like the mismatch character -/
theorem dynRow_skip_eq (d c : Nat) (q : List Nat) (prev : Nat) (st : List Nat)
    (h : ∀ idx, q[idx]? = some c → d < st.getD idx 0) :
    dynRow d none q prev st = dynRow d (some c) q prev st := by
  induction q generalizing prev st with
  | nil => simp [dynRow]
  | cons a q ih =>
    match st with
    | [] => simp [dynRow]
    | [_] => simp [dynRow]
    | si :: si1 :: st =>
      have hv : min (min (min (prev + 1) (si1 + 1)) (si + (if some a = (none : Option Nat) then 0 else 1))) (d + 1)
          = min (min (min (prev + 1) (si1 + 1)) (si + (if some a = some c then 0 else 1))) (d + 1) := by
        by_cases e : a = c
        · have := h 0 (by simp [e])
          simp only [List.getD_cons_zero] at this
          simp only [reduceCtorEq, if_false, e, if_true]
          omega
        · simp [e]
      simp only [dynRow, hv, List.cons.injEq, true_and]
      apply ih
      intro idx hidx
      have := h (idx + 1) (by simpa using hidx)
      simpa using this

theorem accept_skip_eq (l : DynLev) (st : List Nat) (c : Nat)
    (h : ∀ idx, l.query[idx]? = some c → l.dist < st.getD idx 0) :
    l.accept st none = l.accept st (some c) := by
  cases st with
  | nil => rfl
  | cons s0 st => simp only [DynLev.accept, dynRow_skip_eq l.dist c l.query _ _ h]

theorem dynRow_allGt_mono (d c : Nat) (q : List Nat) (prev prev' : Nat) (st : List Nat)
    (hp : prev ≤ prev') (h : AllGt d (dynRow d (some c) q prev st)) :
    AllGt d (dynRow d none q prev' st) := by
  induction q generalizing prev prev' st with
  | nil => intro x hx; simp [dynRow] at hx
  | cons a q ih =>
    match st with
    | [] => intro x hx; simp [dynRow] at hx
    | [_] => intro x hx; simp [dynRow] at hx
    | si :: si1 :: st =>
      simp only [dynRow] at h ⊢
      have hle : min (min (min (prev + 1) (si1 + 1)) (si + (if some a = some c then 0 else 1))) (d + 1)
          ≤ min (min (min (prev' + 1) (si1 + 1)) (si + (if some a = (none : Option Nat) then 0 else 1))) (d + 1) := by
        simp only [reduceCtorEq, if_false]
        split <;> omega
      intro x hx
      rw [List.mem_cons] at hx
      rcases hx with rfl | hx
      · have := h _ List.mem_cons_self
        omega
      · exact ih _ _ _ hle (fun y hy => h y (List.mem_cons_of_mem _ hy)) x hx

/-- a matching character never makes the row worse than the mismatch character does -/
theorem canMatch_accept_mono (l : DynLev) (R : List Nat) (c : Nat)
    (h : l.canMatch (l.accept R (some c)) = false) : l.canMatch (l.accept R none) = false := by
  rw [canMatch_false_iff] at h ⊢
  cases R with
  | nil => intro x hx; simp [DynLev.accept] at hx
  | cons s0 st =>
    simp only [DynLev.accept] at h ⊢
    intro x hx
    rw [List.mem_cons] at hx
    rcases hx with rfl | hx
    · exact h _ List.mem_cons_self
    · exact dynRow_allGt_mono l.dist c l.query _ _ _ (Nat.le_refl _)
        (fun y hy => h y (List.mem_cons_of_mem _ hy)) x hx

end LevDfa
end Fst
