import FstVerif.Model.Ops
import FstVerif.Proofs.Den
/-
C05 — the heap-based set operations of `Model/Ops.lean` (mirror of `src/raw/ops.rs`)
equal their set-theoretic definitions, for every admissible tie-break `pop` of the heap
(`PopSpec`). Main theorems at the end of the file: `popSpec_popMin`, `C05_union`,
`C05_inter`, `C05_symdiff`, `C05_diff`, `C05_disjoint`, `C05_subset`, `C05_superset`
(namespace `Fst`); all auxiliary definitions and lemmas live in namespace `Fst.Ops`
(`PopSpec`, `occ`, `allKeys`, `HasKey`, `hasKeyB`, `KeyOf`, ...).

Proof outline. `Rep h rem U` relates a `StreamHeap` to the logical remaining streams
`rem : Nat → KV` (slot of stream `i` in the heap, if any, followed by the reader's rest);
`U` is the set of streams that hold no slot although possibly non-empty (the lent `cur_slot`).
`refill`, `pop` preserve it (`rep_refill`, `rep_pop`); the popped slot is a lower bound of all
remaining keys (`lb_of_min`); `drainEqual` pops exactly the slots with the minimal key and
leaves `dropLe k rem` (`drainEqual_spec`, fuel `rdrs.length + 1` suffices by `heap_length_le`);
the popped values are a permutation of `occF n rem k` (`occ_perm`). `filterLoop_spec` describes
one `next`, `collect_spec` the whole drain (fuel: `totalItems` strictly decreases), and
`sortedK_ext` (a strictly increasing list is determined by its members) turns the
characterisation of the emitted keys into an equation with `allKeys`.
-/

/-! ## the key order -/
namespace Fst.Ops

theorem lexLt_irrefl (a : Key) : lexLt a a = false := by
  induction a with
  | nil => rfl
  | cons x xs ih => simp [lexLt, ih]

theorem lexLt_trans {a b c : Key} : lexLt a b = true → lexLt b c = true → lexLt a c = true := by
  fun_induction lexLt a b generalizing c with
  | case1 => simp
  | case2 => cases c <;> simp [lexLt]
  | case3 => simp
  | case4 x xs y ys ih =>
    cases c with
    | nil => simp [lexLt]
    | cons z zs =>
      simp only [lexLt, Bool.or_eq_true, Bool.and_eq_true, beq_iff_eq, decide_eq_true_eq]
      intro h1 h2
      rcases h1 with h1 | ⟨rfl, h1⟩ <;> rcases h2 with h2 | ⟨rfl, h2⟩
      · exact Or.inl (UInt8.lt_trans h1 h2)
      · exact Or.inl h1
      · exact Or.inl h2
      · exact Or.inr ⟨rfl, ih h1 h2⟩

theorem lexLt_total {a b : Key} : lexLt a b = false → lexLt b a = false → a = b := by
  fun_induction lexLt a b with
  | case1 => simp
  | case2 => simp
  | case3 => simp [lexLt]
  | case4 x xs y ys ih =>
    simp only [lexLt, Bool.or_eq_false_iff, Bool.and_eq_false_iff, decide_eq_false_iff_not]
    intro ⟨h1, h2⟩ ⟨h3, h4⟩
    have : x = y := by
      apply UInt8.le_antisymm <;> simp_all [UInt8.not_lt]
    subst this
    simp_all

theorem lexLt_asymm {a b : Key} (h : lexLt a b = true) : lexLt b a = false := by
  cases h' : lexLt b a with
  | false => rfl
  | true => have := lexLt_trans h h'; simp [lexLt_irrefl] at this

end Fst.Ops

/-! ## `PopSpec`, and `popMin` satisfies it -/
namespace Fst.Ops

def PopSpec (pop : PopFn) : Prop :=
  (∀ h, pop h = none ↔ h = []) ∧
  ∀ h s rest, pop h = some (s, rest) → (s :: rest).Perm h ∧ ∀ x ∈ h, slotLt x s = false

theorem slotLt_irrefl (a : Slot) : slotLt a a = false := by
  simp [slotLt, lexLt_irrefl]

theorem slotLt_asymm {a b : Slot} (h : slotLt a b = true) : slotLt b a = false := by
  simp only [slotLt, Bool.or_eq_true, Bool.and_eq_true, beq_iff_eq, decide_eq_true_eq] at h
  simp only [slotLt, Bool.or_eq_false_iff, Bool.and_eq_false_iff, decide_eq_false_iff_not, beq_eq_false_iff_ne]
  rcases h with h | ⟨h1, h2⟩
  · refine ⟨lexLt_asymm h, ?_⟩
    by_cases e : b.input = a.input
    · rw [e, lexLt_irrefl] at h; cases h
    · exact Or.inl e
  · refine ⟨by rw [h1]; exact lexLt_irrefl _, Or.inr (by omega)⟩

/-- negative transitivity -/
theorem slotLt_negtrans {x m s : Slot} (h1 : slotLt x m = false) (h2 : slotLt m s = false) :
    slotLt x s = false := by
  simp only [slotLt, Bool.or_eq_false_iff, Bool.and_eq_false_iff, decide_eq_false_iff_not, beq_eq_false_iff_ne] at *
  obtain ⟨a1, a2⟩ := h1
  obtain ⟨b1, b2⟩ := h2
  by_cases e1 : x.input = m.input
  · by_cases e2 : m.input = s.input
    · refine ⟨by rw [e1, e2]; exact lexLt_irrefl _, Or.inr ?_⟩
      rcases a2 with a2 | a2 <;> rcases b2 with b2 | b2 <;> first | contradiction | omega
    · rw [e1]; exact ⟨b1, Or.inl e2⟩
  · -- m < x
    have hmx : lexLt m.input x.input = true := by
      cases h : lexLt m.input x.input with
      | true => rfl
      | false => exact absurd (lexLt_total a1 h) e1
    have hxs : lexLt x.input s.input = false := by
      cases h : lexLt x.input s.input with
      | false => rfl
      | true => rw [lexLt_trans hmx h] at b1; cases b1
    refine ⟨hxs, Or.inl ?_⟩
    intro e; rw [e] at hmx; rw [hmx] at b1; cases b1

theorem popMin_none (h : List Slot) : popMin h = none ↔ h = [] := by
  cases h with
  | nil => simp [popMin]
  | cons s rest =>
    simp only [popMin]
    split <;> (try split) <;> simp

theorem popMin_some : ∀ (h : List Slot) s rest, popMin h = some (s, rest) →
    (s :: rest).Perm h ∧ ∀ x ∈ h, slotLt x s = false := by
  intro h
  induction h with
  | nil => simp [popMin]
  | cons a t ih =>
    intro s rest
    simp only [popMin]
    split
    · rename_i hn
      rw [popMin_none] at hn; subst hn
      simp only [Option.some.injEq, Prod.mk.injEq]
      rintro ⟨rfl, rfl⟩
      simp [slotLt_irrefl]
    · rename_i m rest' hm
      obtain ⟨hp, hmin⟩ := ih m rest' hm
      split
      · rename_i hlt
        simp only [Option.some.injEq, Prod.mk.injEq]
        rintro ⟨rfl, rfl⟩
        refine ⟨?_, ?_⟩
        · exact (List.Perm.swap _ _ _).trans (hp.cons a)
        · intro x hx
          rcases List.mem_cons.1 hx with rfl | hx
          · exact slotLt_asymm hlt
          · exact hmin x hx
      · rename_i hlt
        simp only [Option.some.injEq, Prod.mk.injEq]
        rintro ⟨rfl, rfl⟩
        refine ⟨List.Perm.refl _, ?_⟩
        intro x hx
        rcases List.mem_cons.1 hx with rfl | hx
        · exact slotLt_irrefl _
        · exact slotLt_negtrans (hmin x hx) (by simpa using hlt)

theorem popSpec_popMin : PopSpec popMin := ⟨popMin_none, popMin_some⟩

end Fst.Ops

/-! ## the heap invariant `Rep` (design A.6) -/
namespace Fst.Ops

/-- the `i`-th stream, `[]` beyond the end -/
def nth (l : List KV) (i : Nat) : KV := l[i]?.getD []

/-- strictly increasing keys, as a `Pairwise` -/
def SortedL (l : KV) : Prop := l.Pairwise (fun a b => lexLt a.1 b.1 = true)

theorem sortedKV_iff (l : KV) : SortedKV l ↔ SortedL l := by
  unfold SortedL
  induction l with
  | nil => simp [SortedKV]
  | cons a t ih =>
    cases t with
    | nil => simp [SortedKV]
    | cons b r =>
      simp only [SortedKV, ih, List.pairwise_cons]
      constructor
      · rintro ⟨hab, hb, hr⟩
        refine ⟨?_, hb, hr⟩
        intro c hc
        rcases List.mem_cons.1 hc with rfl | hc
        · exact hab
        · exact lexLt_trans hab (hb c hc)
      · rintro ⟨ha, hb, hr⟩
        exact ⟨ha b (by simp), hb, hr⟩

def upd (rem : Nat → KV) (j : Nat) (x : KV) : Nat → KV := fun i => if i = j then x else rem i

/-- `rem i` is the logical remaining part of stream `i` (the slot of `i` in the heap, if any,
followed by what the reader will still yield); streams in `U` are exactly those that hold no
slot although they may be non-empty (the lent `cur_slot`, or not yet filled). -/
structure Rep (h : SHeap) (rem : Nat → KV) (U : Nat → Prop) : Prop where
  nodup : (h.heap.map (·.idx)).Nodup
  slot : ∀ s ∈ h.heap, ¬ U s.idx ∧ s.idx < h.rdrs.length ∧
    rem s.idx = (s.input, s.output) :: nth h.rdrs s.idx
  noslot : ∀ i, (∀ s ∈ h.heap, s.idx ≠ i) → rem i = nth h.rdrs i ∧ (¬ U i → rem i = [])

theorem refill_cases (h : SHeap) (i : Nat) :
    (h.refill i = h ∧ nth h.rdrs i = []) ∨
    (∃ k v t, nth h.rdrs i = (k, v) :: t ∧ i < h.rdrs.length ∧
      h.refill i = ⟨h.rdrs.set i t, ⟨i, k, v⟩ :: h.heap⟩) := by
  unfold SHeap.refill nth
  cases hi : h.rdrs[i]? with
  | none => simp
  | some l =>
    have : i < h.rdrs.length := by
      rcases Nat.lt_or_ge i h.rdrs.length with h' | h'
      · exact h'
      · rw [List.getElem?_eq_none h'] at hi; cases hi
    cases l with
    | nil => simp
    | cons kv t => obtain ⟨k, v⟩ := kv; right; exact ⟨k, v, t, by simp, this, rfl⟩

theorem refill_len (h : SHeap) (i : Nat) : (h.refill i).rdrs.length = h.rdrs.length := by
  rcases refill_cases h i with ⟨e, _⟩ | ⟨k, v, t, _, _, e⟩ <;> rw [e] <;> simp

theorem nth_set (l : List KV) (i j : Nat) (x : KV) (hi : i < l.length) :
    nth (l.set i x) j = if j = i then x else nth l j := by
  unfold nth
  rw [List.getElem?_set]
  by_cases e : i = j
  · subst e; simp [hi]
  · have : ¬ j = i := fun h => e h.symm
    simp [e, this]

theorem sumLen_set (l : List KV) (i : Nat) (kv : Key × Nat) (t : KV)
    (h : l[i]? = some (kv :: t)) :
    ((l.set i t).map List.length).sum + 1 = (l.map List.length).sum := by
  induction l generalizing i with
  | nil => simp at h
  | cons a r ih =>
    cases i with
    | zero => simp at h; subst h; simp; omega
    | succ i =>
      simp only [List.getElem?_cons_succ] at h
      have := ih i h
      simp only [List.set_cons_succ, List.map_cons, List.sum_cons] at *; omega

theorem totalItems_refill (h : SHeap) (i : Nat) : totalItems (h.refill i) = totalItems h := by
  rcases refill_cases h i with ⟨e, _⟩ | ⟨k, v, t, hn, hi, e⟩
  · rw [e]
  · rw [e]; unfold totalItems
    have : h.rdrs[i]? = some ((k, v) :: t) := by
      unfold nth at hn
      rw [List.getElem?_eq_getElem hi] at hn ⊢
      simp at hn; rw [hn]
    have := sumLen_set h.rdrs i (k, v) t this
    simp only [List.length_cons]; omega

theorem rep_mono {h rem U U'} (r : Rep h rem U) (h1 : ∀ i, U' i → U i)
    (h2 : ∀ i, U i → ¬ U' i → rem i = []) : Rep h rem U' where
  nodup := r.nodup
  slot s hs := ⟨fun hu => (r.slot s hs).1 (h1 _ hu), (r.slot s hs).2⟩
  noslot i hi := ⟨(r.noslot i hi).1, fun hu => by
    by_cases hU : U i
    · exact h2 i hU hu
    · exact (r.noslot i hi).2 hU⟩

theorem rep_beyond {h rem U} (r : Rep h rem U) (i : Nat) (hi : h.rdrs.length ≤ i) : rem i = [] := by
  have : ∀ s ∈ h.heap, s.idx ≠ i := fun s hs e => by
    have := (r.slot s hs).2.1; omega
  rw [(r.noslot i this).1]
  simp [nth, List.getElem?_eq_none hi]

theorem rep_refill {h rem U} (r : Rep h rem U) (i : Nat) (hU : U i) :
    Rep (h.refill i) rem (fun j => U j ∧ j ≠ i) := by
  have hno : ∀ s ∈ h.heap, s.idx ≠ i := fun s hs e => (r.slot s hs).1 (e ▸ hU)
  have hrem := (r.noslot i hno).1
  rcases refill_cases h i with ⟨e, hn⟩ | ⟨k, v, t, hn, hi, e⟩
  · rw [e]
    refine rep_mono r (fun j hj => hj.1) ?_
    intro j hj hj'
    have : j = i := Classical.byContradiction fun hne => hj' ⟨hj, hne⟩
    subst this; rw [hrem, hn]
  · rw [e]
    refine ⟨?_, ?_, ?_⟩
    · simp only [List.map_cons, List.nodup_cons, List.mem_map, not_exists, not_and]
      exact ⟨fun s hs => hno s hs, r.nodup⟩
    · intro s hs
      rcases List.mem_cons.1 hs with rfl | hs
      · refine ⟨fun hh => hh.2 rfl, by simpa using hi, ?_⟩
        simp only [nth_set _ _ _ _ hi, if_true]
        rw [hrem, hn]
      · obtain ⟨a, b, c⟩ := r.slot s hs
        refine ⟨fun hh => a hh.1, by simpa using b, ?_⟩
        simp only [nth_set _ _ _ _ hi, if_neg (hno s hs)]
        exact c
    · intro j hj
      have hji : j ≠ i := fun e => hj ⟨i, k, v⟩ (by simp) e.symm
      have hj' : ∀ s ∈ h.heap, s.idx ≠ j := fun s hs => hj s (List.mem_cons_of_mem _ hs)
      obtain ⟨a, b⟩ := r.noslot j hj'
      refine ⟨?_, fun hu => b (fun hU' => hu ⟨hU', hji⟩)⟩
      simp only [nth_set _ _ _ _ hi, if_neg hji]
      exact a

theorem rep_pop {pop h rem U} (hp : PopSpec pop) (r : Rep h rem U) {s rest}
    (e : pop h.heap = some (s, rest)) :
    Rep ⟨h.rdrs, rest⟩ (upd rem s.idx (nth h.rdrs s.idx)) (fun j => U j ∨ j = s.idx) ∧
    rem s.idx = (s.input, s.output) :: nth h.rdrs s.idx ∧ ¬ U s.idx ∧
    (∀ x ∈ h.heap, slotLt x s = false) ∧ (s :: rest).Perm h.heap := by
  obtain ⟨hperm, hmin⟩ := hp.2 _ _ _ e
  have hs : s ∈ h.heap := hperm.subset (by simp)
  have hnd : ((s :: rest).map (·.idx)).Nodup := (hperm.map _).nodup_iff.2 r.nodup
  simp only [List.map_cons, List.nodup_cons, List.mem_map, not_exists, not_and] at hnd
  refine ⟨⟨hnd.2, ?_, ?_⟩, (r.slot s hs).2.2, (r.slot s hs).1, hmin, hperm⟩
  · intro x hx
    have hx' : x ∈ h.heap := hperm.subset (List.mem_cons_of_mem _ hx)
    obtain ⟨a, b, c⟩ := r.slot x hx'
    have hne : x.idx ≠ s.idx := hnd.1 x hx
    exact ⟨fun hh => hh.elim a hne, b, by simp only [upd, if_neg hne]; exact c⟩
  · intro j hj
    by_cases hjs : j = s.idx
    · subst hjs
      simp [upd]
    · have : ∀ x ∈ h.heap, x.idx ≠ j := by
        intro x hx
        rcases List.mem_cons.1 (hperm.symm.subset hx) with rfl | hx
        · exact fun e => hjs e.symm
        · exact hj x hx
      obtain ⟨a, b⟩ := r.noslot j this
      simp only [upd, if_neg hjs]
      exact ⟨a, fun hu => b fun hU => hu (Or.inl hU)⟩

theorem totalItems_pop {h : SHeap} {s rest} (hperm : (s :: rest).Perm h.heap) :
    totalItems ⟨h.rdrs, rest⟩ + 1 = totalItems h := by
  have := hperm.length_eq
  simp only [totalItems, List.length_cons] at *
  omega

theorem rep_new_aux (streams : List KV) (m : Nat) :
    Rep ((List.range m).foldl (fun (h : SHeap) i => h.refill i) ⟨streams, []⟩) (nth streams) (fun i => m ≤ i) ∧
    ((List.range m).foldl (fun (h : SHeap) i => h.refill i) ⟨streams, []⟩).rdrs.length = streams.length ∧
    totalItems ((List.range m).foldl (fun (h : SHeap) i => h.refill i) ⟨streams, []⟩) = totalLen streams := by
  induction m with
  | zero =>
    refine ⟨⟨by simp, by simp, fun i _ => ⟨rfl, fun h => absurd (Nat.zero_le i) h⟩⟩, rfl, ?_⟩
    simp [totalItems, totalLen]
  | succ m ih =>
    rw [List.range_succ, List.foldl_append]
    simp only [List.foldl_cons, List.foldl_nil]
    obtain ⟨r, hl, ht⟩ := ih
    refine ⟨?_, by rw [refill_len, hl], by rw [totalItems_refill, ht]⟩
    have := rep_refill r m (Nat.le_refl m)
    refine rep_mono this (fun i hi => ⟨by omega, by omega⟩) ?_
    intro i hi hi'
    exfalso; omega

theorem rep_new (streams : List KV) :
    Rep (SHeap.new streams) (nth streams) (fun _ => False) ∧
    (SHeap.new streams).rdrs.length = streams.length ∧
    totalItems (SHeap.new streams) = totalLen streams := by
  unfold SHeap.new
  obtain ⟨r, hl, ht⟩ := rep_new_aux streams streams.length
  refine ⟨rep_mono r (fun i hi => hi.elim) ?_, hl, ht⟩
  intro i hi _
  exact rep_beyond r i (by omega)

end Fst.Ops

/-! ## `drainEqual` -/
namespace Fst.Ops

def SortedF (rem : Nat → KV) : Prop := ∀ i, SortedL (rem i)
/-- `k` is a lower bound of all remaining keys -/
def LB (k : Key) (rem : Nat → KV) : Prop := ∀ i kv, kv ∈ rem i → lexLt kv.1 k = false
/-- remove every key `≤ k` -/
def dropLe (k : Key) (rem : Nat → KV) : Nat → KV := fun i => (rem i).filter (fun kv => lexLt k kv.1)
def HasKeyF (rem : Nat → KV) (k : Key) : Prop := ∃ i v, (k, v) ∈ rem i
def occF (n : Nat) (rem : Nat → KV) (k : Key) : List IndexedValue :=
  (List.range n).flatMap fun i => ((rem i).filter (·.1 == k)).map fun kv => ⟨i, kv.2⟩

theorem lt_of_ge_ne {a k : Key} (h : lexLt a k = false) (hne : a ≠ k) : lexLt k a = true := by
  cases h' : lexLt k a with
  | true => rfl
  | false => exact absurd (lexLt_total h h') hne

theorem sortedF_upd_tail {rem : Nat → KV} (hs : SortedF rem) {j : Nat} {kv t} (e : rem j = kv :: t) :
    SortedF (upd rem j t) := by
  intro i
  unfold upd
  split
  · have := hs j; rw [e] at this; exact (List.pairwise_cons.1 this).2
  · exact hs i

theorem sortedF_dropLe {rem : Nat → KV} (hs : SortedF rem) (k : Key) : SortedF (dropLe k rem) :=
  fun i => (hs i).filter _

theorem dropLe_upd_head {rem : Nat → KV} {j : Nat} {k k' : Key} {v t}
    (e : rem j = (k', v) :: t) (hk : lexLt k k' = false) :
    dropLe k (upd rem j t) = dropLe k rem := by
  funext i
  unfold dropLe upd
  split
  · rename_i h; subst h; rw [e]; simp [hk]
  · rfl

/-- nothing equal to `k` is left in the heap: `dropLe k` changes nothing -/
theorem drain_done {h rem U k} (r : Rep h rem U) (hs : SortedF rem) (hlb : LB k rem)
    (hU : ∀ i, U i → ∀ kv ∈ rem i, lexLt k kv.1 = true)
    (hne : ∀ s ∈ h.heap, s.input ≠ k) : dropLe k rem = rem := by
  funext i
  unfold dropLe
  rw [List.filter_eq_self]
  intro kv hkv
  by_cases hUi : U i
  · exact hU i hUi kv hkv
  · by_cases hex : ∃ s ∈ h.heap, s.idx = i
    · obtain ⟨s, hsm, rfl⟩ := hex
      have e := (r.slot s hsm).2.2
      have hhead : lexLt k s.input = true :=
        lt_of_ge_ne (hlb s.idx (s.input, s.output) (by rw [e]; simp)) (hne s hsm)
      have hsorted := hs s.idx
      rw [e] at hkv hsorted
      rcases List.mem_cons.1 hkv with rfl | hkv
      · exact hhead
      · exact lexLt_trans hhead ((List.pairwise_cons.1 hsorted).1 kv hkv)
    · have : ∀ s ∈ h.heap, s.idx ≠ i := fun s hsm e => hex ⟨s, hsm, e⟩
      rw [(r.noslot i this).2 hUi] at hkv
      cases hkv

theorem drainEqual_spec {pop} (hp : PopSpec pop) (k : Key) :
    ∀ fuel h rem U outs, Rep h rem U → SortedF rem → LB k rem →
      (∀ i, U i → ∀ kv ∈ rem i, lexLt k kv.1 = true) →
      (h.heap.filter (·.input == k)).length ≤ fuel →
      ∃ h' ivs, drainEqual pop k fuel h outs = (h', outs ++ ivs) ∧ Rep h' (dropLe k rem) U ∧
        ivs.Perm ((h.heap.filter (·.input == k)).map Slot.iv) ∧
        h'.rdrs.length = h.rdrs.length ∧ totalItems h' + ivs.length = totalItems h := by
  intro fuel
  induction fuel with
  | zero =>
    intro h rem U outs r hs hlb hU hf
    have hne : ∀ s ∈ h.heap, s.input ≠ k := by
      intro s hsm e
      have : s ∈ h.heap.filter (·.input == k) := by simp [hsm, e]
      have := List.length_pos_of_mem this
      omega
    refine ⟨h, [], by simp [drainEqual], ?_, ?_, rfl, by simp⟩
    · rw [drain_done r hs hlb hU hne]; exact r
    · have : h.heap.filter (·.input == k) = [] := List.eq_nil_of_length_eq_zero (by omega)
      rw [this]; exact List.Perm.refl _
  | succ fuel ih =>
    intro h rem U outs r hs hlb hU hf
    have done : (∀ s ∈ h.heap, s.input ≠ k) →
        ∃ h' ivs, (h, outs) = (h', outs ++ ivs) ∧ Rep h' (dropLe k rem) U ∧
        ivs.Perm ((h.heap.filter (·.input == k)).map Slot.iv) ∧
        h'.rdrs.length = h.rdrs.length ∧ totalItems h' + ivs.length = totalItems h := by
      intro hne
      refine ⟨h, [], by simp, ?_, ?_, rfl, by simp⟩
      · rw [drain_done r hs hlb hU hne]; exact r
      · have : h.heap.filter (·.input == k) = [] := by
          rw [List.filter_eq_nil_iff]; intro s hsm; simpa using hne s hsm
        rw [this]; exact List.Perm.refl _
    unfold drainEqual SHeap.popIfEqual SHeap.pop
    cases e : pop h.heap with
    | none =>
      simp only [Option.map_none]
      apply done
      rw [(hp.1 _).1 e]; simp
    | some p =>
      obtain ⟨s, rest⟩ := p
      simp only [Option.map_some]
      obtain ⟨r1, hrem, hnU, hmin, hperm⟩ := rep_pop hp r e
      by_cases hk : s.input = k
      · simp only [hk, beq_self_eq_true, if_true]
        -- refill the popped stream
        have r2 := rep_refill r1 s.idx (Or.inr rfl)
        have r2' : Rep (SHeap.refill ⟨h.rdrs, rest⟩ s.idx) (upd rem s.idx (nth h.rdrs s.idx)) U := by
          refine rep_mono r2 (fun i hi => ⟨Or.inl hi, fun e => hnU (e ▸ hi)⟩) ?_
          intro i hi hi'
          rcases hi.1 with h1 | h1
          · exact absurd h1 hi'
          · exact absurd h1 hi.2
        have hs1 : SortedF (upd rem s.idx (nth h.rdrs s.idx)) := sortedF_upd_tail hs hrem
        have hsj := hs s.idx
        rw [hrem] at hsj
        have htail : ∀ kv ∈ nth h.rdrs s.idx, lexLt k kv.1 = true := by
          intro kv hkv; have := (List.pairwise_cons.1 hsj).1 kv hkv; simpa [hk] using this
        have hlb1 : LB k (upd rem s.idx (nth h.rdrs s.idx)) := by
          intro i kv hkv
          unfold upd at hkv
          split at hkv
          · exact lexLt_asymm (htail kv hkv)
          · exact hlb i kv hkv
        have hU1 : ∀ i, U i → ∀ kv ∈ upd rem s.idx (nth h.rdrs s.idx) i, lexLt k kv.1 = true := by
          intro i hi kv hkv
          unfold upd at hkv
          split at hkv
          · exact htail kv hkv
          · exact hU i hi kv hkv
        have hfilt : (SHeap.refill ⟨h.rdrs, rest⟩ s.idx).heap.filter (·.input == k)
            = rest.filter (·.input == k) := by
          rcases refill_cases ⟨h.rdrs, rest⟩ s.idx with ⟨e', _⟩ | ⟨k', v', t, hn, _, e'⟩
          · rw [e']
          · rw [e']
            have : lexLt k k' = true := htail (k', v') (by rw [show nth h.rdrs s.idx = _ from hn]; simp)
            have hne : (k' == k) = false := by
              rw [beq_eq_false_iff_ne]; intro e''; rw [e'', lexLt_irrefl] at this; cases this
            simp [hne]
        have hpf := hperm.filter (·.input == k)
        have hsk : (s.input == k) = true := by simp [hk]
        rw [List.filter_cons, if_pos hsk] at hpf
        have hlen := hpf.length_eq
        simp only [List.length_cons] at hlen
        obtain ⟨h', ivs, e1, r', hp', hl', ht'⟩ :=
          ih (SHeap.refill ⟨h.rdrs, rest⟩ s.idx) _ U (outs ++ [s.iv]) r2' hs1 hlb1 hU1
            (by rw [hfilt]; omega)
        refine ⟨h', s.iv :: ivs, by rw [e1]; simp, ?_, ?_, ?_, ?_⟩
        · rw [← dropLe_upd_head hrem (by rw [hk]; exact lexLt_irrefl k)]; exact r'
        · rw [hfilt] at hp'
          exact (hp'.cons s.iv).trans (hpf.map Slot.iv)
        · rw [hl', refill_len]
        · rw [totalItems_refill] at ht'
          have := totalItems_pop hperm
          simp only [List.length_cons]; omega
      · have hk' : (s.input == k) = false := by simpa using hk
        simp only [hk', Bool.false_eq_true, if_false]
        apply done
        intro x hx e'
        have h1 := hmin x hx
        have hsm : s ∈ h.heap := hperm.subset (by simp)
        have h2 := hlb s.idx (s.input, s.output) (by rw [hrem]; simp)
        simp only [slotLt, Bool.or_eq_false_iff] at h1
        rw [e'] at h1
        exact hk (lexLt_total h2 h1.1)

end Fst.Ops

/-! ## `filterLoop` (one `next` of union / intersection / symmetric difference) -/
namespace Fst.Ops

/-! ### `occF` -/

theorem len_le_one_of_const {l : KV} {k : Key} (hp : SortedL l) (hk : ∀ kv ∈ l, kv.1 = k) :
    l.length ≤ 1 := by
  match l, hp, hk with
  | [], _, _ => simp
  | [_], _, _ => simp
  | a :: b :: t, hp, hk =>
    have h1 := hk a (by simp)
    have h2 := hk b (by simp)
    have := (List.pairwise_cons.1 hp).1 b (by simp)
    rw [h1, h2, lexLt_irrefl] at this; cases this

theorem nodup_of_length_le_one {α} {l : List α} (h : l.length ≤ 1) : l.Nodup := by
  match l, h with
  | [], _ => simp
  | [_], _ => simp
  | _ :: _ :: _, h => simp at h

theorem filter_key_le_one {l : KV} (hs : SortedL l) (k : Key) :
    (l.filter (·.1 == k)).length ≤ 1 :=
  len_le_one_of_const (hs.filter _) fun kv h => by simpa using (List.mem_filter.1 h).2

theorem occF_mem {n rem k} (iv : IndexedValue) :
    iv ∈ occF n rem k ↔ iv.index < n ∧ (k, iv.value) ∈ rem iv.index := by
  obtain ⟨i, v⟩ := iv
  simp only [occF, List.mem_flatMap, List.mem_range, List.mem_map, List.mem_filter, beq_iff_eq,
    IndexedValue.mk.injEq]
  constructor
  · rintro ⟨a, ha, kv, ⟨hkv, rfl⟩, rfl, rfl⟩
    exact ⟨ha, hkv⟩
  · rintro ⟨h1, h2⟩
    exact ⟨i, h1, (k, v), ⟨h2, rfl⟩, rfl, rfl⟩

theorem occ_aux_nodup {rem : Nat → KV} (hs : SortedF rem) (k : Key) (is : List Nat) (hn : is.Nodup) :
    (is.flatMap fun i => ((rem i).filter (·.1 == k)).map fun kv => (⟨i, kv.2⟩ : IndexedValue)).Nodup ∧
    (is.flatMap fun i => ((rem i).filter (·.1 == k)).map fun kv => (⟨i, kv.2⟩ : IndexedValue)).length
      ≤ is.length := by
  induction is with
  | nil => simp
  | cons i t ih =>
    obtain ⟨hi, ht⟩ := List.nodup_cons.1 hn
    obtain ⟨ih1, ih2⟩ := ih ht
    have h1 := filter_key_le_one (hs i) k
    simp only [List.flatMap_cons, List.length_append, List.length_map, List.length_cons]
    refine ⟨?_, by omega⟩
    rw [List.nodup_append]
    refine ⟨?_, ih1, ?_⟩
    · exact nodup_of_length_le_one (by simpa using h1)
    · intro a ha b hb e
      subst e
      simp only [List.mem_map] at ha
      obtain ⟨kv, _, rfl⟩ := ha
      simp only [List.mem_flatMap, List.mem_map, IndexedValue.mk.injEq] at hb
      obtain ⟨j, hj, kv', _, rfl, _⟩ := hb
      exact hi hj

theorem occF_nodup {n rem} (hs : SortedF rem) (k : Key) : (occF n rem k).Nodup :=
  (occ_aux_nodup hs k _ List.nodup_range).1

theorem occF_length_le {n rem} (hs : SortedF rem) (k : Key) : (occF n rem k).length ≤ n := by
  have := (occ_aux_nodup hs k _ (List.nodup_range (n := n))).2
  simpa [occF] using this

theorem occF_dropLe {n rem k k'} (h : lexLt k k' = true) : occF n (dropLe k rem) k' = occF n rem k' := by
  unfold occF dropLe
  congr 1; funext i; congr 1
  rw [List.filter_filter]
  apply List.filter_congr
  intro kv _
  by_cases e : kv.1 = k'
  · simp [e, h]
  · simp [e]

theorem hasKey_dropLe {rem k k'} : HasKeyF (dropLe k rem) k' ↔ HasKeyF rem k' ∧ lexLt k k' = true := by
  simp only [HasKeyF, dropLe, List.mem_filter]
  constructor
  · rintro ⟨i, v, h1, h2⟩; exact ⟨⟨i, v, h1⟩, h2⟩
  · rintro ⟨⟨i, v, h1⟩, h2⟩; exact ⟨i, v, h1, h2⟩

theorem dropLe_dropLe {rem k k2} (h : lexLt k k2 = true) : dropLe k2 (dropLe k rem) = dropLe k2 rem := by
  funext i
  simp only [dropLe, List.filter_filter]
  apply List.filter_congr
  intro kv _
  cases h2 : lexLt k2 kv.1 with
  | false => simp
  | true => simp [lexLt_trans h h2]

/-! ### a fully loaded heap -/

theorem rep_congr {h rem U U'} (r : Rep h rem U) (hU : ∀ i, U i ↔ U' i) : Rep h rem U' :=
  rep_mono r (fun i hi => (hU i).2 hi) (fun i hi hi' => absurd ((hU i).1 hi) hi')

theorem rep_full_cases {h rem} (r : Rep h rem (fun _ => False)) (i : Nat) :
    rem i = [] ∨ ∃ s ∈ h.heap, s.idx = i ∧ rem i = (s.input, s.output) :: nth h.rdrs i := by
  by_cases hex : ∃ s ∈ h.heap, s.idx = i
  · obtain ⟨s, hs, rfl⟩ := hex
    exact Or.inr ⟨s, hs, rfl, (r.slot s hs).2.2⟩
  · exact Or.inl ((r.noslot i fun s hs e => hex ⟨s, hs, e⟩).2 (fun h => h))

theorem lb_of_min {h rem} (r : Rep h rem (fun _ => False)) (hs : SortedF rem) {s : Slot}
    (hmin : ∀ x ∈ h.heap, slotLt x s = false) : LB s.input rem := by
  intro i kv hkv
  rcases rep_full_cases r i with e | ⟨x, hx, rfl, e⟩
  · rw [e] at hkv; cases hkv
  · have h1 := hmin x hx
    simp only [slotLt, Bool.or_eq_false_iff] at h1
    have hsorted := hs x.idx
    rw [e] at hkv hsorted
    rcases List.mem_cons.1 hkv with rfl | hkv
    · exact h1.1
    · have := (List.pairwise_cons.1 hsorted).1 kv hkv
      cases h2 : lexLt kv.1 s.input with
      | false => rfl
      | true => rw [lexLt_trans this h2] at h1; cases h1.1

theorem heap_length_le {h rem U} (r : Rep h rem U) : h.heap.length ≤ h.rdrs.length := by
  have h1 : (h.heap.map (·.idx)) ⊆ List.range h.rdrs.length := by
    intro i hi
    obtain ⟨s, hs, rfl⟩ := List.mem_map.1 hi
    exact List.mem_range.2 (r.slot s hs).2.1
  have := r.nodup.length_le_of_subset h1
  simpa using this

theorem occ_perm {h rem n k} (r : Rep h rem (fun _ => False)) (hs : SortedF rem) (hlb : LB k rem)
    (hn : h.rdrs.length = n) :
    ((h.heap.filter (·.input == k)).map Slot.iv).Perm (occF n rem k) := by
  rw [List.perm_ext_iff_of_nodup _ (occF_nodup hs k)]
  · intro iv
    rw [occF_mem]
    simp only [List.mem_map, List.mem_filter, beq_iff_eq]
    constructor
    · rintro ⟨s, ⟨hsm, rfl⟩, rfl⟩
      obtain ⟨_, h2, h3⟩ := r.slot s hsm
      exact ⟨by simpa [Slot.iv, hn] using h2, by simp only [Slot.iv]; rw [h3]; simp⟩
    · rintro ⟨_, h2⟩
      rcases rep_full_cases r iv.index with e | ⟨s, hsm, hi, e⟩
      · rw [e] at h2; cases h2
      · have hsorted := hs iv.index
        rw [e] at h2 hsorted
        rcases List.mem_cons.1 h2 with h2 | h2
        · simp only [Prod.mk.injEq] at h2
          exact ⟨s, ⟨hsm, h2.1.symm⟩, by cases iv; simp_all [Slot.iv]⟩
        · have h3 := (List.pairwise_cons.1 hsorted).1 _ h2
          have h4 := hlb iv.index (s.input, s.output) (by rw [e]; simp)
          simp only at h3 h4
          rw [h3] at h4; cases h4
  · have : ((h.heap.filter (·.input == k)).map (·.idx)).Nodup :=
      r.nodup.sublist (List.filter_sublist.map _)
    rw [List.Nodup, List.pairwise_map] at this ⊢
    exact this.imp fun {a b} hab e => hab (by simpa [Slot.iv] using congrArg IndexedValue.index e)

/-! ### one call of `next` -/

def lentOf (c : Option Slot) : Nat → Prop := fun i => ∃ sl, c = some sl ∧ i = sl.idx

structure NextOk (keep : Nat → Nat → Bool) (n : Nat) (rem : Nat → KV) (M : Nat)
    (k : Key) (outs : List IndexedValue) (s' : OpState) : Prop where
  key : HasKeyF rem k
  skipped : ∀ k', HasKeyF rem k' → lexLt k' k = true → keep (occF n rem k').length n = false
  kept : keep (occF n rem k).length n = true
  perm : outs.Perm (occF n rem k)
  rep : Rep s'.heap (dropLe k rem) (lentOf s'.curSlot)
  len : s'.heap.rdrs.length = n
  dec : totalItems s'.heap < M

theorem filterLoop_spec {pop} (hp : PopSpec pop) (keep : Nat → Nat → Bool) (n : Nat) :
    ∀ fuel h rem, Rep h rem (fun _ => False) → SortedF rem → h.rdrs.length = n →
      totalItems h < fuel →
      match filterLoop pop keep fuel h with
      | none => ∀ k, HasKeyF rem k → keep (occF n rem k).length n = false
      | some ((k, outs), s') => NextOk keep n rem (totalItems h) k outs s' := by
  intro fuel
  induction fuel with
  | zero => intro h rem _ _ _ hf; omega
  | succ fuel ih =>
    intro h rem r hs hn hf
    unfold filterLoop SHeap.pop
    cases e : pop h.heap with
    | none =>
      simp only [Option.map_none]
      have hnil := (hp.1 _).1 e
      rintro k ⟨i, v, hkv⟩
      rcases rep_full_cases r i with e' | ⟨s, hsm, _⟩
      · rw [e'] at hkv; cases hkv
      · rw [hnil] at hsm; cases hsm
    | some p =>
      obtain ⟨slot, rest⟩ := p
      simp only [Option.map_some]
      obtain ⟨r1, hrem, -, hmin, hperm⟩ := rep_pop hp r e
      have hlb := lb_of_min r hs hmin
      have hsj := hs slot.idx
      rw [hrem] at hsj
      have htail : ∀ kv ∈ nth h.rdrs slot.idx, lexLt slot.input kv.1 = true :=
        fun kv hkv => (List.pairwise_cons.1 hsj).1 kv hkv
      have hs1 : SortedF (upd rem slot.idx (nth h.rdrs slot.idx)) := sortedF_upd_tail hs hrem
      have hlb1 : LB slot.input (upd rem slot.idx (nth h.rdrs slot.idx)) := by
        intro i kv hkv
        unfold upd at hkv
        split at hkv
        · exact lexLt_asymm (htail kv hkv)
        · exact hlb i kv hkv
      have hU1 : ∀ i, (False ∨ i = slot.idx) → ∀ kv ∈ upd rem slot.idx (nth h.rdrs slot.idx) i,
          lexLt slot.input kv.1 = true := by
        intro i hi kv hkv
        have : i = slot.idx := hi.elim False.elim id
        subst this
        simp only [upd, if_true] at hkv
        exact htail kv hkv
      have hcount : (rest.filter (·.input == slot.input)).length ≤ h.rdrs.length + 1 := by
        have h1 := heap_length_le r1
        have h2 := List.length_filter_le (·.input == slot.input) rest
        simp only at h1; omega
      obtain ⟨h'', ivs, e1, r2, hp2, hl2, ht2⟩ :=
        drainEqual_spec hp slot.input (h.rdrs.length + 1) ⟨h.rdrs, rest⟩ _ _ [slot.iv]
          r1 hs1 hlb1 hU1 hcount
      simp only at e1 hl2
      rw [e1]
      simp only
      rw [dropLe_upd_head hrem (lexLt_irrefl _)] at r2
      have hpt := totalItems_pop hperm
      -- the popped values are exactly the occurrences of the key
      have hperm2 : ([slot.iv] ++ ivs).Perm (occF n rem slot.input) := by
        have hpf := hperm.filter (·.input == slot.input)
        rw [List.filter_cons, if_pos (by simp)] at hpf
        exact ((hp2.cons slot.iv).trans (hpf.map Slot.iv)).trans (occ_perm r hs hlb hn)
      have hlen := hperm2.length_eq
      rw [hl2, hn, hlen]
      have hkey : HasKeyF rem slot.input := ⟨slot.idx, slot.output, by rw [hrem]; simp⟩
      cases hkeep : keep (occF n rem slot.input).length n with
      | true =>
        simp only [if_true]
        refine ⟨hkey, ?_, hkeep, hperm2, ?_, by simp [hl2, hn], by simp only; omega⟩
        · rintro k' ⟨i, v, hkv⟩ hlt
          rw [hlb i _ hkv] at hlt; cases hlt
        · refine rep_congr r2 fun i => ?_
          simp [lentOf]
      | false =>
        simp only [Bool.false_eq_true, if_false]
        have r3 : Rep (h''.refill slot.idx) (dropLe slot.input rem) (fun _ => False) := by
          refine rep_congr (rep_refill r2 slot.idx (Or.inr rfl)) fun i => ?_
          simp
        have ih' := ih (h''.refill slot.idx) _ r3 (sortedF_dropLe hs _)
          (by rw [refill_len, hl2, hn]) (by rw [totalItems_refill]; omega)
        have hgt : ∀ k', HasKeyF rem k' → k' ≠ slot.input → lexLt slot.input k' = true := by
          rintro k' ⟨i, v, hkv⟩ hne
          exact lt_of_ge_ne (hlb i _ hkv) hne
        split at ih'
        · rename_i hnone
          intro k' hk'
          by_cases hek : k' = slot.input
          · rw [hek]; exact hkeep
          · have hlt := hgt k' hk' hek
            rw [← occF_dropLe hlt]
            exact ih' k' (hasKey_dropLe.2 ⟨hk', hlt⟩)
        · rename_i k2 outs2 s' hsome
          obtain ⟨hk2, hlt2⟩ := hasKey_dropLe.1 ih'.key
          refine ⟨hk2, ?_, ?_, ?_, ?_, ih'.len, ?_⟩
          · intro k' hk' hlt
            by_cases hek : k' = slot.input
            · rw [hek]; exact hkeep
            · have hlt' := hgt k' hk' hek
              rw [← occF_dropLe hlt']
              exact ih'.skipped k' (hasKey_dropLe.2 ⟨hk', hlt'⟩) hlt
          · rw [← occF_dropLe hlt2]; exact ih'.kept
          · rw [← occF_dropLe hlt2]; exact ih'.perm
          · rw [← dropLe_dropLe hlt2]; exact ih'.rep
          · have := ih'.dec; rw [totalItems_refill] at this; omega

end Fst.Ops

/-! ## draining an operation; the specification on lists of streams -/
namespace Fst.Ops

/-! ### draining an operation: function-level specification -/

structure SpecF (keep : Nat → Nat → Bool) (n : Nat) (rem : Nat → KV)
    (out : List (Key × List IndexedValue)) : Prop where
  sorted : (out.map (·.1)).Pairwise (fun a b => lexLt a b = true)
  mem : ∀ k, k ∈ out.map (·.1) ↔ HasKeyF rem k ∧ keep (occF n rem k).length n = true
  perm : ∀ k outs, (k, outs) ∈ out → outs.Perm (occF n rem k)

theorem rep_refillCur {s : OpState} {rem} (r : Rep s.heap rem (lentOf s.curSlot)) :
    Rep s.refillCur rem (fun _ => False) ∧ s.refillCur.rdrs.length = s.heap.rdrs.length ∧
      totalItems s.refillCur = totalItems s.heap := by
  unfold OpState.refillCur
  cases hc : s.curSlot with
  | none =>
    simp only
    rw [hc] at r
    exact ⟨rep_congr r fun i => by simp [lentOf], trivial, trivial⟩
  | some slot =>
    simp only
    rw [hc] at r
    refine ⟨?_, refill_len _ _, totalItems_refill _ _⟩
    refine rep_congr (rep_refill r slot.idx ⟨slot, rfl, rfl⟩) fun i => ?_
    simp only [lentOf, Option.some.injEq, exists_eq_left', iff_false, not_and, Classical.not_not]
    exact id

theorem collect_spec {pop} (hp : PopSpec pop) (keep : Nat → Nat → Bool) (n : Nat)
    (next : OpState → Option ((Key × List IndexedValue) × OpState))
    (hnext : ∀ s, next s = filterLoop pop keep (totalItems s.refillCur + 1) s.refillCur) :
    ∀ fuel s rem acc, Rep s.heap rem (lentOf s.curSlot) → SortedF rem → s.heap.rdrs.length = n →
      totalItems s.heap < fuel →
      ∃ out, collectWith next fuel s acc = acc.reverse ++ out ∧ SpecF keep n rem out := by
  intro fuel
  induction fuel with
  | zero => intro s rem acc _ _ _ hf; omega
  | succ fuel ih =>
    intro s rem acc r hs hn hf
    obtain ⟨r0, hl0, ht0⟩ := rep_refillCur r
    have hspec := filterLoop_spec hp keep n (totalItems s.refillCur + 1) s.refillCur rem r0 hs
      (by rw [hl0, hn]) (by omega)
    unfold collectWith
    rw [hnext]
    split at hspec
    · rename_i hnone
      rw [hnone]
      refine ⟨[], by simp, by simp, ?_, by simp⟩
      intro k
      simp only [List.map_nil, List.not_mem_nil, false_iff, not_and]
      intro hk; rw [hspec k hk]; simp
    · rename_i k outs s' hsome
      rw [hsome]
      simp only
      obtain ⟨out', e', sp'⟩ := ih s' _ ((k, outs) :: acc) hspec.rep (sortedF_dropLe hs k) hspec.len
        (by have := hspec.dec; omega)
      refine ⟨(k, outs) :: out', by rw [e']; simp, ?_, ?_, ?_⟩
      · simp only [List.map_cons, List.pairwise_cons]
        refine ⟨?_, sp'.sorted⟩
        intro k' hk'
        exact (hasKey_dropLe.1 ((sp'.mem k').1 hk').1).2
      · intro k'
        simp only [List.map_cons, List.mem_cons]
        constructor
        · rintro (rfl | hk')
          · exact ⟨hspec.key, hspec.kept⟩
          · obtain ⟨h1, h2⟩ := (sp'.mem k').1 hk'
            obtain ⟨h3, h4⟩ := hasKey_dropLe.1 h1
            rw [occF_dropLe h4] at h2
            exact ⟨h3, h2⟩
        · rintro ⟨h1, h2⟩
          by_cases hek : k' = k
          · exact Or.inl hek
          · right
            cases hlt : lexLt k' k with
            | true => rw [hspec.skipped k' h1 hlt] at h2; cases h2
            | false =>
              have hgt := lt_of_ge_ne hlt hek
              refine (sp'.mem k').2 ⟨hasKey_dropLe.2 ⟨h1, hgt⟩, ?_⟩
              rw [occF_dropLe hgt]; exact h2
      · intro k' outs' hmem
        rcases List.mem_cons.1 hmem with e | hmem
        · simp only [Prod.mk.injEq] at e; rw [e.1, e.2]; exact hspec.perm
        · have hk' : k' ∈ out'.map (·.1) := List.mem_map.2 ⟨_, hmem, rfl⟩
          have hgt := (hasKey_dropLe.1 ((sp'.mem k').1 hk').1).2
          rw [← occF_dropLe hgt]
          exact sp'.perm k' outs' hmem

theorem unionNext_eq (pop : PopFn) (s : OpState) :
    unionNext pop s = filterLoop pop (fun _ _ => true) (totalItems s.refillCur + 1) s.refillCur := by
  unfold unionNext filterLoop
  simp only
  cases s.refillCur.pop pop with
  | none => rfl
  | some p => simp

/-! ### the specification on lists of streams -/

/-- `[(i, v) | i ← indices, (k, v) ∈ streams[i]]` in index order -/
def occ (streams : List KV) (k : Key) : List IndexedValue :=
  (List.range streams.length).flatMap fun i =>
    ((streams[i]?.getD []).filter (·.1 == k)).map fun kv => ⟨i, kv.2⟩

def HasKey (streams : List KV) (k : Key) : Prop := ∃ l ∈ streams, ∃ v, (k, v) ∈ l

/-- strictly increasing list of keys -/
def SortedK (ks : List Key) : Prop := ks.Pairwise (fun a b => lexLt a b = true)

def insertKey (k : Key) : List Key → List Key
  | [] => [k]
  | a :: t => if lexLt k a then k :: a :: t else if k == a then a :: t else a :: insertKey k t

/-- all keys of all streams, ascending, each once -/
def allKeys (streams : List KV) : List Key := (streams.flatten.map (·.1)).foldr insertKey []

theorem occ_eq (streams : List KV) (k : Key) : occ streams k = occF streams.length (nth streams) k := rfl

theorem hasKeyF_nth (streams : List KV) (k : Key) : HasKeyF (nth streams) k ↔ HasKey streams k := by
  unfold HasKeyF HasKey nth
  constructor
  · rintro ⟨i, v, h⟩
    cases hi : streams[i]? with
    | none => rw [hi] at h; simp at h
    | some l => rw [hi] at h; exact ⟨l, List.mem_of_getElem? hi, v, h⟩
  · rintro ⟨l, hl, v, h⟩
    obtain ⟨i, hi, rfl⟩ := List.getElem_of_mem hl
    exact ⟨i, v, by simpa [List.getElem?_eq_getElem hi] using h⟩

theorem sortedF_nth {streams : List KV} (hs : ∀ l ∈ streams, SortedKV l) : SortedF (nth streams) := by
  intro i
  unfold nth
  cases hi : streams[i]? with
  | none => exact List.Pairwise.nil
  | some l => exact (sortedKV_iff l).1 (hs l (List.mem_of_getElem? hi))

theorem mem_insertKey (k x : Key) (l : List Key) : x ∈ insertKey k l ↔ x = k ∨ x ∈ l := by
  induction l with
  | nil => simp [insertKey]
  | cons a t ih =>
    unfold insertKey
    split
    · simp
    · split
      · rename_i h; have : k = a := by simpa using h
        subst this; simp
      · simp only [List.mem_cons, ih]
        constructor
        · rintro (h | h | h) <;> simp [h]
        · rintro (h | h | h) <;> simp [h]

theorem sorted_insertKey (k : Key) (l : List Key) (hs : SortedK l) : SortedK (insertKey k l) := by
  unfold SortedK at *
  induction l with
  | nil => simp [insertKey]
  | cons a t ih =>
    obtain ⟨ha, ht⟩ := List.pairwise_cons.1 hs
    unfold insertKey
    split
    · rename_i hlt
      refine List.pairwise_cons.2 ⟨?_, hs⟩
      intro b hb
      rcases List.mem_cons.1 hb with rfl | hb
      · exact hlt
      · exact lexLt_trans hlt (ha b hb)
    · rename_i hlt
      split
      · exact hs
      · rename_i hne
        refine List.pairwise_cons.2 ⟨?_, ih ht⟩
        intro b hb
        rcases (mem_insertKey k b t).1 hb with rfl | hb
        · exact lt_of_ge_ne (by simpa using hlt) (by simpa using hne)
        · exact ha b hb

theorem sorted_allKeys (streams : List KV) : SortedK (allKeys streams) := by
  unfold allKeys
  induction streams.flatten.map (·.1) with
  | nil => exact List.Pairwise.nil
  | cons a t ih => exact sorted_insertKey a _ ih

theorem mem_allKeys (streams : List KV) (k : Key) : k ∈ allKeys streams ↔ HasKey streams k := by
  have : ∀ l : List Key, k ∈ l.foldr insertKey [] ↔ k ∈ l := by
    intro l
    induction l with
    | nil => simp
    | cons a t ih => simp [mem_insertKey, ih]
  unfold allKeys HasKey
  rw [this]
  simp only [List.mem_map, List.mem_flatten]
  constructor
  · rintro ⟨kv, ⟨l, hl, hkv⟩, rfl⟩; exact ⟨l, hl, kv.2, hkv⟩
  · rintro ⟨l, hl, v, hkv⟩; exact ⟨(k, v), ⟨l, hl, hkv⟩, rfl⟩

/-- a strictly increasing list is determined by its members -/
theorem sortedK_ext {l1 l2 : List Key} (h1 : SortedK l1) (h2 : SortedK l2)
    (h : ∀ k, k ∈ l1 ↔ k ∈ l2) : l1 = l2 := by
  unfold SortedK at *
  have nd : ∀ {l : List Key}, l.Pairwise (fun a b => lexLt a b = true) → l.Nodup := fun hl =>
    hl.imp fun {a b} hab e => by rw [e, lexLt_irrefl] at hab; cases hab
  refine List.Perm.eq_of_pairwise (le := fun a b => lexLt a b = true) ?_ h1 h2
    ((List.perm_ext_iff_of_nodup (nd h1) (nd h2)).2 h)
  intro a b _ _ hab hba
  rw [lexLt_asymm hab] at hba; cases hba

end Fst.Ops

/-! ## union / intersection / symmetric difference, generically -/
namespace Fst.Ops

theorem opFilter_spec {pop} (hp : PopSpec pop) (keep : Nat → Nat → Bool)
    (next : OpState → Option ((Key × List IndexedValue) × OpState))
    (hnext : ∀ s, next s = filterLoop pop keep (totalItems s.refillCur + 1) s.refillCur)
    (streams : List KV) (hs : ∀ l ∈ streams, SortedKV l) :
    SortedK ((collectWith next (totalLen streams + 1) (OpState.new streams) []).map (·.1)) ∧
    (∀ k, k ∈ (collectWith next (totalLen streams + 1) (OpState.new streams) []).map (·.1) ↔
      HasKey streams k ∧ keep (occ streams k).length streams.length = true) ∧
    ∀ k outs, (k, outs) ∈ collectWith next (totalLen streams + 1) (OpState.new streams) [] →
      outs.Perm (occ streams k) := by
  obtain ⟨r, hl, ht⟩ := rep_new streams
  obtain ⟨out, e, sp⟩ := collect_spec hp keep streams.length next hnext (totalLen streams + 1)
    (OpState.new streams) (nth streams) []
    (rep_congr r fun i => by simp [lentOf, OpState.new]) (sortedF_nth hs) hl
    (by simp only [OpState.new]; omega)
  rw [e]
  simp only [List.reverse_nil, List.nil_append]
  refine ⟨sp.sorted, ?_, sp.perm⟩
  intro k
  rw [sp.mem k, hasKeyF_nth, occ_eq]

theorem keys_eq_filter {streams : List KV} {ks : List Key} {p : Key → Bool} (h1 : SortedK ks)
    (h2 : ∀ k, k ∈ ks ↔ HasKey streams k ∧ p k = true) : ks = (allKeys streams).filter p := by
  refine sortedK_ext h1 ((sorted_allKeys streams).filter _) fun k => ?_
  rw [h2, List.mem_filter, mem_allKeys]

end Fst.Ops

/-! ## difference -/
namespace Fst.Ops

theorem dropLe_eq_self {rem : Nat → KV} {k : Key} (h : ∀ i kv, kv ∈ rem i → lexLt k kv.1 = true) :
    dropLe k rem = rem := by
  funext i
  unfold dropLe
  rw [List.filter_eq_self]
  exact h i

theorem drainLe_spec {pop} (hp : PopSpec pop) (k : Key) :
    ∀ fuel h rem u, Rep h rem (fun _ => False) → SortedF rem → totalItems h < fuel →
      ∃ h' b, drainLe pop k fuel h u = (h', u && b) ∧ (b = true ↔ ¬ HasKeyF rem k) ∧
        Rep h' (dropLe k rem) (fun _ => False) ∧ h'.rdrs.length = h.rdrs.length ∧
        totalItems h' ≤ totalItems h := by
  intro fuel
  induction fuel with
  | zero => intro h rem u _ _ hf; omega
  | succ fuel ih =>
    intro h rem u r hs hf
    have done : (∀ i kv, kv ∈ rem i → lexLt k kv.1 = true) →
        ∃ h' b, (h, u) = (h', u && b) ∧ (b = true ↔ ¬ HasKeyF rem k) ∧
        Rep h' (dropLe k rem) (fun _ => False) ∧ h'.rdrs.length = h.rdrs.length ∧
        totalItems h' ≤ totalItems h := by
      intro hall
      refine ⟨h, true, by simp, ?_, by rw [dropLe_eq_self hall]; exact r, rfl, Nat.le_refl _⟩
      simp only [true_iff]
      rintro ⟨i, v, hkv⟩
      have := hall i _ hkv
      rw [lexLt_irrefl] at this; cases this
    unfold drainLe SHeap.popIfLe SHeap.pop
    cases e : pop h.heap with
    | none =>
      simp only [Option.map_none]
      apply done
      intro i kv hkv
      have hnil := (hp.1 _).1 e
      rcases rep_full_cases r i with e' | ⟨s, hsm, _⟩
      · rw [e'] at hkv; cases hkv
      · rw [hnil] at hsm; cases hsm
    | some p =>
      obtain ⟨s, rest⟩ := p
      simp only [Option.map_some]
      obtain ⟨r1, hrem, -, hmin, hperm⟩ := rep_pop hp r e
      have hlb := lb_of_min r hs hmin
      cases hle : lexLt k s.input with
      | false =>
        simp only [lexLe, hle, Bool.not_false, if_true]
        have r2 : Rep (SHeap.refill ⟨h.rdrs, rest⟩ s.idx) (upd rem s.idx (nth h.rdrs s.idx))
            (fun _ => False) := by
          refine rep_congr (rep_refill r1 s.idx (Or.inr rfl)) fun i => ?_
          simp
        have hpt := totalItems_pop hperm
        obtain ⟨h', b', e1, hb', r', hl', ht'⟩ := ih (SHeap.refill ⟨h.rdrs, rest⟩ s.idx) _
          (u && !(s.input == k)) r2 (sortedF_upd_tail hs hrem) (by rw [totalItems_refill]; omega)
        refine ⟨h', !(s.input == k) && b', by rw [e1, Bool.and_assoc], ?_, ?_, ?_, ?_⟩
        · simp only [Bool.and_eq_true, Bool.not_eq_true', beq_eq_false_iff_ne, hb']
          constructor
          · rintro ⟨hne, hno⟩ ⟨i, v, hkv⟩
            by_cases hi : i = s.idx
            · subst hi
              rw [hrem] at hkv
              rcases List.mem_cons.1 hkv with h1 | h1
              · simp only [Prod.mk.injEq] at h1; exact hne h1.1.symm
              · exact hno ⟨s.idx, v, by simpa [upd] using h1⟩
            · exact hno ⟨i, v, by simpa [upd, hi] using hkv⟩
          · intro hno
            refine ⟨fun e' => hno ⟨s.idx, s.output, by rw [hrem, e']; simp⟩, ?_⟩
            rintro ⟨i, v, hkv⟩
            by_cases hi : i = s.idx
            · subst hi
              simp only [upd, if_true] at hkv
              exact hno ⟨s.idx, v, by rw [hrem]; exact List.mem_cons_of_mem _ hkv⟩
            · simp only [upd, if_neg hi] at hkv
              exact hno ⟨i, v, hkv⟩
        · rw [← dropLe_upd_head hrem hle]; exact r'
        · rw [hl', refill_len]
        · rw [totalItems_refill] at ht'; omega
      | true =>
        simp only [lexLe, hle, Bool.not_true, Bool.false_eq_true, if_false]
        apply done
        intro i kv hkv
        have h1 := hlb i kv hkv
        cases h2 : lexLt k kv.1 with
        | true => rfl
        | false =>
          by_cases hek : kv.1 = k
          · rw [hek, hle] at h1; cases h1
          · rw [lexLt_trans (lt_of_ge_ne h2 (fun e => hek e.symm)) hle] at h1; cases h1

open Classical in
/-- the key of `kv` occurs in none of the other streams -/
noncomputable def diffP (rem : Nat → KV) (kv : Key × Nat) : Bool := decide (¬ HasKeyF rem kv.1)

theorem diffP_dropLe {rem : Nat → KV} {k : Key} {v : Nat} {rest : KV} (hs : SortedL ((k, v) :: rest)) :
    rest.filter (diffP rem) = rest.filter (diffP (dropLe k rem)) := by
  apply List.filter_congr
  intro kv hkv
  have hlt : lexLt k kv.1 = true := (List.pairwise_cons.1 hs).1 kv hkv
  unfold diffP
  rw [hasKey_dropLe]
  simp [hlt]

def diffItem (kv : Key × Nat) : Key × List IndexedValue := (kv.1, [⟨0, kv.2⟩])

theorem differenceNext_spec {pop} (hp : PopSpec pop) :
    ∀ fuel set h rem, Rep h rem (fun _ => False) → SortedF rem → SortedL set → set.length < fuel →
      match differenceNext pop fuel ⟨set, h⟩ with
      | none => set.filter (diffP rem) = []
      | some (item, s') => ∃ kv, item = diffItem kv ∧
          set.filter (diffP rem) = kv :: s'.set.filter (diffP (dropLe kv.1 rem)) ∧
          Rep s'.heap (dropLe kv.1 rem) (fun _ => False) ∧ SortedL s'.set ∧
          s'.set.length < set.length := by
  intro fuel
  induction fuel with
  | zero => intro set h rem _ _ _ hf; omega
  | succ fuel ih =>
    intro set h rem r hs hss hf
    unfold differenceNext
    cases set with
    | nil => simp
    | cons kv rest =>
      obtain ⟨k, v⟩ := kv
      simp only
      obtain ⟨h1, b, e1, hb, r1, -, -⟩ := drainLe_spec hp k (totalItems h + 1) h rem true r hs (by omega)
      rw [e1]
      have hrest : SortedL rest := (List.pairwise_cons.1 hss).2
      cases b with
      | true =>
        simp only [Bool.and_self, if_true]
        refine ⟨(k, v), rfl, ?_, r1, hrest, by simp⟩
        have : diffP rem (k, v) = true := by simpa [diffP] using hb.1 rfl
        rw [List.filter_cons, if_pos this, diffP_dropLe hss]
      | false =>
        simp only [Bool.and_false, Bool.false_eq_true, if_false]
        have ih' := ih rest h1 _ r1 (sortedF_dropLe hs k) hrest (by simp at hf; omega)
        have hhead : diffP rem (k, v) = false := by
          have : HasKeyF rem k := Classical.byContradiction fun h => by simpa using hb.2 h
          simp [diffP, this]
        rw [List.filter_cons, if_neg (by simp [hhead]), diffP_dropLe hss]
        split at ih'
        · exact ih'
        · obtain ⟨kv', h1', h2', h3', h4', h5'⟩ := ih'
          have hlt : lexLt k kv'.1 = true := by
            have : kv' ∈ rest.filter (diffP (dropLe k rem)) := by rw [h2']; simp
            exact (List.pairwise_cons.1 hss).1 kv' (List.mem_filter.1 this).1
          rw [dropLe_dropLe hlt] at h2' h3'
          exact ⟨kv', h1', h2', h3', h4', by simp; omega⟩

theorem diff_collect_spec {pop} (hp : PopSpec pop) (F : Nat) :
    ∀ fuel set h rem acc, Rep h rem (fun _ => False) → SortedF rem → SortedL set →
      set.length < F → set.length < fuel →
      collectWith (differenceNext pop F) fuel ⟨set, h⟩ acc =
        acc.reverse ++ (set.filter (diffP rem)).map diffItem := by
  intro fuel
  induction fuel with
  | zero => intro set h rem acc _ _ _ _ hf; omega
  | succ fuel ih =>
    intro set h rem acc r hs hss hF hf
    have hspec := differenceNext_spec hp F set h rem r hs hss hF
    unfold collectWith
    split at hspec
    · rename_i hnone
      rw [hnone, hspec]; simp
    · rename_i item s' hsome
      rw [hsome]
      obtain ⟨kv, h1, h2, h3, h4, h5⟩ := hspec
      simp only
      rw [ih s'.set s'.heap _ (item :: acc) h3 (sortedF_dropLe hs _) h4 (by omega) (by omega), h2, h1]
      simp

end Fst.Ops

namespace Fst.Ops

/-- some stream has the key `k` (executable form of `HasKey`) -/
def hasKeyB (streams : List KV) (k : Key) : Bool := streams.any fun l => l.any (·.1 == k)

theorem hasKeyB_iff (streams : List KV) (k : Key) : hasKeyB streams k = true ↔ HasKey streams k := by
  simp only [hasKeyB, HasKey, List.any_eq_true, beq_iff_eq]
  constructor
  · rintro ⟨l, hl, kv, hkv, rfl⟩; exact ⟨l, hl, kv.2, hkv⟩
  · rintro ⟨l, hl, v, hkv⟩; exact ⟨l, hl, (k, v), hkv, rfl⟩

/-- the reader order after `swap_remove(0)` -/
def swapRemoved (rest : List KV) : List KV :=
  match rest.getLast? with
  | some l => l :: rest.dropLast
  | none => []

theorem mem_swapRemoved (rest : List KV) (l : KV) : l ∈ swapRemoved rest ↔ l ∈ rest := by
  unfold swapRemoved
  cases h : rest.getLast? with
  | none => rw [List.getLast?_eq_none_iff] at h; simp [h]
  | some a =>
    obtain ⟨ys, rfl⟩ := List.getLast?_eq_some_iff.1 h
    simp [or_comm]

theorem diff_spec {pop} (hp : PopSpec pop) (first : KV) (rest : List KV)
    (hs : ∀ l ∈ first :: rest, SortedKV l) :
    opCollect pop .difference (first :: rest) =
      some ((first.filter (fun kv => !hasKeyB rest kv.1)).map (fun kv => (kv.1, [⟨0, kv.2⟩]))) := by
  have hsw : ∀ l ∈ swapRemoved rest, SortedKV l := fun l hl =>
    hs l (List.mem_cons_of_mem _ ((mem_swapRemoved rest l).1 hl))
  obtain ⟨r, -, -⟩ := rep_new (swapRemoved rest)
  have hlen : first.length < totalLen (first :: rest) + 1 := by
    simp only [totalLen, List.map_cons, List.sum_cons]; omega
  have := diff_collect_spec hp (first.length + 1) (totalLen (first :: rest) + 1) first
    (SHeap.new (swapRemoved rest)) _ [] r (sortedF_nth hsw)
    ((sortedKV_iff first).1 (hs first (by simp))) (by omega) hlen
  show some (collectWith (differenceNext pop (first.length + 1)) (totalLen (first :: rest) + 1)
    ⟨first, SHeap.new (swapRemoved rest)⟩ []) = _
  rw [this]
  simp only [List.reverse_nil, List.nil_append, Option.some.injEq]
  have hc : first.filter (diffP (nth (swapRemoved rest))) =
      first.filter (fun kv => !hasKeyB rest kv.1) := by
    apply List.filter_congr
    intro kv _
    have h1 : HasKeyF (nth (swapRemoved rest)) kv.1 ↔ hasKeyB rest kv.1 = true := by
      rw [hasKeyF_nth, hasKeyB_iff]
      simp only [HasKey, mem_swapRemoved]
    unfold diffP
    rw [h1]
    cases hasKeyB rest kv.1 <;> simp
  rw [hc]
  rfl

end Fst.Ops

/-! ## `is_disjoint`, `is_subset`, `is_superset` -/
namespace Fst.Ops

/-- `k` is a key of the stream `l` -/
def KeyOf (l : KV) (k : Key) : Prop := ∃ v, (k, v) ∈ l

theorem keyOf_iff_mem (l : KV) (k : Key) : KeyOf l k ↔ k ∈ l.map (·.1) := by
  simp only [KeyOf, List.mem_map]
  constructor
  · rintro ⟨v, h⟩; exact ⟨(k, v), h, rfl⟩
  · rintro ⟨kv, h, rfl⟩; exact ⟨kv.2, h⟩

theorem nodup_of_sortedK {l : List Key} (h : SortedK l) : l.Nodup :=
  h.imp fun {a b} hab e => by rw [e, lexLt_irrefl] at hab; cases hab

theorem sortedK_keys {l : KV} (h : SortedKV l) : SortedK (l.map (·.1)) := by
  have := (sortedKV_iff l).1 h
  unfold SortedL at this
  unfold SortedK
  rw [List.pairwise_map]
  exact this

theorem length_eq_iff_subset {l1 l2 : List Key} (n1 : l1.Nodup) (n2 : l2.Nodup) (h : l1 ⊆ l2) :
    l1.length = l2.length ↔ l2 ⊆ l1 := by
  constructor
  · intro hl x hx
    apply Classical.byContradiction
    intro hx'
    have : (x :: l1).Nodup := List.nodup_cons.2 ⟨hx', n1⟩
    have := this.length_le_of_subset (l₂ := l2) (by
      intro y hy
      rcases List.mem_cons.1 hy with rfl | hy
      · exact hx
      · exact h hy)
    simp only [List.length_cons] at this; omega
  · intro h'
    have a := n1.length_le_of_subset h
    have b := n2.length_le_of_subset h'
    omega

theorem hasKey_two (a b : KV) (k : Key) : HasKey [a, b] k ↔ KeyOf a k ∨ KeyOf b k := by
  simp [HasKey, KeyOf]

theorem filter_len_pos {l : KV} {k : Key} : 0 < (l.filter (·.1 == k)).length ↔ KeyOf l k := by
  rw [List.length_pos_iff_exists_mem]
  simp only [List.mem_filter, beq_iff_eq, KeyOf]
  constructor
  · rintro ⟨kv, h, rfl⟩; exact ⟨kv.2, h⟩
  · rintro ⟨v, h⟩; exact ⟨(k, v), h, rfl⟩

theorem occ_two_length (a b : KV) (k : Key) :
    (occ [a, b] k).length = (a.filter (·.1 == k)).length + (b.filter (·.1 == k)).length := by
  simp [occ, List.range_succ]

theorem both_iff {a b : KV} (ha : SortedKV a) (hb : SortedKV b) (k : Key) :
    (!decide ((occ [a, b] k).length < 2)) = true ↔ KeyOf a k ∧ KeyOf b k := by
  have h1 := filter_key_le_one ((sortedKV_iff a).1 ha) k
  have h2 := filter_key_le_one ((sortedKV_iff b).1 hb) k
  rw [← filter_len_pos, ← filter_len_pos, occ_two_length]
  simp only [Bool.not_eq_true', decide_eq_false_iff_not]
  omega

theorem sorted_two {a b : KV} (ha : SortedKV a) (hb : SortedKV b) : ∀ l ∈ [a, b], SortedKV l := by
  intro l hl
  simp only [List.mem_cons, List.not_mem_nil, or_false] at hl
  rcases hl with rfl | rfl <;> assumption

end Fst.Ops

namespace Fst
open Ops

/-- `is_disjoint`: no common key -/
theorem C05_disjoint (pop : PopFn) (hp : PopSpec pop) (a b : KV) (ha : SortedKV a) (hb : SortedKV b) :
    isDisjoint pop a b = true ↔ ∀ k, ¬ (KeyOf a k ∧ KeyOf b k) := by
  obtain ⟨r, hl, ht⟩ := rep_new [a, b]
  have hs := sortedF_nth (sorted_two ha hb)
  have r' : Rep (OpState.new [a, b]).heap (nth [a, b]) (lentOf (OpState.new [a, b]).curSlot) :=
    rep_congr r fun i => by simp [lentOf, OpState.new]
  obtain ⟨r0, hl0, -⟩ := rep_refillCur r'
  have hspec := filterLoop_spec hp (fun popped nslots => !(popped < nslots)) 2
    (totalItems (OpState.new [a, b]).refillCur + 1) _ _ r0 hs (by rw [hl0]; exact hl) (by omega)
  unfold isDisjoint intersectionNext
  simp only
  split at hspec
  · rename_i hnone
    rw [hnone]
    simp only [Option.isNone_none, true_iff]
    intro k hk
    have := hspec k ((hasKeyF_nth _ k).2 ((hasKey_two a b k).2 (Or.inl hk.1)))
    have h2 := (both_iff ha hb k).2 hk
    rw [occ_eq] at h2
    simp only [List.length_cons, List.length_nil] at h2
    rw [this] at h2; cases h2
  · rename_i k outs s' hsome
    rw [hsome]
    simp only [Option.isNone_some, Bool.false_eq_true, false_iff, Classical.not_forall,
      Classical.not_not]
    refine ⟨k, (both_iff ha hb k).1 ?_⟩
    rw [occ_eq]
    exact hspec.kept

/-- `is_subset`: every key of `a` is a key of `b` -/
theorem C05_subset (pop : PopFn) (hp : PopSpec pop) (a b : KV) (ha : SortedKV a) (hb : SortedKV b) :
    isSubset pop a b = true ↔ ∀ k, KeyOf a k → KeyOf b k := by
  obtain ⟨h1, h2, -⟩ := opFilter_spec hp (fun popped nslots => !(popped < nslots))
    (intersectionNext pop) (fun _ => rfl) [a, b] (sorted_two ha hb)
  unfold isSubset
  generalize collectWith (intersectionNext pop) (totalLen [a, b] + 1) (OpState.new [a, b]) [] = out
    at h1 h2
  have hmem : ∀ k, k ∈ out.map (·.1) ↔ KeyOf a k ∧ KeyOf b k := by
    intro k
    rw [h2, hasKey_two]
    have := both_iff ha hb k
    simp only [List.length_cons, List.length_nil] at this ⊢
    rw [this]
    constructor
    · exact fun h => h.2
    · exact fun h => ⟨Or.inl h.1, h⟩
  have hsub : out.map (·.1) ⊆ a.map (·.1) := fun k hk =>
    (keyOf_iff_mem a k).1 ((hmem k).1 hk).1
  have := length_eq_iff_subset (nodup_of_sortedK h1) (nodup_of_sortedK (sortedK_keys ha)) hsub
  simp only [List.length_map] at this
  rw [beq_iff_eq, this]
  constructor
  · intro h k hk
    exact ((hmem k).1 (h ((keyOf_iff_mem a k).1 hk))).2
  · intro h k hk
    have hk' := (keyOf_iff_mem a k).2 hk
    exact (hmem k).2 ⟨hk', h k hk'⟩

/-- `is_superset`: every key of `b` is a key of `a` -/
theorem C05_superset (pop : PopFn) (hp : PopSpec pop) (a b : KV) (ha : SortedKV a) (hb : SortedKV b) :
    isSuperset pop a b = true ↔ ∀ k, KeyOf b k → KeyOf a k := by
  obtain ⟨h1, h2, -⟩ := opFilter_spec hp (fun _ _ => true)
    (unionNext pop) (unionNext_eq pop) [a, b] (sorted_two ha hb)
  unfold isSuperset
  generalize collectWith (unionNext pop) (totalLen [a, b] + 1) (OpState.new [a, b]) [] = out
    at h1 h2
  have hmem : ∀ k, k ∈ out.map (·.1) ↔ KeyOf a k ∨ KeyOf b k := by
    intro k
    rw [h2, hasKey_two]; simp
  have hsub : a.map (·.1) ⊆ out.map (·.1) := fun k hk =>
    (hmem k).2 (Or.inl ((keyOf_iff_mem a k).2 hk))
  have := length_eq_iff_subset (nodup_of_sortedK (sortedK_keys ha)) (nodup_of_sortedK h1) hsub
  simp only [List.length_map] at this
  rw [beq_iff_eq, eq_comm, this]
  constructor
  · intro h k hk
    exact (keyOf_iff_mem a k).2 (h ((hmem k).2 (Or.inr hk)))
  · intro h k hk
    rcases (hmem k).1 hk with h' | h'
    · exact (keyOf_iff_mem a k).1 h'
    · exact (keyOf_iff_mem a k).1 (h k h')

end Fst

/-! ## C05 — main theorems

For every `pop` with `PopSpec pop` (any tie-break among equal `(input, output)` slots) and
every list of strictly sorted streams. `allKeys streams` is the ascending duplicate-free list
of all keys (`sorted_allKeys`, `mem_allKeys`; unique by `sortedK_ext`), `occ streams k` the
list `[(i, v) | i ← indices, (k, v) ∈ streams[i]]` in index order. -/
namespace Fst
open Ops

/-- the driver's `popMin` is an admissible tie-break -/
theorem C05_popMin : PopSpec popMin := popSpec_popMin

/-- Union: every key of every stream, ascending, each once, with all its occurrences -/
theorem C05_union (pop : PopFn) (hp : PopSpec pop) (streams : List KV)
    (hs : ∀ l ∈ streams, SortedKV l) :
    ∃ out, opCollect pop .union streams = some out ∧
      out.map (·.1) = allKeys streams ∧
      ∀ k outs, (k, outs) ∈ out → outs.Perm (occ streams k) := by
  obtain ⟨h1, h2, h3⟩ := opFilter_spec hp (fun _ _ => true) (unionNext pop) (unionNext_eq pop) streams hs
  refine ⟨_, rfl, ?_, h3⟩
  rw [keys_eq_filter (p := fun _ => true) h1 h2]
  simp

/-- Intersection: the keys present in every stream -/
theorem C05_inter (pop : PopFn) (hp : PopSpec pop) (streams : List KV)
    (hs : ∀ l ∈ streams, SortedKV l) :
    ∃ out, opCollect pop .intersection streams = some out ∧
      out.map (·.1) = (allKeys streams).filter
        (fun k => decide ((occ streams k).length = streams.length)) ∧
      ∀ k outs, (k, outs) ∈ out → outs.Perm (occ streams k) := by
  obtain ⟨h1, h2, h3⟩ := opFilter_spec hp (fun popped nslots => !(popped < nslots))
    (intersectionNext pop) (fun _ => rfl) streams hs
  refine ⟨_, rfl, ?_, h3⟩
  rw [keys_eq_filter h1 h2]
  apply List.filter_congr
  intro k _
  have := occF_length_le (n := streams.length) (sortedF_nth hs) k
  rw [← occ_eq] at this
  by_cases e : (occ streams k).length = streams.length
  · simp [e]
  · have : (occ streams k).length < streams.length := by omega
    simp [e, this]

/-- Symmetric difference: the keys present in an odd number of streams -/
theorem C05_symdiff (pop : PopFn) (hp : PopSpec pop) (streams : List KV)
    (hs : ∀ l ∈ streams, SortedKV l) :
    ∃ out, opCollect pop .symmetricDifference streams = some out ∧
      out.map (·.1) = (allKeys streams).filter
        (fun k => decide ((occ streams k).length % 2 = 1)) ∧
      ∀ k outs, (k, outs) ∈ out → outs.Perm (occ streams k) := by
  obtain ⟨h1, h2, h3⟩ := opFilter_spec hp (fun popped _ => !(popped % 2 == 0))
    (symDiffNext pop) (fun _ => rfl) streams hs
  refine ⟨_, rfl, ?_, h3⟩
  rw [keys_eq_filter h1 h2]
  apply List.filter_congr
  intro k _
  rcases Nat.mod_two_eq_zero_or_one (occ streams k).length with e | e <;> simp [e]

/-- Difference: the entries of `streams[0]` whose key occurs in no other stream, in order, each
reported with index 0. The reader permutation of `swap_remove(0)` (`swapRemoved`) is
irrelevant: only membership of keys in the other streams matters (`mem_swapRemoved`). -/
theorem C05_diff (pop : PopFn) (hp : PopSpec pop) (streams : List KV) (hne : streams ≠ [])
    (hs : ∀ l ∈ streams, SortedKV l) :
    opCollect pop .difference streams =
      some (((streams.head hne).filter (fun kv => !hasKeyB streams.tail kv.1)).map
        (fun kv => (kv.1, [⟨0, kv.2⟩]))) := by
  cases streams with
  | nil => exact absurd rfl hne
  | cons first rest => exact diff_spec hp first rest hs

/-- `hasKeyB` in `C05_diff` is the membership predicate `HasKey` -/
theorem C05_diff_mem (streams : List KV) (hne : streams ≠ []) (k : Key) (outs : List IndexedValue) :
    (k, outs) ∈ ((streams.head hne).filter (fun kv => !hasKeyB streams.tail kv.1)).map
        (fun kv => (kv.1, [(⟨0, kv.2⟩ : IndexedValue)])) ↔
      ∃ v, (k, v) ∈ streams.head hne ∧ ¬ HasKey streams.tail k ∧ outs = [⟨0, v⟩] := by
  simp only [List.mem_map, List.mem_filter, Bool.not_eq_true', Prod.mk.injEq]
  constructor
  · rintro ⟨kv, ⟨h1, h2⟩, rfl, rfl⟩
    refine ⟨kv.2, h1, ?_, rfl⟩
    rw [← hasKeyB_iff, h2]; simp
  · rintro ⟨v, h1, h2, rfl⟩
    refine ⟨(k, v), ⟨h1, ?_⟩, rfl, rfl⟩
    rw [← hasKeyB_iff] at h2
    simpa using h2

/-- `swap_remove(0)` on an empty vector panics -/
theorem C05_diff_empty (pop : PopFn) : opCollect pop .difference [] = none := rfl

end Fst

namespace Fst.Ops

/-! ### alternative forms of `occ` and of the union theorem (used by `Proofs/Merge.lean`) -/

theorem occ_aux_zipIdx {β : Type} (g : KV → Nat → List β) (pre streams : List KV) :
    (List.range' pre.length streams.length).flatMap (fun i => g ((pre ++ streams)[i]?.getD []) i) =
      (streams.zipIdx pre.length).flatMap fun si => g si.1 si.2 := by
  induction streams generalizing pre with
  | nil => simp
  | cons s t ih =>
    have := ih (pre ++ [s])
    simp only [List.length_append, List.length_cons, List.length_nil, List.append_assoc,
      List.cons_append, List.nil_append, Nat.zero_add] at this
    simp only [List.length_cons, List.range'_succ, List.flatMap_cons, List.zipIdx_cons, this]
    simp

/-- `occ` as a comprehension over `zipIdx` -/
theorem occ_eq_zipIdx (streams : List KV) (k : Key) :
    occ streams k = streams.zipIdx.flatMap fun si =>
      (si.1.filter (·.1 == k)).map fun kv => (⟨si.2, kv.2⟩ : IndexedValue) := by
  have := occ_aux_zipIdx
    (fun l i => (l.filter (·.1 == k)).map fun kv => (⟨i, kv.2⟩ : IndexedValue)) [] streams
  simpa [occ, List.range_eq_range'] using this

/-- the values of `occ`, forgetting the indices -/
theorem occ_values (streams : List KV) (k : Key) :
    (occ streams k).map (·.value) = streams.flatMap fun s => (s.filter (·.1 == k)).map (·.2) := by
  rw [occ_eq_zipIdx, List.map_flatMap]
  conv => rhs; rw [← List.zipIdx_map_fst 0 streams, List.flatMap_map]
  simp [Function.comp_def]

end Fst.Ops

namespace Fst
open Ops

/-- `C05_union` with the key list characterised instead of named, and the values only -/
theorem C05_union_char (pop : PopFn) (hp : PopSpec pop) (streams : List KV)
    (hs : ∀ l ∈ streams, SortedKV l) :
    ∃ out, opCollect pop .union streams = some out ∧
      (out.map (·.1)).Pairwise (fun a b => lexLt a b = true) ∧
      (∀ k, k ∈ out.map (·.1) ↔ ∃ s ∈ streams, k ∈ s.map (·.1)) ∧
      (∀ k outs, (k, outs) ∈ out → outs.Perm (occ streams k)) ∧
      ∀ k outs, (k, outs) ∈ out → (outs.map (·.value)).Perm
        (streams.flatMap fun s => (s.filter (·.1 == k)).map (·.2)) := by
  obtain ⟨out, h1, h2, h3⟩ := C05_union pop hp streams hs
  refine ⟨out, h1, by rw [h2]; exact sorted_allKeys streams, ?_, h3, ?_⟩
  · intro k
    rw [h2, mem_allKeys]
    simp only [HasKey, List.mem_map]
    constructor
    · rintro ⟨l, hl, v, hv⟩; exact ⟨l, hl, (k, v), hv, rfl⟩
    · rintro ⟨l, hl, kv, hkv, rfl⟩; exact ⟨l, hl, kv.2, hkv⟩
  · intro k outs hm
    rw [← occ_values]
    exact (h3 k outs hm).map _

end Fst

/-! ### examples: the hypotheses are satisfiable, and the right-hand sides compute -/
namespace Fst.Ops

/-- ties with equal values (`[]` ↦ 1 twice, `[1]` ↦ 2 twice) and different values, an empty
stream, the empty key -/
def exStreams : List KV :=
  [ [([], 1), ([1], 2), ([1, 2], 3), ([3], 4), ([5], 6)], [],
    [([], 1), ([1], 7), ([2], 5)], [([1], 2), ([1, 2], 9), ([3], 0)] ]

/-- the same without the empty stream -/
def exStreams' : List KV :=
  [ [([], 1), ([1], 2), ([1, 2], 3), ([3], 4), ([5], 6)],
    [([], 1), ([1], 7), ([2], 5)], [([1], 2), ([1, 2], 9), ([3], 0)] ]

theorem exStreams_sorted : ∀ l ∈ exStreams, SortedKV l := by
  simp [exStreams, SortedKV, lexLt]
theorem exStreams'_sorted : ∀ l ∈ exStreams', SortedKV l := by
  simp [exStreams', SortedKV, lexLt]

example : PopSpec popMin := popSpec_popMin

example : ∃ out, opCollect popMin .union exStreams = some out ∧ out.map (·.1) = allKeys exStreams ∧
    ∀ k outs, (k, outs) ∈ out → outs.Perm (occ exStreams k) :=
  C05_union popMin popSpec_popMin exStreams exStreams_sorted
example : allKeys exStreams = [[], [1], [1, 2], [2], [3], [5]] := by decide
example : occ exStreams [1] = [⟨0, 2⟩, ⟨2, 7⟩, ⟨3, 2⟩] := by decide
example : opCollect popMin .union exStreams = some
    [([], [⟨2, 1⟩, ⟨0, 1⟩]), ([1], [⟨0, 2⟩, ⟨3, 2⟩, ⟨2, 7⟩]), ([1, 2], [⟨0, 3⟩, ⟨3, 9⟩]),
     ([2], [⟨2, 5⟩]), ([3], [⟨3, 0⟩, ⟨0, 4⟩]), ([5], [⟨0, 6⟩])] := by decide

/-- another admissible tie-break: the *last* minimal slot -/
def popMinLast : PopFn
  | [] => none
  | s :: rest =>
    match popMinLast rest with
    | none => some (s, [])
    | some (m, rest') => if slotLt s m then some (s, rest) else some (m, s :: rest')

theorem popMinLast_none (h : List Slot) : popMinLast h = none ↔ h = [] := by
  cases h with
  | nil => simp [popMinLast]
  | cons s rest =>
    simp only [popMinLast]
    split <;> (try split) <;> simp

theorem popSpec_popMinLast : PopSpec popMinLast := by
  refine ⟨popMinLast_none, ?_⟩
  intro h
  induction h with
  | nil => simp [popMinLast]
  | cons a t ih =>
    intro s rest
    simp only [popMinLast]
    split
    · rename_i hn
      rw [popMinLast_none] at hn; subst hn
      simp only [Option.some.injEq, Prod.mk.injEq]
      rintro ⟨rfl, rfl⟩
      simp [slotLt_irrefl]
    · rename_i m rest' hm
      obtain ⟨hp, hmin⟩ := ih m rest' hm
      split
      · rename_i hlt
        simp only [Option.some.injEq, Prod.mk.injEq]
        rintro ⟨rfl, rfl⟩
        refine ⟨List.Perm.refl _, ?_⟩
        intro x hx
        rcases List.mem_cons.1 hx with rfl | hx
        · exact slotLt_irrefl _
        · exact slotLt_negtrans (hmin x hx) (slotLt_asymm hlt)
      · rename_i hlt
        simp only [Option.some.injEq, Prod.mk.injEq]
        rintro ⟨rfl, rfl⟩
        refine ⟨(List.Perm.swap _ _ _).trans (hp.cons a), ?_⟩
        intro x hx
        rcases List.mem_cons.1 hx with rfl | hx
        · simpa using hlt
        · exact hmin x hx

/-- the two tie-breaks report the equal `([], 1)` slots in different orders -/
example : opCollect popMinLast .union exStreams = some
    [([], [⟨0, 1⟩, ⟨2, 1⟩]), ([1], [⟨3, 2⟩, ⟨0, 2⟩, ⟨2, 7⟩]), ([1, 2], [⟨0, 3⟩, ⟨3, 9⟩]),
     ([2], [⟨2, 5⟩]), ([3], [⟨3, 0⟩, ⟨0, 4⟩]), ([5], [⟨0, 6⟩])] := by decide

example : ∃ out, opCollect popMin .intersection exStreams' = some out ∧
    out.map (·.1) = (allKeys exStreams').filter
      (fun k => decide ((occ exStreams' k).length = exStreams'.length)) ∧
    ∀ k outs, (k, outs) ∈ out → outs.Perm (occ exStreams' k) :=
  C05_inter popMin popSpec_popMin exStreams' exStreams'_sorted
example : (allKeys exStreams').filter
    (fun k => decide ((occ exStreams' k).length = exStreams'.length)) = [[1]] := by decide
example : opCollect popMin .intersection exStreams' = some [([1], [⟨0, 2⟩, ⟨2, 2⟩, ⟨1, 7⟩])] := by
  decide
/-- an empty stream makes the intersection empty -/
example : opCollect popMin .intersection exStreams = some [] := by decide

example : ∃ out, opCollect popMin .symmetricDifference exStreams = some out ∧
    out.map (·.1) = (allKeys exStreams).filter (fun k => decide ((occ exStreams k).length % 2 = 1)) ∧
    ∀ k outs, (k, outs) ∈ out → outs.Perm (occ exStreams k) :=
  C05_symdiff popMin popSpec_popMin exStreams exStreams_sorted
example : (allKeys exStreams).filter (fun k => decide ((occ exStreams k).length % 2 = 1))
    = [[1], [2], [5]] := by decide
example : opCollect popMin .symmetricDifference exStreams = some
    [([1], [⟨0, 2⟩, ⟨3, 2⟩, ⟨2, 7⟩]), ([2], [⟨2, 5⟩]), ([5], [⟨0, 6⟩])] := by decide

example : opCollect popMin .difference exStreams = some [([5], [⟨0, 6⟩])] := by
  rw [C05_diff popMin popSpec_popMin exStreams (by simp [exStreams]) exStreams_sorted]; decide
example : opCollect popMin .difference exStreams = some [([5], [⟨0, 6⟩])] := by decide

def exA : KV := [([], 0), ([1], 1), ([2, 0], 2)]
def exB : KV := [([], 5), ([0], 0), ([1], 1), ([2, 0], 7), ([9], 9)]
def exC : KV := [([0], 3), ([9], 1)]
theorem exA_sorted : SortedKV exA := by simp [exA, SortedKV, lexLt]
theorem exB_sorted : SortedKV exB := by simp [exB, SortedKV, lexLt]
theorem exC_sorted : SortedKV exC := by simp [exC, SortedKV, lexLt]

example : isDisjoint popMin exA exC = true ↔ ∀ k, ¬ (KeyOf exA k ∧ KeyOf exC k) :=
  C05_disjoint popMin popSpec_popMin exA exC exA_sorted exC_sorted
example : isDisjoint popMin exA exC = true ∧ isDisjoint popMin exA exB = false := by decide
example : isSubset popMin exA exB = true ↔ ∀ k, KeyOf exA k → KeyOf exB k :=
  C05_subset popMin popSpec_popMin exA exB exA_sorted exB_sorted
example : isSubset popMin exA exB = true ∧ isSubset popMin exB exA = false := by decide
example : isSuperset popMin exB exA = true ↔ ∀ k, KeyOf exA k → KeyOf exB k :=
  C05_superset popMin popSpec_popMin exB exA exB_sorted exA_sorted
example : isSuperset popMin exB exA = true ∧ isSuperset popMin exA exB = false := by decide

end Fst.Ops
