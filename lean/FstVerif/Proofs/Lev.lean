import FstVerif.Model.Lev
import FstVerif.Spec.Lev
/-
C17, character level: the capped dynamic-programming row of
`DynamicLevenshtein` (`Model/Lev.lean`: `DynLev.start`, `DynLev.accept`,
`dynRow`, `DynLev.isMatch`, `DynLev.canMatch`) decides the edit distance
`Spec.lev` (`Spec/Lev.lean`), for every query, every distance bound and
every input word.

Main results
* `dp_row`      — the row after reading `k`, entry by entry (Wagner–Fischer by columns).
                  NB the start row `[0, 1, …, |q|]` is NOT capped, every later row is
                  (entry 0 never is): see `dp_row_nil`, `dp_row_ne_nil`.
* `C17_dp`      — `isMatch (row after k) ↔ lev q k ≤ d`.
* `C17_dp_can`  — `can_match` soundness, for ANY row (reachable or not) and any
                  continuation, also one that uses the mismatch character `None`.
* `accept_none_eq` — `accept st None = accept st (Some c)` for `c` not in the query.
* `C17_limit`   — `levNew … = some (.ok states) → states.size ≤ limit`.
-/
namespace Fst
open Spec

/-! ### the specification of a row -/

/-- the row the DP is meant to hold after reading `k`: entry `i` is the distance between the
first `i` query characters and `k`, capped at `d + 1` — except entry 0, which is `k.length`
uncapped (`next[0] = state[0] + 1` in the Rust code) -/
def cappedRow (q : List Nat) (d : Nat) (k : List Nat) : List Nat :=
  (List.range (q.length + 1)).map fun i =>
    if i = 0 then k.length else min (lev (q.take i) k) (d + 1)

/-- entries `|p|+1 …` of the capped row for the query `p ++ s`, by recursion on `s` -/
def rowFrom (d : Nat) (k : List Nat) : List Nat → List Nat → List Nat
  | _, [] => []
  | p, a :: s => min (lev (p ++ [a]) k) (d + 1) :: rowFrom d k (p ++ [a]) s

theorem rowFrom_eq_map (d : Nat) (k p s : List Nat) :
    rowFrom d k p s =
      (List.range s.length).map fun j => min (lev (p ++ s.take (j + 1)) k) (d + 1) := by
  induction s generalizing p with
  | nil => rfl
  | cons a s ih =>
    rw [rowFrom, ih, List.length_cons, List.range_succ_eq_map, List.map_cons, List.map_map]
    simp only [List.take_succ_cons, List.take_zero, List.cons.injEq, true_and]
    apply List.map_congr_left
    intro j _
    simp only [Function.comp, List.append_assoc, List.cons_append, List.nil_append]

theorem cappedRow_eq (q : List Nat) (d : Nat) (k : List Nat) :
    cappedRow q d k = k.length :: rowFrom d k [] q := by
  rw [cappedRow, rowFrom_eq_map, List.range_succ_eq_map, List.map_cons, List.map_map]
  simp only [if_true, List.cons.injEq, true_and]
  apply List.map_congr_left
  intro j _
  simp [Function.comp]

theorem rowFrom_length (d : Nat) (k p s : List Nat) : (rowFrom d k p s).length = s.length := by
  induction s generalizing p with
  | nil => rfl
  | cons a s ih => simp [rowFrom, ih]

theorem rowFrom_getLast (d : Nat) (k p s : List Nat) (hs : s ≠ []) :
    (rowFrom d k p s).getLast? = some (min (lev (p ++ s) k) (d + 1)) := by
  induction s generalizing p with
  | nil => exact absurd rfl hs
  | cons a s ih =>
    cases s with
    | nil => simp [rowFrom]
    | cons b s =>
      have := ih (p ++ [a]) (by simp)
      have e : rowFrom d k p (a :: b :: s)
          = min (lev (p ++ [a]) k) (d + 1) :: min (lev (p ++ [a] ++ [b]) k) (d + 1)
              :: rowFrom d k (p ++ [a] ++ [b]) s := rfl
      have e' : rowFrom d k (p ++ [a]) (b :: s)
          = min (lev (p ++ [a] ++ [b]) k) (d + 1) :: rowFrom d k (p ++ [a] ++ [b]) s := rfl
      rw [e, List.getLast?_cons_cons, ← e', this]
      simp

/-! ### one step of the recurrence -/

/-- the cap commutes with the recurrence: only the capped values of the three neighbours matter -/
theorem cap_step (D a b c a' b' c' cost : Nat)
    (ha : min a D = min a' D) (hb : min b D = min b' D) (hc : min c D = min c' D) :
    min (min (min (a + 1) (b + 1)) (c + cost)) D
      = min (min (min (a' + 1) (b' + 1)) (c' + cost)) D := by
  omega

/-- the inner loop of `accept` on a row that agrees with the specification up to the cap -/
theorem dynRow_spec (d c : Nat) (k s p : List Nat) (prev x : Nat) (ys : List Nat)
    (hprev : min prev (d + 1) = min (lev p (k ++ [c])) (d + 1))
    (hx : min x (d + 1) = min (lev p k) (d + 1))
    (hys : ys.map (fun y => min y (d + 1)) = rowFrom d k p s) :
    dynRow d (some c) s prev (x :: ys) = rowFrom d (k ++ [c]) p s := by
  induction s generalizing p prev x ys with
  | nil => cases ys <;> simp [dynRow, rowFrom]
  | cons a s ih =>
    cases ys with
    | nil => simp [rowFrom] at hys
    | cons y ys =>
      simp only [rowFrom, List.map_cons, List.cons.injEq] at hys
      obtain ⟨hy, hys⟩ := hys
      have hv : min (min (min (prev + 1) (y + 1)) (x + (if some a = some c then 0 else 1))) (d + 1)
          = min (lev (p ++ [a]) (k ++ [c])) (d + 1) := by
        rw [lev_snoc_snoc]
        have e : (if some a = some c then 0 else 1) = (if a = c then 0 else 1) := by
          simp only [Option.some.injEq]
        rw [e]
        exact cap_step _ _ _ _ _ _ _ _ hprev hy hx
      simp only [dynRow, rowFrom, List.cons.injEq]
      refine ⟨hv, ?_⟩
      apply ih (p ++ [a])
      · rw [hv]; omega
      · exact hy
      · exact hys

/-- the row invariant: entry 0 is `k.length`, the other entries agree with the specification
up to the cap (the start row is not capped) -/
def RowInv (l : DynLev) (k : List Nat) (st : List Nat) : Prop :=
  ∃ ys, st = k.length :: ys ∧
    ys.map (fun y => min y (l.dist + 1)) = rowFrom l.dist k [] l.query

theorem start_tail (d : Nat) (p s : List Nat) :
    (List.range' (p.length + 1) s.length).map (fun y => min y (d + 1)) = rowFrom d [] p s := by
  induction s generalizing p with
  | nil => rfl
  | cons a s ih =>
    have := ih (p ++ [a])
    simp only [List.length_append, List.length_cons, List.length_nil] at this
    simp only [List.length_cons, List.range'_succ, List.map_cons, rowFrom, lev_nil_right,
      List.length_append, List.length_nil, List.cons.injEq, true_and]
    exact this

theorem start_inv (l : DynLev) : RowInv l [] l.start := by
  refine ⟨List.range' 1 l.query.length, ?_, ?_⟩
  · simp [DynLev.start, List.range_eq_range', List.range'_succ]
  · exact start_tail l.dist [] l.query

/-- one `accept` on a row satisfying the invariant gives exactly the capped row -/
theorem accept_inv (l : DynLev) (k st : List Nat) (c : Nat) (h : RowInv l k st) :
    l.accept st (some c) = cappedRow l.query l.dist (k ++ [c]) := by
  obtain ⟨ys, rfl, hys⟩ := h
  rw [cappedRow_eq]
  simp only [DynLev.accept, List.length_append, List.length_cons, List.length_nil,
    List.cons.injEq, true_and]
  exact dynRow_spec l.dist c k l.query [] _ _ ys (by simp) (by simp) hys

theorem cappedRow_inv (l : DynLev) (k : List Nat) : RowInv l k (cappedRow l.query l.dist k) := by
  refine ⟨rowFrom l.dist k [] l.query, cappedRow_eq _ _ _, ?_⟩
  rw [rowFrom_eq_map, List.map_map]
  apply List.map_congr_left
  intro j _
  simp only [Function.comp]
  omega

theorem run_inv (l : DynLev) (w k st : List Nat) (h : RowInv l k st) :
    RowInv l (k ++ w) (w.foldl (fun st c => l.accept st (some c)) st) := by
  induction w generalizing k st with
  | nil => simpa using h
  | cons c w ih =>
    have := ih (k ++ [c]) _ (accept_inv l k st c h ▸ cappedRow_inv l (k ++ [c]))
    simpa [List.append_assoc] using this

/-! ### 1. the row after reading `k` -/

theorem dp_row_nil (l : DynLev) :
    ([] : List Nat).foldl (fun st c => l.accept st (some c)) l.start
      = List.range (l.query.length + 1) := rfl

theorem dp_row_snoc (l : DynLev) (k : List Nat) (c : Nat) :
    (k ++ [c]).foldl (fun st c => l.accept st (some c)) l.start
      = cappedRow l.query l.dist (k ++ [c]) := by
  rw [List.foldl_append, List.foldl_cons, List.foldl_nil]
  have := run_inv l k [] l.start (start_inv l)
  rw [List.nil_append] at this
  exact accept_inv l k _ c this

theorem dp_row_ne_nil (l : DynLev) (k : List Nat) (hk : k ≠ []) :
    k.foldl (fun st c => l.accept st (some c)) l.start = cappedRow l.query l.dist k := by
  have : k = k.dropLast ++ [k.getLast hk] := (List.dropLast_concat_getLast hk).symm
  rw [this]
  exact dp_row_snoc l _ _

/-- Row invariant. The row after reading `k` is the capped Wagner–Fischer column for `k`;
before anything is read it is the (uncapped) start row `[0, …, |q|]`.
(The unconditional `… = cappedRow q d k` is false for `k = []` when `|q| > d + 1`:
see the `example` below.) -/
theorem dp_row (l : DynLev) (k : List Nat) :
    k.foldl (fun st c => l.accept st (some c)) l.start
      = if k = [] then List.range (l.query.length + 1) else cappedRow l.query l.dist k := by
  split
  · next h => subst h; rfl
  · next h => exact dp_row_ne_nil l k h

/-- the uniform reading of `dp_row`, for every `k` including `[]`: entry `i` of the row and
`lev (q.take i) k` agree once both are capped at `d + 1`; the row has `|q| + 1` entries and
entry 0 is `k.length` -/
theorem dp_row_capped (l : DynLev) (k : List Nat) :
    (k.foldl (fun st c => l.accept st (some c)) l.start).map (fun y => min y (l.dist + 1))
      = (List.range (l.query.length + 1)).map
          fun i => min (lev (l.query.take i) k) (l.dist + 1) := by
  have := run_inv l k [] l.start (start_inv l)
  rw [List.nil_append] at this
  obtain ⟨ys, e, hys⟩ := this
  rw [e, List.map_cons, hys, rowFrom_eq_map, List.range_succ_eq_map, List.map_cons, List.map_map]
  simp only [List.take_zero, lev_nil_left, List.cons.injEq, true_and]
  apply List.map_congr_left
  intro j _
  simp [Function.comp]

/-- the literal statement `row = cappedRow` does fail before the first character -/
example : ([] : List Nat).foldl (fun st c => (⟨[1, 2, 3], 1⟩ : DynLev).accept st (some c))
      (⟨[1, 2, 3], 1⟩ : DynLev).start = [0, 1, 2, 3]
    ∧ cappedRow [1, 2, 3] 1 [] = [0, 1, 2, 2] := by decide

example : [1, 3, 3, 7, 9].foldl (fun st c => (⟨[1, 2, 3], 1⟩ : DynLev).accept st (some c))
      (⟨[1, 2, 3], 1⟩ : DynLev).start = cappedRow [1, 2, 3] 1 [1, 3, 3, 7, 9] := by decide

/-! ### 2. `is_match` decides the distance -/

theorem isMatch_inv (l : DynLev) (k st : List Nat) (h : RowInv l k st) :
    l.isMatch st = true ↔ lev l.query k ≤ l.dist := by
  obtain ⟨ys, rfl, hys⟩ := h
  by_cases hq : l.query = []
  · rw [hq, rowFrom] at hys
    have : ys = [] := by simpa using hys
    subst this
    simp [DynLev.isMatch, hq]
  · have hl := rowFrom_getLast l.dist k [] l.query hq
    rw [← hys, List.getLast?_map, List.nil_append] at hl
    cases ys with
    | nil => simp at hl
    | cons y ys =>
      rw [DynLev.isMatch, List.getLast?_cons_cons]
      cases hg : (y :: ys).getLast? with
      | none => simp [hg] at hl
      | some n =>
        simp only [hg, Option.map_some, Option.some.injEq] at hl
        simp only [decide_eq_true_eq]
        omega

/-- C17, character level: after reading `k` the row automaton matches iff the edit distance
between the query and `k` is at most the bound. For all queries, bounds and words. -/
theorem C17_dp (l : DynLev) (k : List Nat) :
    l.isMatch (k.foldl (fun st c => l.accept st (some c)) l.start) = true
      ↔ lev l.query k ≤ l.dist := by
  have := run_inv l k [] l.start (start_inv l)
  rw [List.nil_append] at this
  exact isMatch_inv l k _ this

-- both sides of the bound
example : (⟨[1, 2, 3], 1⟩ : DynLev).isMatch
    ([1, 3].foldl (fun st c => (⟨[1, 2, 3], 1⟩ : DynLev).accept st (some c))
      (⟨[1, 2, 3], 1⟩ : DynLev).start) = true ∧ lev [1, 2, 3] [1, 3] ≤ 1 := by decide
example : (⟨[1, 2, 3], 1⟩ : DynLev).isMatch
    ([3, 2, 1].foldl (fun st c => (⟨[1, 2, 3], 1⟩ : DynLev).accept st (some c))
      (⟨[1, 2, 3], 1⟩ : DynLev).start) = false ∧ ¬ lev [1, 2, 3] [3, 2, 1] ≤ 1 := by decide
example : (⟨[1, 2, 3, 4, 5], 0⟩ : DynLev).isMatch
    ([1, 2, 3, 4, 5].foldl (fun st c => (⟨[1, 2, 3, 4, 5], 0⟩ : DynLev).accept st (some c))
      (⟨[1, 2, 3, 4, 5], 0⟩ : DynLev).start) = true := by decide

/-! ### 3. `can_match` soundness and the mismatch character -/

/-- every entry exceeds the bound -/
def AllGt (d : Nat) (st : List Nat) : Prop := ∀ x ∈ st, d < x

theorem canMatch_false_iff (l : DynLev) (st : List Nat) :
    l.canMatch st = false ↔ AllGt l.dist st := by
  unfold DynLev.canMatch AllGt
  cases h : st.min? with
  | none =>
    rw [List.min?_eq_none_iff] at h
    subst h; simp
  | some n =>
    rw [List.min?_eq_some_iff] at h
    obtain ⟨hmem, hle⟩ := h
    simp only [decide_eq_false_iff_not, Nat.not_le]
    constructor
    · intro hn x hx
      have := hle x hx
      omega
    · intro hall
      exact hall n hmem

theorem dynRow_allGt (d : Nat) (chr : Option Nat) (q : List Nat) (prev : Nat) (st : List Nat)
    (hprev : d < prev) (hst : AllGt d st) : AllGt d (dynRow d chr q prev st) := by
  induction q generalizing prev st with
  | nil => intro x hx; simp [dynRow] at hx
  | cons c q ih =>
    match st, hst with
    | [], _ => intro x hx; simp [dynRow] at hx
    | [_], _ => intro x hx; simp [dynRow] at hx
    | si :: si1 :: st, hst =>
      have h0 : d < si := hst si (by simp)
      have h1 : d < si1 := hst si1 (by simp)
      have hv : d < min (min (min (prev + 1) (si1 + 1))
          (si + (if some c = chr then 0 else 1))) (d + 1) := by
        split <;> omega
      have hrest : AllGt d (si1 :: st) := fun x hx => hst x (List.mem_cons_of_mem _ hx)
      intro x hx
      simp only [dynRow, List.mem_cons] at hx
      rcases hx with rfl | hx
      · exact hv
      · exact ih _ _ hv hrest x hx

/-- the monotonicity behind `can_match`: once every entry exceeds the bound, this stays so -/
theorem accept_allGt (l : DynLev) (st : List Nat) (chr : Option Nat) (h : AllGt l.dist st) :
    AllGt l.dist (l.accept st chr) := by
  cases st with
  | nil => intro x hx; simp [DynLev.accept] at hx
  | cons s0 st =>
    have h0 : l.dist < s0 := h s0 (by simp)
    intro x hx
    simp only [DynLev.accept, List.mem_cons] at hx
    rcases hx with rfl | hx
    · omega
    · exact dynRow_allGt l.dist chr l.query (s0 + 1) (s0 :: st) (by omega) h x hx

theorem isMatch_of_allGt (l : DynLev) (st : List Nat) (h : AllGt l.dist st) :
    l.isMatch st = false := by
  unfold DynLev.isMatch
  cases hg : st.getLast? with
  | none => rfl
  | some n =>
    have := h n (List.mem_of_getLast? hg)
    simp only [decide_eq_false_iff_not]
    omega

/-- `can_match` soundness, general form: from ANY row (reachable or not) on which `can_match`
is false, no continuation — over query characters, other characters, or the builder's
"any other character" `None` — reaches a matching row -/
theorem C17_dp_can_opt (l : DynLev) (st : List Nat) (h : l.canMatch st = false)
    (w : List (Option Nat)) :
    l.isMatch (w.foldl (fun st c => l.accept st c) st) = false := by
  rw [canMatch_false_iff] at h
  induction w generalizing st with
  | nil => exact isMatch_of_allGt l st h
  | cons c w ih => exact ih _ (accept_allGt l st c h)

/-- `can_match` soundness as stated: if `can_match` is false on a row, no word leads to a match
(no reachability hypothesis is needed) -/
theorem C17_dp_can (l : DynLev) (st : List Nat) (h : l.canMatch st = false) (w : List Nat) :
    l.isMatch (w.foldl (fun st c => l.accept st (some c)) st) = false := by
  have := C17_dp_can_opt l st h (w.map some)
  rwa [List.foldl_map] at this

/-- in particular for the rows reachable from the start row: once `can_match` fails after `k`,
no extension `k ++ w` is within the bound -/
theorem C17_dp_can_lev (l : DynLev) (k : List Nat)
    (h : l.canMatch (k.foldl (fun st c => l.accept st (some c)) l.start) = false)
    (w : List Nat) : l.dist < lev l.query (k ++ w) := by
  have := C17_dp_can l _ h w
  rw [← List.foldl_append] at this
  have h2 := C17_dp l (k ++ w)
  rw [this] at h2
  simp only [Bool.false_eq_true, false_iff, Nat.not_le] at h2
  exact h2

-- the hypothesis is satisfiable on a reachable row (and fails on another)
example : (⟨[1, 2, 3], 1⟩ : DynLev).canMatch
    ([7, 7].foldl (fun st c => (⟨[1, 2, 3], 1⟩ : DynLev).accept st (some c))
      (⟨[1, 2, 3], 1⟩ : DynLev).start) = false := by decide
example : (⟨[1, 2, 3], 1⟩ : DynLev).canMatch
    ([7].foldl (fun st c => (⟨[1, 2, 3], 1⟩ : DynLev).accept st (some c))
      (⟨[1, 2, 3], 1⟩ : DynLev).start) = true := by decide

theorem dynRow_none_eq (d c : Nat) (q : List Nat) (hc : c ∉ q) (prev : Nat) (st : List Nat) :
    dynRow d none q prev st = dynRow d (some c) q prev st := by
  induction q generalizing prev st with
  | nil => simp [dynRow]
  | cons a q ih =>
    have ha : a ≠ c := fun e => hc (e ▸ List.mem_cons_self)
    have hq : c ∉ q := fun e => hc (List.mem_cons_of_mem _ e)
    match st with
    | [] => simp [dynRow]
    | [_] => simp [dynRow]
    | si :: si1 :: st =>
      simp only [dynRow, Option.some.injEq, ha, if_false, reduceCtorEq]
      rw [ih hq]

/-- the mismatch character: `None` ("any other character" in the DFA builder) steps exactly like
any character that does not occur in the query -/
theorem accept_none_eq (l : DynLev) (st : List Nat) (c : Nat) (hc : c ∉ l.query) :
    l.accept st none = l.accept st (some c) := by
  cases st with
  | nil => rfl
  | cons s0 st => simp only [DynLev.accept, dynRow_none_eq l.dist c l.query hc]

/-- so the row reached by the mismatch transition after `k` is the capped row of `k ++ [c]` for
every `c` outside the query -/
theorem accept_none_row (l : DynLev) (k : List Nat) (c : Nat) (hc : c ∉ l.query) :
    l.accept (k.foldl (fun st c => l.accept st (some c)) l.start) none
      = cappedRow l.query l.dist (k ++ [c]) := by
  rw [accept_none_eq l _ c hc, ← dp_row_snoc l k c, List.foldl_append, List.foldl_cons,
    List.foldl_nil]

example : (7 : Nat) ∉ (⟨[1, 2, 3], 1⟩ : DynLev).query := by decide

/-! ### 4. the state limit of the DFA construction -/

theorem levBuild_limit (l : DynLev) (full : List (List (Nat × Nat))) (limit fuel : Nat)
    (w : LevWork) (hw : w.b.states.size ≤ limit) (states : Array DState)
    (h : levBuild l full limit fuel w = some (.ok states)) : states.size ≤ limit := by
  induction fuel generalizing w with
  | zero => simp [levBuild] at h
  | succ fuel ih =>
    unfold levBuild at h
    split at h
    · next hs =>
      simp only [Option.some.injEq, Except.ok.injEq] at h
      subst h; exact hw
    · next st rest hs =>
      simp only at h
      split at h
      · simp at h
      · next hle => exact ih _ (by omega) h

/-- `build_with_limit` respects the limit: a DFA that is returned has at most `limit` states -/
theorem C17_limit (query : List Nat) (dist : Nat) (full : List (List (Nat × Nat)))
    (limit fuel : Nat) (states : Array DState)
    (h : levNew query dist full limit fuel = some (.ok states)) : states.size ≤ limit := by
  unfold levNew at h
  exact levBuild_limit _ full limit fuel _ (by simp) states h

-- the hypothesis is satisfiable exactly at the limit, and one below it the build is refused
example : ∃ s, levNew [1] 1 [[(0, 127)]] 4 9 = some (.ok s) ∧ s.size = 4 := ⟨_, rfl, rfl⟩
example : levNew [1] 1 [[(0, 127)]] 3 9 = some (.error (.tooManyStates 3)) := rfl

end Fst
