import FstVerif.Proofs.Seek
/-
Removing the `hEof` assumption of `stream_correct` by simulation: an automaton `A` with an
`accept_eof` hook is simulated by the hook-free automaton `eofLift A` over `σ × Bool`.
-/
namespace Fst

variable {N σ : Type}

/-- is_match as `next_with` evaluates it on a NON-EMPTY key's state: through the accept_eof hook if it fires -/
def Aut.eofMatch {σ} (A : Aut σ) (x : σ) : Bool :=
  match A.acceptEof x with | some e => A.isMatch e | none => A.isMatch x

/-- hook-free automaton over σ × Bool (flag = "at least one byte consumed") that behaves as A with its hook -/
def eofLift {σ} (A : Aut σ) : Aut (σ × Bool) where
  start := (A.start, false)
  isMatch := fun x => if x.2 then A.eofMatch x.1 else A.isMatch x.1
  canMatch := fun x => A.canMatch x.1
  willAlwaysMatch := fun _ => false
  accept := fun x b => (A.accept x.1 b, true)
  acceptEof := fun _ => none

/-- which keys `next_with` lets through for an automaton WITH hook: the empty key never consults the hook -/
def Aut.acceptsEof {σ} (A : Aut σ) (k : Key) : Bool :=
  if k.isEmpty then A.isMatch A.start else A.eofMatch (A.run A.start k)

def projFrame (f : Frame N (σ × Bool)) : Frame N σ :=
  { node := f.node, trans := f.trans, out := f.out, autState := f.autState.1 }

def projS (s : SState N (σ × Bool)) : SState N σ :=
  { inp := s.inp, emptyOutput := s.emptyOutput, stack := s.stack.map projFrame, endAt := s.endAt }

def projRes : StepRes N (σ × Bool) → StepRes N σ
  | .panic => .panic
  | .done s => .done (projS s)
  | .emit k v st s => .emit k v st.1 (projS s)
  | .cont s => .cont (projS s)

theorem seekLoop_proj (acc : NodeAccess N) (A : Aut σ) (key : Key) (node : N) (out : Nat)
    (st : σ × Bool) (inp : Key) (stack : List (Frame N (σ × Bool))) :
    seekLoop acc A key node out st.1 inp (stack.map projFrame) =
      (seekLoop acc (eofLift A) key node out st inp stack).map
        (fun (i, stk, r) => (i, stk.map projFrame, r.map fun (n, o, x) => (n, o, x.1))) := by
  induction key generalizing node out st inp stack with
  | nil => simp [seekLoop]
  | cons b bs ih =>
    simp only [seekLoop]
    cases acc.findInput node b with
    | none => rfl
    | some oi =>
      cases oi with
      | none =>
        simp only
        cases posGreater acc node b (acc.len node) 0 with
        | none => rfl
        | some p => simp [projFrame]
      | some i =>
        simp only
        cases acc.transition node i with
        | none => rfl
        | some t =>
          simp only
          cases acc.node t.addr with
          | none => rfl
          | some n' =>
            simp only
            have := ih n' (out + t.out) ((eofLift A).accept st b) (inp ++ [b])
              (⟨node, i + 1, out, st⟩ :: stack)
            simpa [projFrame, eofLift] using this

/-- the tail of `streamNew` after `seekLoop` -/
def newTail {τ : Type} (acc : NodeAccess N) (max : Bound) (inclusive : Bool) :
    Option (Key × List (Frame N τ) × Option (N × Nat × τ)) → Option (SState N τ)
  | none => none
  | some (inp, stack, none) => some { inp, emptyOutput := none, stack, endAt := max }
  | some (inp, stack, some (_, out, st)) =>
    match stack with
    | [] => some { inp, emptyOutput := none, stack, endAt := max }
    | top :: rest =>
      if inclusive then
        if top.trans = 0 then none else
        some { inp := inp.dropLast, emptyOutput := none,
               stack := { top with trans := top.trans - 1 } :: rest, endAt := max }
      else
        if top.trans = 0 then none else
        match acc.transition top.node (top.trans - 1) with
        | none => none
        | some t =>
          match acc.node t.addr with
          | none => none
          | some n' =>
            some { inp, emptyOutput := none, stack := ⟨n', 0, out, st⟩ :: top :: rest, endAt := max }

theorem newTail_proj (acc : NodeAccess N) (max : Bound) (inclusive : Bool)
    (res : Option (Key × List (Frame N (σ × Bool)) × Option (N × Nat × (σ × Bool)))) :
    newTail acc max inclusive (res.map
        (fun (i, stk, r) => (i, stk.map projFrame, r.map fun (n, o, x) => (n, o, x.1)))) =
      (newTail acc max inclusive res).map projS := by
  cases res with
  | none => rfl
  | some res =>
    obtain ⟨i, stk, r'⟩ := res
    cases r' with
    | none => simp [projS, newTail]
    | some q =>
      obtain ⟨n, o, x⟩ := q
      cases stk with
      | nil => simp [projS, newTail]
      | cons top rest =>
        simp only [Option.map_some, List.map_cons, newTail]
        have ht : (projFrame top).trans = top.trans := rfl
        have hn : (projFrame top).node = top.node := rfl
        simp only [ht, hn]
        split
        · split
          · rfl
          · simp [projS, projFrame]
        · split
          · rfl
          · cases acc.transition top.node (top.trans - 1) with
            | none => rfl
            | some t =>
              simp only
              cases acc.node t.addr with
              | none => rfl
              | some n' => simp [projS, projFrame]

theorem streamNew_eq_tail {τ : Type} (acc : NodeAccess N) (B : Aut τ) (root : Nat) (min max : Bound) :
    streamNew acc B root min max =
      match acc.node root with
      | none => none
      | some r =>
        if min.isEmpty then
          some { inp := [], emptyOutput := if min.isInclusive then (if acc.isFinal r then some (acc.finalOutput r) else none) else none,
                 stack := [⟨r, 0, 0, B.start⟩], endAt := max }
        else
          match min with
          | .excluded k => newTail acc max false (seekLoop acc B k r 0 B.start [] [])
          | .included k => newTail acc max true (seekLoop acc B k r 0 B.start [] [])
          | .unbounded => newTail acc max true (seekLoop acc B [] r 0 B.start [] []) := by
  unfold streamNew
  cases acc.node root with
  | none => rfl
  | some r =>
    simp only
    split
    · rfl
    · cases min <;> simp only <;>
        (generalize seekLoop _ _ _ _ _ _ _ _ = res
         rcases res with _ | ⟨i, stk, _ | ⟨n, o, x⟩⟩ <;> rfl)

theorem streamNew_proj (acc : NodeAccess N) (A : Aut σ) (root : Nat) (min max : Bound) :
    streamNew acc A root min max = (streamNew acc (eofLift A) root min max).map projS := by
  rw [streamNew_eq_tail, streamNew_eq_tail]
  cases acc.node root with
  | none => rfl
  | some r =>
    simp only
    have hs : (eofLift A).start.1 = A.start := rfl
    split
    · simp [projS, projFrame, eofLift]
    · cases min <;> simp only <;>
        (rw [← newTail_proj, ← seekLoop_proj acc A _ r 0 (eofLift A).start [] []]; rfl)

theorem streamStep_proj (acc : NodeAccess N) (A : Aut σ) (root : Nat) (s' : SState N (σ × Bool)) :
    streamStep acc A root (projS s') = projRes (streamStep acc (eofLift A) root s') := by
  obtain ⟨inp, eo, stack, endAt⟩ := s'
  unfold streamStep
  cases eo with
  | some out =>
    simp only [projS]
    have hm : (eofLift A).isMatch (eofLift A).start = A.isMatch A.start := rfl
    rw [hm]
    by_cases h1 : endAt.exceededBy [] = true
    · simp [h1, projRes, projS]
    · by_cases h2 : A.isMatch A.start = true <;> simp [h1, h2, projRes, projS, eofLift]
  | none =>
    cases stack with
    | nil => rfl
    | cons f rest =>
      simp only [projS, List.map_cons]
      have hc : (eofLift A).canMatch f.autState = A.canMatch f.autState.1 := rfl
      have h1 : (projFrame f).trans = f.trans := rfl
      have h2 : (projFrame f).node = f.node := rfl
      have h3 : (projFrame f).autState = f.autState.1 := rfl
      have h4 : (projFrame f).out = f.out := rfl
      rw [hc, h1, h2, h3, h4]
      split
      · split
        · split <;> rfl
        · rfl
      · cases acc.transition f.node f.trans with
        | none => rfl
        | some t =>
          simp only
          cases acc.node t.addr with
          | none => rfl
          | some nn =>
            simp only
            split
            · rfl
            · have hmm : (eofLift A).isMatch ((eofLift A).accept f.autState t.inp) =
                  A.eofMatch (A.accept f.autState.1 t.inp) := rfl
              have hacc : ((eofLift A).accept f.autState t.inp).1 = A.accept f.autState.1 t.inp := rfl
              have he : (eofLift A).acceptEof ((eofLift A).accept f.autState t.inp) = none := rfl
              rw [he, hmm]
              cases hfin : acc.isFinal nn with
              | false => simp [projRes, projS, projFrame, hacc]
              | true =>
                simp only [if_true, Bool.true_and, Aut.eofMatch]
                cases A.acceptEof (A.accept f.autState.1 t.inp) with
                | none =>
                  simp only
                  by_cases hm2 : A.isMatch (A.accept f.autState.1 t.inp) = true <;>
                    simp [hm2, projRes, projS, projFrame, hacc]
                | some e =>
                  simp only
                  by_cases hm2 : A.isMatch e = true <;>
                    simp [hm2, projRes, projS, projFrame, hacc]

def prItem : Key × Nat × (σ × Bool) → Key × Nat × σ := fun (k, v, x) => (k, v, x.1)

theorem streamCollect_proj (acc : NodeAccess N) (A : Aut σ) (root : Nat) (fuel : Nat)
    (s' : SState N (σ × Bool)) (accum' : List (Key × Nat × (σ × Bool))) :
    streamCollect acc A root fuel (projS s') (accum'.map prItem) =
      (streamCollect acc (eofLift A) root fuel s' accum').map (·.map prItem) := by
  induction fuel generalizing s' accum' with
  | zero => rfl
  | succ n ih =>
    simp only [streamCollect, streamStep_proj]
    cases streamStep acc (eofLift A) root s' with
    | panic => rfl
    | done _ => simp [projRes]
    | emit k v st s2 => exact ih s2 ((k, v, st) :: accum')
    | cont s2 => exact ih s2 accum'

theorem eofLift_run (A : Aut σ) (x : σ) (b : Bool) (w : Key) :
    (eofLift A).run (x, b) w = (A.run x w, b || !w.isEmpty) := by
  induction w generalizing x b with
  | nil => simp [Aut.run]
  | cons c w ih =>
    have h1 : (eofLift A).run (x, b) (c :: w) = (eofLift A).run (A.accept x c, true) w := rfl
    have h2 : A.run x (c :: w) = A.run (A.accept x c) w := rfl
    rw [h1, h2, ih]
    simp

theorem eofLift_accepts (A : Aut σ) (k : Key) : (eofLift A).accepts k = A.acceptsEof k := by
  unfold Aut.accepts Aut.acceptsEof
  have hs : (eofLift A).start = (A.start, false) := rfl
  rw [hs, eofLift_run]
  cases k <;> simp [eofLift, Aut.run]

theorem eofLift_run_start (A : Aut σ) (k : Key) :
    ((eofLift A).run (eofLift A).start k).1 = A.run A.start k := by
  have hs : (eofLift A).start = (A.start, false) := rfl
  rw [hs, eofLift_run]

/-- `stream_correct` without the `hEof` assumption: for an automaton with an arbitrary
`accept_eof` hook, the stream yields exactly the in-range entries accepted in the sense of
`Aut.acceptsEof`. -/
theorem stream_correct_eof {acc : NodeAccess N} {A : Aut σ} {s : Store} {den : Nat → KV}
    (hg : GoodStore s den) (hr : Represents acc s) (root : Nat)
    (hroot : root = 0 ∨ ∃ n, (root, n) ∈ s)
    (hCan : ∀ x, A.canMatch x = false → ∀ w, A.isMatch (A.run x w) = false ∧ A.eofMatch (A.run x w) = false)
    (min max : Bound) :
    ∃ s0, streamNew acc A root min max = some s0 ∧
    ∃ N, ∀ fuel, N ≤ fuel →
      streamCollect acc A root fuel s0 [] =
        some (((den root).filter fun kv =>
                lowerOK min kv.1 && upperOK max kv.1 && A.acceptsEof kv.1).map
                fun kv => (kv.1, kv.2, A.run A.start kv.1)) := by
  have hCan' : ∀ x, (eofLift A).canMatch x = false →
      ∀ w, (eofLift A).isMatch ((eofLift A).run x w) = false := by
    intro x hx w
    obtain ⟨x, b⟩ := x
    rw [eofLift_run]
    have := hCan x hx w
    simp only [eofLift]
    split
    · exact this.2
    · exact this.1
  obtain ⟨s0', hnew, M, hM⟩ :=
    stream_correct (A := eofLift A) hg hr root hroot (fun _ => rfl) hCan' min max
  refine ⟨projS s0', by rw [streamNew_proj, hnew]; rfl, M, fun fuel hf => ?_⟩
  have h := streamCollect_proj acc A root fuel s0' []
  simp only [List.map_nil] at h
  rw [h, hM fuel hf]
  simp only [Option.map_some, List.map_map, eofLift_accepts]
  congr 1
  apply List.map_congr_left
  intro kv _
  simp [prItem, eofLift_run_start]

/-- the lifted automaton inherits the pruning contract -/
theorem eofLift_canSound (A : Aut σ)
    (hCan : ∀ x, A.canMatch x = false → ∀ w, A.isMatch (A.run x w) = false ∧ A.eofMatch (A.run x w) = false) :
    ∀ x, (eofLift A).canMatch x = false → ∀ w, (eofLift A).isMatch ((eofLift A).run x w) = false := by
  intro x hx w
  obtain ⟨x, b⟩ := x
  rw [eofLift_run]
  have := hCan x hx w
  simp only [eofLift]
  split
  · exact this.2
  · exact this.1

/-- transport of ANY stream-correctness statement about `eofLift A` (over any node access, any
list `L` of entries) to the hooked automaton `A` itself -/
theorem eof_transport {acc : NodeAccess N} {A : Aut σ} {root : Nat} {min max : Bound} {L : KV}
    (h : ∃ s0, streamNew acc (eofLift A) root min max = some s0 ∧ ∃ M, ∀ fuel, M ≤ fuel →
      streamCollect acc (eofLift A) root fuel s0 [] =
        some ((L.filter fun kv => lowerOK min kv.1 && upperOK max kv.1 && (eofLift A).accepts kv.1).map
          fun kv => (kv.1, kv.2, (eofLift A).run (eofLift A).start kv.1))) :
    ∃ s0, streamNew acc A root min max = some s0 ∧ ∃ M, ∀ fuel, M ≤ fuel →
      streamCollect acc A root fuel s0 [] =
        some ((L.filter fun kv => lowerOK min kv.1 && upperOK max kv.1 && A.acceptsEof kv.1).map
          fun kv => (kv.1, kv.2, A.run A.start kv.1)) := by
  obtain ⟨s0', hnew, M, hM⟩ := h
  refine ⟨projS s0', by rw [streamNew_proj, hnew]; rfl, M, fun fuel hf => ?_⟩
  have h := streamCollect_proj acc A root fuel s0' []
  simp only [List.map_nil] at h
  rw [h, hM fuel hf]
  simp only [Option.map_some, List.map_map, eofLift_accepts]
  congr 1
  apply List.map_congr_left
  intro kv _
  simp [prItem, eofLift_run_start]

/-- the new theorem specialises to the old one when there is no hook -/
theorem stream_correct_eof_conservative (A : Aut σ) (hEof : ∀ x, A.acceptEof x = none) :
    A.acceptsEof = A.accepts := by
  funext k
  unfold Aut.acceptsEof Aut.accepts Aut.eofMatch
  rw [hEof]
  cases k <;> simp [Aut.run]

/-- a concrete automaton with a non-trivial hook: counts bytes; matches at 100; the hook
sends a 2-byte key to the matching state -/
def hookDemo : Aut Nat where
  start := 0
  isMatch := fun x => x == 100
  canMatch := fun _ => true
  willAlwaysMatch := fun _ => false
  accept := fun x _ => x + 1
  acceptEof := fun x => if x == 2 then some 100 else none

example : ∀ x, hookDemo.canMatch x = false →
    ∀ w, hookDemo.isMatch (hookDemo.run x w) = false ∧ hookDemo.eofMatch (hookDemo.run x w) = false := by
  intro x hx; simp [hookDemo] at hx

example : hookDemo.acceptsEof [1, 2] = true ∧ hookDemo.accepts [1, 2] = false := by decide

end Fst

