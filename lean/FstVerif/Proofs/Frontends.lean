import FstVerif.Model.Frontends
import FstVerif.Proofs.Build
/-
The batch entry points are the fold of single calls (C06 / C15).
-/
namespace Fst

theorem extendInsert_ok (s : BState) (kvs : KV) (s' : BState) (h : insertAll s kvs = .ok s') :
    s.extendInsert kvs = (s', .ok ()) := by
  induction kvs generalizing s with
  | nil => simp only [insertAll] at h; cases h; rfl
  | cons kv rest ih =>
    obtain ⟨k, v⟩ := kv
    simp only [insertAll] at h
    simp only [BState.extendInsert]
    cases hi : s.insert k v with
    | error e => rw [hi] at h; cases h
    | ok s1 => rw [hi] at h; exact ih s1 h

theorem extendInsert_err (s : BState) (kvs : KV) (e : BErr) (h : insertAll s kvs = .error e) :
    (s.extendInsert kvs).2 = .error e := by
  induction kvs generalizing s with
  | nil => simp [insertAll] at h
  | cons kv rest ih =>
    obtain ⟨k, v⟩ := kv
    simp only [insertAll] at h
    simp only [BState.extendInsert]
    cases hi : s.insert k v with
    | error e' => rw [hi] at h; cases h; rfl
    | ok s1 => rw [hi] at h; exact ih s1 h

theorem extendAdd_ok (s : BState) (ks : List Key) (s' : BState) (h : addAll s ks = .ok s') :
    s.extendAdd ks = (s', .ok ()) := by
  induction ks generalizing s with
  | nil => simp only [addAll] at h; cases h; rfl
  | cons k rest ih =>
    simp only [addAll] at h
    simp only [BState.extendAdd]
    cases hi : s.add k with
    | error e => rw [hi] at h; cases h
    | ok s1 => rw [hi] at h; exact ih s1 h

theorem extendAdd_err (s : BState) (ks : List Key) (e : BErr) (h : addAll s ks = .error e) :
    (s.extendAdd ks).2 = .error e := by
  induction ks generalizing s with
  | nil => simp [addAll] at h
  | cons k rest ih =>
    simp only [addAll] at h
    simp only [BState.extendAdd]
    cases hi : s.add k with
    | error e' => rw [hi] at h; cases h; rfl
    | ok s1 => rw [hi] at h; exact ih s1 h

/-- every map-like batch entry point reaches the state of the single-call fold -/
theorem frontends_map (fe : FrontEnd)
    (hfe : fe = .rawIter ∨ fe = .rawStream ∨ fe = .mapIter ∨ fe = .mapStream ∨ fe = .mapFromIter ∨ fe = .rawFromIterMap)
    (s s' : BState) (kvs : KV) (h : insertAll s kvs = .ok s') :
    fe.runBatch s kvs = (s', .ok ()) := by
  rcases hfe with rfl | rfl | rfl | rfl | rfl | rfl <;> exact extendInsert_ok s kvs s' h

/-- every set-like batch entry point reaches the state of the single-call fold -/
theorem frontends_set (fe : FrontEnd)
    (hfe : fe = .setIter ∨ fe = .setStream ∨ fe = .setFromIter ∨ fe = .rawFromIterSet)
    (s s' : BState) (kvs : KV) (h : addAll s (kvs.map (·.1)) = .ok s') :
    fe.runBatch s kvs = (s', .ok ()) := by
  rcases hfe with rfl | rfl | rfl | rfl <;> exact extendAdd_ok s _ s' h

end Fst
