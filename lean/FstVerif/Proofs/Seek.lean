import FstVerif.Proofs.Stream
/-
T-Seek: after `seek_min` (`seekLoop` + the epilogue of `streamNew`) the stack's
continuation is exactly the entries of `den root` satisfying the lower bound;
together with T-Stream (`Proofs/Stream.lean`) this gives `stream_correct`.
-/
namespace Fst
namespace StreamP

variable {N σ : Type}

/-- lower bound `b` (inclusive or exclusive) on a key, relative to a node -/
def lowK (incl : Bool) (b k : Key) : Bool := if incl then !lexLt k b else lexLt b k

theorem lowK_nil_left (incl : Bool) (b : UInt8) (bs : Key) : lowK incl (b :: bs) [] = false := by
  cases incl <;> simp [lowK, lexLt]

theorem lowK_cons (incl : Bool) (b c : UInt8) (bs k : Key) :
    lowK incl (b :: bs) (c :: k) =
      if c < b then false else if c = b then lowK incl bs k else true := by
  by_cases h1 : c < b
  · have h2 : ¬ b < c := UInt8.lt_asymm h1
    have h3 : ¬ c = b := fun h => UInt8.lt_irrefl b (h ▸ h1)
    have h3' : ¬ b = c := fun h => h3 h.symm
    cases incl <;> simp [lowK, lexLt, h1, h2, h3']
  · by_cases h2 : c = b
    · subst h2
      cases incl <;> simp [lowK, lexLt, UInt8.lt_irrefl]
    · have h3 : b < c := by
        rw [UInt8.lt_iff_toNat_lt] at *
        have : c.toNat ≠ b.toNat := fun h => h2 (UInt8.toNat_inj.1 h)
        omega
      have h2' : ¬ b = c := fun h => h2 h.symm
      cases incl <;> simp [lowK, lexLt, h1, h2, h3]

/-- the entries below a list of transitions -/
def G (den : Nat → KV) (L : List Tr) : KV := L.flatMap fun t => lift t.inp t.out (den t.addr)

theorem contRel_eq_G (den : Nat → KV) (n : BNode) (i : Nat) : contRel den n i = G den (n.trans.drop i) := rfl

theorem filter_lift (incl : Bool) (b c : UInt8) (bs : Key) (o : Nat) (l : KV) :
    (lift c o l).filter (fun kv => lowK incl (b :: bs) kv.1) =
      if c < b then [] else if c = b then lift c o (l.filter fun kv => lowK incl bs kv.1)
      else lift c o l := by
  simp only [lift, List.filter_map]
  by_cases h1 : c < b
  · simp [h1, Function.comp_def, lowK_cons]
  · by_cases h2 : c = b
    · simp [h2, Function.comp_def, lowK_cons, UInt8.lt_irrefl]
    · have : l.filter (fun _ => true) = l := List.filter_eq_self.2 (fun _ _ => rfl)
      simp [h1, h2, Function.comp_def, lowK_cons, this]

theorem G_filter_lt (den : Nat → KV) (incl : Bool) (b : UInt8) (bs : Key) (L : List Tr)
    (h : ∀ t ∈ L, t.inp < b) : (G den L).filter (fun kv => lowK incl (b :: bs) kv.1) = [] := by
  induction L with
  | nil => rfl
  | cons t L ih =>
    simp only [G, List.flatMap_cons, List.filter_append] at *
    rw [filter_lift, if_pos (h t (by simp)), ih (fun t ht => h t (by simp [ht]))]
    rfl

theorem G_filter_gt (den : Nat → KV) (incl : Bool) (b : UInt8) (bs : Key) (L : List Tr)
    (h : ∀ t ∈ L, b < t.inp) : (G den L).filter (fun kv => lowK incl (b :: bs) kv.1) = G den L := by
  induction L with
  | nil => rfl
  | cons t L ih =>
    simp only [G, List.flatMap_cons, List.filter_append] at *
    have h1 : b < t.inp := h t (by simp)
    have h2 : ¬ t.inp < b := UInt8.lt_asymm h1
    have h3 : ¬ t.inp = b := fun hh => UInt8.lt_irrefl b (hh ▸ h1)
    rw [filter_lift, if_neg h2, if_neg h3, ih (fun t ht => h t (by simp [ht]))]

/-- the lower bound has a next byte with no transition: everything from the first greater
transition on -/
theorem filter_den_notfound (den : Nat → KV) (incl : Bool) (n : BNode) (b : UInt8) (bs : Key)
    (i : Nat) (h1 : ∀ j (hj : j < n.trans.length), j < i → n.trans[j].inp < b)
    (h2 : ∀ j (hj : j < n.trans.length), i ≤ j → b < n.trans[j].inp) :
    (denNodeWith den n).filter (fun kv => lowK incl (b :: bs) kv.1) = contRel den n i := by
  have hown : (own n).filter (fun kv => lowK incl (b :: bs) kv.1) = [] := by
    cases hf : n.fin <;> simp [own, hf, lowK_nil_left]
  rw [denNodeWith_eq, List.filter_append, hown, List.nil_append, contRel_eq_G, contRel_eq_G,
    List.drop_zero]
  conv => lhs; rw [← List.take_append_drop i n.trans]
  simp only [G, List.flatMap_append, List.filter_append]
  have ha := G_filter_lt den incl b bs (n.trans.take i) (by
    intro t ht
    obtain ⟨j, hj, hjt⟩ := List.mem_take_iff_getElem.1 ht
    rw [← hjt]; exact h1 j (by omega) (by omega))
  have hb := G_filter_gt den incl b bs (n.trans.drop i) (by
    intro t ht
    obtain ⟨j, hj, hjt⟩ := List.mem_drop_iff_getElem.1 ht
    rw [← hjt]; exact h2 (i + j) (by omega) (by omega))
  simp only [G] at ha hb
  rw [ha, hb, List.nil_append]

/-- the lower bound's next byte has a transition: descend, and keep all later siblings -/
theorem filter_den_found (den : Nat → KV) (incl : Bool) (n : BNode) (b : UInt8) (bs : Key)
    (i : Nat) (hi : i < n.trans.length) (hb : n.trans[i].inp = b)
    (h1 : ∀ j (hj : j < n.trans.length), j < i → n.trans[j].inp < b)
    (h2 : ∀ j (hj : j < n.trans.length), i < j → b < n.trans[j].inp) :
    (denNodeWith den n).filter (fun kv => lowK incl (b :: bs) kv.1) =
      lift b n.trans[i].out ((den n.trans[i].addr).filter fun kv => lowK incl bs kv.1) ++
        contRel den n (i + 1) := by
  have hown : (own n).filter (fun kv => lowK incl (b :: bs) kv.1) = [] := by
    cases hf : n.fin <;> simp [own, hf, lowK_nil_left]
  rw [denNodeWith_eq, List.filter_append, hown, List.nil_append, contRel_eq_G, contRel_eq_G,
    List.drop_zero]
  conv => lhs; rw [← List.take_append_drop i n.trans, List.drop_eq_getElem_cons hi]
  simp only [G, List.flatMap_append, List.flatMap_cons, List.filter_append]
  have ha := G_filter_lt den incl b bs (n.trans.take i) (by
    intro t ht
    obtain ⟨j, hj, hjt⟩ := List.mem_take_iff_getElem.1 ht
    rw [← hjt]; exact h1 j (by omega) (by omega))
  have hc := G_filter_gt den incl b bs (n.trans.drop (i + 1)) (by
    intro t ht
    obtain ⟨j, hj, hjt⟩ := List.mem_drop_iff_getElem.1 ht
    rw [← hjt]; exact h2 (i + 1 + j) (by omega) (by omega))
  simp only [G] at ha hc
  rw [ha, hc, List.nil_append, filter_lift, hb, if_neg (UInt8.lt_irrefl b), if_pos rfl]

/-- what `find_input` found, in terms of the sorted transition list -/
theorem transIdx_some {n : BNode} (hs : SortedInputs n) {b : UInt8} {i : Nat}
    (h : transIdx n b = some i) :
    ∃ hi : i < n.trans.length, n.trans[i].inp = b ∧
      (∀ j (hj : j < n.trans.length), j < i → n.trans[j].inp < b) ∧
      (∀ j (hj : j < n.trans.length), i < j → b < n.trans[j].inp) := by
  obtain ⟨hi, hb, _⟩ := List.findIdx?_eq_some_iff_getElem.1 h
  have hb' : n.trans[i].inp = b := by simpa using hb
  refine ⟨hi, hb', ?_, ?_⟩
  · intro j hj hji
    rw [← hb']; exact (List.pairwise_iff_getElem.1 hs) j i hj hi hji
  · intro j hj hij
    rw [← hb']; exact (List.pairwise_iff_getElem.1 hs) i j hi hj hij

/-- `position(|t| t.inp > b)` when `find_input` found nothing -/
theorem transIdx_none {n : BNode} (hs : SortedInputs n) {b : UInt8} (h : transIdx n b = none) :
    (∀ j (hj : j < n.trans.length), j < n.trans.findIdx (fun t => decide (t.inp > b)) →
        n.trans[j].inp < b) ∧
      (∀ j (hj : j < n.trans.length), n.trans.findIdx (fun t => decide (t.inp > b)) ≤ j →
        b < n.trans[j].inp) := by
  have hne : ∀ t ∈ n.trans, ¬ t.inp = b := by
    intro t ht
    have := List.findIdx?_eq_none_iff.1 h t ht
    simpa using this
  constructor
  · intro j hj hlt
    have h1 := List.not_of_lt_findIdx hlt
    have h1' : ¬ b < n.trans[j].inp := by simpa using h1
    have h2 := hne _ (List.getElem_mem hj)
    rw [UInt8.lt_iff_toNat_lt] at *
    have : n.trans[j].inp.toNat ≠ b.toNat := fun hh => h2 (UInt8.toNat_inj.1 hh)
    omega
  · intro j hj hle
    have hlt : n.trans.findIdx (fun t => decide (t.inp > b)) < n.trans.length := by omega
    have h1 := List.findIdx_getElem (w := hlt)
    have h1' : b < n.trans[n.trans.findIdx (fun t => decide (t.inp > b))].inp := by simpa using h1
    by_cases hej : n.trans.findIdx (fun t => decide (t.inp > b)) = j
    · simpa [hej] using h1'
    · exact UInt8.lt_trans h1' ((List.pairwise_iff_getElem.1 hs) _ j hlt hj (by omega))

theorem posGreater_eq {acc : NodeAccess N} {s : Store} {den : Nat → KV} {x : N} {a : Nat} {n : BNode}
    (R : NodeRep acc s den x a n) (b : UInt8) :
    ∀ k i, n.trans.length = i + k →
      posGreater acc x b k i =
        some (i + (n.trans.drop i).findIdx (fun t => decide (t.inp > b))) := by
  intro k
  induction k with
  | zero =>
    intro i hl
    simp [posGreater, List.drop_eq_nil_of_le (show n.trans.length ≤ i by omega)]
  | succ k ih =>
    intro i hl
    have hi : i < n.trans.length := by omega
    simp only [posGreater, R.trans i hi, List.drop_eq_getElem_cons hi, List.findIdx_cons]
    by_cases hgt : n.trans[i].inp > b
    · simp [hgt]
    · rw [if_neg hgt, ih (i + 1) (by omega)]
      simp [hgt]; omega

/-! ### the epilogue of `seek_min` -/

/-- the part of `streamNew` after the `for` loop of `seek_min` -/
def seekFinish (acc : NodeAccess N) (inclusive : Bool) (max : Bound) :
    Key × List (Frame N σ) × Option (N × Nat × σ) → Option (SState N σ)
  | (inp, stack, none) => some { inp, emptyOutput := none, stack, endAt := max }
  | (inp, stack, some (_, out, st)) =>
    match stack with
    | [] => some { inp, emptyOutput := none, stack, endAt := max }
    | top :: rest =>
      if inclusive then
        if top.trans = 0 then none else
        some { inp := inp.dropLast, emptyOutput := none,
               stack := { top with trans := top.trans - 1 } :: rest, endAt := max }
      else
        if top.trans = 0 then none else
        match acc.transition top.node (top.trans - 1) with
        | none => none
        | some t =>
          match acc.node t.addr with
          | none => none
          | some n' =>
            some { inp, emptyOutput := none, stack := ⟨n', 0, out, st⟩ :: top :: rest, endAt := max }

theorem streamNew_included (acc : NodeAccess N) (A : Aut σ) (root : Nat) (k : Key) (max : Bound)
    (hk : k ≠ []) (r : N) (hr : acc.node root = some r) :
    streamNew acc A root (.included k) max =
      (seekLoop acc A k r 0 A.start [] []).bind (seekFinish acc true max) := by
  have hk' : k.isEmpty = false := by cases k <;> simp_all
  simp only [streamNew, hr, Bound.isEmpty, hk']
  cases seekLoop acc A k r 0 A.start [] [] with
  | none => rfl
  | some res =>
    obtain ⟨inp, stack, fin⟩ := res
    cases fin with
    | none => rfl
    | some f => obtain ⟨_, out, st⟩ := f; cases stack <;> rfl

theorem streamNew_excluded (acc : NodeAccess N) (A : Aut σ) (root : Nat) (k : Key) (max : Bound)
    (hk : k ≠ []) (r : N) (hr : acc.node root = some r) :
    streamNew acc A root (.excluded k) max =
      (seekLoop acc A k r 0 A.start [] []).bind (seekFinish acc false max) := by
  have hk' : k.isEmpty = false := by cases k <;> simp_all
  simp only [streamNew, hr, Bound.isEmpty, hk']
  cases seekLoop acc A k r 0 A.start [] [] with
  | none => rfl
  | some res =>
    obtain ⟨inp, stack, fin⟩ := res
    cases fin with
    | none => rfl
    | some f => obtain ⟨_, out, st⟩ := f; cases stack <;> rfl

theorem filter_lowK_incl_nil (l : KV) : (l.filter fun kv => lowK true [] kv.1) = l := by
  rw [List.filter_eq_self]
  intro kv _
  simp [lowK, lexLt_nil_right]

theorem filter_lowK_excl_nil (den : Nat → KV) (n : BNode) :
    ((denNodeWith den n).filter fun kv => lowK false [] kv.1) = contRel den n 0 := by
  rw [denNodeWith_eq, List.filter_append]
  have h1 : ((own n).filter fun kv => lowK false [] kv.1) = [] := by
    cases hf : n.fin <;> simp [own, hf, lowK, lexLt]
  have h2 : ((contRel den n 0).filter fun kv => lowK false [] kv.1) = contRel den n 0 := by
    rw [List.filter_eq_self]
    intro kv hkv
    obtain ⟨b, r, hk⟩ := mem_contRel_ne_nil hkv
    simp [lowK, hk, lexLt]
  rw [h1, h2, List.nil_append]

/-- T-Seek: from a node reached along the consumed part `inp` of the bound, the loop and
the epilogue leave a state from which the stream returns the entries below that node
satisfying the rest `key` of the bound, followed by what the given stack returns. -/
theorem seek_spec {acc : NodeAccess N} {A : Aut σ} {s : Store} {den : Nat → KV}
    (C : Ctx acc A s den) (root : Nat) (e : Bound) (incl : Bool) :
    ∀ key, key ≠ [] → ∀ a, a ≤ root → ∀ n x, NodeRep acc s den x a n →
      ∀ o inp p' stack X, RestPath root a inp p' → Runs acc A root e stack p' X → Closed e inp X →
        ∃ inp' stack',
          (seekLoop acc A key x o (A.run A.start inp) inp stack).bind (seekFinish acc incl e) =
              some ⟨inp', none, stack', e⟩ ∧
            Runs acc A root e stack' inp'
              (F A e (pre inp o ((denNodeWith den n).filter fun kv => lowK incl key kv.1)) ++ X) := by
  intro key
  induction key with
  | nil => intro h; exact absurd rfl h
  | cons b bs ih =>
    intro _ a hle n x R o inp p' stack X hp hrest hcl
    simp only [seekLoop, R.find b]
    cases hti : transIdx n b with
    | none =>
      obtain ⟨h1, h2⟩ := transIdx_none R.sorted hti
      have hpos := posGreater_eq R b n.trans.length 0 (by omega)
      rw [R.len, hpos]
      simp only [List.drop_zero, Nat.zero_add, Option.bind_some, seekFinish]
      refine ⟨_, _, rfl, ?_⟩
      rw [filter_den_notfound den incl n b bs _ h1 h2]
      have hle' := List.findIdx_le_length (p := fun t : Tr => decide (t.inp > b)) (xs := n.trans)
      exact run_frame C root e a hle (n.trans.length - n.trans.findIdx fun t => decide (t.inp > b)) _
        n x R (by omega) o inp p' stack X hp hrest hcl
    | some i =>
      obtain ⟨hi, hb, h1, h2⟩ := transIdx_some R.sorted hti
      have htm : n.trans[i] ∈ n.trans := List.getElem_mem hi
      obtain ⟨hlt, hval⟩ := R.child _ htm
      obtain ⟨n', x', R'⟩ := valid_rep C.hg C.hr hval
      simp only [R.trans i hi, R'.node]
      -- the frame pushed by the loop, and what it returns
      have hf2 := run_frame C root e a hle (n.trans.length - (i + 1)) (i + 1) n x R (by omega)
        o inp p' stack X hp hrest hcl
      have hcl2 := closed_step A e den n R.sorted i hi inp o X hcl
      rw [hb] at hcl2
      rw [filter_den_found den incl n b bs i hi hb h1 h2, pre_append, F_append, pre_lift,
        List.append_assoc]
      rw [← run_snoc]
      cases bs with
      | nil =>
        simp only [seekLoop, Option.bind_some, seekFinish]
        cases incl with
        | true =>
          simp only [if_true, Nat.add_eq_zero_iff, Nat.one_ne_zero, and_false, if_false,
            List.dropLast_concat, Nat.add_sub_cancel]
          refine ⟨_, _, rfl, ?_⟩
          have hf1 := run_frame C root e a hle (n.trans.length - i) i n x R (by omega)
            o inp p' stack X hp hrest hcl
          rw [contRel_cons den n i hi, pre_append, F_append, pre_lift, hb, List.append_assoc] at hf1
          rw [filter_lowK_incl_nil]
          exact hf1
        | false =>
          simp only [Bool.false_eq_true, if_false, Nat.add_eq_zero_iff, Nat.one_ne_zero, and_false,
            Nat.add_sub_cancel, R.trans i hi, R'.node]
          refine ⟨_, _, rfl, ?_⟩
          have hc := run_frame C root e _ (by omega) n'.trans.length 0 n' x' R' (by omega)
            (o + n.trans[i].out) (inp ++ [b]) inp (⟨x, i + 1, o, A.run A.start inp⟩ :: stack) _
            (Or.inr ⟨by omega, _, rfl⟩) hf2 hcl2
          rw [R'.den_eq, filter_lowK_excl_nil]
          exact hc
      | cons b2 bs2 =>
        obtain ⟨inp', stack', he, hr⟩ := ih (by simp) n.trans[i].addr (by omega) n' x' R'
          (o + n.trans[i].out) (inp ++ [b]) inp (⟨x, i + 1, o, A.run A.start inp⟩ :: stack) _
          (Or.inr ⟨by omega, _, rfl⟩) hf2 hcl2
        refine ⟨inp', stack', he, ?_⟩
        rw [R'.den_eq]
        exact hr

/-! ### `den` is strictly ascending (so the stream's items are in ascending key order) -/

/-- strictly ascending keys, all pairs -/
def Asc (l : KV) : Prop := l.Pairwise fun a b => lexLt a.1 b.1 = true

theorem sortedKV_of_asc : ∀ l : KV, Asc l → SortedKV l
  | [], _ => trivial
  | [_], _ => trivial
  | a :: b :: rest, h => by
    have h' := List.pairwise_cons.1 h
    exact ⟨h'.1 b (by simp), sortedKV_of_asc (b :: rest) h'.2⟩

theorem asc_lift (b : UInt8) (o : Nat) (l : KV) (h : Asc l) : Asc (lift b o l) := by
  simp only [Asc, lift, List.pairwise_map]
  exact h.imp (fun {x y} hxy => by simpa [lexLt, UInt8.lt_irrefl] using hxy)

theorem asc_G (den : Nat → KV) (L : List Tr) (hs : L.Pairwise fun a b => a.inp < b.inp)
    (hd : ∀ t ∈ L, Asc (den t.addr)) : Asc (G den L) := by
  induction L with
  | nil => exact List.Pairwise.nil
  | cons t L ih =>
    have hs' := List.pairwise_cons.1 hs
    simp only [G, List.flatMap_cons, Asc]
    rw [List.pairwise_append]
    refine ⟨asc_lift _ _ _ (hd t (by simp)), ih hs'.2 (fun t ht => hd t (by simp [ht])), ?_⟩
    intro x hx y hy
    simp only [lift, List.mem_map] at hx
    obtain ⟨x', _, hx'⟩ := hx
    simp only [List.mem_flatMap, lift, List.mem_map] at hy
    obtain ⟨t', ht', y', _, hy'⟩ := hy
    rw [← hx', ← hy']
    simp [lexLt, hs'.1 t' ht']

theorem den_asc {s : Store} {den : Nat → KV} (hg : GoodStore s den) :
    ∀ a, Valid s a → Asc (den a) := by
  intro a
  induction a using Nat.strongRecOn with
  | _ a ih =>
    intro hv
    rcases hv with h0 | ⟨n, hn⟩
    · subst h0; rw [hg.den_zero]; exact List.pairwise_singleton _ _
    · rw [hg.unfold a n hn, denNodeWith_eq, contRel_eq_G, List.drop_zero, Asc, List.pairwise_append]
      refine ⟨?_, asc_G den n.trans (hg.sorted a n hn) (fun t ht => ?_), ?_⟩
      · cases hf : n.fin <;> simp [own, hf]
      · obtain ⟨hlt, hval⟩ := hg.acyclic a n hn t ht
        exact ih _ hlt hval
      · intro x hx y hy
        have hx' : x.1 = [] := by
          cases hf : n.fin <;> simp [own, hf] at hx
          rw [hx]
        simp only [G, List.mem_flatMap, lift, List.mem_map] at hy
        obtain ⟨t', _, y', _, hy'⟩ := hy
        rw [hx', ← hy']
        rfl

end StreamP

open StreamP

variable {N σ : Type}

theorem lowerOK_included (k : Key) : (fun kv : Key × Nat => lowerOK (.included k) kv.1) =
    fun kv => lowK true k kv.1 := rfl

theorem lowerOK_excluded (k : Key) : (fun kv : Key × Nat => lowerOK (.excluded k) kv.1) =
    fun kv => lowK false k kv.1 := rfl

/-- T-Stream + T-Seek, with the `canMatch` hint only required to be sound in the automaton
states reachable from the start state (this is all the stream ever looks at). -/
theorem stream_correct_reach {acc : NodeAccess N} {A : Aut σ} {s : Store} {den : Nat → KV}
    (hg : GoodStore s den) (hr : Represents acc s) (root : Nat)
    (hroot : root = 0 ∨ ∃ n, (root, n) ∈ s)
    (hEof : ∀ x, A.acceptEof x = none)
    (hCan : ∀ p, A.canMatch (A.run A.start p) = false →
      ∀ w, A.isMatch (A.run (A.run A.start p) w) = false)
    (min max : Bound) :
    ∃ s0, streamNew acc A root min max = some s0 ∧
    ∃ N, ∀ fuel, N ≤ fuel →
      streamCollect acc A root fuel s0 [] =
        some (((den root).filter fun kv =>
                lowerOK min kv.1 && upperOK max kv.1 && A.accepts kv.1).map
                fun kv => (kv.1, kv.2, A.run A.start kv.1)) := by
  cases hmin : min.isEmpty with
  | true => exact stream_correct_emptymin hg hr root hroot hEof hCan min max hmin
  | false =>
    have C : Ctx acc A s den := ⟨hg, hr, hEof, hCan⟩
    obtain ⟨nr, r, R⟩ := valid_rep hg hr (show Valid s root from hroot)
    rw [final_form, R.den_eq]
    cases min with
    | unbounded => simp [Bound.isEmpty] at hmin
    | included k =>
      have hk : k ≠ [] := by intro h; simp [Bound.isEmpty, h] at hmin
      obtain ⟨inp', stack', he, hrun⟩ := seek_spec C root max true k hk root (Nat.le_refl _) nr r R
        0 [] [] [] [] (Or.inl ⟨rfl, rfl⟩) (runs_nil acc A root max []) (closed_nil max [])
      rw [streamNew_included acc A root k max hk r R.node]
      refine ⟨_, he, ?_⟩
      apply runs_fuel
      obtain ⟨M, hM⟩ := hrun
      refine ⟨M, fun m => ?_⟩
      rw [hM m [], pre_nil_zero, lowerOK_included]
      simp
    | excluded k =>
      have hk : k ≠ [] := by intro h; simp [Bound.isEmpty, h] at hmin
      obtain ⟨inp', stack', he, hrun⟩ := seek_spec C root max false k hk root (Nat.le_refl _) nr r R
        0 [] [] [] [] (Or.inl ⟨rfl, rfl⟩) (runs_nil acc A root max []) (closed_nil max [])
      rw [streamNew_excluded acc A root k max hk r R.node]
      refine ⟨_, he, ?_⟩
      apply runs_fuel
      obtain ⟨M, hM⟩ := hrun
      refine ⟨M, fun m => ?_⟩
      rw [hM m [], pre_nil_zero, lowerOK_excluded]
      simp

/-- T-Stream + T-Seek: for every range and every automaton obeying the contract, the stream
never panics and yields exactly the entries of `den root` that are within the range and
accepted by the automaton, in the order of `den root`, each with its value and the
automaton state reached after the key, and then ends. -/
theorem stream_correct {acc : NodeAccess N} {A : Aut σ} {s : Store} {den : Nat → KV}
    (hg : GoodStore s den) (hr : Represents acc s) (root : Nat)
    (hroot : root = 0 ∨ ∃ n, (root, n) ∈ s)
    (hEof : ∀ x, A.acceptEof x = none)
    (hCan : ∀ x, A.canMatch x = false → ∀ w, A.isMatch (A.run x w) = false)
    (min max : Bound) :
    ∃ s0, streamNew acc A root min max = some s0 ∧
    ∃ N, ∀ fuel, N ≤ fuel →
      streamCollect acc A root fuel s0 [] =
        some (((den root).filter fun kv =>
                lowerOK min kv.1 && upperOK max kv.1 && A.accepts kv.1).map
                fun kv => (kv.1, kv.2, A.run A.start kv.1)) :=
  stream_correct_reach hg hr root hroot hEof (fun _ => hCan _) min max

/-! ### corollaries -/

/-- the denotation of every reachable address is strictly ascending
(in `StreamP` because `Proofs/Lookup.lean` has a theorem of the same name and content) -/
theorem StreamP.den_sorted {s : Store} {den : Nat → KV} (hg : GoodStore s den) (a : Nat)
    (ha : a = 0 ∨ ∃ n, (a, n) ∈ s) : SortedKV (den a) :=
  sortedKV_of_asc _ (den_asc hg a ha)

/-- the result list of `stream_correct` is in strictly ascending key order -/
theorem stream_result_ascending {s : Store} {den : Nat → KV} (hg : GoodStore s den) (root : Nat)
    (hroot : root = 0 ∨ ∃ n, (root, n) ∈ s) (A : Aut σ) (min max : Bound) :
    (((den root).filter fun kv => lowerOK min kv.1 && upperOK max kv.1 && A.accepts kv.1).map
        fun kv => (kv.1, kv.2, A.run A.start kv.1)).Pairwise
      fun a b => lexLt a.1 b.1 = true := by
  rw [List.pairwise_map]
  exact (den_asc hg root hroot).filter _


/-- (a) the stream with `AlwaysMatch` (which obeys the contract, `autAlways_contract`) is the
plain range -/
theorem stream_correct_always {acc : NodeAccess N} {s : Store} {den : Nat → KV}
    (hg : GoodStore s den) (hr : Represents acc s) (root : Nat)
    (hroot : root = 0 ∨ ∃ n, (root, n) ∈ s) (min max : Bound) :
    ∃ s0, streamNew acc autAlways root min max = some s0 ∧
    ∃ N, ∀ fuel, N ≤ fuel →
      streamCollect acc autAlways root fuel s0 [] =
        some (((den root).filter fun kv => lowerOK min kv.1 && upperOK max kv.1).map
                fun kv => (kv.1, kv.2, ())) := by
  have := stream_correct hg hr root hroot autAlways_contract.1 autAlways_contract.2 min max
  simpa [Aut.accepts, autAlways] using this

/-- `Str` obeys the contract too (an automaton that really prunes) -/
theorem autStr_contract (k : Key) :
    (∀ x, (autStr k).acceptEof x = none) ∧
    (∀ x, (autStr k).canMatch x = false → ∀ w, (autStr k).isMatch ((autStr k).run x w) = false) := by
  refine ⟨fun _ => rfl, fun x h w => ?_⟩
  have hx : x = none := by cases x <;> simp_all [autStr]
  subst hx
  have : (autStr k).run none w = none := by
    induction w with
    | nil => rfl
    | cons b w ih => simpa [Aut.run, autStr] using ih
  rw [this]; simp [autStr]

/-- (b) hint independence: two automata that differ only in `canMatch` / `willAlwaysMatch`
(both obeying the contract) give the same stream -/
theorem stream_hint_independent {acc : NodeAccess N} {A B : Aut σ} {s : Store} {den : Nat → KV}
    (hg : GoodStore s den) (hr : Represents acc s) (root : Nat)
    (hroot : root = 0 ∨ ∃ n, (root, n) ∈ s)
    (hstart : A.start = B.start) (hmatch : A.isMatch = B.isMatch) (haccept : A.accept = B.accept)
    (hEofA : ∀ x, A.acceptEof x = none)
    (hCanA : ∀ x, A.canMatch x = false → ∀ w, A.isMatch (A.run x w) = false)
    (hEofB : ∀ x, B.acceptEof x = none)
    (hCanB : ∀ x, B.canMatch x = false → ∀ w, B.isMatch (B.run x w) = false)
    (min max : Bound) :
    ∃ sA sB, streamNew acc A root min max = some sA ∧ streamNew acc B root min max = some sB ∧
    ∃ N, ∀ fuel, N ≤ fuel →
      streamCollect acc A root fuel sA [] = streamCollect acc B root fuel sB [] ∧
      (streamCollect acc A root fuel sA []).isSome = true := by
  obtain ⟨sA, hA, NA, hNA⟩ := stream_correct hg hr root hroot hEofA hCanA min max
  obtain ⟨sB, hB, NB, hNB⟩ := stream_correct hg hr root hroot hEofB hCanB min max
  refine ⟨sA, sB, hA, hB, NA + NB, fun fuel hf => ?_⟩
  have hrun : ∀ w, A.run A.start w = B.run B.start w := by
    intro w; simp [Aut.run, haccept, hstart]
  have hacc : ∀ w, A.accepts w = B.accepts w := by
    intro w; simp [Aut.accepts, hrun, hmatch]
  rw [hNA fuel (by omega), hNB fuel (by omega)]
  simp [hrun, hacc]

/-- drain a stream like `streamCollect`, also returning the state left behind -/
def streamDrain (acc : NodeAccess N) (A : Aut σ) (root : Nat) :
    Nat → SState N σ → List (Key × Nat × σ) → Option (List (Key × Nat × σ) × SState N σ)
  | 0, _, _ => none
  | fuel+1, s, accum =>
    match streamStep acc A root s with
    | .panic => none
    | .done s' => some (accum.reverse, s')
    | .emit k v st s' => streamDrain acc A root fuel s' ((k, v, st) :: accum)
    | .cont s' => streamDrain acc A root fuel s' accum

theorem streamCollect_eq_drain (acc : NodeAccess N) (A : Aut σ) (root : Nat) :
    ∀ fuel s accum, streamCollect acc A root fuel s accum =
      (streamDrain acc A root fuel s accum).map Prod.fst := by
  intro fuel
  induction fuel with
  | zero => intro s accum; rfl
  | succ fuel ih =>
    intro s accum
    simp only [streamCollect, streamDrain]
    cases streamStep acc A root s <;> simp [ih]

/-- the state in which `next` returned `None` has an empty stack and no pending empty output -/
theorem done_state (acc : NodeAccess N) (A : Aut σ) (root : Nat) (s s' : SState N σ)
    (h : streamStep acc A root s = .done s') : s'.stack = [] ∧ s'.emptyOutput = none := by
  obtain ⟨inp, eo, stack, e⟩ := s
  cases eo with
  | some v =>
    simp only [streamStep] at h
    split at h
    · cases h; exact ⟨rfl, rfl⟩
    · split at h <;> cases h
  | none =>
    cases stack with
    | nil => simp only [streamStep] at h; cases h; exact ⟨rfl, rfl⟩
    | cons f rest =>
      simp only [streamStep] at h
      split at h
      · split at h
        · split at h <;> cases h
        · cases h
      · split at h
        · cases h
        · split at h
          · cases h
          · split at h
            · cases h; exact ⟨rfl, rfl⟩
            · repeat' (split at h)
              all_goals cases h

/-- in such a state every further `next` call returns `None` and leaves the state alone -/
theorem next_after_done (acc : NodeAccess N) (A : Aut σ) (root : Nat) (s' : SState N σ)
    (h : s'.stack = [] ∧ s'.emptyOutput = none) (fuel : Nat) :
    streamNext acc A root (fuel + 1) s' = some (none, s') := by
  obtain ⟨inp, eo, stack, e⟩ := s'
  obtain ⟨h1, h2⟩ := h
  simp only at h1 h2
  subst h1; subst h2
  simp [streamNext, streamStep]

theorem streamDrain_final (acc : NodeAccess N) (A : Aut σ) (root : Nat) :
    ∀ fuel s accum l sEnd, streamDrain acc A root fuel s accum = some (l, sEnd) →
      sEnd.stack = [] ∧ sEnd.emptyOutput = none := by
  intro fuel
  induction fuel with
  | zero => intro s accum l sEnd h; simp [streamDrain] at h
  | succ fuel ih =>
    intro s accum l sEnd h
    simp only [streamDrain] at h
    cases hs : streamStep acc A root s with
    | panic => simp [hs] at h
    | done s' =>
      simp only [hs, Option.some.injEq, Prod.mk.injEq] at h
      rw [← h.2]; exact done_state acc A root s s' hs
    | emit k v st s' => rw [hs] at h; exact ih _ _ _ _ h
    | cont s' => rw [hs] at h; exact ih _ _ _ _ h

/-- (c) after the drain, further `next` calls keep returning `None` -/
theorem stream_correct_fused {acc : NodeAccess N} {A : Aut σ} {s : Store} {den : Nat → KV}
    (hg : GoodStore s den) (hr : Represents acc s) (root : Nat)
    (hroot : root = 0 ∨ ∃ n, (root, n) ∈ s)
    (hEof : ∀ x, A.acceptEof x = none)
    (hCan : ∀ x, A.canMatch x = false → ∀ w, A.isMatch (A.run x w) = false)
    (min max : Bound) :
    ∃ s0, streamNew acc A root min max = some s0 ∧
    ∃ N, ∀ fuel, N ≤ fuel → ∃ sEnd,
      streamDrain acc A root fuel s0 [] =
        some (((den root).filter fun kv =>
                lowerOK min kv.1 && upperOK max kv.1 && A.accepts kv.1).map
                fun kv => (kv.1, kv.2, A.run A.start kv.1), sEnd) ∧
      ∀ fuel', streamNext acc A root (fuel' + 1) sEnd = some (none, sEnd) := by
  obtain ⟨s0, h0, N0, hN⟩ := stream_correct hg hr root hroot hEof hCan min max
  refine ⟨s0, h0, N0, fun fuel hf => ?_⟩
  have h := hN fuel hf
  rw [streamCollect_eq_drain] at h
  cases hd : streamDrain acc A root fuel s0 [] with
  | none => simp [hd] at h
  | some res =>
    obtain ⟨l, sEnd⟩ := res
    rw [hd] at h
    simp only [Option.map_some, Option.some.injEq] at h
    refine ⟨sEnd, by rw [← h], fun fuel' => ?_⟩
    exact next_after_done acc A root sEnd (streamDrain_final acc A root fuel s0 [] l sEnd hd) fuel'

/-! ### the hypotheses are satisfiable -/

namespace StreamExample

/-- `stream_correct` applies to a concrete non-trivial store, range and automaton -/
example : ∃ s0, streamNew (storeAccess exStore) autAlways 5 (.included [97, 98]) (.excluded [98, 0]) = some s0 ∧
    ∃ N, ∀ fuel, N ≤ fuel →
      streamCollect (storeAccess exStore) autAlways 5 fuel s0 [] =
        some [([97, 98], 2, ()), ([98], 3, ())] :=
  stream_correct exGood (storeAccess_represents exStore) 5 exRoot
    autAlways_contract.1 autAlways_contract.2 (.included [97, 98]) (.excluded [98, 0])

example : ∃ s0, streamNew (storeAccess exStore) (autStr [97]) 5 (.excluded []) .unbounded = some s0 ∧
    ∃ N, ∀ fuel, N ≤ fuel →
      streamCollect (storeAccess exStore) (autStr [97]) 5 fuel s0 [] = some [([97], 1, some 1)] :=
  stream_correct exGood (storeAccess_represents exStore) 5 exRoot
    (autStr_contract [97]).1 (autStr_contract [97]).2 (.excluded []) .unbounded

/-- `Str` without its `can_match` hint -/
def autStrNoHint (k : Key) : Aut (Option Nat) := { autStr k with canMatch := fun _ => true }

/-- the hypotheses of `stream_hint_independent` are satisfiable -/
example : ∃ sA sB,
    streamNew (storeAccess exStore) (autStr [97]) 5 .unbounded .unbounded = some sA ∧
    streamNew (storeAccess exStore) (autStrNoHint [97]) 5 .unbounded .unbounded = some sB ∧
    ∃ N, ∀ fuel, N ≤ fuel →
      streamCollect (storeAccess exStore) (autStr [97]) 5 fuel sA [] =
        streamCollect (storeAccess exStore) (autStrNoHint [97]) 5 fuel sB [] ∧
      (streamCollect (storeAccess exStore) (autStr [97]) 5 fuel sA []).isSome = true :=
  stream_hint_independent (A := autStr [97]) (B := autStrNoHint [97])
    exGood (storeAccess_represents exStore) 5 exRoot rfl rfl rfl
    (autStr_contract [97]).1 (autStr_contract [97]).2 (fun _ => rfl)
    (by intro x h; simp [autStrNoHint] at h) .unbounded .unbounded

/-- the model computes the same thing on this example -/
example : (streamNew (storeAccess exStore) autAlways 5 (.included [97, 98]) (.excluded [98, 0])).bind
    (fun s0 => streamCollect (storeAccess exStore) autAlways 5 20 s0 []) =
      some [([97, 98], 2, ()), ([98], 3, ())] := by decide

end StreamExample

end Fst
