import FstVerif.Proofs.BoundsBuild
import FstVerif.Proofs.BoundsStream
import FstVerif.Proofs.BoundsOps
/-
Model-level memory invariants behind C13 and C14: the sizes of the data structures the
Rust code holds are bounded independently of the number of keys. (The allocator itself,
`Vec` capacities etc. are measured by the harness, not modelled.)

* C13, builder (`Proofs/BoundsBuild.lean`): `Bounds.C13_footprint` (+ `_reachable`,
  `_insertAll`, `_addAll`) — stack, cache and last key; `s.out` (bytes already handed to the
  writer) is excluded on purpose.
* C14 (a), stream (`Proofs/BoundsStream.lean`): `Bounds.C14_step_growth`,
  `Bounds.C14_stream_depth` (no store needed), `Bounds.C14_stream_depth_exact`,
  `Bounds.C14_stream_inp_key`, `Bounds.C14_stream_inp_bound` (good store), and here
  `Bounds.C14_stream_built` (the store of a finished build).
* C14 (b), set operations (`Proofs/BoundsOps.lean`): `Bounds.C14_ops_slots`,
  `Bounds.C14_ops_slots_diff`.
-/
namespace Fst
namespace Bounds

/-- builder output has no dead transitions (`build_tight`) -/
theorem live_of_tight {s : Store} {den : Nat → KV} (h : TightStore s den) : Live s den := by
  intro a n hm t ht e
  obtain ⟨k, hk⟩ := h a n hm t ht
  rw [e] at hk
  cases hk

/-- C14 (a) for the store of a finished build of a sorted map `kvs`, whatever the cache
geometry: every stream over it (any node access representing the store, any automaton, any
range) keeps its key buffer within the longest key of `kvs` and its stack within one frame
more. -/
theorem C14_stream_built (rows cols : Nat) (kvs : KV) (h : SortedKV kvs) :
    ∃ s s' root, insertAll (BState.new rows cols) kvs = .ok s ∧ s.finish = .ok (s', root) ∧
      ∀ {N σ : Type} (acc : NodeAccess N) (A : Aut σ) (min max : Bound) (st : SState N σ),
        Represents acc (storeOf s') → SReach acc A root min max st →
        st.inp.length ≤ maxLen kvs ∧ st.stack.length ≤ maxLen kvs + 1 := by
  obtain ⟨s, s', root, e1, e2, hg, hden, _, hroot⟩ := build_ok rows cols kvs h
  obtain ⟨t, t', root', f1, f2, htight⟩ := build_tight rows cols kvs h
  rw [e1] at f1
  cases f1
  rw [e2] at f2
  cases f2
  refine ⟨s, s', root, e1, e2, ?_⟩
  intro N σ acc A min max st hr hreach
  have := C14_stream_inp_bound hg hr hroot (live_of_tight htight) hreach
  rw [hden] at this
  exact this

/-- the hypotheses of `C14_stream_built` are satisfiable -/
example : SortedKV [([1, 2, 3], 7), ([1, 2, 4, 5], 1), ([9], 3)] := by simp [SortedKV, lexLt]

end Bounds
end Fst

section Axioms
open Fst Fst.Bounds
/-- info: 'Fst.Bounds.C13_footprint' depends on axioms: [propext, Classical.choice, Quot.sound] -/
#guard_msgs in
#print axioms C13_footprint
#print axioms C13_footprint_reachable
#print axioms C13_footprint_insertAll
#print axioms C13_footprint_addAll
#print axioms C14_step_growth
#print axioms C14_stream_depth
#print axioms C14_stream_depth_exact
#print axioms C14_stream_inp_key
#print axioms C14_stream_inp_bound
#print axioms C14_stream_built
#print axioms C14_ops_slots
#print axioms C14_ops_slots_diff
end Axioms
