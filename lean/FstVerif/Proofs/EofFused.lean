import FstVerif.Proofs.EofLift
/-
`stream_correct_fused` without the `hEof` assumption, by the `eofLift` simulation:
`streamNext` and `streamDrain` commute with the projection of lifted states.
-/
namespace Fst

variable {N σ : Type}

theorem streamNext_proj (acc : NodeAccess N) (A : Aut σ) (root : Nat) (fuel : Nat)
    (s' : SState N (σ × Bool)) :
    streamNext acc A root fuel (projS s') =
      (streamNext acc (eofLift A) root fuel s').map (fun (r, s) => (r.map prItem, projS s)) := by
  induction fuel generalizing s' with
  | zero => rfl
  | succ n ih =>
    simp only [streamNext, streamStep_proj]
    cases streamStep acc (eofLift A) root s' with
    | panic => rfl
    | done _ => simp [projRes]
    | emit k v st s2 => simp [projRes, prItem]
    | cont s2 => exact ih s2

theorem streamDrain_proj (acc : NodeAccess N) (A : Aut σ) (root : Nat) (fuel : Nat)
    (s' : SState N (σ × Bool)) (accum' : List (Key × Nat × (σ × Bool))) :
    streamDrain acc A root fuel (projS s') (accum'.map prItem) =
      (streamDrain acc (eofLift A) root fuel s' accum').map
        (fun (l, s) => (l.map prItem, projS s)) := by
  induction fuel generalizing s' accum' with
  | zero => rfl
  | succ n ih =>
    simp only [streamDrain, streamStep_proj]
    cases streamStep acc (eofLift A) root s' with
    | panic => rfl
    | done _ => simp [projRes]
    | emit k v st s2 => exact ih s2 ((k, v, st) :: accum')
    | cont s2 => exact ih s2 accum'

/-- `stream_correct_fused` for an automaton with an arbitrary `accept_eof` hook -/
theorem stream_correct_fused_eof {acc : NodeAccess N} {A : Aut σ} {s : Store} {den : Nat → KV}
    (hg : GoodStore s den) (hr : Represents acc s) (root : Nat)
    (hroot : root = 0 ∨ ∃ n, (root, n) ∈ s)
    (hCan : ∀ x, A.canMatch x = false → ∀ w, A.isMatch (A.run x w) = false ∧ A.eofMatch (A.run x w) = false)
    (min max : Bound) :
    ∃ s0, streamNew acc A root min max = some s0 ∧
    ∃ N, ∀ fuel, N ≤ fuel → ∃ sEnd,
      streamDrain acc A root fuel s0 [] =
        some (((den root).filter fun kv =>
                lowerOK min kv.1 && upperOK max kv.1 && A.acceptsEof kv.1).map
                fun kv => (kv.1, kv.2, A.run A.start kv.1), sEnd) ∧
      ∀ fuel', streamNext acc A root (fuel' + 1) sEnd = some (none, sEnd) := by
  obtain ⟨s0', hnew, M, hM⟩ :=
    stream_correct_fused (A := eofLift A) hg hr root hroot (fun _ => rfl)
      (eofLift_canSound A hCan) min max
  refine ⟨projS s0', by rw [streamNew_proj, hnew]; rfl, M, fun fuel hf => ?_⟩
  obtain ⟨sEnd', hd, hn⟩ := hM fuel hf
  refine ⟨projS sEnd', ?_, fun fuel' => ?_⟩
  · have h := streamDrain_proj acc A root fuel s0' []
    simp only [List.map_nil] at h
    rw [h, hd]
    simp only [Option.map_some, List.map_map, eofLift_accepts]
    congr 2
    apply List.map_congr_left
    intro kv _
    simp [prItem, eofLift_run_start]
  · rw [streamNext_proj, hn fuel']
    rfl

end Fst
