import FstVerif.Proofs.Den
/-
T-Lookup, T-GetKey: the point-lookup algorithms of the model (`fstGet`,
`fstContains`, `fstGetKeyInto`) against the abstract store denotation.

Main results (all in the setting `GoodStore s den`, `Represents acc s`,
`Valid s root`):

* `den_sorted`            keys spelled from any valid address are strictly increasing
* `fstGet_correct`        `fstGet acc root key = some (lookupKV (den root) key)`
* `fstContains_correct`   `fstContains acc root key = some ((den root).any (·.1 == key))`
* `fstGetKeyInto_sound`   (no monotonicity needed) with fuel ≥ root+1 the call never
                          panics, and `true` means the appended key has that value
* `fstGetKeyInto_correct`  under `Mono (den root)` and `Tight s den`:
                          finds the key of every stored value, `false` for every other value
* `getKey_counterexample` the statement without `Tight` is false.
-/
namespace Fst

variable {N : Type}

/-! ### `lexLt` is a strict order -/

theorem lexLt_irrefl : ∀ k : Key, lexLt k k = false
  | [] => rfl
  | a :: as => by simp [lexLt, lexLt_irrefl as, UInt8.lt_irrefl]

theorem lexLt_trans : ∀ {a b c : Key}, lexLt a b = true → lexLt b c = true → lexLt a c = true
  | [], [], _, h, _ => by simp [lexLt] at h
  | [], _ :: _, [], _, h => by simp [lexLt] at h
  | [], _ :: _, _ :: _, _, _ => by simp [lexLt]
  | _ :: _, [], _, h, _ => by simp [lexLt] at h
  | _ :: _, _ :: _, [], _, h => by simp [lexLt] at h
  | x :: xs, y :: ys, z :: zs, h1, h2 => by
    simp only [lexLt, Bool.or_eq_true, decide_eq_true_eq, Bool.and_eq_true, beq_iff_eq] at h1 h2 ⊢
    rcases h1 with h1 | ⟨rfl, h1⟩
    · rcases h2 with h2 | ⟨rfl, h2⟩
      · exact Or.inl (UInt8.lt_trans h1 h2)
      · exact Or.inl h1
    · rcases h2 with h2 | ⟨rfl, h2⟩
      · exact Or.inl h2
      · exact Or.inr ⟨rfl, lexLt_trans h1 h2⟩

theorem lexLt_asymm {a b : Key} (h : lexLt a b = true) : lexLt b a = false := by
  cases hb : lexLt b a with
  | false => rfl
  | true => have := lexLt_trans h hb; simp [lexLt_irrefl] at this

theorem u8_trichotomy_lk (x y : UInt8) : x < y ∨ x = y ∨ y < x := by
  rcases Nat.lt_trichotomy x.toNat y.toNat with h | h | h
  · exact Or.inl (UInt8.lt_iff_toNat_lt.2 h)
  · exact Or.inr (Or.inl (UInt8.toNat_inj.1 h))
  · exact Or.inr (Or.inr (UInt8.lt_iff_toNat_lt.2 h))

theorem lexLt_trichotomy : ∀ a b : Key, lexLt a b = true ∨ a = b ∨ lexLt b a = true
  | [], [] => Or.inr (Or.inl rfl)
  | [], _ :: _ => Or.inl rfl
  | _ :: _, [] => Or.inr (Or.inr rfl)
  | x :: xs, y :: ys => by
    simp only [lexLt, Bool.or_eq_true, decide_eq_true_eq, Bool.and_eq_true, beq_iff_eq,
      List.cons.injEq]
    rcases u8_trichotomy_lk x y with h | h | h
    · exact Or.inl (Or.inl h)
    · subst h
      rcases lexLt_trichotomy xs ys with h | h | h
      · exact Or.inl (Or.inr ⟨rfl, h⟩)
      · exact Or.inr (Or.inl ⟨rfl, h⟩)
      · exact Or.inr (Or.inr (Or.inr ⟨rfl, h⟩))
    · exact Or.inr (Or.inr (Or.inl h))

theorem lexLt_ne {a b : Key} (h : lexLt a b = true) : a ≠ b := by
  rintro rfl; simp [lexLt_irrefl] at h

/-! ### sortedness as `Pairwise` -/

/-- keys pairwise strictly increasing -/
def PSorted (m : KV) : Prop := m.Pairwise fun a b => lexLt a.1 b.1 = true

theorem PSorted.sortedKV : ∀ {m : KV}, PSorted m → SortedKV m
  | [], _ => trivial
  | [_], _ => trivial
  | a :: b :: rest, h => by
    have h' := List.pairwise_cons.1 h
    exact ⟨h'.1 b (by simp), PSorted.sortedKV h'.2⟩

theorem SortedKV.pSorted : ∀ {m : KV}, SortedKV m → PSorted m
  | [], _ => List.Pairwise.nil
  | [_], _ => List.pairwise_singleton _ _
  | a :: b :: rest, h => by
    have ih : PSorted (b :: rest) := SortedKV.pSorted h.2
    refine List.pairwise_cons.2 ⟨?_, ih⟩
    intro c hc
    rcases List.mem_cons.1 hc with rfl | hc
    · exact h.1
    · exact lexLt_trans h.1 ((List.pairwise_cons.1 ih).1 c hc)

/-! ### addresses and nodes -/

/-- an address that denotes a node: the shared empty final node or a stored one -/
def Valid (s : Store) (a : Nat) : Prop := a = 0 ∨ ∃ n, (a, n) ∈ s

theorem lookup_of_mem {s : Store} {a : Nat} {n : BNode}
    (hf : ∀ m, (a, m) ∈ s → m = n) (h : (a, n) ∈ s) : s.lookup a = some n := by
  induction s with
  | nil => simp at h
  | cons p rest ih =>
    obtain ⟨k, b⟩ := p
    rw [List.lookup_cons]
    by_cases hk : a = k
    · subst hk
      simp [hf b (by simp)]
    · have hne : (a == k) = false := by simpa using hk
      rw [hne]
      refine ih (fun m hm => hf m (List.mem_cons_of_mem _ hm)) ?_
      rcases List.mem_cons.1 h with h | h
      · exact absurd (Prod.mk.inj h).1 hk
      · exact h

theorem nodeAt_zero (s : Store) : nodeAt s 0 = some ⟨true, 0, []⟩ := by simp [nodeAt]

section
variable {s : Store} {den : Nat → KV}

/-- the bridge between membership and `List.lookup` -/
theorem nodeAt_of_mem (hg : GoodStore s den) {a : Nat} {n : BNode} (h : (a, n) ∈ s) :
    nodeAt s a = some n := by
  have hp := hg.addr_pos a n h
  have : a ≠ 0 := by omega
  simp only [nodeAt, this, if_false]
  exact lookup_of_mem (fun m hm => hg.functional a m n hm h) h

theorem den_zero_eq (hg : GoodStore s den) : den 0 = denNodeWith den ⟨true, 0, []⟩ := by
  rw [hg.den_zero]; rfl

/-- everything the algorithms need to know about the node at a valid address -/
theorem valid_node (hg : GoodStore s den) {a : Nat} (hv : Valid s a) :
    ∃ n, nodeAt s a = some n ∧ den a = denNodeWith den n ∧ SortedInputs n ∧
      (∀ t ∈ n.trans, t.addr < a ∧ Valid s t.addr) ∧ (a = 0 ∨ (a, n) ∈ s) := by
  rcases hv with rfl | ⟨n, hn⟩
  · exact ⟨⟨true, 0, []⟩, nodeAt_zero s, den_zero_eq hg, List.Pairwise.nil,
      (fun t ht => by simp at ht), Or.inl rfl⟩
  · exact ⟨n, nodeAt_of_mem hg hn, hg.unfold a n hn, hg.sorted a n hn, hg.acyclic a n hn, Or.inr hn⟩

/-! ### 1. keys are strictly increasing -/

theorem mem_lift {b : UInt8} {o : Nat} {l : KV} {x : Key × Nat} :
    x ∈ lift b o l ↔ ∃ y ∈ l, x = (b :: y.1, o + y.2) := by
  simp only [lift, List.mem_map]
  constructor
  · rintro ⟨y, hy, rfl⟩; exact ⟨y, hy, rfl⟩
  · rintro ⟨y, hy, rfl⟩; exact ⟨y, hy, rfl⟩

theorem pSorted_lift {b : UInt8} {o : Nat} {l : KV} (h : PSorted l) : PSorted (lift b o l) := by
  unfold PSorted lift
  rw [List.pairwise_map]
  refine h.imp ?_
  intro x y hxy
  simp [lexLt, hxy]

theorem pSorted_denNodeWith {d : Nat → KV} {n : BNode} (hs : SortedInputs n)
    (hd : ∀ t ∈ n.trans, PSorted (d t.addr)) : PSorted (denNodeWith d n) := by
  unfold PSorted denNodeWith
  rw [List.pairwise_append]
  refine ⟨?_, ?_, ?_⟩
  · unfold own; split <;> simp
  · rw [List.pairwise_flatMap]
    refine ⟨fun t ht => pSorted_lift (hd t ht), ?_⟩
    refine hs.imp ?_
    intro t1 t2 hlt x hx y hy
    obtain ⟨x', _, rfl⟩ := mem_lift.1 hx
    obtain ⟨y', _, rfl⟩ := mem_lift.1 hy
    simp [lexLt, hlt]
  · intro x hx y hy
    have hx1 : x.1 = [] := by
      unfold own at hx; split at hx
      · simp at hx; simp [hx]
      · simp at hx
    obtain ⟨t, _, hy⟩ := List.mem_flatMap.1 hy
    obtain ⟨y', _, rfl⟩ := mem_lift.1 hy
    simp [hx1, lexLt]

theorem den_pSorted (hg : GoodStore s den) : ∀ a, Valid s a → PSorted (den a) := by
  intro a
  induction a using Nat.strongRecOn with
  | _ a ih =>
    intro hv
    obtain ⟨n, _, hden, hs, hacy, _⟩ := valid_node hg hv
    rw [hden]
    exact pSorted_denNodeWith hs fun t ht => ih t.addr (hacy t ht).1 (hacy t ht).2

/-- T-Lookup (1): keys spelled from any address are strictly increasing. -/
theorem den_sorted (hg : GoodStore s den) :
    ∀ a, (a = 0 ∨ ∃ n, (a, n) ∈ s) → SortedKV (den a) :=
  fun a hv => (den_pSorted hg a hv).sortedKV

end

/-! ### 2. `get` -/

theorem lookupKV_nil (k : Key) : lookupKV [] k = none := rfl

theorem lookupKV_cons (x : Key × Nat) (xs : KV) (k : Key) :
    lookupKV (x :: xs) k = if x.1 = k then some x.2 else lookupKV xs k := by
  simp only [lookupKV, List.find?_cons]
  by_cases h : x.1 = k
  · simp [h]
  · have hne : (x.1 == k) = false := by simpa using h
    simp [h, hne]

theorem lookupKV_append (A B : KV) (k : Key) :
    lookupKV (A ++ B) k = (lookupKV A k).or (lookupKV B k) := by
  induction A with
  | nil => simp [lookupKV_nil]
  | cons x xs ih =>
    rw [List.cons_append, lookupKV_cons, lookupKV_cons, ih]
    split <;> simp

theorem lookupKV_eq_none {m : KV} {k : Key} (h : ∀ x ∈ m, x.1 ≠ k) : lookupKV m k = none := by
  induction m with
  | nil => rfl
  | cons x xs ih =>
    rw [lookupKV_cons, if_neg (h x (by simp))]
    exact ih fun y hy => h y (List.mem_cons_of_mem _ hy)

theorem lookupKV_lift_same (b : UInt8) (o : Nat) (l : KV) (bs : Key) :
    lookupKV (lift b o l) (b :: bs) = (lookupKV l bs).map (o + ·) := by
  induction l with
  | nil => rfl
  | cons x xs ih =>
    have : lift b o (x :: xs) = (b :: x.1, o + x.2) :: lift b o xs := rfl
    rw [this, lookupKV_cons, lookupKV_cons, ih]
    by_cases h : x.1 = bs <;> simp [h]

theorem lookupKV_lift_ne {b c : UInt8} (h : b ≠ c) (o : Nat) (l : KV) (bs : Key) :
    lookupKV (lift b o l) (c :: bs) = none := by
  apply lookupKV_eq_none
  intro x hx
  obtain ⟨y, _, rfl⟩ := mem_lift.1 hx
  simp [h]

/-- the entries contributed by one transition -/
def br (d : Nat → KV) (t : Tr) : KV := lift t.inp t.out (d t.addr)

theorem denNodeWith_eq (d : Nat → KV) (n : BNode) :
    denNodeWith d n = own n ++ n.trans.flatMap (br d) := rfl

theorem lookupKV_branches_nil (d : Nat → KV) (ts : List Tr) :
    lookupKV (ts.flatMap (br d)) [] = none := by
  apply lookupKV_eq_none
  intro x hx
  obtain ⟨t, _, hx⟩ := List.mem_flatMap.1 hx
  obtain ⟨y, _, rfl⟩ := mem_lift.1 hx
  simp

theorem lookupKV_branches_none (d : Nat → KV) {ts : List Tr} {b : UInt8} (bs : Key)
    (h : ∀ t ∈ ts, t.inp ≠ b) : lookupKV (ts.flatMap (br d)) (b :: bs) = none := by
  apply lookupKV_eq_none
  intro x hx
  obtain ⟨t, ht, hx⟩ := List.mem_flatMap.1 hx
  obtain ⟨y, _, rfl⟩ := mem_lift.1 hx
  simp [h t ht]

theorem lookupKV_branches_some (d : Nat → KV) (b : UInt8) (bs : Key) :
    ∀ (ts : List Tr), ts.Pairwise (fun x y => x.inp < y.inp) →
      ∀ i, ts.findIdx? (fun t => t.inp == b) = some i →
        ∃ h : i < ts.length, ts[i].inp = b ∧ lookupKV (ts.flatMap (br d)) (b :: bs) =
          (lookupKV (d ts[i].addr) bs).map (ts[i].out + ·) := by
  intro ts
  induction ts with
  | nil => intro _ i h; simp at h
  | cons t rest ih =>
    intro hp i hi
    have hp' := List.pairwise_cons.1 hp
    rw [List.findIdx?_cons] at hi
    rw [List.flatMap_cons, lookupKV_append]
    by_cases htb : t.inp = b
    · subst htb
      simp only [beq_self_eq_true, if_true, Option.some.injEq] at hi
      subst hi
      refine ⟨by simp, rfl, ?_⟩
      have hnone : lookupKV (rest.flatMap (br d)) (t.inp :: bs) = none :=
        lookupKV_branches_none d bs fun t' ht' heq => by
          have := hp'.1 t' ht'
          rw [heq] at this
          exact UInt8.lt_irrefl _ this
      rw [hnone]
      simp only [br, lookupKV_lift_same, List.getElem_cons_zero]
      cases lookupKV (d t.addr) bs <;> rfl
    · have hne : (t.inp == b) = false := by simpa using htb
      simp only [hne, Bool.false_eq_true, if_false, Option.map_eq_some_iff] at hi
      obtain ⟨j, hj, rfl⟩ := hi
      obtain ⟨hlt, hinp, hl⟩ := ih hp'.2 j hj
      refine ⟨by simp; omega, by simpa using hinp, ?_⟩
      simp only [br, lookupKV_lift_ne htb, Option.none_or, List.getElem_cons_succ]
      exact hl

theorem lookupKV_own_cons (n : BNode) (b : UInt8) (bs : Key) : lookupKV (own n) (b :: bs) = none := by
  unfold own; split <;> simp [lookupKV_cons, lookupKV_nil]

theorem lookupKV_node_nil (d : Nat → KV) (n : BNode) :
    lookupKV (denNodeWith d n) [] = if n.fin then some n.fout else none := by
  rw [denNodeWith_eq, lookupKV_append, lookupKV_branches_nil]
  unfold own; split <;> simp [lookupKV_cons, lookupKV_nil]

theorem lookupKV_node_none (d : Nat → KV) (n : BNode) (b : UInt8) (bs : Key)
    (h : transIdx n b = none) : lookupKV (denNodeWith d n) (b :: bs) = none := by
  rw [denNodeWith_eq, lookupKV_append, lookupKV_own_cons, Option.none_or]
  apply lookupKV_branches_none
  intro t ht
  have := List.findIdx?_eq_none_iff.1 h t ht
  simpa using this

theorem lookupKV_node_some (d : Nat → KV) (n : BNode) (hs : SortedInputs n) (b : UInt8) (bs : Key)
    (i : Nat) (h : transIdx n b = some i) :
    ∃ hi : i < n.trans.length, n.trans[i].inp = b ∧ lookupKV (denNodeWith d n) (b :: bs) =
      (lookupKV (d n.trans[i].addr) bs).map (n.trans[i].out + ·) := by
  rw [denNodeWith_eq, lookupKV_append, lookupKV_own_cons, Option.none_or]
  exact lookupKV_branches_some d b bs n.trans hs i h

section
variable {s : Store} {den : Nat → KV} {acc : NodeAccess N}

theorem getGo_correct (hg : GoodStore s den) (hr : Represents acc s) :
    ∀ (key : Key) (a : Nat), Valid s a → ∀ x, acc.node a = some x → ∀ out,
      getGo acc x out key = some ((lookupKV (den a) key).map (out + ·)) := by
  intro key
  induction key with
  | nil =>
    intro a hv x hx out
    obtain ⟨n, hnode, hden, _, _, _⟩ := valid_node hg hv
    obtain ⟨x', hx', _, hfin, hfout, _, _, _⟩ := hr.node a n hnode
    obtain rfl : x' = x := Option.some.inj (hx'.symm.trans hx)
    rw [getGo, hden, lookupKV_node_nil, hfin, hfout]
    cases n.fin <;> simp
  | cons b bs ih =>
    intro a hv x hx out
    obtain ⟨n, hnode, hden, hs, hacy, _⟩ := valid_node hg hv
    obtain ⟨x', hx', _, _, _, _, htr, hfi⟩ := hr.node a n hnode
    obtain rfl : x' = x := Option.some.inj (hx'.symm.trans hx)
    rw [getGo, hfi b, hden]
    cases hti : transIdx n b with
    | none => simp [lookupKV_node_none den n b bs hti]
    | some i =>
      obtain ⟨hi, _, hl⟩ := lookupKV_node_some den n hs b bs i hti
      have hmem : n.trans[i] ∈ n.trans := List.getElem_mem hi
      obtain ⟨_, hv'⟩ := hacy _ hmem
      obtain ⟨n', hnode', _⟩ := valid_node hg hv'
      obtain ⟨y, hy, _⟩ := hr.node _ n' hnode'
      simp only [(htr i hi).1, hy, ih _ hv' y hy, hl]
      cases lookupKV (den n.trans[i].addr) bs <;> simp [Nat.add_assoc]

/-- T-Lookup (2): `get` never panics and returns exactly the stored value. -/
theorem fstGet_correct (hg : GoodStore s den) (hr : Represents acc s) (root : Nat)
    (hroot : root = 0 ∨ ∃ n, (root, n) ∈ s) :
    ∀ key, fstGet acc root key = some (lookupKV (den root) key) := by
  intro key
  obtain ⟨n, hnode, _⟩ := valid_node hg hroot
  obtain ⟨x, hx, _⟩ := hr.node root n hnode
  rw [fstGet, hx]
  simp only [getGo_correct hg hr key root hroot x hx 0]
  cases lookupKV (den root) key <;> simp

end

/-! ### 3. `contains_key` -/

theorem lookupKV_isSome (m : KV) (k : Key) :
    (lookupKV m k).isSome = m.any fun kv => kv.1 == k := by
  induction m with
  | nil => rfl
  | cons x xs ih =>
    rw [lookupKV_cons, List.any_cons, ← ih]
    by_cases h : x.1 = k
    · simp [h]
    · have hne : (x.1 == k) = false := by simpa using h
      simp [h, hne]

section
variable {s : Store} {den : Nat → KV} {acc : NodeAccess N}

/-- `contains_key` is `get(..).is_some()` (it walks `transition_addr` instead of `transition`) -/
theorem containsGo_eq_getGo (hg : GoodStore s den) (hr : Represents acc s) :
    ∀ (key : Key) (a : Nat), Valid s a → ∀ x, acc.node a = some x → ∀ out,
      containsGo acc x key = (getGo acc x out key).map Option.isSome := by
  intro key
  induction key with
  | nil =>
    intro a hv x hx out
    rw [containsGo, getGo]
    cases acc.isFinal x <;> rfl
  | cons b bs ih =>
    intro a hv x hx out
    obtain ⟨n, hnode, hden, hs, hacy, _⟩ := valid_node hg hv
    obtain ⟨x', hx', _, _, _, _, htr, hfi⟩ := hr.node a n hnode
    obtain rfl : x' = x := Option.some.inj (hx'.symm.trans hx)
    rw [containsGo, getGo, hfi b]
    cases hti : transIdx n b with
    | none => rfl
    | some i =>
      obtain ⟨hi, _⟩ := List.findIdx?_eq_some_iff_getElem.1 hti
      have hmem : n.trans[i] ∈ n.trans := List.getElem_mem hi
      obtain ⟨_, hv'⟩ := hacy _ hmem
      obtain ⟨n', hnode', _⟩ := valid_node hg hv'
      obtain ⟨y, hy, _⟩ := hr.node _ n' hnode'
      simp only [(htr i hi).1, (htr i hi).2, hy]
      exact ih _ hv' y hy _

/-- T-Lookup (3): `contains_key` never panics and decides membership of the key. -/
theorem fstContains_correct (hg : GoodStore s den) (hr : Represents acc s) (root : Nat)
    (hroot : root = 0 ∨ ∃ n, (root, n) ∈ s) :
    ∀ key, fstContains acc root key = some ((den root).any fun kv => kv.1 == key) := by
  intro key
  have hget := fstGet_correct hg hr root hroot key
  obtain ⟨n, hnode, _⟩ := valid_node hg hroot
  obtain ⟨x, hx, _⟩ := hr.node root n hnode
  rw [fstGet, hx] at hget
  rw [fstContains, hx]
  simp only [containsGo_eq_getGo hg hr key root hroot x hx 0, hget, Option.map_some,
    lookupKV_isSome]

end

/-! ### 4. `get_key_into` -/

/-- values strictly increasing along the (key-ordered) list -/
def Mono (m : KV) : Prop := m.Pairwise fun a b => a.2 < b.2

/-- every transition output is attained: the smallest value spelled from the target of a
transition is 0. True of every builder-made store (the builder keeps the common prefix, i.e.
the minimum, of the outputs below a transition on the transition itself).
Without it `get_key_into` is wrong even on monotone maps (`getKey_counterexample`). -/
def Tight (s : Store) (den : Nat → KV) : Prop :=
  ∀ a n, (a, n) ∈ s → ∀ t ∈ n.trans, ∃ k, (k, 0) ∈ den t.addr

/-- `transitions().take_while(|t| t.out <= v).last()` on the list of transitions -/
def lastLeL (v : Nat) : List Tr → Option Tr → Option Tr
  | [], best => best
  | t :: ts, best => if t.out ≤ v then lastLeL v ts (some t) else best

theorem lastLe_eq (acc : NodeAccess N) (x : N) (v : Nat) (ts : List Tr)
    (htr : ∀ i (h : i < ts.length), acc.transition x i = some ts[i]) :
    ∀ k i best, i + k = ts.length →
      lastLe acc x v k i best = some (lastLeL v (ts.drop i) best) := by
  intro k
  induction k with
  | zero =>
    intro i best h
    have : ts.drop i = [] := List.drop_eq_nil_of_le (by omega)
    rw [lastLe, this, lastLeL]
  | succ k ih =>
    intro i best h
    have hi : i < ts.length := by omega
    rw [lastLe, htr i hi, List.drop_eq_getElem_cons hi, lastLeL]
    simp only []
    split
    · exact ih (i + 1) _ (by omega)
    · rfl

theorem lastLeL_mem (v : Nat) : ∀ (ts : List Tr) (best : Option Tr) (t : Tr),
    lastLeL v ts best = some t → best = some t ∨ (t ∈ ts ∧ t.out ≤ v) := by
  intro ts
  induction ts with
  | nil => intro best t h; exact Or.inl h
  | cons t0 rest ih =>
    intro best t h
    rw [lastLeL] at h
    split at h
    · rcases ih _ _ h with h' | ⟨h1, h2⟩
      · obtain rfl := Option.some.inj h'
        exact Or.inr ⟨by simp, by assumption⟩
      · exact Or.inr ⟨List.mem_cons_of_mem _ h1, h2⟩
    · exact Or.inl h

theorem lastLeL_all_gt (v : Nat) (ts : List Tr) (best : Option Tr) (h : ∀ t ∈ ts, v < t.out) :
    lastLeL v ts best = best := by
  cases ts with
  | nil => rfl
  | cons t rest =>
    have := h t (by simp)
    rw [lastLeL, if_neg (by omega)]

theorem mem_br {d : Nat → KV} {t : Tr} {x : Key × Nat} :
    x ∈ br d t ↔ ∃ y ∈ d t.addr, x = (t.inp :: y.1, t.out + y.2) := mem_lift

theorem mem_denNodeWith {d : Nat → KV} {n : BNode} {x : Key × Nat} :
    x ∈ denNodeWith d n ↔ (n.fin = true ∧ x = ([], n.fout)) ∨ ∃ t ∈ n.trans, x ∈ br d t := by
  rw [denNodeWith_eq, List.mem_append, List.mem_flatMap]
  unfold own
  cases n.fin <;> simp

/-- in a pairwise-separated list of branches, the branch holding `v` is the one `lastLeL` picks -/
theorem lastLeL_found (d : Nat → KV) (v : Nat) : ∀ (ts : List Tr) (best : Option Tr),
    ts.Pairwise (fun t1 t2 => ∀ x ∈ br d t1, ∀ y ∈ br d t2, x.2 < y.2) →
    (∀ t ∈ ts, ∃ k, (k, 0) ∈ d t.addr) →
    ∀ t ∈ ts, (∃ k, (k, v) ∈ br d t) → lastLeL v ts best = some t := by
  intro ts
  induction ts with
  | nil => intro _ _ _ t ht; simp at ht
  | cons t0 rest ih =>
    intro best hp htight t ht hv
    have hp' := List.pairwise_cons.1 hp
    obtain ⟨k, hk⟩ := hv
    obtain ⟨k0, hk0⟩ := htight t0 (by simp)
    have h0 : (t0.inp :: k0, t0.out + 0) ∈ br d t0 := mem_br.2 ⟨(k0, 0), hk0, rfl⟩
    rw [lastLeL]
    rcases List.mem_cons.1 ht with rfl | ht
    · obtain ⟨y, _, hy⟩ := mem_br.1 hk
      have hv : v = t.out + y.2 := (Prod.mk.inj hy).2
      rw [if_pos (by omega)]
      apply lastLeL_all_gt
      intro t' ht'
      obtain ⟨k', hk'⟩ := htight t' (List.mem_cons_of_mem _ ht')
      have h' : (t'.inp :: k', t'.out + 0) ∈ br d t' := mem_br.2 ⟨(k', 0), hk', rfl⟩
      have := hp'.1 t' ht' _ hk _ h'
      simpa using this
    · have hlt := hp'.1 t ht _ h0 _ hk
      simp only [Nat.add_zero] at hlt
      rw [if_pos (by omega)]
      exact ih _ hp'.2 (fun t' ht' => htight t' (List.mem_cons_of_mem _ ht')) t ht ⟨k, hk⟩

theorem Mono.unique {m : KV} (hm : Mono m) {k1 k2 : Key} {v : Nat}
    (h1 : (k1, v) ∈ m) (h2 : (k2, v) ∈ m) : k1 = k2 := by
  induction m with
  | nil => simp at h1
  | cons a l ih =>
    have hm' := List.pairwise_cons.1 hm
    rcases List.mem_cons.1 h1 with h1 | h1 <;> rcases List.mem_cons.1 h2 with h2 | h2
    · rw [← h2] at h1; exact (Prod.mk.inj h1).1
    · have := hm'.1 _ h2; rw [← h1] at this; simp at this
    · have := hm'.1 _ h1; rw [← h2] at this; simp at this
    · exact ih hm'.2 h1 h2

theorem mono_lift {b : UInt8} {o : Nat} {l : KV} (h : Mono (lift b o l)) : Mono l := by
  unfold Mono lift at h
  rw [List.pairwise_map] at h
  refine h.imp ?_
  intro x y hxy
  simp only at hxy
  omega

/-- a monotone node denotation: every sub-denotation is monotone and the branches are separated -/
theorem mono_denNodeWith {d : Nat → KV} {n : BNode} (h : Mono (denNodeWith d n)) :
    (∀ t ∈ n.trans, Mono (d t.addr)) ∧
      n.trans.Pairwise (fun t1 t2 => ∀ x ∈ br d t1, ∀ y ∈ br d t2, x.2 < y.2) := by
  unfold Mono at h
  rw [denNodeWith_eq, List.pairwise_append, List.pairwise_flatMap] at h
  exact ⟨fun t ht => mono_lift (h.2.1.1 t ht), h.2.1.2⟩

section
variable {s : Store} {den : Nat → KV} {acc : NodeAccess N}

theorem valid_tight (hg : GoodStore s den) (ht : Tight s den) {a : Nat} (hv : Valid s a)
    {n : BNode} (hn : nodeAt s a = some n) : ∀ t ∈ n.trans, ∃ k, (k, 0) ∈ den t.addr := by
  rcases hv with rfl | ⟨m, hm⟩
  · rw [nodeAt_zero] at hn
    obtain rfl := Option.some.inj hn
    intro t h; simp at h
  · rw [nodeAt_of_mem hg hm] at hn
    obtain rfl := Option.some.inj hn
    exact ht a m hm

/-- `get_key_into` never panics (given fuel for the descent), only appends to the buffer, and
`true` means the appended key is stored with exactly that value. No monotonicity needed. -/
theorem getKeyGo_sound (hg : GoodStore s den) (hr : Represents acc s) :
    ∀ a, Valid s a → ∀ x, acc.node a = some x → ∀ fuel, a + 1 ≤ fuel → ∀ v buf,
      ∃ b k, getKeyGo acc fuel x v buf = some (b, buf ++ k) ∧ (b = true → (k, v) ∈ den a) := by
  intro a
  induction a using Nat.strongRecOn with
  | _ a ih =>
    intro hv x hx fuel hf v buf
    obtain ⟨n, hnode, hden, _, hacy, _⟩ := valid_node hg hv
    obtain ⟨x', hx', _, hfin, hfout, hlen, htr, _⟩ := hr.node a n hnode
    obtain rfl : x = x' := Option.some.inj (hx.symm.trans hx')
    obtain ⟨f, rfl⟩ : ∃ f, fuel = f + 1 := ⟨fuel - 1, by omega⟩
    rw [getKeyGo]
    split
    · rename_i hc
      rw [hfin, hfout] at hc
      simp only [Bool.and_eq_true, beq_iff_eq] at hc
      refine ⟨true, [], by simp, fun _ => ?_⟩
      rw [hden, mem_denNodeWith]
      exact Or.inl ⟨hc.1, by rw [hc.2]⟩
    · rw [hlen, lastLe_eq acc x v n.trans (fun i h => (htr i h).1) _ 0 none (by omega), List.drop_zero]
      cases hl : lastLeL v n.trans none with
      | none => exact ⟨false, [], by simp, by simp⟩
      | some t =>
        rcases lastLeL_mem v _ _ _ hl with h | ⟨hmem, hle⟩
        · simp at h
        obtain ⟨hlt, hv'⟩ := hacy t hmem
        obtain ⟨n', hnode', _⟩ := valid_node hg hv'
        obtain ⟨y, hy, _⟩ := hr.node _ n' hnode'
        obtain ⟨b, k, hk, hb⟩ := ih t.addr hlt hv' y hy f (by omega) (v - t.out) (buf ++ [t.inp])
        refine ⟨b, t.inp :: k, ?_, fun hbt => ?_⟩
        · simp only [hy, hk]; simp
        · rw [hden, mem_denNodeWith]
          refine Or.inr ⟨t, hmem, mem_br.2 ⟨(k, v - t.out), hb hbt, ?_⟩⟩
          simp only [Prod.mk.injEq, true_and]
          omega

/-- on a monotone, tight denotation `get_key_into` finds the key of every stored value -/
theorem getKeyGo_complete (hg : GoodStore s den) (hr : Represents acc s) (ht : Tight s den) :
    ∀ a, Valid s a → Mono (den a) → ∀ x, acc.node a = some x → ∀ fuel, a + 1 ≤ fuel →
      ∀ v buf k, (k, v) ∈ den a → getKeyGo acc fuel x v buf = some (true, buf ++ k) := by
  intro a
  induction a using Nat.strongRecOn with
  | _ a ih =>
    intro hv hm x hx fuel hf v buf k hk
    obtain ⟨n, hnode, hden, _, hacy, _⟩ := valid_node hg hv
    have htight := valid_tight hg ht hv hnode
    obtain ⟨x', hx', _, hfin, hfout, hlen, htr, _⟩ := hr.node a n hnode
    obtain rfl : x = x' := Option.some.inj (hx.symm.trans hx')
    obtain ⟨f, rfl⟩ : ∃ f, fuel = f + 1 := ⟨fuel - 1, by omega⟩
    rw [getKeyGo]
    split
    · rename_i hc
      rw [hfin, hfout] at hc
      simp only [Bool.and_eq_true, beq_iff_eq] at hc
      have hown : (([] : Key), v) ∈ den a := by
        rw [hden, mem_denNodeWith]; exact Or.inl ⟨hc.1, by rw [hc.2]⟩
      rw [hm.unique hk hown]; simp
    · rename_i hc
      rw [hfin, hfout] at hc
      rw [hden] at hm hk
      obtain ⟨hmsub, hsep⟩ := mono_denNodeWith hm
      rcases mem_denNodeWith.1 hk with ⟨h1, h2⟩ | ⟨t, hmem, hkt⟩
      · exfalso; apply hc; simp [h1, (Prod.mk.inj h2).2]
      · rw [hlen, lastLe_eq acc x v n.trans (fun i h => (htr i h).1) _ 0 none (by omega), List.drop_zero,
          lastLeL_found den v n.trans none hsep htight t hmem ⟨k, hkt⟩]
        obtain ⟨hlt, hv'⟩ := hacy t hmem
        obtain ⟨n', hnode', _⟩ := valid_node hg hv'
        obtain ⟨y, hy, _⟩ := hr.node _ n' hnode'
        obtain ⟨z, hz, hkz⟩ := mem_br.1 hkt
        obtain ⟨rfl, rfl⟩ := Prod.mk.inj hkz
        have := ih t.addr hlt hv' (hmsub t hmem) y hy f (by omega) z.2 (buf ++ [t.inp]) z.1 hz
        simp only [hy, Nat.add_sub_cancel_left, this]
        simp

/-- T-GetKey, soundness half, at full strength (no monotonicity or tightness needed):
with fuel `≥ root + 1` the call never panics, it only appends to the caller's buffer, and a
`true` result means the appended key is stored with exactly `value`. In particular a value
that no key has is always answered `false`. -/
theorem fstGetKeyInto_sound (hg : GoodStore s den) (hr : Represents acc s) (root : Nat)
    (hroot : root = 0 ∨ ∃ n, (root, n) ∈ s) (fuel : Nat) (hf : root + 1 ≤ fuel)
    (value : Nat) (buf : Key) :
    ∃ b k, fstGetKeyInto acc root fuel value buf = some (b, buf ++ k) ∧
      (b = true → (k, value) ∈ den root) := by
  obtain ⟨n, hnode, _⟩ := valid_node hg hroot
  obtain ⟨x, hx, _⟩ := hr.node root n hnode
  rw [fstGetKeyInto, hx]
  exact getKeyGo_sound hg hr root hroot x hx fuel hf value buf

/-- T-GetKey: on a monotone map whose store is tight (see `Tight`; a builder invariant),
with fuel `≥ root + 1` (the driver passes `bytes.size + 2 ≥ root + 2`), `get_key_into`
appends the key of `value` and returns `true` if some key has that value, and returns
`false` otherwise. -/
theorem fstGetKeyInto_correct (hg : GoodStore s den) (hr : Represents acc s) (root : Nat)
    (hroot : root = 0 ∨ ∃ n, (root, n) ∈ s) (hm : Mono (den root)) (ht : Tight s den)
    (fuel : Nat) (hf : root + 1 ≤ fuel) (value : Nat) (buf : Key) :
    (∀ k, (k, value) ∈ den root →
        fstGetKeyInto acc root fuel value buf = some (true, buf ++ k)) ∧
    ((∀ k, (k, value) ∉ den root) →
        ∃ buf', fstGetKeyInto acc root fuel value buf = some (false, buf')) := by
  obtain ⟨n, hnode, _⟩ := valid_node hg hroot
  obtain ⟨x, hx, _⟩ := hr.node root n hnode
  constructor
  · intro k hk
    rw [fstGetKeyInto, hx]
    exact getKeyGo_complete hg hr ht root hroot hm x hx fuel hf value buf k hk
  · intro hno
    obtain ⟨b, k, h, hb⟩ := fstGetKeyInto_sound hg hr root hroot fuel hf value buf
    cases b with
    | false => exact ⟨_, h⟩
    | true => exact absurd (hb rfl) (hno k)

end

/-! ### examples: the hypotheses are satisfiable; the `Tight` hypothesis is necessary -/

/-- the trivially built node access over a store: a node is its address and its `BNode` -/
def storeAccess (s : Store) : NodeAccess (Nat × BNode) where
  node a := (nodeAt s a).map fun n => (a, n)
  addr x := x.1
  isFinal x := x.2.fin
  finalOutput x := x.2.fout
  len x := x.2.trans.length
  transition x i := x.2.trans[i]?
  transitionAddr x i := x.2.trans[i]?.map (·.addr)
  findInput x b := some (transIdx x.2 b)

theorem represents_storeAccess (s : Store) : Represents (storeAccess s) s where
  node a n h := by
    refine ⟨(a, n), by simp [storeAccess, h], rfl, rfl, rfl, rfl, ?_, fun _ => rfl⟩
    intro i hi
    simp [storeAccess, List.getElem?_eq_getElem hi]

namespace LookupExample

/-- the map `"" ↦ 1, "a" ↦ 2, "ab" ↦ 3, "ca" ↦ 4` as three nodes (root 3) plus the empty node -/
def exStore : Store :=
  [(1, ⟨true, 0, [⟨98, 1, 0⟩]⟩),
   (2, ⟨false, 0, [⟨97, 0, 0⟩]⟩),
   (3, ⟨true, 1, [⟨97, 2, 1⟩, ⟨99, 4, 2⟩]⟩)]

def exDen : Nat → KV
  | 0 => [([], 0)]
  | 1 => [([], 0), ([98], 1)]
  | 2 => [([97], 0)]
  | 3 => [([], 1), ([97], 2), ([97, 98], 3), ([99, 97], 4)]
  | _ => []

theorem exGood : GoodStore exStore exDen where
  den_zero := rfl
  unfold a n h := by
    simp only [exStore, List.mem_cons, Prod.mk.injEq, List.not_mem_nil, or_false] at h
    rcases h with ⟨rfl, rfl⟩ | ⟨rfl, rfl⟩ | ⟨rfl, rfl⟩ <;> rfl
  addr_pos a n h := by
    simp only [exStore, List.mem_cons, Prod.mk.injEq, List.not_mem_nil, or_false] at h
    rcases h with ⟨rfl, rfl⟩ | ⟨rfl, rfl⟩ | ⟨rfl, rfl⟩ <;> decide
  functional a n m h1 h2 := by
    simp only [exStore, List.mem_cons, Prod.mk.injEq, List.not_mem_nil, or_false] at h1 h2
    rcases h1 with ⟨rfl, rfl⟩ | ⟨rfl, rfl⟩ | ⟨rfl, rfl⟩ <;>
      rcases h2 with ⟨h, rfl⟩ | ⟨h, rfl⟩ | ⟨h, rfl⟩ <;> first | rfl | (exact absurd h (by decide))
  acyclic a n h := by
    simp only [exStore, List.mem_cons, Prod.mk.injEq, List.not_mem_nil, or_false] at h
    rcases h with ⟨rfl, rfl⟩ | ⟨rfl, rfl⟩ | ⟨rfl, rfl⟩ <;> intro t ht <;>
      simp only [List.mem_cons, List.not_mem_nil, or_false] at ht
    · subst ht; exact ⟨by decide, Or.inl rfl⟩
    · subst ht; exact ⟨by decide, Or.inl rfl⟩
    · rcases ht with rfl | rfl
      · exact ⟨by decide, Or.inr ⟨_, by simp [exStore]; rfl⟩⟩
      · exact ⟨by decide, Or.inr ⟨_, by simp [exStore]; rfl⟩⟩
  sorted a n h := by
    simp only [exStore, List.mem_cons, Prod.mk.injEq, List.not_mem_nil, or_false] at h
    rcases h with ⟨rfl, rfl⟩ | ⟨rfl, rfl⟩ | ⟨rfl, rfl⟩ <;> simp [SortedInputs]

theorem exRep : Represents (storeAccess exStore) exStore := represents_storeAccess exStore

theorem exRoot : (3 : Nat) = 0 ∨ ∃ n, (3, n) ∈ exStore := Or.inr ⟨_, by simp [exStore]; rfl⟩

theorem exMono : Mono (exDen 3) := by simp [Mono, exDen]

theorem exTight : Tight exStore exDen := by
  intro a n h
  simp only [exStore, List.mem_cons, Prod.mk.injEq, List.not_mem_nil, or_false] at h
  rcases h with ⟨rfl, rfl⟩ | ⟨rfl, rfl⟩ | ⟨rfl, rfl⟩ <;> intro t ht <;>
    simp only [List.mem_cons, List.not_mem_nil, or_false] at ht
  · subst ht; exact ⟨[], by simp [exDen]⟩
  · subst ht; exact ⟨[], by simp [exDen]⟩
  · rcases ht with rfl | rfl
    · exact ⟨[], by simp [exDen]⟩
    · exact ⟨[97], by simp [exDen]⟩

/-- hypotheses of `den_sorted`, `fstGet_correct`, `fstContains_correct`,
`fstGetKeyInto_sound`, `fstGetKeyInto_correct` hold for a concrete non-trivial store -/
example : GoodStore exStore exDen ∧ Represents (storeAccess exStore) exStore ∧
    ((3 : Nat) = 0 ∨ ∃ n, (3, n) ∈ exStore) ∧ Mono (exDen 3) ∧ Tight exStore exDen :=
  ⟨exGood, exRep, exRoot, exMono, exTight⟩

example : SortedKV (exDen 3) := den_sorted exGood 3 exRoot

example : fstGet (storeAccess exStore) 3 [97, 98] = some (some 3) := by
  rw [fstGet_correct exGood exRep 3 exRoot]; rfl

example : fstGet (storeAccess exStore) 3 [97, 99] = some none := by
  rw [fstGet_correct exGood exRep 3 exRoot]; rfl

example : fstContains (storeAccess exStore) 3 [99, 97] = some true := by
  rw [fstContains_correct exGood exRep 3 exRoot]; rfl

example : fstGetKeyInto (storeAccess exStore) 3 5 3 [7] = some (true, [7, 97, 98]) :=
  (fstGetKeyInto_correct exGood exRep 3 exRoot exMono exTight 5 (by decide) 3 [7]).1 [97, 98]
    (by simp [exDen])

example : ∃ buf', fstGetKeyInto (storeAccess exStore) 3 4 9 [] = some (false, buf') :=
  (fstGetKeyInto_correct exGood exRep 3 exRoot exMono exTight 4 (by decide) 9 []).2
    (by simp [exDen])

/-! The statement of T-GetKey without `Tight` is false: a good store whose root denotation
`"a" ↦ 5, "bx" ↦ 6` is monotone and whose final outputs are all 0, on which
`get_key_into(5)` answers `false` (`take_while(out ≤ 5).last()` picks the transition on `b`,
whose output 2 is not attained below it). -/

def badStore : Store :=
  [(1, ⟨false, 0, [⟨120, 4, 0⟩]⟩),
   (2, ⟨false, 0, [⟨97, 5, 0⟩, ⟨98, 2, 1⟩]⟩)]

def badDen : Nat → KV
  | 0 => [([], 0)]
  | 1 => [([120], 4)]
  | 2 => [([97], 5), ([98, 120], 6)]
  | _ => []

theorem badGood : GoodStore badStore badDen where
  den_zero := rfl
  unfold a n h := by
    simp only [badStore, List.mem_cons, Prod.mk.injEq, List.not_mem_nil, or_false] at h
    rcases h with ⟨rfl, rfl⟩ | ⟨rfl, rfl⟩ <;> rfl
  addr_pos a n h := by
    simp only [badStore, List.mem_cons, Prod.mk.injEq, List.not_mem_nil, or_false] at h
    rcases h with ⟨rfl, rfl⟩ | ⟨rfl, rfl⟩ <;> decide
  functional a n m h1 h2 := by
    simp only [badStore, List.mem_cons, Prod.mk.injEq, List.not_mem_nil, or_false] at h1 h2
    rcases h1 with ⟨rfl, rfl⟩ | ⟨rfl, rfl⟩ <;>
      rcases h2 with ⟨h, rfl⟩ | ⟨h, rfl⟩ <;> first | rfl | (exact absurd h (by decide))
  acyclic a n h := by
    simp only [badStore, List.mem_cons, Prod.mk.injEq, List.not_mem_nil, or_false] at h
    rcases h with ⟨rfl, rfl⟩ | ⟨rfl, rfl⟩ <;> intro t ht <;>
      simp only [List.mem_cons, List.not_mem_nil, or_false] at ht
    · subst ht; exact ⟨by decide, Or.inl rfl⟩
    · rcases ht with rfl | rfl
      · exact ⟨by decide, Or.inl rfl⟩
      · exact ⟨by decide, Or.inr ⟨_, by simp [badStore]; rfl⟩⟩
  sorted a n h := by
    simp only [badStore, List.mem_cons, Prod.mk.injEq, List.not_mem_nil, or_false] at h
    rcases h with ⟨rfl, rfl⟩ | ⟨rfl, rfl⟩ <;> simp [SortedInputs]

theorem getKey_counterexample :
    GoodStore badStore badDen ∧ Represents (storeAccess badStore) badStore ∧
    ((2 : Nat) = 0 ∨ ∃ n, (2, n) ∈ badStore) ∧ Mono (badDen 2) ∧
    (∀ a n, (a, n) ∈ badStore → n.fout = 0) ∧
    ([97], 5) ∈ badDen 2 ∧
    fstGet (storeAccess badStore) 2 [97] = some (some 5) ∧
    fstGetKeyInto (storeAccess badStore) 2 4 5 [] = some (false, [98]) := by
  refine ⟨badGood, represents_storeAccess _, Or.inr ⟨_, by simp [badStore]; rfl⟩,
    by simp [Mono, badDen], ?_, by simp [badDen], by decide, by decide⟩
  intro a n h
  simp only [badStore, List.mem_cons, Prod.mk.injEq, List.not_mem_nil, or_false] at h
  rcases h with ⟨rfl, rfl⟩ | ⟨rfl, rfl⟩ <;> rfl

end LookupExample

end Fst
