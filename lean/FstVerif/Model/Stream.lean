import FstVerif.Model.Reader
import FstVerif.Model.Aut
/-
Mirror of `Bound`, `StreamBuilder`, `StreamWithState::{new, seek_min,
next_with}` in `src/raw/mod.rs`.
-/
namespace Fst

inductive Bound
  | included (k : Key)
  | excluded (k : Key)
  | unbounded
deriving Repr, Inhabited, DecidableEq

/-- `Bound::exceeded_by` -/
def Bound.exceededBy (b : Bound) (inp : Key) : Bool :=
  match b with
  | .included v => lexLt v inp
  | .excluded v => !lexLt inp v
  | .unbounded => false

def Bound.isEmpty : Bound → Bool
  | .included v => v.isEmpty
  | .excluded v => v.isEmpty
  | .unbounded => true

def Bound.isInclusive : Bound → Bool
  | .excluded _ => false
  | _ => true

/-- `StreamBuilder` (`ge`/`gt` set `min`, `le`/`lt` set `max`; the last call of a kind wins) -/
structure RangeSpec where
  min : Bound := .unbounded
  max : Bound := .unbounded
deriving Repr, Inhabited

def RangeSpec.ge (r : RangeSpec) (k : Key) : RangeSpec := { r with min := .included k }
def RangeSpec.gt (r : RangeSpec) (k : Key) : RangeSpec := { r with min := .excluded k }
def RangeSpec.le (r : RangeSpec) (k : Key) : RangeSpec := { r with max := .included k }
def RangeSpec.lt (r : RangeSpec) (k : Key) : RangeSpec := { r with max := .excluded k }

/-- `StreamState` -/
structure Frame (N σ : Type) where
  node : N
  trans : Nat
  out : Nat
  autState : σ

/-- `StreamWithState` (without the immutable `fst`/`aut`) -/
structure SState (N σ : Type) where
  inp : Key
  emptyOutput : Option Nat
  stack : List (Frame N σ)       -- top of the stack first
  endAt : Bound

variable {N σ : Type}

/-- `node.transitions().position(|t| t.inp > b).unwrap_or(node.len())` -/
def posGreater (acc : NodeAccess N) (node : N) (b : UInt8) : Nat → Nat → Option Nat
  | 0, i => some i
  | k+1, i =>
    match acc.transition node i with
    | none => none
    | some t => if t.inp > b then some i else posGreater acc node b k (i+1)

/-- the `for &b in key` loop of `seek_min`; result: `Sum.inl` = returned early
(stack final), `Sum.inr` = fell through with (node, out, aut state). -/
def seekLoop (acc : NodeAccess N) (A : Aut σ) :
    Key → N → Nat → σ → Key → List (Frame N σ) →
      Option (Key × List (Frame N σ) × Option (N × Nat × σ))
  | [], node, out, st, inp, stack => some (inp, stack, some (node, out, st))
  | b :: bs, node, out, st, inp, stack =>
    match acc.findInput node b with
    | none => none
    | some (some i) =>
      match acc.transition node i with
      | none => none
      | some t =>
        match acc.node t.addr with
        | none => none
        | some n' =>
          seekLoop acc A bs n' (out + t.out) (A.accept st b) (inp ++ [b])
            (⟨node, i + 1, out, st⟩ :: stack)
    | some none =>
      match posGreater acc node b (acc.len node) 0 with
      | none => none
      | some p => some (inp, ⟨node, p, out, st⟩ :: stack, none)

/-- `StreamWithState::new` + `seek_min`; `none` = panic -/
def streamNew (acc : NodeAccess N) (A : Aut σ) (root : Nat) (min max : Bound) :
    Option (SState N σ) :=
  match acc.node root with
  | none => none
  | some r =>
    if min.isEmpty then
      let eo := if min.isInclusive then (if acc.isFinal r then some (acc.finalOutput r) else none) else none
      some { inp := [], emptyOutput := eo, stack := [⟨r, 0, 0, A.start⟩], endAt := max }
    else
      let (key, inclusive) := match min with
        | .excluded k => (k, false)
        | .included k => (k, true)
        | .unbounded => ([], true)
      match seekLoop acc A key r 0 A.start [] [] with
      | none => none
      | some (inp, stack, none) => some { inp, emptyOutput := none, stack, endAt := max }
      | some (inp, stack, some (_, out, st)) =>
        match stack with
        | [] => some { inp, emptyOutput := none, stack, endAt := max }
        | top :: rest =>
          if inclusive then
            -- Rust: `self.stack[last].trans -= 1` (usize underflow would panic; `trans = i+1 ≥ 1`)
            if top.trans = 0 then none else
            some { inp := inp.dropLast, emptyOutput := none,
                   stack := { top with trans := top.trans - 1 } :: rest, endAt := max }
          else
            if top.trans = 0 then none else
            match acc.transition top.node (top.trans - 1) with
            | none => none
            | some t =>
              match acc.node t.addr with
              | none => none
              | some n' =>
                some { inp, emptyOutput := none, stack := ⟨n', 0, out, st⟩ :: top :: rest, endAt := max }

/-- one iteration of the work of `next_with`: either the `empty_output` prologue
or one pass of the `while let Some(state) = self.stack.pop()` loop.
Result: `none` = panic; `some (emission?, state', done)`; `done` = the call returned `None`. -/
inductive StepRes (N σ : Type)
  | panic
  | done (s : SState N σ)                             -- `next` returns `None`
  | emit (k : Key) (v : Nat) (st : σ) (s : SState N σ)  -- `next` returns `Some`
  | cont (s : SState N σ)                             -- keep looping

def streamStep (acc : NodeAccess N) (A : Aut σ) (root : Nat) (s : SState N σ) : StepRes N σ :=
  match s.emptyOutput with
  | some out =>
    let s := { s with emptyOutput := none }
    if s.endAt.exceededBy [] then .done { s with stack := [] }
    else if A.isMatch A.start then .emit [] out A.start s
    else .cont s
  | none =>
    match s.stack with
    | [] => .done s
    | f :: rest =>
      if f.trans ≥ acc.len f.node || !A.canMatch f.autState then
        if acc.addr f.node ≠ root then
          -- `self.inp.pop().unwrap()`
          if s.inp.isEmpty then .panic else .cont { s with stack := rest, inp := s.inp.dropLast }
        else .cont { s with stack := rest }
      else
        match acc.transition f.node f.trans with
        | none => .panic
        | some t =>
          let out := f.out + t.out
          let nextState := A.accept f.autState t.inp
          match acc.node t.addr with
          | none => .panic
          | some nn =>
            let isMatch0 := A.isMatch nextState
            let isMatch :=
              if acc.isFinal nn then
                match A.acceptEof nextState with
                | some e => A.isMatch e
                | none => isMatch0
              else isMatch0
            let inp := s.inp ++ [t.inp]
            let stack := ⟨nn, 0, out, nextState⟩ :: { f with trans := f.trans + 1 } :: rest
            if s.endAt.exceededBy inp then .done { s with inp, stack := [] }
            else if acc.isFinal nn && isMatch then
              .emit inp (out + acc.finalOutput nn) nextState { s with inp, stack }
            else .cont { s with inp, stack }

/-- `next_with`: loop until something is returned -/
def streamNext (acc : NodeAccess N) (A : Aut σ) (root : Nat) :
    Nat → SState N σ → Option (Option (Key × Nat × σ) × SState N σ)
  | 0, _ => none
  | fuel+1, s =>
    match streamStep acc A root s with
    | .panic => none
    | .done s' => some (none, s')
    | .emit k v st s' => some (some (k, v, st), s')
    | .cont s' => streamNext acc A root fuel s'

/-- drain a stream: every item returned by repeated `next` calls until `None` -/
def streamCollect (acc : NodeAccess N) (A : Aut σ) (root : Nat) :
    Nat → SState N σ → List (Key × Nat × σ) → Option (List (Key × Nat × σ))
  | 0, _, _ => none
  | fuel+1, s, accum =>
    match streamStep acc A root s with
    | .panic => none
    | .done _ => some accum.reverse
    | .emit k v st s' => streamCollect acc A root fuel s' ((k, v, st) :: accum)
    | .cont s' => streamCollect acc A root fuel s' accum

end Fst
