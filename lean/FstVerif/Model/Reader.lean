import FstVerif.Model.Node
import FstVerif.Model.Crc
/-
Mirror of the read side of `src/raw/mod.rs`: `Fst::new`, metadata accessors,
`verify`, `get`, `contains_key`, `get_key_into`. Node access goes through a
`NodeAccess` record so that the algorithms can be proved once against an
abstract store and run against bytes.
-/
namespace Fst

/-- results of calls that may panic in Rust -/
inductive Outcome (ε α : Type)
  | ok (a : α)
  | err (e : ε)
  | panic (tag : String)
deriving Repr, Inhabited, DecidableEq

inductive OpenErr
  | format (size : Nat)
  | version (expected got : Nat)
deriving Repr, Inhabited, DecidableEq

inductive VerifyErr
  | checksumMissing
  | checksumMismatch (expected got : Nat)
deriving Repr, Inhabited, DecidableEq

structure Meta where
  version : Nat
  rootAddr : Nat
  ty : Nat
  len : Nat
  checksum : Option Nat
deriving Repr, Inhabited, DecidableEq

/-- `Fst::new`: every slice operation of the Rust code is an explicit bounds
check here (`Src.unpackAt … = none` ⇒ `panic`). -/
def fstNew (d : Src) : Outcome OpenErr Meta :=
  let n := d.size
  if n < 32 then .err (.format n) else
  match d.unpackAt 0 8 with
  | none => .panic "bytes[..8]"
  | some version =>
    if version = 0 ∨ version > Gen.VERSION then .err (.version Gen.VERSION version) else
    if version ≥ 3 ∧ n < 36 then .err (.format n) else
    match d.unpackAt 8 8 with
    | none => .panic "bytes[8..][..8]"
    | some ty =>
      let endCk : Option (Nat × Option Nat) :=
        if version ≤ 2 then some (n, none)
        else if n < 4 then none
        else (d.unpackAt (n - 4) 4).map fun c => (n - 4, some c)
      match endCk with
      | none => .panic "bytes[len-4..][..4]"
      | some (end_, checksum) =>
        if end_ < 16 then .panic "bytes[end-16..]" else
        match d.unpackAt (end_ - 8) 8, d.unpackAt (end_ - 16) 8 with
        | some rootAddr, some len =>
          let emptyTotal := if version ≤ 2 then 32 else 36
          let addrOffset := if version ≤ 2 then 17 else 21
          -- `root_addr + addr_offset` is only evaluated when `root_addr == 0`
          if (rootAddr = EMPTY_ADDRESS ∧ n ≠ emptyTotal) ∧ rootAddr + addrOffset ≠ n then
            .err (.format n)
          else .ok { version, rootAddr, ty, len, checksum }
        | _, _ => .panic "bytes[end-8..] / bytes[end-16..]"

/-- bytes `0 .. n` of a source as a list (for checksumming) -/
def Src.prefix (d : Src) (n : Nat) : Option (List UInt8) := d.read 0 n

/-- `Fst::verify` -/
def fstVerify (m : Meta) (d : Src) : Outcome VerifyErr Unit :=
  match m.checksum with
  | none => .err .checksumMissing
  | some expected =>
    if d.size < 4 then .panic "as_bytes()[..len-4]" else
    match d.prefix (d.size - 4) with
    | none => .panic "as_bytes()[..len-4]"
    | some body =>
      let got := (maskedSum (crc32cSlice16 0 body)).toNat
      if expected = got then .ok () else .err (.checksumMismatch expected got)

/-! ### node access -/

structure NodeAccess (N : Type) where
  node : Nat → Option N                       -- `Fst::node(addr)`; `none` = panic
  addr : N → Nat
  isFinal : N → Bool
  finalOutput : N → Nat
  len : N → Nat
  transition : N → Nat → Option Tr
  transitionAddr : N → Nat → Option Nat
  findInput : N → UInt8 → Option (Option Nat)

/-- node access over the bytes of an opened FST -/
def byteAccess (version : Nat) (d : Src) : NodeAccess RNode where
  node := nodeNew version d
  addr := (·.start)
  isFinal := (·.fin)
  finalOutput := (·.fout)
  len := (·.ntrans)
  transition := fun n i => n.transition d i
  transitionAddr := fun n i => n.transAddr d i
  findInput := fun n b => n.findInput d b

variable {N : Type}

/-- `FstRef::get` -/
def getGo (acc : NodeAccess N) (node : N) (out : Nat) : Key → Option (Option Nat)
  | [] => some (if acc.isFinal node then some (out + acc.finalOutput node) else none)
  | b :: bs =>
    match acc.findInput node b with
    | none => none
    | some none => some none
    | some (some i) =>
      match acc.transition node i with
      | none => none
      | some t =>
        match acc.node t.addr with
        | none => none
        | some n' => getGo acc n' (out + t.out) bs

def fstGet (acc : NodeAccess N) (root : Nat) (key : Key) : Option (Option Nat) :=
  match acc.node root with
  | none => none
  | some r => getGo acc r 0 key

/-- `FstRef::contains_key` -/
def containsGo (acc : NodeAccess N) (node : N) : Key → Option Bool
  | [] => some (acc.isFinal node)
  | b :: bs =>
    match acc.findInput node b with
    | none => none
    | some none => some false
    | some (some i) =>
      match acc.transitionAddr node i with
      | none => none
      | some a =>
        match acc.node a with
        | none => none
        | some n' => containsGo acc n' bs

def fstContains (acc : NodeAccess N) (root : Nat) (key : Key) : Option Bool :=
  match acc.node root with
  | none => none
  | some r => containsGo acc r key

/-- `node.transitions().take_while(|t| t.out <= value).last()` -/
def lastLe (acc : NodeAccess N) (node : N) (value : Nat) : Nat → Nat → Option Tr → Option (Option Tr)
  | 0, _, best => some best
  | k+1, i, best =>
    match acc.transition node i with
    | none => none
    | some t => if t.out ≤ value then lastLe acc node value k (i+1) (some t) else some best

/-- `FstRef::get_key_into`; the key bytes pushed and the result. `fuel` bounds
the descent (one node per step). Outer `none` = panic or fuel exhausted. -/
def getKeyGo (acc : NodeAccess N) : Nat → N → Nat → Key → Option (Bool × Key)
  | 0, _, _, _ => none
  | fuel+1, node, value, key =>
    if acc.isFinal node && value == acc.finalOutput node then some (true, key) else
    match lastLe acc node value (acc.len node) 0 none with
    | none => none
    | some none => some (false, key)
    | some (some t) =>
      match acc.node t.addr with
      | none => none
      | some n' => getKeyGo acc fuel n' (value - t.out) (key ++ [t.inp])

def fstGetKeyInto (acc : NodeAccess N) (root : Nat) (fuel : Nat) (value : Nat) (key : Key) :
    Option (Bool × Key) :=
  match acc.node root with
  | none => none
  | some r => getKeyGo acc fuel r value key

end Fst
