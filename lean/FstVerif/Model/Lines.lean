import FstVerif.Model.Glue
/-
From the BYTES of an input file of `fst set` to its lines (`fst-bin/src/util.rs`, `ConcatLines`:
one `bstr::io::BufReadExt::byte_lines` reader per input file, the files one after the other).
`Model/Glue.lean` (`lineKey`, `fileRows`) says what a line of given content stands for; this file
says what the lines of a given byte sequence are, and what bytes the test harness writes for
given rows. `Proofs/Lines.lean` connects the two.
-/
namespace Fst

/-- the reader loop of `byte_lines`: scan the bytes, `acc` is the current line so far. On `\n`
(byte 10) the line is yielded without its terminator `\n` or `\r\n` — exactly one `\r` (byte 13)
directly before the `\n` is dropped, nothing else (`lineKey acc true`). At the end of the input
the remaining bytes, if any, are a final line that is yielded as it is (a trailing `\r` stays).
The length of a line is not limited by any buffer. -/
def byteLinesGo : List UInt8 → Key → List Key
  | [], acc => if acc.isEmpty then [] else [acc]
  | b :: rest, acc =>
    if b == 10 then lineKey acc true :: byteLinesGo rest []
    else byteLinesGo rest (acc ++ [b])

/-- `bstr::io::BufReadExt::byte_lines` over the whole content of one reader: the empty input has
no lines, `"\n"` has one empty line, `"a"` and `"a\n"` both have the one line `"a"`. -/
def byteLines (bs : List UInt8) : List Key := byteLinesGo bs []

/-- what the test harness writes for the rows of one input file: each row's content followed by
`\n`, except that the final `\n` is left out when `lastTerminated = false` -/
def renderLines : (rows : List Key) → (lastTerminated : Bool) → List UInt8
  | [], _ => []
  | [r], lastTerminated => if lastTerminated then r ++ [10] else r
  | r :: r' :: rest, lastTerminated => r ++ 10 :: renderLines (r' :: rest) lastTerminated

/-- `ConcatLines`: one `byte_lines` reader per file, the files in the order given (a file listed
twice is read twice); a line never spans two files -/
def concatFilesLines (files : List (List UInt8)) : List Key := files.flatMap byteLines

end Fst
