import FstVerif.Gen.Tables
import FstVerif.Model.Basic
/-
Mirror of `src/raw/crc32.rs`: slice-by-16 CRC-32C over the generated tables,
and the Snappy-style mask.
-/
namespace Fst

def crcTableA : Array UInt32 := (Gen.CRC_TABLE.map UInt32.ofNat).toArray
def crcT16A : Array (Array UInt32) := (Gen.CRC_TABLE16.map fun row => (row.map UInt32.ofNat).toArray).toArray

def tbl (i : UInt8) : UInt32 := crcTableA.getD i.toNat 0
def tbl16 (j : Nat) (i : UInt8) : UInt32 := (crcT16A.getD j #[]).getD i.toNat 0

/-- one byte of the tail loop: `TABLE[(crc as u8) ^ b] ^ (crc >> 8)` -/
def crcByte (crc : UInt32) (b : UInt8) : UInt32 := tbl (crc.toUInt8 ^^^ b) ^^^ (crc >>> 8)

def u32OfLe (b0 b1 b2 b3 : UInt8) : UInt32 :=
  b0.toUInt32 ||| (b1.toUInt32 <<< 8) ||| (b2.toUInt32 <<< 16) ||| (b3.toUInt32 <<< 24)

/-- one 16-byte block of the fast path -/
def crcBlock (crc : UInt32) (b0 b1 b2 b3 b4 b5 b6 b7 b8 b9 b10 b11 b12 b13 b14 b15 : UInt8) : UInt32 :=
  let c := crc ^^^ u32OfLe b0 b1 b2 b3
  tbl16 0 b15 ^^^ tbl16 1 b14 ^^^ tbl16 2 b13 ^^^ tbl16 3 b12 ^^^ tbl16 4 b11 ^^^ tbl16 5 b10
    ^^^ tbl16 6 b9 ^^^ tbl16 7 b8 ^^^ tbl16 8 b7 ^^^ tbl16 9 b6 ^^^ tbl16 10 b5 ^^^ tbl16 11 b4
    ^^^ tbl16 12 (c >>> 24).toUInt8 ^^^ tbl16 13 (c >>> 16).toUInt8 ^^^ tbl16 14 (c >>> 8).toUInt8
    ^^^ tbl16 15 c.toUInt8

/-- the two loops of `crc32c_slice16` on the inverted state -/
def crcLoop (crc : UInt32) : List UInt8 → UInt32
  | b0 :: b1 :: b2 :: b3 :: b4 :: b5 :: b6 :: b7 :: b8 :: b9 :: b10 :: b11 :: b12 :: b13 :: b14 :: b15 :: rest =>
    crcLoop (crcBlock crc b0 b1 b2 b3 b4 b5 b6 b7 b8 b9 b10 b11 b12 b13 b14 b15) rest
  | buf => buf.foldl crcByte crc

/-- `crc32c_slice16(prev, buf)` -/
def crc32cSlice16 (prev : UInt32) (buf : List UInt8) : UInt32 := ~~~ (crcLoop (~~~ prev) buf)

/-- `CheckSummer::masked` -/
def maskedSum (sum : UInt32) : UInt32 := ((sum >>> 15) ||| (sum <<< 17)) + 0xA282EAD8

/-- `CheckSummer` -/
structure Summer where
  sum : UInt32 := 0
deriving Repr, Inhabited

def Summer.update (s : Summer) (buf : List UInt8) : Summer := ⟨crc32cSlice16 s.sum buf⟩
def Summer.masked (s : Summer) : UInt32 := maskedSum s.sum

end Fst
