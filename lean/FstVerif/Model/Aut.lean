import FstVerif.Model.Basic
/-
Mirror of `src/automaton/mod.rs`: the `Automaton` trait as a record, the
built-in automata and the combinators.
-/
namespace Fst

structure Aut (σ : Type) where
  start : σ
  isMatch : σ → Bool
  canMatch : σ → Bool
  willAlwaysMatch : σ → Bool
  accept : σ → UInt8 → σ
  acceptEof : σ → Option σ := fun _ => none

def Aut.run {σ} (A : Aut σ) (s : σ) (w : Key) : σ := w.foldl A.accept s
def Aut.accepts {σ} (A : Aut σ) (w : Key) : Bool := A.isMatch (A.run A.start w)

/-- `Str` -/
def autStr (s : Key) : Aut (Option Nat) where
  start := some 0
  isMatch := fun pos => pos == some s.length
  canMatch := fun pos => pos.isSome
  willAlwaysMatch := fun _ => false
  accept := fun pos b =>
    match pos with
    | some p => if s[p]? == some b then some (p + 1) else none
    | none => none

/-- `Subsequence`. Rust indexes `self.subseq[state]`, in bounds because
`state < len` on that path. -/
def autSubseq (s : Key) : Aut Nat where
  start := 0
  isMatch := fun st => st == s.length
  canMatch := fun _ => true
  willAlwaysMatch := fun st => st == s.length
  accept := fun st b =>
    if st == s.length then st
    else st + (if s[st]? == some b then 1 else 0)

/-- `AlwaysMatch` -/
def autAlways : Aut Unit where
  start := ()
  isMatch := fun _ => true
  canMatch := fun _ => true
  willAlwaysMatch := fun _ => true
  accept := fun _ _ => ()

/-- `StartsWithStateKind` -/
inductive SW (σ : Type)
  | done
  | running (s : σ)
deriving Repr

/-- `StartsWith` -/
def autStartsWith {σ} (A : Aut σ) : Aut (SW σ) where
  start := if A.isMatch A.start then .done else .running A.start
  isMatch := fun s => match s with | .done => true | .running _ => false
  canMatch := fun s => match s with | .done => true | .running i => A.canMatch i
  willAlwaysMatch := fun s => match s with | .done => true | .running _ => false
  accept := fun s b =>
    match s with
    | .done => .done
    | .running i =>
      let n := A.accept i b
      if A.isMatch n then .done else .running n

/-- `Union` -/
def autUnion {σ τ} (A : Aut σ) (B : Aut τ) : Aut (σ × τ) where
  start := (A.start, B.start)
  isMatch := fun s => A.isMatch s.1 || B.isMatch s.2
  canMatch := fun s => A.canMatch s.1 || B.canMatch s.2
  willAlwaysMatch := fun s => A.willAlwaysMatch s.1 || B.willAlwaysMatch s.2
  accept := fun s b => (A.accept s.1 b, B.accept s.2 b)

/-- `Intersection` -/
def autInter {σ τ} (A : Aut σ) (B : Aut τ) : Aut (σ × τ) where
  start := (A.start, B.start)
  isMatch := fun s => A.isMatch s.1 && B.isMatch s.2
  canMatch := fun s => A.canMatch s.1 && B.canMatch s.2
  willAlwaysMatch := fun s => A.willAlwaysMatch s.1 && B.willAlwaysMatch s.2
  accept := fun s b => (A.accept s.1 b, B.accept s.2 b)

/-- `Complement` -/
def autCompl {σ} (A : Aut σ) : Aut σ where
  start := A.start
  isMatch := fun s => !A.isMatch s
  canMatch := fun s => !A.willAlwaysMatch s
  willAlwaysMatch := fun s => !A.canMatch s
  accept := A.accept

/-- a table DFA with explicit hints (the harness's `TableDfa`): states are
`0..n`, bytes are classified by `cls` into `k` classes -/
structure TableDfa where
  nstates : Nat
  start : Nat
  cls : UInt8 → Nat
  delta : List (List Nat)      -- delta[state][class]
  matching : List Bool
  canM : List Bool
  willM : List Bool

def TableDfa.aut (t : TableDfa) : Aut Nat where
  start := t.start
  isMatch := fun s => t.matching.getD s false
  canMatch := fun s => t.canM.getD s true
  willAlwaysMatch := fun s => t.willM.getD s false
  accept := fun s b => (t.delta.getD s []).getD (t.cls b) s

end Fst
