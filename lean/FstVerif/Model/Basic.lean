/-
Basic vocabulary of the model: keys, key order, transitions, builder nodes.
Core Lean only (no Mathlib) so that the driver links as a `lean_exe`.
-/
namespace Fst

abbrev Key := List UInt8
abbrev KV := List (Key × Nat)

/-- Rust's `Ord` on byte slices: first differing byte decides, otherwise the
shorter slice is smaller. -/
def lexLt : Key → Key → Bool
  | [], [] => false
  | [], _ :: _ => true
  | _ :: _, [] => false
  | a :: as, b :: bs => a < b || (a == b && lexLt as bs)

def lexLe (a b : Key) : Bool := !lexLt b a

/-- `raw::Transition` -/
structure Tr where
  inp : UInt8
  out : Nat
  addr : Nat
deriving DecidableEq, Repr, Inhabited

/-- `raw::build::BuilderNode` -/
structure BNode where
  fin : Bool
  fout : Nat
  trans : List Tr
deriving DecidableEq, Repr, Inhabited

def BNode.empty : BNode := ⟨false, 0, []⟩

def EMPTY_ADDRESS : Nat := 0
def NONE_ADDRESS : Nat := 1

def U64_MAX : Nat := 2^64 - 1

end Fst
