import FstVerif.Model.Basic
/-
Mirror of `src/bytes.rs`: `pack_size`, `pack_uint_in`, `unpack_uint`,
little-endian u32/u64.
-/
namespace Fst

/-- `bytes::pack_size` -/
def packSize (n : Nat) : Nat :=
  if n < 2^8 then 1
  else if n < 2^16 then 2
  else if n < 2^24 then 3
  else if n < 2^32 then 4
  else if n < 2^40 then 5
  else if n < 2^48 then 6
  else if n < 2^56 then 7
  else 8

/-- `bytes::pack_uint_in n nbytes` (the bytes written). -/
def packIn : Nat → Nat → List UInt8
  | _, 0 => []
  | n, k+1 => UInt8.ofNat (n % 256) :: packIn (n / 256) k

/-- `bytes::unpack_uint` over exactly the bytes given. -/
def unpack : List UInt8 → Nat
  | [] => 0
  | b :: bs => b.toNat + 256 * unpack bs

def u64le (n : Nat) : List UInt8 := packIn n 8
def u32le (n : Nat) : List UInt8 := packIn n 4

/-- A random-access byte source (`&[u8]`): `get i = none` is an out-of-bounds
index (a panic in Rust). -/
structure Src where
  size : Nat
  get : Nat → Option UInt8

def Src.ofList (l : List UInt8) : Src := ⟨l.length, fun i => l[i]?⟩
def Src.ofArray (a : Array UInt8) : Src := ⟨a.size, fun i => a[i]?⟩

/-- read `n` bytes starting at `i` -/
def Src.read (s : Src) (i : Nat) : Nat → Option (List UInt8)
  | 0 => some []
  | n+1 => match s.get i, s.read (i+1) n with
    | some b, some bs => some (b :: bs)
    | _, _ => none

/-- `unpack_uint(&data[i..], n)` -/
def Src.unpackAt (s : Src) (i n : Nat) : Option Nat := (s.read i n).map unpack

end Fst
