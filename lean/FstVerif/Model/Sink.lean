import FstVerif.Model.Build
import FstVerif.Model.Crc
/-
A scripted `io::Write`, std's `write_all`, `CountingWriter`
(`src/raw/counting_writer.rs`) and the builder running over them.
-/
namespace Fst

/-- what one `write` call of the sink does -/
inductive Resp
  | take (n : Nat)      -- accept at most `n` bytes (`Ok(min n len)`; `take 0` = `Ok(0)`)
  | interrupted         -- `Err(ErrorKind::Interrupted)`
  | fail (kind : Nat)   -- any other `Err`
deriving DecidableEq, Repr, Inhabited

inductive IoErr
  | writeZero           -- `write_all` saw `Ok(0)`
  | other (kind : Nat)
deriving DecidableEq, Repr, Inhabited

structure Sink where
  held : Array UInt8            -- bytes the sink has accepted, in order
  script : List Resp            -- one entry per `write` call; exhausted ⇒ accept everything
  flushFails : Option Nat       -- `Some kind`: `flush` returns that error
  calls : Nat                   -- number of `write` calls made
deriving Repr, Inhabited

def Sink.new (prefill : List UInt8) (script : List Resp) (flushFails : Option Nat := none) : Sink :=
  ⟨prefill.toArray, script, flushFails, 0⟩

/-- one `write(buf)` call -/
def Sink.write (s : Sink) (buf : List UInt8) : Sink × Except IoErr Nat :=
  match s.script with
  | [] => ({ s with held := s.held ++ buf.toArray, calls := s.calls + 1 }, .ok buf.length)
  | r :: rest =>
    let s := { s with script := rest, calls := s.calls + 1 }
    match r with
    | .take n =>
      let k := min n buf.length
      ({ s with held := s.held ++ (buf.take k).toArray }, .ok k)
    | .interrupted => (s, .error (.other 0))   -- kind 0 = Interrupted
    | .fail kind => (s, .error (.other (kind + 1)))

/-- std `Write::write_all` over a writer given by its `write` function.
`fuel` bounds the number of `write` calls; `none` = fuel exhausted (never for
`fuel ≥ script.length + buf.length`). -/
def writeAllWith {W : Type} (write : W → List UInt8 → W × Except IoErr Nat) :
    Nat → W → List UInt8 → Option (W × Except IoErr Unit)
  | _, w, [] => some (w, .ok ())
  | 0, _, _ :: _ => none
  | fuel+1, w, buf =>
    match write w buf with
    | (w', .ok 0) => some (w', .error .writeZero)
    | (w', .ok n) => writeAllWith write fuel w' (buf.drop n)
    | (w', .error (.other 0)) => writeAllWith write fuel w' buf      -- Interrupted: retry
    | (w', .error e) => some (w', .error e)

/-- `CountingWriter<W>` -/
structure CW where
  sink : Sink
  cnt : Nat
  summer : Summer
deriving Repr, Inhabited

def CW.new (s : Sink) : CW := ⟨s, 0, {}⟩

/-- `CountingWriter::write`: inner write first, then checksum and count exactly
the accepted prefix. -/
def CW.write (c : CW) (buf : List UInt8) : CW × Except IoErr Nat :=
  match c.sink.write buf with
  | (s', .ok n) => ({ sink := s', cnt := c.cnt + n, summer := c.summer.update (buf.take n) }, .ok n)
  | (s', .error e) => ({ c with sink := s' }, .error e)

def fuelFor (s : Sink) (buf : List UInt8) : Nat := s.script.length + buf.length + 1

def CW.writeAll (c : CW) (buf : List UInt8) : CW × Except IoErr Unit :=
  match writeAllWith CW.write (fuelFor c.sink buf) c buf with
  | some r => r
  | none => (c, .error (.other 999))   -- unreachable (lemma `writeAll_fuel`)

def Sink.writeAll (s : Sink) (buf : List UInt8) : Sink × Except IoErr Unit :=
  match writeAllWith Sink.write (fuelFor s buf) s buf with
  | some r => r
  | none => (s, .error (.other 999))

/-- write a sequence of buffers, stopping at the first error -/
def CW.writeChunks (c : CW) : List (List UInt8) → CW × Except IoErr Unit
  | [] => (c, .ok ())
  | b :: bs =>
    match c.writeAll b with
    | (c', .ok ()) => c'.writeChunks bs
    | (c', .error e) => (c', .error e)

inductive CallErr
  | fst (e : BErr)
  | io (e : IoErr)
deriving DecidableEq, Repr, Inhabited

/-- `Builder<W>` = pure state machine + counting writer -/
structure IOB where
  b : BState
  cw : CW
deriving Repr, Inhabited

/-- buffers emitted between two pure states -/
def newChunks (old new : BState) : List (List UInt8) :=
  (new.out.take (new.out.length - old.out.length)).reverse.flatMap (·.chunks)

/-- `Builder::new_type` with cache geometry -/
def IOB.new (sink : Sink) (ty rows cols : Nat) : CW × Except CallErr IOB :=
  match (CW.new sink).writeChunks (headerChunks ty) with
  | (cw, .ok ()) => (cw, .ok ⟨BState.new rows cols, cw⟩)
  | (cw, .error e) => (cw, .error (.io e))

def IOB.step (x : IOB) (r : Except BErr BState) : IOB × Except CallErr Unit :=
  match r with
  | .error e => (x, .error (.fst e))
  | .ok b' =>
    match x.cw.writeChunks (newChunks x.b b') with
    | (cw, .ok ()) => (⟨b', cw⟩, .ok ())
    | (cw, .error e) => (⟨b', cw⟩, .error (.io e))

def IOB.insert (x : IOB) (k : Key) (v : Nat) : IOB × Except CallErr Unit := x.step (x.b.insert k v)
def IOB.add (x : IOB) (k : Key) : IOB × Except CallErr Unit := x.step (x.b.add k)
def IOB.bytesWritten (x : IOB) : Nat := x.cw.cnt

/-- `Builder::into_inner`: the sink afterwards and the result -/
def IOB.intoInner (x : IOB) : Sink × Except CallErr Unit :=
  match x.b.finish with
  | .error e => (x.cw.sink, .error (.fst e))
  | .ok (b', root) =>
    match x.cw.writeChunks (newChunks x.b b' ++ footerChunks b'.len root) with
    | (cw, .error e) => (cw.sink, .error (.io e))
    | (cw, .ok ()) =>
      match cw.sink.writeAll (u32le cw.summer.masked.toNat) with
      | (s, .error e) => (s, .error (.io e))
      | (s, .ok ()) =>
        match s.flushFails with
        | some k => (s, .error (.io (.other (k + 1))))
        | none => (s, .ok ())

/-- in-memory build of a pure state: the complete file bytes -/
def BState.fileBytes (ty : Nat) (s : BState) : Except BErr (List UInt8) :=
  match s.finish with
  | .error e => .error e
  | .ok (s', root) =>
    let body := (s'.bodyChunks ty root).flatten
    .ok (body ++ u32le (maskedSum (crc32cSlice16 0 body)).toNat)

end Fst
