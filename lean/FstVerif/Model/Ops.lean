import FstVerif.Model.Basic
/-
Mirror of `src/raw/ops.rs`. Input streams are modelled by the list of items
they will still yield (`List (Key × Nat)`); the binary heap by a list of slots
with a `pop` function that returns *a* minimal slot (the order among equal
(key, value) slots is unspecified in `BinaryHeap`; theorems quantify over
every such `pop`, the driver uses `popMin`).
-/
namespace Fst

structure Slot where
  idx : Nat
  input : Key
  output : Nat
deriving Repr, Inhabited, DecidableEq

structure IndexedValue where
  index : Nat
  value : Nat
deriving Repr, Inhabited, DecidableEq

def Slot.iv (s : Slot) : IndexedValue := ⟨s.idx, s.output⟩

/-- `Slot: Ord` is the reverse of `(input, output)`; the heap pops the smallest -/
def slotLt (a b : Slot) : Bool :=
  lexLt a.input b.input || (a.input == b.input && a.output < b.output)

abbrev PopFn := List Slot → Option (Slot × List Slot)

/-- remove the first slot that no other slot is smaller than -/
def popMin : PopFn
  | [] => none
  | s :: rest =>
    match popMin rest with
    | none => some (s, [])
    | some (m, rest') => if slotLt m s then some (m, s :: rest') else some (s, rest)

/-- `StreamHeap` -/
structure SHeap where
  rdrs : List KV
  heap : List Slot
deriving Repr, Inhabited

/-- `StreamHeap::refill` -/
def SHeap.refill (h : SHeap) (idx : Nat) : SHeap :=
  match h.rdrs[idx]? with
  | some ((k, v) :: rest) => { rdrs := h.rdrs.set idx rest, heap := ⟨idx, k, v⟩ :: h.heap }
  | _ => h

/-- `StreamHeap::new` -/
def SHeap.new (streams : List KV) : SHeap :=
  (List.range streams.length).foldl (fun h i => h.refill i) ⟨streams, []⟩

def SHeap.pop (pop : PopFn) (h : SHeap) : Option (Slot × SHeap) :=
  (pop h.heap).map fun (s, rest) => (s, { h with heap := rest })

/-- `pop_if_equal` -/
def SHeap.popIfEqual (pop : PopFn) (h : SHeap) (key : Key) : Option (Slot × SHeap) :=
  match h.pop pop with
  | some (s, h') => if s.input == key then some (s, h') else none
  | none => none

/-- `pop_if_le` -/
def SHeap.popIfLe (pop : PopFn) (h : SHeap) (key : Key) : Option (Slot × SHeap) :=
  match h.pop pop with
  | some (s, h') => if lexLe s.input key then some (s, h') else none
  | none => none

/-- `while let Some(slot2) = heap.pop_if_equal(key) { outs.push(..); heap.refill(slot2) }` -/
def drainEqual (pop : PopFn) (key : Key) : Nat → SHeap → List IndexedValue → SHeap × List IndexedValue
  | 0, h, outs => (h, outs)
  | fuel+1, h, outs =>
    match h.popIfEqual pop key with
    | some (s, h') => drainEqual pop key fuel (h'.refill s.idx) (outs ++ [s.iv])
    | none => (h, outs)

/-- state of `Union` / `Intersection` / `SymmetricDifference` -/
structure OpState where
  heap : SHeap
  curSlot : Option Slot
deriving Repr, Inhabited

def OpState.new (streams : List KV) : OpState := ⟨SHeap.new streams, none⟩

def OpState.refillCur (s : OpState) : SHeap :=
  match s.curSlot with
  | some slot => s.heap.refill slot.idx
  | none => s.heap

/-- `Union::next` -/
def unionNext (pop : PopFn) (s : OpState) : Option ((Key × List IndexedValue) × OpState) :=
  let h := s.refillCur
  match h.pop pop with
  | none => none
  | some (slot, h') =>
    let (h'', outs) := drainEqual pop slot.input (h'.rdrs.length + 1) h' [slot.iv]
    some ((slot.input, outs), ⟨h'', some slot⟩)

inductive OpKind | union | intersection | symmetricDifference | difference
deriving Repr, DecidableEq, Inhabited

/-- the `loop` of `Intersection::next` / `SymmetricDifference::next` -/
def filterLoop (pop : PopFn) (keep : Nat → Nat → Bool) :
    Nat → SHeap → Option ((Key × List IndexedValue) × OpState)
  | 0, _ => none
  | fuel+1, h =>
    match h.pop pop with
    | none => none
    | some (slot, h') =>
      let (h'', outs) := drainEqual pop slot.input (h'.rdrs.length + 1) h' [slot.iv]
      if keep outs.length h''.rdrs.length then some ((slot.input, outs), ⟨h'', some slot⟩)
      else filterLoop pop keep fuel (h''.refill slot.idx)

def totalItems (h : SHeap) : Nat := (h.rdrs.map List.length).sum + h.heap.length

def intersectionNext (pop : PopFn) (s : OpState) : Option ((Key × List IndexedValue) × OpState) :=
  let h := s.refillCur
  filterLoop pop (fun popped nslots => !(popped < nslots)) (totalItems h + 1) h

def symDiffNext (pop : PopFn) (s : OpState) : Option ((Key × List IndexedValue) × OpState) :=
  let h := s.refillCur
  filterLoop pop (fun popped _ => !(popped % 2 == 0)) (totalItems h + 1) h

/-- `Difference` -/
structure DiffState where
  set : KV
  heap : SHeap
deriving Repr, Inhabited

/-- `OpBuilder::difference`: `swap_remove(0)` then a heap over the rest -/
def DiffState.new (streams : List KV) : Option DiffState :=
  match streams with
  | [] => none      -- `swap_remove(0)` on an empty vector panics
  | first :: rest =>
    let others := match rest.getLast? with
      | some l => l :: rest.dropLast
      | none => []
    some ⟨first, SHeap.new others⟩

/-- `while let Some(slot) = heap.pop_if_le(key)` -/
def drainLe (pop : PopFn) (key : Key) : Nat → SHeap → Bool → SHeap × Bool
  | 0, h, u => (h, u)
  | fuel+1, h, u =>
    match h.popIfLe pop key with
    | some (s, h') => drainLe pop key fuel (h'.refill s.idx) (u && !(s.input == key))
    | none => (h, u)

def differenceNext (pop : PopFn) : Nat → DiffState → Option ((Key × List IndexedValue) × DiffState)
  | 0, _ => none
  | fuel+1, s =>
    match s.set with
    | [] => none
    | (k, v) :: rest =>
      let (h, unique) := drainLe pop k (totalItems s.heap + 1) s.heap true
      if unique then some ((k, [⟨0, v⟩]), ⟨rest, h⟩)
      else differenceNext pop fuel ⟨rest, h⟩

/-- drain an operation completely -/
def collectWith {S : Type} (next : S → Option ((Key × List IndexedValue) × S)) :
    Nat → S → List (Key × List IndexedValue) → List (Key × List IndexedValue)
  | 0, _, acc => acc.reverse
  | fuel+1, s, acc =>
    match next s with
    | none => acc.reverse
    | some (item, s') => collectWith next fuel s' (item :: acc)

def totalLen (streams : List KV) : Nat := (streams.map List.length).sum

def opCollect (pop : PopFn) (kind : OpKind) (streams : List KV) : Option (List (Key × List IndexedValue)) :=
  let fuel := totalLen streams + 1
  match kind with
  | .union => some (collectWith (unionNext pop) fuel (OpState.new streams) [])
  | .intersection => some (collectWith (intersectionNext pop) fuel (OpState.new streams) [])
  | .symmetricDifference => some (collectWith (symDiffNext pop) fuel (OpState.new streams) [])
  | .difference =>
    match DiffState.new streams with
    | none => none
    | some d => some (collectWith (differenceNext pop (d.set.length + 1)) fuel d [])

/-- `Fst::is_disjoint(stream)` for `self = a` -/
def isDisjoint (pop : PopFn) (a b : KV) : Bool :=
  (intersectionNext pop (OpState.new [a, b])).isNone

/-- `Fst::is_subset(stream)`: `self.len()` is the FST's key count -/
def isSubset (pop : PopFn) (a b : KV) : Bool :=
  (collectWith (intersectionNext pop) (totalLen [a, b] + 1) (OpState.new [a, b]) []).length == a.length

def isSuperset (pop : PopFn) (a b : KV) : Bool :=
  (collectWith (unionNext pop) (totalLen [a, b] + 1) (OpState.new [a, b]) []).length == a.length

end Fst
