import FstVerif.Model.Build
import FstVerif.Model.Ops
/-
The construction entry points of `src/map.rs`, `src/set.rs`, `src/raw/mod.rs`
and `src/raw/build.rs` on top of the raw builder: each is the call pattern its
Rust body performs.
-/
namespace Fst

/-- `raw::Builder::extend_iter` / `extend_stream`: `insert` each item, stop at the first error.
Returns the builder as it is when the call returns, and the call's result. -/
def BState.extendInsert (s : BState) : KV → BState × Except BErr Unit
  | [] => (s, .ok ())
  | (k, v) :: rest =>
    match s.insert k v with
    | .error e => (s, .error e)
    | .ok s' => s'.extendInsert rest

/-- `SetBuilder::extend_iter` / `extend_stream`: `add` each key, stop at the first error -/
def BState.extendAdd (s : BState) : List Key → BState × Except BErr Unit
  | [] => (s, .ok ())
  | k :: rest =>
    match s.add k with
    | .error e => (s, .error e)
    | .ok s' => s'.extendAdd rest

/-- the entry points -/
inductive FrontEnd
  | raw              -- raw::Builder, single add/insert calls
  | map              -- MapBuilder::insert            = Builder::insert
  | set              -- SetBuilder::insert            = Builder::add
  | rawIter          -- Builder::extend_iter          = loop insert
  | rawStream        -- Builder::extend_stream        = loop insert
  | mapIter          -- MapBuilder::extend_iter       = Builder::extend_iter
  | mapStream        -- MapBuilder::extend_stream     = Builder::extend_stream
  | setIter          -- SetBuilder::extend_iter       = loop add
  | setStream        -- SetBuilder::extend_stream     = loop add
  | mapFromIter      -- Map::from_iter                = MapBuilder::memory + extend_iter + into_inner
  | setFromIter      -- Set::from_iter                = SetBuilder::memory + extend_iter + into_inner
  | rawFromIterMap   -- Fst::from_iter_map            = Builder::memory + loop insert + into_fst
  | rawFromIterSet   -- Fst::from_iter_set            = Builder::memory + loop add + into_fst
  | setUnionStream   -- SetBuilder::extend_stream(union of two sets)
deriving Repr, DecidableEq, Inhabited

/-- keys yielded by `a.op().add(&b).union()` as a stream of keys -/
def unionKeys (a b : List Key) : List Key :=
  match opCollect popMin .union [a.map (·, 0), b.map (·, 0)] with
  | some items => items.map (·.1)
  | none => []

/-- the batch entry points as one call on a fresh builder state: (state when the call
returns, result). `kvs` are the items handed over (values ignored by the set entry points). -/
def FrontEnd.runBatch (fe : FrontEnd) (s : BState) (kvs : KV) : BState × Except BErr Unit :=
  match fe with
  | .rawIter | .rawStream | .mapIter | .mapStream | .mapFromIter | .rawFromIterMap => s.extendInsert kvs
  | .setIter | .setStream | .setFromIter | .rawFromIterSet => s.extendAdd (kvs.map (·.1))
  | .setUnionStream =>
    -- the harness splits the keys alternately into two sets and streams their union
    let ks := kvs.map (·.1)
    let a := (ks.zipIdx.filter fun p => p.2 % 2 == 0).map (·.1)
    let b := (ks.zipIdx.filter fun p => p.2 % 2 == 1).map (·.1)
    s.extendAdd (unionKeys a b)
  | .raw | .map | .set => (s, .ok ())   -- single-call entry points: not batch calls

end Fst
