import FstVerif.Model.Frontends
import FstVerif.Model.Sink
import FstVerif.Model.Reader
/-
Glue around the modelled core that a user's call passes through (found weak by the third
round of seeded changes): by-reference iterators handed to `extend_iter` repeatedly,
batch entry points over a failing sink, `map_data`, and what the lines of the input
files of `fst set` mean.
-/
namespace Fst

/-- one call of the builder API -/
inductive BCall
  | ins (k : Key) (v : Nat)
  | add (k : Key)
deriving Repr, DecidableEq, Inhabited

def BState.call (s : BState) : BCall → Except BErr BState
  | .ins k v => s.insert k v
  | .add k => s.add k

/-- `b.extend_iter(&mut it)` called again and again on the SAME iterator until it is
exhausted (`Builder::extend_iter`, `MapBuilder::extend_iter`, `SetBuilder::extend_iter` with a
by-reference iterator): each call feeds items to `insert`/`add` until one is rejected — that
item is consumed and its error is the call's result — or until the iterator ends (`Ok`).
Returns the builder state at the end and the results of the successive calls. -/
def BState.resume : BState → List BCall → List (Except BErr Unit) → BState × List (Except BErr Unit)
  | s, [], acc => (s, (.ok () :: acc).reverse)
  | s, c :: rest, acc =>
    match s.call c with
    | .error e => s.resume rest (.error e :: acc)
    | .ok s' => s'.resume rest acc

def IOB.call (x : IOB) : BCall → IOB × Except CallErr Unit
  | .ins k v => x.insert k v
  | .add k => x.add k

/-- a batch entry point (`extend_iter` / `extend_stream` of the raw, map and set builders) over a
sink: the calls one by one until the first that does not return `Ok` — an ordering error or an
I/O error — which is the result of the whole call; nothing is called after it. -/
def IOB.extend (x : IOB) : List BCall → IOB × Except CallErr Unit
  | [] => (x, .ok ())
  | c :: rest =>
    match x.call c with
    | (x', .ok ()) => x'.extend rest
    | (x', .error e) => (x', .error e)

/-- `Fst::map_data(f)`, `Map::map_data`, `Set::map_data`: the bytes the closure returns are
opened afresh (`Fst::new(f(self.data))`); nothing of the old header survives -/
def mapData (f : Src → Src) (d : Src) : Outcome OpenErr Meta := fstNew (f d)

/-- the key a line of a `fst set` input file stands for (bstr's `byte_lines` used by
`ConcatLines`): `content` is what precedes the `\n`; a line is terminated by `\n` or `\r\n`, so
one trailing CR belongs to the terminator — unless the line is the unterminated last one. -/
def lineKey (content : Key) (terminated : Bool) : Key :=
  if terminated && content.getLast? == some 13 then content.dropLast else content

/-- rows of a list of input files (each a list of line contents with values, and whether its
last line is terminated); a file listed several times is read several times -/
def fileRows (isSet : Bool) (files : List (List (Key × Nat) × Bool)) : List (Key × Nat) :=
  files.flatMap fun (rows, lastTerminated) =>
    rows.zipIdx.map fun ((k, v), i) =>
      if isSet then (lineKey k (lastTerminated || i + 1 != rows.length), v) else (k, v)

end Fst
