import FstVerif.Model.Node
import FstVerif.Model.Registry
/-
Mirror of `src/raw/build.rs` as a pure state machine. The writer is abstracted
to the list of `write_all` buffers issued (`out`, newest first) and the byte
count; `Model/Sink.lean` runs those buffers through a scripted `io::Write`.
-/
namespace Fst

/-- `BuilderNodeUnfinished` -/
structure UNode where
  node : BNode
  last : Option (UInt8 × Nat)
deriving DecidableEq, Repr, Inhabited

inductive BErr
  | duplicateKey (got : Key)
  | outOfOrder (prev got : Key)
  | panic (tag : String)
deriving DecidableEq, Repr, Inhabited

/-- what was emitted for one node: its address, content and the buffers written -/
structure Emit where
  addr : Nat
  node : BNode
  chunks : List (List UInt8)
deriving Repr, Inhabited

structure BState where
  count : Nat                 -- `wtr.count()`
  out : List Emit             -- emitted nodes, newest first
  stack : List UNode          -- `unfinished.stack`, root first
  reg : Registry
  last : Option Key
  lastAddr : Nat
  len : Nat
deriving Repr, Inhabited

def VERSION : Nat := Gen.VERSION

/-- `Builder::new_type` (the two header writes are `headerChunks`) -/
def BState.new (rows cols : Nat) : BState :=
  { count := 16, out := [], stack := [⟨BNode.empty, none⟩], reg := Registry.new rows cols,
    last := none, lastAddr := NONE_ADDRESS, len := 0 }

def headerChunks (ty : Nat) : List (List UInt8) := [u64le VERSION, u64le ty]

/-! ### node encoder as the list of `write_all` buffers -/

def compileOTNc (input : UInt8) : List (List UInt8) :=
  let ci := commonIdx input 63
  (if ci = 0 then [[input]] else []) ++ [[UInt8.ofNat (0b11000000 + ci)]]

def compileOTc (addr : Nat) (t : Tr) : List (List UInt8) :=
  let osize := if t.out = 0 then 0 else packSize t.out
  let d := deltaVal addr t.addr
  let tsize := packSize d
  let ci := commonIdx t.inp 63
  (if t.out = 0 then [] else [packIn t.out osize]) ++ [packIn d tsize]
    ++ [[UInt8.ofNat (tsize * 16 + osize)]]
    ++ (if ci = 0 then [[t.inp]] else []) ++ [[UInt8.ofNat (0b10000000 + ci)]]

def compileAnyc (addr : Nat) (n : BNode) : List (List UInt8) :=
  let tsize := anyTsize addr n
  let osize0 := anyOsize n
  let anyO := anyOuts n
  let osize := if anyO then osize0 else 0
  let ntrans := n.trans.length
  let rts := n.trans.reverse
  let outs :=
    if anyO then
      (if n.fin then [packIn n.fout osize0] else []) ++ rts.map (fun t => packIn t.out osize0)
    else []
  let addrs := rts.map (fun t => packIn (deltaVal addr t.addr) tsize)
  let inps := rts.map (fun t => [t.inp])
  let index := if ntrans > Gen.TRANS_INDEX_THRESHOLD then [buildIndex n.trans] else []
  let sn := if ntrans % 256 ≤ 63 then ntrans % 256 else 0
  let nbyte : List (List UInt8) :=
    if sn = 0 then [[if ntrans = 256 then 1 else UInt8.ofNat ntrans]] else []
  outs ++ addrs ++ inps ++ index ++ [[UInt8.ofNat (tsize * 16 + osize)]] ++ nbyte
    ++ [[UInt8.ofNat ((if n.fin then 64 else 0) + sn)]]

/-- `Node::compile` as buffers; `flatten` of it is `compileNode` (lemma in Proofs/Codec) -/
def compileNodeC (n : BNode) (lastAddr addr : Nat) : Option (List (List UInt8)) :=
  if n.trans.length > 256 then none
  else if isEmptyFinal n then some []
  else if n.trans.length != 1 || n.fin then some (compileAnyc addr n)
  else match n.trans with
    | [t] =>
      if t.addr = lastAddr && t.out = 0 then some (compileOTNc t.inp)
      else some (compileOTc addr t)
    | _ => none

/-! ### `Builder::compile` -/

def BState.compile (s : BState) (n : BNode) : Except BErr (BState × Nat) :=
  if isEmptyFinal n then .ok (s, EMPTY_ADDRESS) else
  let (reg', e) := s.reg.entry n
  match e with
  | .found a => .ok ({ s with reg := reg' }, a)
  | e =>
    match compileNodeC n s.lastAddr s.count with
    | none => .error (.panic "assert!(node.trans.len() <= 256)")
    | some chunks =>
      let sz := (chunks.map List.length).sum
      let addr := s.count + sz - 1
      let reg'' := match e with
        | .notFound b => reg'.insert b addr
        | _ => reg'
      .ok ({ s with reg := reg'', count := s.count + sz, lastAddr := addr,
                    out := ⟨addr, n, chunks⟩ :: s.out }, addr)

/-- `BuilderNodeUnfinished::last_compiled` then take the node -/
def UNode.freeze (u : UNode) (addr : Nat) : BNode :=
  match u.last with
  | none => u.node
  | some (b, o) => { u.node with trans := u.node.trans ++ [⟨b, o, addr⟩] }

/-- the loop of `compile_from`: compile the popped part of the stack, deepest
node first; returns the address of the first popped node -/
def BState.compileTail (s : BState) : List UNode → Except BErr (BState × Nat)
  | [] => .ok (s, NONE_ADDRESS)
  | u :: rest =>
    match s.compileTail rest with
    | .error e => .error e
    | .ok (s', a) =>
      -- `pop_empty` asserts that the deepest node has no pending transition
      if rest.isEmpty && u.last.isSome then .error (.panic "pop_empty: last.is_none()")
      else s'.compile (u.freeze a)

/-- `compile_from(istate)` -/
def BState.compileFrom (s : BState) (istate : Nat) : Except BErr BState :=
  let keep := s.stack.take (istate + 1)
  let popped := s.stack.drop (istate + 1)
  match s.compileTail popped with
  | .error e => .error e
  | .ok (s', a) =>
    -- `top_last_freeze(addr)`
    match keep.getLast? with
    | none => .error (.panic "top_last_freeze: empty stack")
    | some top => .ok { s' with stack := keep.dropLast ++ [⟨top.freeze a, none⟩] }

/-! ### unfinished-node stack operations -/

/-- `add_output_prefix` -/
def UNode.addPrefix (p : Nat) (u : UNode) : UNode :=
  { node := { fin := u.node.fin
              fout := if u.node.fin then p + u.node.fout else u.node.fout
              trans := u.node.trans.map fun t => { t with out := p + t.out } }
    last := u.last.map fun bo => (bo.1, p + bo.2) }

/-- `find_common_prefix_and_set_output`: (prefix length, remaining output, stack) -/
def cps : List UNode → Key → Nat → Nat × Nat × List UNode
  | u :: v :: rest, b :: bs, out =>
    match u.last with
    | some (b', o) =>
      if b' = b then
        let c := min o out
        let v' := if o - c ≠ 0 then v.addPrefix (o - c) else v
        let r := cps (v' :: rest) bs (out - c)
        (r.1 + 1, r.2.1, { u with last := some (b', c) } :: r.2.2)
      else (0, out, u :: v :: rest)
    | none => (0, out, u :: v :: rest)
  | stack, _, out => (0, out, stack)

/-- the fresh chain pushed by `add_suffix` after the first byte -/
def chain : Key → List UNode
  | [] => [⟨⟨true, 0, []⟩, none⟩]
  | b :: bs => ⟨BNode.empty, some (b, 0)⟩ :: chain bs

/-- `add_suffix` (acts on the top of the stack) -/
def addSuffix : List UNode → Key → Nat → List UNode
  | stack, [], _ => stack
  | [], _ :: _, _ => []
  | [u], b :: bs, out => { u with last := some (b, out) } :: chain bs
  | u :: v :: rest, b :: bs, out => u :: addSuffix (v :: rest) (b :: bs) out

/-- `set_root_output` -/
def setRootOutput : List UNode → Nat → List UNode
  | u :: rest, out => { u with node := { u.node with fin := true, fout := out } } :: rest
  | [], _ => []

/-! ### the public calls -/

/-- `check_last_key` -/
def BState.checkLastKey (s : BState) (bs : Key) (checkDupe : Bool) : Except BErr BState :=
  match s.last with
  | some last =>
    if checkDupe && bs == last then .error (.duplicateKey bs)
    else if lexLt bs last then .error (.outOfOrder last bs)
    else .ok { s with last := some bs }
  | none => .ok { s with last := some bs }

/-- `insert_output` -/
def BState.insertOutput (s : BState) (bs : Key) (out : Option Nat) : Except BErr BState :=
  if bs.isEmpty then
    .ok { s with len := 1, stack := setRootOutput s.stack (out.getD 0) }
  else
    let (prefixLen, rem, stack') := cps s.stack bs (out.getD 0)
    let s := { s with stack := stack' }
    if prefixLen = bs.length then
      if rem ≠ 0 then .error (.panic "assert!(out.is_zero())") else .ok s
    else
      match { s with len := s.len + 1 }.compileFrom prefixLen with
      | .error e => .error e
      | .ok s' => .ok { s' with stack := addSuffix s'.stack (bs.drop prefixLen) rem }

/-- `Builder::add` -/
def BState.add (s : BState) (bs : Key) : Except BErr BState :=
  match s.checkLastKey bs false with
  | .error e => .error e
  | .ok s' => s'.insertOutput bs none

/-- `Builder::insert` -/
def BState.insert (s : BState) (bs : Key) (v : Nat) : Except BErr BState :=
  match s.checkLastKey bs true with
  | .error e => .error e
  | .ok s' => s'.insertOutput bs (some v)

/-- buffers written by `into_inner` after the last node, before the checksum -/
def footerChunks (len rootAddr : Nat) : List (List UInt8) := [u64le len, u64le rootAddr]

/-- `Builder::into_inner` up to (not including) the checksum: final state and root address -/
def BState.finish (s : BState) : Except BErr (BState × Nat) :=
  match s.compileFrom 0 with
  | .error e => .error e
  | .ok s' =>
    match s'.stack with
    | [root] =>
      if root.last.isSome then .error (.panic "pop_root: last.is_none()")
      else s'.compile root.node
    | _ => .error (.panic "pop_root: stack.len() == 1")

/-- all `write_all` buffers of a finished build, in order, without the checksum -/
def BState.bodyChunks (ty : Nat) (s : BState) (rootAddr : Nat) : List (List UInt8) :=
  headerChunks ty ++ (s.out.reverse.flatMap (·.chunks)) ++ footerChunks s.len rootAddr

end Fst
