import FstVerif.Model.Basic
/-
Mirror of `src/raw/registry.rs`: rows × cols table of (addr, node) cells, each
row an MRU list; FNV-1a hash with wrapping 64-bit multiplication.
The three code paths of `RegistryCache::entry` (1, 2, n columns) all implement
"find → move to front; else overwrite the last cell's node and move it to the
front", which is what `Registry.entry` does for every width.
-/
namespace Fst

structure Cell where
  addr : Nat
  node : BNode
deriving DecidableEq, Repr, Inhabited

def Cell.none : Cell := ⟨NONE_ADDRESS, BNode.empty⟩
def Cell.isNone (c : Cell) : Bool := c.addr == NONE_ADDRESS

structure Registry where
  rows : Nat
  cols : Nat
  table : Array (List Cell)      -- `rows` buckets of `cols` cells, MRU first
  evictions : Nat                -- occupied cells overwritten (hook counter)
deriving Repr, Inhabited

def Registry.new (rows cols : Nat) : Registry :=
  { rows, cols, table := Array.replicate rows (List.replicate cols Cell.none), evictions := 0 }

def FNV_PRIME : UInt64 := 1099511628211
def FNV_INIT : UInt64 := 14695981039346656037

def fnvStep (h : UInt64) (x : Nat) : UInt64 := (h ^^^ UInt64.ofNat x) * FNV_PRIME

/-- `Registry::hash` (before the modulus) -/
def fnvNode (n : BNode) : UInt64 :=
  let h := fnvStep FNV_INIT (if n.fin then 1 else 0)
  let h := fnvStep h n.fout
  n.trans.foldl (fun h t => fnvStep (fnvStep (fnvStep h t.inp.toNat) t.out) t.addr) h

inductive REntry
  | found (addr : Nat)
  | notFound (bucket : Nat)
  | rejected
deriving DecidableEq, Repr, Inhabited

/-- move element `i` of a bucket to the front (`promote`) -/
def promote (cells : List Cell) (i : Nat) : List Cell :=
  match cells[i]? with
  | some c => c :: cells.eraseIdx i
  | none => cells

def bucketFind (cells : List Cell) (n : BNode) : Option Nat :=
  cells.findIdx? fun c => !c.isNone && c.node == n

/-- `RegistryCache::entry` on one bucket: (new bucket, found address, evicted?) -/
def bucketEntry (cells : List Cell) (n : BNode) : List Cell × Option Nat × Bool :=
  match bucketFind cells n with
  | some i => (promote cells i, (cells[i]?).map (·.addr), false)
  | none =>
    let last := cells.length - 1
    match cells[last]? with
    | some c => (promote (cells.set last { c with node := n }) last, none, !c.isNone)
    | none => (cells, none, false)

/-- `Registry::entry` -/
def Registry.entry (r : Registry) (n : BNode) : Registry × REntry :=
  if r.rows = 0 ∨ r.cols = 0 then (r, .rejected) else
  let bucket := (fnvNode n).toNat % r.rows
  let cells := r.table.getD bucket []
  let (cells', found, ev) := bucketEntry cells n
  let r' := { r with table := r.table.setIfInBounds bucket cells',
                     evictions := r.evictions + (if ev then 1 else 0) }
  match found with
  | some a => (r', .found a)
  | none => (r', .notFound bucket)

/-- `RegistryCell::insert` on the cell returned by `NotFound` (always cell 0 of the bucket) -/
def Registry.insert (r : Registry) (bucket addr : Nat) : Registry :=
  match r.table.getD bucket [] with
  | c :: cs => { r with table := r.table.setIfInBounds bucket ({ c with addr := addr } :: cs) }
  | [] => r

/-- Σ cached transitions (part of the footprint, C13) -/
def Registry.footprint (r : Registry) : Nat :=
  r.table.foldl (fun acc b => b.foldl (fun a c => a + c.node.trans.length) acc) 0

end Fst
