import FstVerif.Model.Basic
/-
Text helpers of the line protocol (hex, numbers, digests). Not part of any theorem.
-/
namespace Fst.Text

def hexDigit (n : Nat) : Char :=
  if n < 10 then Char.ofNat (48 + n) else Char.ofNat (87 + n)

def hexOfBytes (bs : List UInt8) : String :=
  if bs.isEmpty then "_" else
  String.ofList (bs.flatMap fun b => [hexDigit (b.toNat / 16), hexDigit (b.toNat % 16)])

def hexOfArray (bs : Array UInt8) : String :=
  if bs.isEmpty then "_" else
  String.ofList (bs.foldr (fun b acc => hexDigit (b.toNat / 16) :: hexDigit (b.toNat % 16) :: acc) [])

def hexVal (c : Char) : Option Nat :=
  if '0' ≤ c ∧ c ≤ '9' then some (c.toNat - 48)
  else if 'a' ≤ c ∧ c ≤ 'f' then some (c.toNat - 87)
  else if 'A' ≤ c ∧ c ≤ 'F' then some (c.toNat - 55)
  else none

def bytesOfHexChars : List Char → Option (List UInt8)
  | [] => some []
  | a :: b :: rest =>
    match hexVal a, hexVal b, bytesOfHexChars rest with
    | some x, some y, some r => some (UInt8.ofNat (x * 16 + y) :: r)
    | _, _, _ => none
  | _ => none

def bytesOfHex (s : String) : Option (List UInt8) :=
  if s == "_" then some [] else bytesOfHexChars s.toList

/-- tail-recursive variant for long inputs -/
def arrayOfHex (s : String) : Option (Array UInt8) :=
  if s == "_" then some #[] else
  let rec go (cs : List Char) (acc : Array UInt8) : Option (Array UInt8) :=
    match cs with
    | [] => some acc
    | a :: b :: rest =>
      match hexVal a, hexVal b with
      | some x, some y => go rest (acc.push (UInt8.ofNat (x * 16 + y)))
      | _, _ => none
    | _ => none
  go s.toList (Array.mkEmpty (s.length / 2))

/-- FNV-1a 64 over bytes (digest of large outputs) -/
def fnv64 (bs : Array UInt8) : UInt64 :=
  bs.foldl (fun h b => (h ^^^ b.toUInt64) * 1099511628211) 14695981039346656037

def hex64 (x : UInt64) : String :=
  String.ofList ((List.range 16).reverse.map fun i => hexDigit ((x.toNat / 16 ^ i) % 16))

def splitOn (s : String) (sep : String) : List String :=
  if s.isEmpty then [] else s.splitOn sep

end Fst.Text
