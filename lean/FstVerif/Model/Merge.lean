import FstVerif.Model.Ops
/-
Data flow of `fst-bin/src/merge.rs` (unsorted `fst set` / `fst map`): rows →
consecutive batches → `KvBatch` → generations of `UnionBatch` over groups of
`fd_limit` results, until one result remains. Threads and channels are not
modelled: the only thing scheduling can change is the *order* in which a
generation's results are collected, which is the parameter `sched`.
-/
namespace Fst

inductive MergeMode | set | sum | max | min
deriving Repr, DecidableEq, Inhabited

/-- the `value_merger` closure (`None` for sets) -/
def MergeMode.op : MergeMode → Nat → Nat → Nat
  | .set, _, _ => 0
  | .sum, x, y => x + y
  | .max, x, y => Nat.max x y
  | .min, x, y => Nat.min x y

/-- merge of a non-empty list of values for one key -/
def MergeMode.fold (m : MergeMode) : List Nat → Nat
  | [] => 0
  | v :: vs => if m = .set then 0 else vs.foldl m.op v

/-- the loop of `batcher`: consecutive chunks of `n` (the last may be shorter) -/
def batches {α : Type} (n : Nat) : Nat → List α → List (List α)
  | 0, _ => []
  | fuel+1, xs =>
    if xs.isEmpty then [] else
    -- `batch.len() >= batch_size` is tested after each push, so a batch size of 0
    -- behaves like 1: every item is its own batch
    xs.take (max n 1) :: batches n fuel (xs.drop (max n 1))

/-- insertion of a row into a list sorted by `(key, value)` (the effect of `kvs.sort()`) -/
def insertRow (r : Key × Nat) : List (Key × Nat) → List (Key × Nat)
  | [] => [r]
  | x :: xs =>
    if lexLt r.1 x.1 || (r.1 == x.1 && r.2 ≤ x.2) then r :: x :: xs else x :: insertRow r xs

def sortRows (rows : List (Key × Nat)) : List (Key × Nat) := rows.foldr insertRow []

/-- group consecutive equal keys of a sorted row list and merge their values -/
def groupMerge (m : MergeMode) : List (Key × Nat) → List (Key × List Nat) → KV
  | [], acc => (acc.map fun (k, vs) => (k, m.fold vs.reverse)).reverse
  | (k, v) :: rest, [] => groupMerge m rest [(k, [v])]
  | (k, v) :: rest, (k', vs) :: acc =>
    if k == k' then groupMerge m rest ((k', v :: vs) :: acc)
    else groupMerge m rest ((k, [v]) :: (k', vs) :: acc)

/-- `KvBatch::create_fst`: content of the FST written for one batch -/
def kvBatch (m : MergeMode) (rows : List (Key × Nat)) : KV :=
  groupMerge m (sortRows rows) []

/-- `UnionBatch::create_fst`: content of the FST written for one group -/
def unionBatch (m : MergeMode) (fsts : List KV) : KV :=
  match opCollect popMin .union fsts with
  | some items => items.map fun (k, outs) => (k, m.fold (outs.map (·.value)))
  | none => []

/-- the `while results.len() > 1` loop; `sched g xs` is the order in which
generation `g` hands back its results. `none` = no progress (fd_limit ≤ 1). -/
def mergeGens (m : MergeMode) (fd : Nat) (sched : Nat → List KV → List KV) :
    Nat → Nat → List KV → Option KV
  | _, _, [] => some []
  | _, _, [r] => some r
  | 0, _, _ => none
  | fuel+1, g, results =>
    let groups := batches fd (results.length + 1) results
    mergeGens m fd sched fuel (g + 1) (sched (g + 1) (groups.map (unionBatch m)))

/-- `Merger::merge` as a function of the rows -/
def mergeAll (m : MergeMode) (batchSize fd : Nat) (sched : Nat → List KV → List KV)
    (rows : List (Key × Nat)) : Option KV :=
  let bs := batches batchSize (rows.length + 1) rows
  let results := sched 0 (bs.map (kvBatch m))
  mergeGens m fd sched (results.length + 1) 0 results

end Fst
