import FstVerif.Model.Stream
import FstVerif.Model.Ops
/-
Mirror of the thin public wrapper layer in `src/map.rs` and `src/set.rs`
(`Map`, `Set`, their `Stream` / `StreamWithState` / `Keys` / `Values` streams,
the `StreamBuilder` setters, the collectors, `map::OpBuilder` /
`set::OpBuilder` with the adaptors `StreamOutput` / `StreamZeroOutput`, and
`Set::is_disjoint` / `is_subset` / `is_superset`).

Like in `Model/Ops.lean` a stream is modelled by the list of items it yields
until it returns `None`. Every wrapper `next` is `inner.next().map(f)`, so the
wrapper stream is `List.map f` of the inner one; the collectors are push loops.
`Output::value` / `Output::new` are the identity (`Output` is `Nat` in the model).
-/
namespace Fst.Wrap

variable {N σ : Type}

/-! ## `raw::Stream` and its collectors (`src/raw/mod.rs`) -/

/-- `impl Streamer for raw::Stream`: `self.0.next_with(|_| ()).map(|(key, out, _)| (key, out))`
(a `raw::StreamWithState` with the state dropped) -/
def rawStream (items : List (Key × Nat × σ)) : List (Key × Nat) :=
  items.map fun (key, out, _) => (key, out)

/-- `raw::Stream::into_byte_vec`: `while let Some((k, v)) = self.next() { vs.push((k.to_vec(), v.value())) }` -/
def rawIntoByteVec (raw : List (Key × Nat)) : List (Key × Nat) :=
  raw.foldl (fun vs (k, v) => vs ++ [(k, v)]) []

/-- `raw::Stream::into_byte_keys`: `while let Some((k, _)) = self.next() { vs.push(k.to_vec()) }` -/
def rawIntoByteKeys (raw : List (Key × Nat)) : List Key :=
  raw.foldl (fun vs (k, _) => vs ++ [k]) []

/-- `raw::Stream::into_values`: `while let Some((_, v)) = self.next() { vs.push(v.value()) }` -/
def rawIntoValues (raw : List (Key × Nat)) : List Nat :=
  raw.foldl (fun vs (_, v) => vs ++ [v]) []

/-! ## `src/map.rs`: streams -/

/-- `impl Streamer for map::StreamWithState`:
`self.0.next().map(|(key, out, state)| (key, out.value(), state))` over a `raw::StreamWithState` -/
def mapStreamWithState (items : List (Key × Nat × σ)) : List (Key × Nat × σ) :=
  items.map fun (key, out, state) => (key, out, state)

/-- `impl Streamer for map::Stream`: `self.0.next().map(|(key, out)| (key, out.value()))`
over a `raw::Stream` -/
def mapStream (raw : List (Key × Nat)) : List (Key × Nat) :=
  raw.map fun (key, out) => (key, out)

/-- `impl Streamer for map::Keys`: `self.0.next().map(|(key, _)| key)` -/
def mapKeys (raw : List (Key × Nat)) : List Key :=
  raw.map fun (key, _) => key

/-- `impl Streamer for map::Values`: `self.0.next().map(|(_, out)| out.value())` -/
def mapValues (raw : List (Key × Nat)) : List Nat :=
  raw.map fun (_, out) => out

/-- `map::Stream::into_byte_vec`: `self.0.into_byte_vec()` -/
def intoByteVec (raw : List (Key × Nat)) : List (Key × Nat) := rawIntoByteVec raw

/-- `map::Stream::into_byte_keys`: `self.0.into_byte_keys()` -/
def intoByteKeys (raw : List (Key × Nat)) : List Key := rawIntoByteKeys raw

/-- `map::Stream::into_values`: `self.0.into_values()` -/
def intoValues (raw : List (Key × Nat)) : List Nat := rawIntoValues raw

/-! ## `src/set.rs`: streams -/

/-- `impl Streamer for set::Stream`: `self.0.next().map(|(key, _)| key)` over a `raw::Stream` -/
def setStream (raw : List (Key × Nat)) : List Key :=
  raw.map fun (key, _) => key

/-- `impl Streamer for set::StreamWithState`: `self.0.next().map(|(key, _, state)| (key, state))`
over a `raw::StreamWithState` -/
def setStreamWithState (items : List (Key × Nat × σ)) : List (Key × σ) :=
  items.map fun (key, _, state) => (key, state)

/-- `set::Stream::into_bytes`: `self.0.into_byte_keys()` -/
def intoBytes (raw : List (Key × Nat)) : List Key := rawIntoByteKeys raw

/-! ## queries: `range()` / `search(aut)` / `search_with_state(aut)`, the `ge/gt/le/lt` setters
(`RangeSpec.ge` … in `Model/Stream.lean`; `map::StreamBuilder::ge` is `StreamBuilder(self.0.ge(bound))`)
and `into_stream()`, drained. `none` = panic or out of fuel. -/

/-- `raw::StreamBuilder::into_stream` / `raw::StreamWithStateBuilder::into_stream`
(`StreamWithState::new(fst, aut, min, max)`), drained: the items of the `raw::StreamWithState` -/
def rawQuery (acc : NodeAccess N) (A : Aut σ) (root : Nat) (rs : RangeSpec) (fuel : Nat) :
    Option (List (Key × Nat × σ)) :=
  match streamNew acc A root rs.min rs.max with
  | none => none
  | some s0 => streamCollect acc A root fuel s0 []

/-- `Map::search(aut)` + setters + `map::StreamBuilder::into_stream`: `Stream(self.0.into_stream())` -/
def mapSearch (acc : NodeAccess N) (A : Aut σ) (root : Nat) (rs : RangeSpec) (fuel : Nat) :
    Option (List (Key × Nat)) :=
  (rawQuery acc A root rs fuel).map fun items => mapStream (rawStream items)

/-- `Map::search_with_state(aut)` + setters + `map::StreamWithStateBuilder::into_stream` -/
def mapSearchWithState (acc : NodeAccess N) (A : Aut σ) (root : Nat) (rs : RangeSpec) (fuel : Nat) :
    Option (List (Key × Nat × σ)) :=
  (rawQuery acc A root rs fuel).map mapStreamWithState

/-- `Map::range()` (`self.0.range()`: the automaton is `AlwaysMatch`) + setters + `into_stream` -/
def mapRange (acc : NodeAccess N) (root : Nat) (rs : RangeSpec) (fuel : Nat) :
    Option (List (Key × Nat)) :=
  mapSearch acc autAlways root rs fuel

/-- `Map::stream()`: `Stream(self.0.stream())`, the unbounded range -/
def mapAll (acc : NodeAccess N) (root : Nat) (fuel : Nat) : Option (List (Key × Nat)) :=
  mapRange acc root {} fuel

/-- `Map::keys()`: `Keys(self.0.stream())` -/
def mapAllKeys (acc : NodeAccess N) (root : Nat) (fuel : Nat) : Option (List Key) :=
  (rawQuery acc autAlways root {} fuel).map fun items => mapKeys (rawStream items)

/-- `Map::values()`: `Values(self.0.stream())` -/
def mapAllValues (acc : NodeAccess N) (root : Nat) (fuel : Nat) : Option (List Nat) :=
  (rawQuery acc autAlways root {} fuel).map fun items => mapValues (rawStream items)

/-- `Set::search(aut)` + setters + `set::StreamBuilder::into_stream`: `Stream(self.0.into_stream())` -/
def setSearch (acc : NodeAccess N) (A : Aut σ) (root : Nat) (rs : RangeSpec) (fuel : Nat) :
    Option (List Key) :=
  (rawQuery acc A root rs fuel).map fun items => setStream (rawStream items)

/-- `Set::search_with_state(aut)` + setters + `set::StreamWithStateBuilder::into_stream` -/
def setSearchWithState (acc : NodeAccess N) (A : Aut σ) (root : Nat) (rs : RangeSpec) (fuel : Nat) :
    Option (List (Key × σ)) :=
  (rawQuery acc A root rs fuel).map setStreamWithState

/-- `Set::range()` + setters + `into_stream` -/
def setRange (acc : NodeAccess N) (root : Nat) (rs : RangeSpec) (fuel : Nat) : Option (List Key) :=
  setSearch acc autAlways root rs fuel

/-- `Set::stream()`: `Stream(self.0.stream())` -/
def setAll (acc : NodeAccess N) (root : Nat) (fuel : Nat) : Option (List Key) :=
  setRange acc root {} fuel

/-! ## set operations -/

/-- `StreamOutput` (bottom of `src/map.rs`): `self.0.next().map(|(k, v)| (k, raw::Output::new(v)))` -/
def withOutput (s : KV) : KV :=
  s.map fun (k, v) => (k, v)

/-- `StreamZeroOutput` (bottom of `src/set.rs`): `self.0.next().map(|key| (key, raw::Output::zero()))` -/
def zeroOutput (s : List Key) : KV :=
  s.map fun key => (key, 0)

/-- `map::OpBuilder`: `push` wraps every stream in `StreamOutput`; `union()` / `intersection()` /
`difference()` / `symmetric_difference()` wrap the raw operation, whose `next` is passed through
unchanged (`impl Streamer for map::Union`: `self.0.next()`). Drained. -/
def mapOp (pop : PopFn) (kind : OpKind) (streams : List KV) :
    Option (List (Key × List IndexedValue)) :=
  opCollect pop kind (streams.map withOutput)

/-- `set::OpBuilder`: `push` wraps every stream in `StreamZeroOutput`; the result streams drop the
`IndexedValue` slice (`impl Streamer for set::Union`: `self.0.next().map(|(key, _)| key)`). Drained. -/
def setOp (pop : PopFn) (kind : OpKind) (streams : List (List Key)) : Option (List Key) :=
  (opCollect pop kind (streams.map zeroOutput)).map fun items => items.map fun (key, _) => key

/-- `Set::is_disjoint`: `self.0.is_disjoint(StreamZeroOutput(stream.into_stream()))`; `self` = the
entries of the wrapped FST (`Set: From<raw::Fst>` accepts any FST, so its outputs are arbitrary),
`stream` = the items of the argument -/
def setIsDisjointFst (pop : PopFn) (self : KV) (stream : List Key) : Bool :=
  isDisjoint pop self (zeroOutput stream)

/-- `Set::is_subset`: `self.0.is_subset(StreamZeroOutput(stream.into_stream()))` -/
def setIsSubsetFst (pop : PopFn) (self : KV) (stream : List Key) : Bool :=
  isSubset pop self (zeroOutput stream)

/-- `Set::is_superset`: `self.0.is_superset(StreamZeroOutput(stream.into_stream()))` -/
def setIsSupersetFst (pop : PopFn) (self : KV) (stream : List Key) : Bool :=
  isSuperset pop self (zeroOutput stream)

/-- `Set::is_disjoint` for a set built by `SetBuilder` (every output is 0): `a` = the keys of `self` -/
def setIsDisjoint (pop : PopFn) (a b : List Key) : Bool := setIsDisjointFst pop (zeroOutput a) b

/-- `Set::is_subset` for a set built by `SetBuilder` -/
def setIsSubset (pop : PopFn) (a b : List Key) : Bool := setIsSubsetFst pop (zeroOutput a) b

/-- `Set::is_superset` for a set built by `SetBuilder` -/
def setIsSuperset (pop : PopFn) (a b : List Key) : Bool := setIsSupersetFst pop (zeroOutput a) b

end Fst.Wrap
