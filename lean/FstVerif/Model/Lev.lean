import FstVerif.Model.Aut
/-
Mirror of `src/automaton/levenshtein.rs`: the capped DP row
(`DynamicLevenshtein`), the DFA construction (`DfaBuilder`) and the resulting
byte automaton. `Utf8Sequences::new` is external (utf8-ranges crate): its
result for `(0, 0x10FFFF)` is the parameter `full` (dumped from the real crate
on every run), its result for `(c, c)` is the UTF-8 encoding of `c`.
-/
namespace Fst

/-- UTF-8 encoding of a scalar value -/
def utf8Enc (c : Nat) : List UInt8 :=
  if c < 0x80 then [UInt8.ofNat c]
  else if c < 0x800 then [UInt8.ofNat (0xC0 + c / 64), UInt8.ofNat (0x80 + c % 64)]
  else if c < 0x10000 then
    [UInt8.ofNat (0xE0 + c / 4096), UInt8.ofNat (0x80 + (c / 64) % 64), UInt8.ofNat (0x80 + c % 64)]
  else
    [UInt8.ofNat (0xF0 + c / 262144), UInt8.ofNat (0x80 + (c / 4096) % 64),
     UInt8.ofNat (0x80 + (c / 64) % 64), UInt8.ofNat (0x80 + c % 64)]

/-- `DynamicLevenshtein` over scalar values -/
structure DynLev where
  query : List Nat
  dist : Nat
deriving Repr, Inhabited

def DynLev.start (l : DynLev) : List Nat := List.range (l.query.length + 1)

def DynLev.isMatch (l : DynLev) (st : List Nat) : Bool :=
  match st.getLast? with
  | some n => n ≤ l.dist
  | none => false

def DynLev.canMatch (l : DynLev) (st : List Nat) : Bool :=
  match st.min? with
  | some n => n ≤ l.dist
  | none => false

/-- the `for (i, c) in query.chars().enumerate()` loop of `accept`:
`prev` = `next[i]`, `st` = `state[i..]` -/
def dynRow (dist : Nat) (chr : Option Nat) : List Nat → Nat → List Nat → List Nat
  | c :: q, prev, si :: si1 :: st =>
    let cost := if some c = chr then 0 else 1
    let v := min (min (prev + 1) (si1 + 1)) (si + cost)
    let v := min v (dist + 1)
    v :: dynRow dist chr q v (si1 :: st)
  | _, _, _ => []

/-- `DynamicLevenshtein::accept` (Rust indexes `state[0]`: an empty state panics; never built) -/
def DynLev.accept (l : DynLev) (st : List Nat) (chr : Option Nat) : List Nat :=
  match st with
  | [] => []
  | s0 :: _ => (s0 + 1) :: dynRow l.dist chr l.query (s0 + 1) st

/-- a DFA state: 256 transitions and the match flag -/
structure DState where
  next : Array (Option Nat)
  isMatch : Bool
deriving Repr, Inhabited

def DState.fresh (m : Bool) : DState := ⟨Array.replicate 256 none, m⟩

structure DfaB where
  states : Array DState
  cache : List (List Nat × Nat)
deriving Repr, Inhabited

/-- `DfaBuilder::cached` -/
def DfaB.cached (l : DynLev) (b : DfaB) (st : List Nat) : DfaB × Option (Nat × Bool) :=
  if !l.canMatch st then (b, none) else
  match b.cache.lookup st with
  | some si => (b, some (si, true))
  | none =>
    let si := b.states.size
    ({ states := b.states.push (DState.fresh (l.isMatch st)), cache := (st, si) :: b.cache },
     some (si, false))

def DfaB.newState (b : DfaB) (m : Bool) : DfaB × Nat :=
  ({ b with states := b.states.push (DState.fresh m) }, b.states.size)

/-- `add_utf8_range` over the inclusive byte range `lo..=hi` -/
def DfaB.addRange (b : DfaB) (overwrite : Bool) (frm to lo hi : Nat) : DfaB :=
  match b.states[frm]? with
  | none => b
  | some s =>
    let next := (List.range (hi + 1 - lo)).foldl (fun (nx : Array (Option Nat)) k =>
      let i := lo + k
      if overwrite || (nx.getD i none).isNone then nx.setIfInBounds i (some to) else nx) s.next
    { b with states := b.states.setIfInBounds frm { s with next := next } }

/-- one sequence of `add_utf8_sequences`: ranges `(lo, hi)`; intermediate states are fresh;
when overwriting, a fresh intermediate state starts as a copy of the state it replaces. -/
def DfaB.addSeq (b : DfaB) (overwrite : Bool) (fsi to : Nat) : List (Nat × Nat) → DfaB
  | [] => b
  | [(lo, hi)] => b.addRange overwrite fsi to lo hi
  | (lo, hi) :: rest =>
    let (b1, tsi) := b.newState false
    let old : Option Nat := if overwrite then ((b1.states[fsi]?).bind fun s => s.next.getD lo none) else none
    let b2 := match old.bind (fun o => b1.states[o]?) with
      | some os => { b1 with states := b1.states.modify tsi fun t => { t with next := os.next } }
      | none => b1
    let b3 := b2.addRange overwrite fsi tsi lo hi
    b3.addSeq overwrite tsi to rest

def DfaB.addSeqs (b : DfaB) (overwrite : Bool) (frm to : Nat) (seqs : List (List (Nat × Nat))) : DfaB :=
  seqs.foldl (fun b seq => b.addSeq overwrite frm to seq) b

inductive LevErr | tooManyStates (limit : Nat)
deriving Repr, Inhabited, DecidableEq

structure LevWork where
  b : DfaB
  stack : List (List Nat)
  seen : List Nat
deriving Repr, Inhabited

/-- the body of the `while let Some(lev_state) = stack.pop()` loop -/
def levStep (l : DynLev) (full : List (List (Nat × Nat))) (w : LevWork) (levState : List Nat) : LevWork :=
  let (b, c) := w.b.cached l levState
  match c with
  | none => { w with b := b }    -- Rust: `.unwrap()` panics; unreachable (only matchable states are pushed)
  | some (dfaSi, _) =>
    -- add_mismatch_utf8_states
    let mm := l.accept levState none
    let (b, c2) := b.cached l mm
    let (b, stack, seen) := match c2 with
      | none => (b, w.stack, w.seen)
      | some (toSi, _) =>
        let b := b.addSeqs false dfaSi toSi full
        if w.seen.contains toSi then (b, w.stack, w.seen)
        else (b, mm :: w.stack, toSi :: w.seen)
    -- for (i, c) in query.chars().enumerate()
    let r := (l.query.zipIdx).foldl (fun (acc : DfaB × List (List Nat) × List Nat) (ci : Nat × Nat) =>
      let (b, stack, seen) := acc
      let (c, i) := ci
      if levState.getD i 0 > l.dist then acc else
      let nx := l.accept levState (some c)
      let (b, c3) := b.cached l nx
      match c3 with
      | none => (b, stack, seen)
      | some (nextSi, _) =>
        let b := b.addSeq true dfaSi nextSi ((utf8Enc c).map fun x => (x.toNat, x.toNat))
        if seen.contains nextSi then (b, stack, seen) else (b, nx :: stack, nextSi :: seen)) (b, stack, seen)
    { b := r.1, stack := r.2.1, seen := r.2.2 }

/-- `build_with_limit` -/
def levBuild (l : DynLev) (full : List (List (Nat × Nat))) (limit : Nat) :
    Nat → LevWork → Option (Except LevErr (Array DState))
  | 0, _ => none
  | fuel+1, w =>
    match w.stack with
    | [] => some (.ok w.b.states)
    | st :: rest =>
      let w' := levStep l full { w with stack := rest } st
      if w'.b.states.size > limit then some (.error (.tooManyStates limit))
      else levBuild l full limit fuel w'

def levNew (query : List Nat) (dist : Nat) (full : List (List (Nat × Nat))) (limit : Nat) (fuel : Nat) :
    Option (Except LevErr (Array DState)) :=
  let l : DynLev := ⟨query, dist⟩
  levBuild l full limit fuel { b := ⟨#[], []⟩, stack := [l.start], seen := [] }

/-- `impl Automaton for Levenshtein` -/
def levAut (states : Array DState) : Aut (Option Nat) where
  start := some 0
  isMatch := fun s => match s with
    | some i => (states[i]?).map (·.isMatch) |>.getD false
    | none => false
  canMatch := fun s => s.isSome
  willAlwaysMatch := fun _ => false
  accept := fun s b => match s with
    | some i => (states[i]?).bind fun st => st.next.getD b.toNat none
    | none => none

end Fst
