import FstVerif.Gen.Tables
import FstVerif.Model.Bytes
/-
Mirror of `src/raw/node.rs`: the node encoder (`Node::compile` and the three
state encoders) and the node reader (`Node::new`, `transition`,
`transition_addr`, `find_input`, ...), with the same index arithmetic.
-/
namespace Fst

/-! ### common inputs (`common_idx`, `common_input`) -/

def commonInputsA : Array Nat := Gen.COMMON_INPUTS.toArray
def commonInputsInvA : Array Nat := Gen.COMMON_INPUTS_INV.toArray

/-- `common_idx(input, max)` -/
def commonIdx (input : UInt8) (max : Nat) : Nat :=
  let val := (commonInputsA.getD input.toNat 0 + 1) % 256
  if val > max then 0 else val

/-- `common_input(idx)` -/
def commonInput (idx : Nat) : Option UInt8 :=
  if idx = 0 then none else some (UInt8.ofNat (commonInputsInvA.getD (idx - 1) 0))

/-! ### encoder -/

/-- the delta stored for a transition target (`pack_delta_in`) -/
def deltaVal (nodeAddr transAddr : Nat) : Nat :=
  if transAddr = EMPTY_ADDRESS then EMPTY_ADDRESS else nodeAddr - transAddr

/-- `StateOneTransNext::compile` -/
def compileOTN (input : UInt8) : List UInt8 :=
  let ci := commonIdx input 63
  (if ci = 0 then [input] else []) ++ [UInt8.ofNat (0b11000000 + ci)]

/-- `StateOneTrans::compile` -/
def compileOT (addr : Nat) (t : Tr) : List UInt8 :=
  let osize := if t.out = 0 then 0 else packSize t.out
  let d := deltaVal addr t.addr
  let tsize := packSize d
  let ci := commonIdx t.inp 63
  packIn t.out osize ++ packIn d tsize ++ [UInt8.ofNat (tsize * 16 + osize)]
    ++ (if ci = 0 then [t.inp] else []) ++ [UInt8.ofNat (0b10000000 + ci)]

/-- the 256-entry transition index (`index[t.inp] = i`) -/
def buildIndex (ts : List Tr) : List UInt8 :=
  (List.range 256).map fun b =>
    match (ts.zipIdx.filter fun p => p.1.inp.toNat = b).getLast? with
    | some p => UInt8.ofNat p.2
    | none => 255

def anyTsize (addr : Nat) (n : BNode) : Nat :=
  n.trans.foldl (fun m t => max m (packSize (deltaVal addr t.addr))) 0
def anyOsize (n : BNode) : Nat :=
  n.trans.foldl (fun m t => max m (packSize t.out)) (packSize n.fout)
def anyOuts (n : BNode) : Bool :=
  n.fout != 0 || n.trans.any (fun t => t.out != 0)

/-- `StateAnyTrans::compile` -/
def compileAny (addr : Nat) (n : BNode) : List UInt8 :=
  let tsize := anyTsize addr n
  let osize0 := anyOsize n
  let anyO := anyOuts n
  let osize := if anyO then osize0 else 0
  let ntrans := n.trans.length
  let rts := n.trans.reverse
  let outs :=
    if anyO then
      (if n.fin then packIn n.fout osize0 else []) ++ rts.flatMap (fun t => packIn t.out osize0)
    else []
  let addrs := rts.flatMap (fun t => packIn (deltaVal addr t.addr) tsize)
  let inps := rts.map (·.inp)
  let index := if ntrans > Gen.TRANS_INDEX_THRESHOLD then buildIndex n.trans else []
  let sn := if ntrans % 256 ≤ 63 then ntrans % 256 else 0
  let nbyte : List UInt8 :=
    if sn = 0 then [if ntrans = 256 then 1 else UInt8.ofNat ntrans] else []
  outs ++ addrs ++ inps ++ index ++ [UInt8.ofNat (tsize * 16 + osize)] ++ nbyte
    ++ [UInt8.ofNat ((if n.fin then 64 else 0) + sn)]

def isEmptyFinal (n : BNode) : Bool := n.fin && n.trans.isEmpty && n.fout == 0

/-- `Node::compile` = `BuilderNode::compile_to` (the bytes written). The Rust
`assert!(node.trans.len() <= 256)` is the caller's obligation (`none`). -/
def compileNode (n : BNode) (lastAddr addr : Nat) : Option (List UInt8) :=
  if n.trans.length > 256 then none
  else if isEmptyFinal n then some []
  else if n.trans.length != 1 || n.fin then some (compileAny addr n)
  else match n.trans with
    | [t] =>
      if t.addr = lastAddr && t.out = 0 then some (compileOTN t.inp)
      else some (compileOT addr t)
    | _ => none

/-! ### reader -/

inductive NKind | otn | ot | any | emptyFinal
deriving DecidableEq, Repr, Inhabited

/-- the eagerly computed fields of `Node<'f>` -/
structure RNode where
  version : Nat
  kind : NKind
  sb : Nat            -- state byte
  start : Nat         -- address of the node (its last byte)
  end_ : Nat          -- address of its first byte
  fin : Bool
  ntrans : Nat
  tsize : Nat
  osize : Nat
  fout : Nat
deriving Repr, Inhabited

def RNode.emptyFinal (v : Nat) : RNode :=
  { version := v, kind := .emptyFinal, sb := 0, start := 0, end_ := 0, fin := true,
    ntrans := 0, tsize := 0, osize := 0, fout := 0 }

/-- `unpack_uint(&data[i..], n)` with its `assert!(1 <= n && n <= 8)` -/
def Src.unpackChecked (d : Src) (i n : Nat) : Option Nat :=
  if 1 ≤ n ∧ n ≤ 8 then d.unpackAt i n else none

def indexSize (version ntrans : Nat) : Nat :=
  if version ≥ 2 ∧ ntrans > Gen.TRANS_INDEX_THRESHOLD then 256 else 0

/-- `Node::new(version, addr, data)`; `none` = the Rust code indexes out of bounds. -/
def nodeNew (version : Nat) (d : Src) (addr : Nat) : Option RNode :=
  if addr = EMPTY_ADDRESS then some (RNode.emptyFinal version) else
  match d.get addr with
  | none => none
  | some vb =>
    let v := vb.toNat
    let top := v / 64
    if top = 3 then
      let ilen := if (commonInput (v % 64)).isNone then 1 else 0
      some { version, kind := .otn, sb := v, start := addr, end_ := addr - ilen, fin := false,
             ntrans := 1, tsize := 0, osize := 0, fout := 0 }
    else if top = 2 then
      let ilen := if (commonInput (v % 64)).isNone then 1 else 0
      match d.get (addr - ilen - 1) with
      | none => none
      | some sz =>
        let tsize := sz.toNat / 16
        let osize := sz.toNat % 16
        some { version, kind := .ot, sb := v, start := addr,
               end_ := addr - ilen - 1 - tsize - osize, fin := false,
               ntrans := 1, tsize, osize, fout := 0 }
    else
      let sn := v % 64
      let nlen := if sn = 0 then 1 else 0
      match d.get (addr - nlen - 1) with
      | none => none
      | some sz =>
        let tsize := sz.toNat / 16
        let osize := sz.toNat % 16
        let ntransO : Option Nat :=
          if sn ≠ 0 then some sn else
            match d.get (addr - 1) with
            | none => none
            | some nb => some (if nb.toNat = 1 then 256 else nb.toNat)
        match ntransO with
        | none => none
        | some ntrans =>
          let fin := (v / 64) % 2 = 1
          let total := ntrans + ntrans * tsize + indexSize version ntrans
          let finalOsize := if fin then osize else 0
          let endA := addr - nlen - 1 - total - ntrans * osize - finalOsize
          let foutO : Option Nat :=
            if osize = 0 ∨ !fin then some 0
            else d.unpackChecked (addr - nlen - 1 - total - ntrans * osize - osize) osize
          match foutO with
          | none => none
          | some fout =>
            some { version, kind := .any, sb := v, start := addr, end_ := endA, fin,
                   ntrans, tsize, osize, fout }

def RNode.ilen (n : RNode) : Nat := if (commonInput (n.sb % 64)).isNone then 1 else 0
def RNode.nlen (n : RNode) : Nat := if n.sb % 64 = 0 then 1 else 0

/-- `unpack_delta(&data[i..], tsize, node.end)` -/
def unpackDelta (d : Src) (i tsize nodeEnd : Nat) : Option Nat :=
  (d.unpackChecked i tsize).map fun delta => if delta = EMPTY_ADDRESS then EMPTY_ADDRESS else nodeEnd - delta

def RNode.input (d : Src) (n : RNode) (i : Nat) : Option UInt8 :=
  match n.kind with
  | .otn | .ot =>
    if i ≠ 0 then none else
    match commonInput (n.sb % 64) with
    | some b => some b
    | none => d.get (n.start - 1)
  | .any => d.get (n.start - n.nlen - 1 - indexSize n.version n.ntrans - i - 1)
  | .emptyFinal => none

def RNode.output (d : Src) (n : RNode) (i : Nat) : Option Nat :=
  match n.kind with
  | .otn => if i ≠ 0 then none else some 0
  | .ot =>
    if i ≠ 0 then none else
    if n.osize = 0 then some 0
    else d.unpackChecked (n.start - n.ilen - 1 - n.tsize - n.osize) n.osize
  | .any =>
    if n.osize = 0 then some 0
    else
      let total := n.ntrans + n.ntrans * n.tsize + indexSize n.version n.ntrans
      d.unpackChecked (n.start - n.nlen - 1 - total - i * n.osize - n.osize) n.osize
  | .emptyFinal => none

/-- `Node::transition_addr(i)` -/
def RNode.transAddr (d : Src) (n : RNode) (i : Nat) : Option Nat :=
  match n.kind with
  | .otn => if i ≠ 0 then none else some (n.end_ - 1)
  | .ot => if i ≠ 0 then none else unpackDelta d (n.start - n.ilen - 1 - n.tsize) n.tsize n.end_
  | .any =>
    if i ≥ n.ntrans then none else
    unpackDelta d (n.start - n.nlen - 1 - indexSize n.version n.ntrans - n.ntrans - i * n.tsize - n.tsize)
      n.tsize n.end_
  | .emptyFinal => none

/-- `Node::transition(i)` -/
def RNode.transition (d : Src) (n : RNode) (i : Nat) : Option Tr :=
  match n.input d i, n.output d i, n.transAddr d i with
  | some b, some o, some a => some ⟨b, o, a⟩
  | _, _, _ => none

/-- position of the first element equal to `b` among `d[s .. s+n)` -/
def scanPos (d : Src) (b : UInt8) (s : Nat) : Nat → Nat → Option (Option Nat)
  | 0, _ => some none
  | n+1, k => match d.get s with
    | none => none
    | some x => if x = b then some (some k) else scanPos d b (s+1) n (k+1)

/-- `Node::find_input(b)`; outer `none` = out-of-bounds panic -/
def RNode.findInput (d : Src) (n : RNode) (b : UInt8) : Option (Option Nat) :=
  match n.kind with
  | .otn | .ot =>
    match n.input d 0 with
    | none => none
    | some x => some (if x = b then some 0 else none)
  | .any =>
    if n.version ≥ 2 ∧ n.ntrans > Gen.TRANS_INDEX_THRESHOLD then
      match d.get (n.start - n.nlen - 1 - indexSize n.version n.ntrans + b.toNat) with
      | none => none
      | some i => some (if i.toNat ≥ n.ntrans then none else some i.toNat)
    else
      match scanPos d b (n.start - n.nlen - 1 - n.ntrans) n.ntrans 0 with
      | none => none
      | some none => some none
      | some (some i) => some (some (n.ntrans - i - 1))
  | .emptyFinal => some none

/-- all transitions in logical order (`Node::transitions()`) -/
def RNode.transitions (d : Src) (n : RNode) : Option (List Tr) :=
  (List.range n.ntrans).mapM (n.transition d)

/-- the decoded content of a node, as a `BNode` -/
def RNode.toBNode (d : Src) (n : RNode) : Option BNode :=
  (n.transitions d).map fun ts => ⟨n.fin, n.fout, ts⟩

end Fst
