/-
The `Sorters` work-distribution protocol of `fst-bin/src/merge.rs` as a
transition system (one instance per generation of `Merger::merge`):

  * the main thread hands the batches 0, 1, …, total-1 to the workers in this
    order through a rendezvous channel (`chan::bounded(0)`, `create_fst` =
    `self.send.send(batch)`): a hand-off needs a worker that is waiting in
    `for batch in brecv`, i.e. one that holds no batch;
  * a worker that holds a batch runs `batch.create_fst()` and appends the
    result to its private `results` vector;
  * after the last hand-off the main thread drops the sender (`results()`:
    `drop(self.send)`); only then can a waiting worker leave its loop and
    send its whole vector through the second rendezvous channel; the main
    thread appends the vectors in the order in which they arrive
    (`results.extend(rs)`).

Which worker takes which batch, and in which order the vectors arrive, is the
scheduler's choice: every interleaving is a sequence of events `Ev`, and
`step` says which events are enabled. Batches are identified by their index.
-/
namespace Fst.Sched

/-- one worker thread spawned by `Sorters::new` -/
structure Worker where
  /-- index of the batch received from `brecv` whose `create_fst` has not returned yet -/
  held : Option Nat
  /-- `results`: indices of the batches this worker has finished, in order -/
  results : List Nat
  /-- `rsend.send(results)` has completed -/
  done : Bool
deriving Repr, DecidableEq, Inhabited

structure St where
  /-- index of the next batch the main thread will hand over -/
  next : Nat
  /-- number of batches of this generation -/
  total : Nat
  /-- `drop(self.send)` has happened -/
  closed : Bool
  workers : List Worker
  /-- the vector built by `Sorters::results` so far -/
  collected : List Nat
deriving Repr, DecidableEq, Inhabited

/-- `Sorters::new(threads)` for a generation of `total` batches -/
def init (threads total : Nat) : St :=
  { next := 0, total, closed := false,
    workers := List.replicate threads ⟨none, [], false⟩, collected := [] }

inductive Ev
  /-- rendezvous on the batch channel: worker `w` receives batch `next` -/
  | recv (w : Nat)
  /-- worker `w` returns from `create_fst` and pushes the result -/
  | work (w : Nat)
  /-- the main thread drops the sender -/
  | close
  /-- rendezvous on the result channel: worker `w` hands over its vector -/
  | finish (w : Nat)
deriving Repr, DecidableEq, Inhabited

/-- the enabled events and their effect; `none` = not enabled in this state -/
def step (s : St) : Ev → Option St
  | .recv w =>
    if s.next < s.total ∧ s.closed = false then
      match s.workers[w]? with
      | some ⟨none, rs, false⟩ =>
        some { s with next := s.next + 1, workers := s.workers.set w ⟨some s.next, rs, false⟩ }
      | _ => none
    else none
  | .work w =>
    match s.workers[w]? with
    | some ⟨some b, rs, false⟩ => some { s with workers := s.workers.set w ⟨none, rs ++ [b], false⟩ }
    | _ => none
  | .close =>
    if s.next = s.total ∧ s.closed = false then some { s with closed := true } else none
  | .finish w =>
    if s.closed = true then
      match s.workers[w]? with
      | some ⟨none, rs, false⟩ =>
        some { s with workers := s.workers.set w ⟨none, rs, true⟩, collected := s.collected ++ rs }
      | _ => none
    else none

/-- run a sequence of events; `none` if one of them is not enabled -/
def run (s : St) : List Ev → Option St
  | [] => some s
  | e :: es => match step s e with
    | none => none
    | some s' => run s' es

/-- `Sorters::results` has returned: every worker has handed over its vector -/
def St.terminal (s : St) : Bool := s.closed && s.workers.all (·.done)

/-- number of maximal strictly ascending runs of a list -/
def runs : List Nat → Nat
  | [] => 0
  | [_] => 1
  | a :: b :: rest => if a < b then runs (b :: rest) else runs (b :: rest) + 1

/-- the orders in which `Sorters::results` can return the results of `total`
batches processed by `threads` workers: every batch exactly once, and the list
splits into at most `threads` strictly ascending runs (one per worker vector) -/
def validOrder (threads total : Nat) (order : List Nat) : Bool :=
  order.length == total && (List.range total).all (order.contains ·) && decide (runs order ≤ threads)

/-- apply an order of indices to the list of results (`results[i]` is the result of batch `i`) -/
def applyOrder {α : Type} (order : List Nat) (xs : List α) : List α :=
  order.filterMap (xs[·]?)

end Fst.Sched
