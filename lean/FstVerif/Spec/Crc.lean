/-
CRC-32C (Castagnoli) written from the *definition* of the checksum, bit by bit
(reflected polynomial 0x82F63B78, initial value and final XOR 0xFFFFFFFF), the
Snappy mask, and the table generators.  Core Lean only; shares nothing with
`Model/Crc.lean` and does not look at `Gen/Tables.lean`.
-/
namespace Fst.Spec

/-- the reflected Castagnoli polynomial -/
def crcPoly : UInt32 := 0x82F63B78

/-- one bit of the reflected (LSB-first) CRC shift register -/
def bitStep (c : UInt32) : UInt32 :=
  if c &&& 1 = 1 then (c >>> 1) ^^^ crcPoly else c >>> 1

/-- `bitStep` iterated `n` times -/
def bitSteps : Nat → UInt32 → UInt32
  | 0, c => c
  | n + 1, c => bitSteps n (bitStep c)

/-- feed one byte: XOR it into the low byte of the register, then 8 bit steps -/
def byteStep (c : UInt32) (b : UInt8) : UInt32 := bitSteps 8 (c ^^^ b.toUInt32)

/-- CRC-32C of `buf` continuing from the finished checksum `prev` (`prev = 0` to start) -/
def crcBitwise (prev : UInt32) (buf : List UInt8) : UInt32 :=
  ~~~ (buf.foldl byteStep (~~~ prev))

/-- the Snappy frame-format mask: rotate right by 15 and add a constant -/
def mask (x : UInt32) : UInt32 := ((x >>> 15) ||| (x <<< 17)) + 0xA282EAD8

/-- `tab[0][i]`: 8 bit steps of `i` -/
def tableEntry (i : Nat) : Nat := (bitSteps 8 (UInt32.ofNat i)).toNat

/-- the byte-at-a-time table `TABLE` (256 entries) -/
def makeTable : List Nat := (List.range 256).map tableEntry

/-- `tab[j][i] = (tab[j-1][i] >>> 8) ^^^ tab[0][tab[j-1][i] & 0xff]` -/
def nextEntry (x : Nat) : Nat := (x >>> 8) ^^^ makeTable.getD (x &&& 0xff) 0

/-- `n` successive rows starting from `row` -/
def tableRows : Nat → List Nat → List (List Nat)
  | 0, _ => []
  | n + 1, row => row :: tableRows n (row.map nextEntry)

/-- the slice-by-16 tables `TABLE16` (16 rows of 256 entries) -/
def makeTable16 : List (List Nat) := tableRows 16 makeTable

end Fst.Spec
