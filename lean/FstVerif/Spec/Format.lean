/-
The on-disk format (versions 1, 2, 3) as a *parser written from the format
description*, with pinned constants. It shares no code with Model/Node.lean:
it walks the file from the root, reads every node by the documented layout
and returns the map the file denotes together with the extents of the nodes
it visited.

Layout (addresses are byte offsets; a node's address is that of its LAST byte):
  file   := version:u64le type:u64le node* len:u64le root:u64le [crc:u32le  (v3 only)]
  node   := … fields stored so that reading goes backwards from the state byte
  state byte: 11cccccc one transition, target = the node stored immediately before, output 0
              10cccccc one transition
              0fnnnnnn any number of transitions, f = final, n = count (0: count in the
                       preceding byte, where the value 1 means 256)
  cccccc = index+1 into the common-input table, 0 = input byte stored explicitly before the state byte
  one transition  : [output:osize] [delta:tsize] sizes [input?] state
  any transitions : [final output:osize if f] [outputs:osize each, reversed] [deltas:tsize each, reversed]
                    [inputs, reversed] [256-byte index if n > 32 and version ≥ 2] sizes [count?] state
  sizes  = tsize*16 + osize ; all integers little-endian ; osize = 0 means all outputs are 0
  delta  = 0 for the shared empty final node (address 0), else (address of the node's FIRST byte) − target
-/
namespace Fst.Spec

def commonInv : List Nat := [116, 101, 47, 111, 97, 115, 114, 105, 112, 99, 110, 119, 46, 104, 108, 109, 45, 100, 117, 48, 49, 50, 103, 61, 58, 98, 102, 51, 121, 53, 38, 95, 52, 118, 57, 54, 55, 56, 107, 37, 63, 120, 67, 68, 65, 83, 70, 73, 66, 69, 106, 80, 84, 122, 82, 78, 77, 43, 76, 79, 113, 72, 71, 87, 85, 86, 44, 89, 75, 74, 90, 88, 81, 59, 41, 40, 126, 91, 93, 36, 33, 39, 42, 64, 0, 1, 2, 3, 4, 5, 6, 7, 8, 9, 10, 11, 12, 13, 14, 15, 16, 17, 18, 19, 20, 21, 22, 23, 24, 25, 26, 27, 28, 29, 30, 31, 32, 34, 35, 60, 62, 92, 94, 96, 123, 124, 125, 127, 128, 129, 130, 131, 132, 133, 134, 135, 136, 137, 138, 139, 140, 141, 142, 143, 144, 145, 146, 147, 148, 149, 150, 151, 152, 153, 154, 155, 156, 157, 158, 159, 160, 161, 162, 163, 164, 165, 166, 167, 168, 169, 170, 171, 172, 173, 174, 175, 176, 177, 178, 179, 180, 181, 182, 183, 184, 185, 186, 187, 188, 189, 190, 191, 192, 193, 194, 195, 196, 197, 198, 199, 200, 201, 202, 203, 204, 205, 206, 207, 208, 209, 210, 211, 212, 213, 214, 215, 216, 217, 218, 219, 220, 221, 222, 223, 224, 225, 226, 227, 228, 229, 230, 231, 232, 233, 234, 235, 236, 237, 238, 239, 240, 241, 242, 243, 244, 245, 246, 247, 248, 249, 250, 251, 252, 253, 254, 255]

def VERSION_MAX : Nat := 3
def INDEX_THRESHOLD : Nat := 32

structure SNode where
  fin : Bool
  fout : Nat
  trans : List (UInt8 × Nat × Nat)    -- input, output, target; ascending input order as stored
  first : Nat
  last : Nat
deriving Repr, Inhabited

def le (a : Array UInt8) (i n : Nat) : Option Nat :=
  if i + n ≤ a.size then
    some ((List.range n).foldr (fun k acc => (a.getD (i + k) 0).toNat + 256 * acc) 0)
  else none

def commonByte (idx : Nat) : Option UInt8 :=
  if idx = 0 then none else (commonInv[idx - 1]?).map UInt8.ofNat

def target (first delta : Nat) : Nat := if delta = 0 then 0 else first - delta

def parseNode (version : Nat) (a : Array UInt8) (addr : Nat) : Option SNode :=
  if addr = 0 then some ⟨true, 0, [], 0, 0⟩ else
  if addr ≥ a.size then none else
  let s := (a.getD addr 0).toNat
  if s ≥ 192 then
    -- 11cccccc
    match commonByte (s % 64) with
    | some b => if addr < 1 then none else some ⟨false, 0, [(b, 0, addr - 1)], addr, addr⟩
    | none =>
      if addr < 2 then none else
      some ⟨false, 0, [(a.getD (addr - 1) 0, 0, addr - 2)], addr - 1, addr⟩
  else if s ≥ 128 then
    -- 10cccccc
    let (inp, p) := match commonByte (s % 64) with
      | some b => (b, addr)
      | none => (a.getD (addr - 1) 0, addr - 1)
    if p < 1 then none else
    let sizes := (a.getD (p - 1) 0).toNat
    let tsize := sizes / 16
    let osize := sizes % 16
    if p < 1 + tsize + osize then none else
    let first := p - 1 - tsize - osize
    match le a (first + osize) tsize, le a first osize with
    | some delta, some out => some ⟨false, 0, [(inp, out, target first delta)], first, addr⟩
    | _, _ => none
  else
    let fin := s ≥ 64
    let cnt := s % 64
    let (n, p) :=
      if cnt ≠ 0 then (cnt, addr)
      else
        let c := (a.getD (addr - 1) 0).toNat
        (if c = 1 then 256 else c, addr - 1)
    if p < 1 then none else
    let sizes := (a.getD (p - 1) 0).toNat
    let tsize := sizes / 16
    let osize := sizes % 16
    let idx := if version ≥ 2 ∧ n > INDEX_THRESHOLD then 256 else 0
    let body := idx + n + n * tsize + n * osize + (if fin then osize else 0)
    if p < 1 + body then none else
    let first := p - 1 - body
    let outsAt := first + (if fin then osize else 0)
    let deltasAt := outsAt + n * osize
    let inputsAt := deltasAt + n * tsize
    let fout := if fin ∧ osize ≠ 0 then (le a first osize).getD 0 else 0
    -- transition j (ascending) is stored at reversed position n-1-j
    let ts := (List.range n).filterMap fun j =>
      let r := n - 1 - j
      match le a (deltasAt + r * tsize) tsize with
      | none => none
      | some delta =>
        let out := if osize = 0 then 0 else (le a (outsAt + r * osize) osize).getD 0
        some (a.getD (inputsAt + r) 0, out, target first delta)
    if ts.length ≠ n then none else
    some ⟨fin, fout, ts, first, addr⟩

/-- the map spelled from an address, and the nodes visited -/
def walk (version : Nat) (a : Array UInt8) : Nat → Nat → List UInt8 → Nat →
    Option (List (List UInt8 × Nat) × List SNode)
  | 0, _, _, _ => none
  | fuel+1, addr, pfx, out =>
    match parseNode version a addr with
    | none => none
    | some n =>
      let own := if n.fin then [(pfx.reverse, out + n.fout)] else []
      let rec goT (ts : List (UInt8 × Nat × Nat)) (kvs : List (List UInt8 × Nat)) (ns : List SNode) :
          Option (List (List UInt8 × Nat) × List SNode) :=
        match ts with
        | [] => some (kvs, ns)
        | (b, o, tgt) :: rest =>
          if tgt ≥ addr ∧ addr ≠ 0 then none else   -- targets must be earlier nodes
          match walk version a fuel tgt (b :: pfx) (out + o) with
          | none => none
          | some (k2, n2) => goT rest (kvs ++ k2) (ns ++ n2)
      goT n.trans own (if addr = 0 then [] else [n])

structure Parsed where
  version : Nat
  ty : Nat
  len : Nat
  kvs : List (List UInt8 × Nat)
  tiled : Bool
deriving Repr, Inhabited

/-- distinct extents sorted by first byte tile the body (16 .. root) exactly -/
def tiles (ns : List SNode) (root : Nat) : Bool :=
  let ext := ns.map fun n => (n.first, n.last)
  let rec ins (p : Nat × Nat) : List (Nat × Nat) → List (Nat × Nat)
    | [] => [p]
    | q :: qs => if p.1 < q.1 then p :: q :: qs else if p == q then q :: qs else q :: ins p qs
  let sorted := ext.foldr ins []
  let rec chk (pos : Nat) : List (Nat × Nat) → Bool
    | [] => pos == root + 1
    | (f, l) :: rest => f == pos && f ≤ l && chk (l + 1) rest
  if root = 0 then sorted.isEmpty else chk 16 sorted

def parseFst (bytes : List UInt8) : Option Parsed :=
  let a := bytes.toArray
  match le a 0 8, le a 8 8 with
  | some version, some ty =>
    if version = 0 ∨ version > VERSION_MAX then none else
    let foot := if version ≥ 3 then 4 else 0
    if a.size < 32 + foot then none else
    let e := a.size - foot
    match le a (e - 16) 8, le a (e - 8) 8 with
    | some len, some root =>
      if root ≠ 0 ∧ root + 17 + foot ≠ a.size then none else
      if root = 0 ∧ a.size ≠ 32 + foot then none else
      match walk version a (a.size + 2) root [] 0 with
      | none => none
      | some (kvs, ns) => some ⟨version, ty, len, kvs, tiles ns root⟩
    | _, _ => none
  | _, _ => none

end Fst.Spec
