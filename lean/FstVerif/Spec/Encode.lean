import FstVerif.Model.Node
import FstVerif.Model.Crc
/-
Reference encoder for format versions 1, 2 and 3 — the Lean twin of the Rust
reference encoder of the test harness (`harness/src/refenc.rs`, `encode`), byte
for byte. It shares nothing with the shipped builder (`Model/Build.lean`): it
builds the trie of the sorted key/value list recursively, children first in
DESCENDING byte order, and writes every node after its children.

  file := u64le version ++ u64le ty ++ node* ++ u64le len ++ u64le root
          ++ (version ≥ 3 : u32le (masked CRC-32C of everything before))

* `style = 1` pushes the minimum value of a subtree onto the transition that
  leads to it (anything else: values sit on the final outputs);
* `share` hash-conses equal nodes (first emitted copy wins);
* node forms: `StateOneTransNext` when the single transition's target is the
  node written immediately before (and its output is 0), `StateOneTrans`,
  `StateAnyTrans`; version 1 never writes the 256-byte transition index,
  versions ≥ 2 write it for more than `TRANS_INDEX_THRESHOLD` transitions.

Core Lean only, executable, kernel-reducible (structural recursion on a fuel =
the longest key). The byte helpers (`packIn`, `packSize`, `commonIdx`,
`buildIndex`, `deltaVal`, the one-transition encoders) are those of
`Model/Bytes.lean` / `Model/Node.lean`.
-/
namespace Fst.Spec
open Fst

/-- `usize::MAX`: the initial value of `Enc.last` ("no node written yet") -/
def NO_LAST : Nat := 2^64 - 1

/-- the `StateAnyTrans` form for format version `version`: as `Fst.compileAny`, but the
256-byte index is written only when `version ≥ 2` (and there are more than
`TRANS_INDEX_THRESHOLD` transitions) -/
def compileAnyV (version : Nat) (addr : Nat) (n : BNode) : List UInt8 :=
  let tsize := anyTsize addr n
  let osize0 := anyOsize n
  let anyO := anyOuts n
  let osize := if anyO then osize0 else 0
  let ntrans := n.trans.length
  let rts := n.trans.reverse
  let outs :=
    if anyO then
      (if n.fin then packIn n.fout osize0 else []) ++ rts.flatMap (fun t => packIn t.out osize0)
    else []
  let addrs := rts.flatMap (fun t => packIn (deltaVal addr t.addr) tsize)
  let inps := rts.map (·.inp)
  let index :=
    if version ≥ 2 ∧ ntrans > Gen.TRANS_INDEX_THRESHOLD then buildIndex n.trans else []
  let sn := if ntrans % 256 ≤ 63 then ntrans % 256 else 0
  let nbyte : List UInt8 :=
    if sn = 0 then [if ntrans = 256 then 1 else UInt8.ofNat ntrans] else []
  outs ++ addrs ++ inps ++ index ++ [UInt8.ofNat (tsize * 16 + osize)] ++ nbyte
    ++ [UInt8.ofNat ((if n.fin then 64 else 0) + sn)]

/-- the bytes of node `n` written at byte offset `start` in format version `version`,
`lastAddr` being the address of the node written immediately before (`Enc::emit`).
`none` for more than 256 transitions, `some []` for the shared empty final node
(never written; its address is 0). -/
def compileNodeV (version : Nat) (n : BNode) (lastAddr start : Nat) : Option (List UInt8) :=
  if n.trans.length > 256 then none
  else if isEmptyFinal n then some []
  else if n.trans.length != 1 || n.fin then some (compileAnyV version start n)
  else match n.trans with
    | [t] =>
      if t.addr = lastAddr && t.out = 0 && t.addr != 0 then some (compileOTN t.inp)
      else some (compileOT start t)
    | _ => none

/-- the state of the encoder (`struct Enc`). `emits` are the written nodes, newest first, each
with its address and its bytes; `len = out.len()`. -/
structure Enc where
  version : Nat
  share : Bool
  emits : List (Nat × BNode × List UInt8) := []
  len : Nat := 16
  last : Nat := NO_LAST
  memo : List (UInt64 × BNode × Nat) := []

/-- a cheap hash of a node: the memo (`HashMap<N, usize>`) is a list searched by hash first -/
def nodeKey (n : BNode) : UInt64 :=
  n.trans.foldl (fun h t => (h * 1000003 + t.inp.toUInt64) * 1000003 + UInt64.ofNat t.addr
      + 7 * UInt64.ofNat t.out)
    (UInt64.ofNat n.fout * 2 + (if n.fin then 1 else 0))

/-- `memo.get(n)` -/
def memoGet (memo : List (UInt64 × BNode × Nat)) (n : BNode) : Option Nat :=
  let h := nodeKey n
  (memo.find? fun x => x.1 == h && x.2.1 == n).map (·.2.2)

/-- `Enc::emit`: the address of the node and the new state -/
def emit (e : Enc) (n : BNode) : Nat × Enc :=
  if isEmptyFinal n then (0, e) else
  match (if e.share then memoGet e.memo n else none) with
  | some a => (a, e)
  | none =>
    let bytes := (compileNodeV e.version n e.last e.len).getD []
    let addr := e.len + bytes.length - 1
    (addr, { e with emits := (addr, n, bytes) :: e.emits, len := e.len + bytes.length, last := addr,
                    memo := if e.share then (nodeKey n, n, addr) :: e.memo else e.memo })

/-- the entries after the one for the empty key, grouped into runs by their first byte, the
first byte stripped (the `groups` loop of `Enc::go`) -/
def groups : KV → List (UInt8 × KV)
  | [] => []
  | kv :: rest =>
    let b := kv.1.headD 0
    match groups rest with
    | (b', g) :: gs =>
      if b' = b then (b, (kv.1.tail, kv.2) :: g) :: gs
      else (b, [(kv.1.tail, kv.2)]) :: (b', g) :: gs
    | [] => [(b, [(kv.1.tail, kv.2)])]

/-- the smallest value of a non-empty list (`sub.iter().map(|x| x.1).min().unwrap()`) -/
def minVal : KV → Nat
  | [] => 0
  | [kv] => kv.2
  | kv :: rest => min kv.2 (minVal rest)

/-- the children of a node: the groups are compiled from the LAST (largest byte) to the
first, the transitions come out in ascending order -/
def goGroups (style : Nat) (child : KV → Enc → Nat × Enc) :
    List (UInt8 × KV) → Enc → List Tr × Enc
  | [], e => ([], e)
  | (b, sub) :: gs, e =>
    let r := goGroups style child gs e
    let m := if style = 1 then minVal sub else 0
    let c := child (sub.map fun kv => (kv.1, kv.2 - m)) r.2
    (⟨b, m, c.1⟩ :: r.1, c.2)

def isFin (kvs : KV) : Bool := match kvs with | (k, _) :: _ => k.isEmpty | [] => false
def finVal (kvs : KV) : Nat := match kvs with | (k, v) :: _ => if k.isEmpty then v else 0 | [] => 0
def restOf (kvs : KV) : KV := if isFin kvs then kvs.tail else kvs

/-- `Enc::go` on the entries below a common prefix (the prefix stripped); the fuel is an upper
bound of the remaining key lengths -/
def go (style : Nat) : Nat → KV → Enc → Nat × Enc
  | 0, kvs, e => emit e ⟨isFin kvs, finVal kvs, []⟩
  | fuel+1, kvs, e =>
    let r := goGroups style (go style fuel) (groups (restOf kvs)) e
    emit r.2 ⟨isFin kvs, finVal kvs, r.1⟩

def maxKeyLen (kvs : KV) : Nat := kvs.foldl (fun m kv => max m kv.1.length) 0

/-- root address and final encoder state (for an empty list `Enc::go` and the explicit
`emit` of the non-final node without transitions of `encode` coincide) -/
def encodeState (version : Nat) (kvs : KV) (style : Nat) (share : Bool) : Nat × Enc :=
  go style (maxKeyLen kvs) kvs { version, share }

/-- the bytes of the written nodes, oldest first -/
def nodeBytes (e : Enc) : List UInt8 := e.emits.reverse.flatMap (·.2.2)

/-- everything before the checksum -/
def encodeBody (version ty : Nat) (kvs : KV) (style : Nat) (share : Bool) : List UInt8 :=
  let r := encodeState version kvs style share
  u64le version ++ u64le ty ++ nodeBytes r.2 ++ u64le kvs.length ++ u64le r.1

/-- `refenc::encode(version, ty, kv, style, share)` -/
def encodeFst (version ty : Nat) (kvs : KV) (style : Nat) (share : Bool) : List UInt8 :=
  let body := encodeBody version ty kvs style share
  if version ≥ 3 then body ++ u32le (maskedSum (crc32cSlice16 0 body)).toNat else body

end Fst.Spec
