/-
Levenshtein edit distance between two lists of scalar values, written from
the textbook definition (insertions, deletions, substitutions; every
operation costs 1). Shares no code with Model/Lev.lean.

* `lev q k`      — the distance, by the textbook recurrence on the heads
                   (`lev_nil_left`, `lev_nil_right`, `lev_cons_cons`).
* `Edit q k n`   — "there is an edit script of cost `n` turning `q` into `k`".
* `lev_le_of_edit`, `edit_lev` — `lev q k` is the least cost of a script
                   (`lev_eq_iff`): this ties the recurrence to edit scripts.
* `lev_reverse`, `lev_snoc_snoc` — the same recurrence on the last elements
                   (what a left-to-right dynamic program uses).
* bounds: `lev_le_max`, `lev_ge_sub_left`, `lev_ge_sub_right`.
-/
namespace Fst.Spec

/-- `levCons a (lev q) k = lev (a :: q) k`: the recurrence on `k` for a fixed head `a` -/
def levCons (a : Nat) (levq : List Nat → Nat) : List Nat → Nat
  | [] => levq [] + 1
  | b :: k =>
    min (min (levq (b :: k) + 1) (levCons a levq k + 1)) (levq k + (if a = b then 0 else 1))

/-- edit distance (structural recursion on the first list, then on the second) -/
def lev : List Nat → List Nat → Nat
  | [] => List.length
  | a :: q => levCons a (lev q)

/-! ### the textbook recurrence -/

@[simp] theorem lev_nil_left (k : List Nat) : lev [] k = k.length := rfl

@[simp] theorem lev_nil_right (q : List Nat) : lev q [] = q.length := by
  induction q with
  | nil => rfl
  | cons a q ih => simp only [lev, levCons, List.length_cons]; rw [ih]

theorem lev_cons_cons (a b : Nat) (q k : List Nat) :
    lev (a :: q) (b :: k) =
      min (min (lev q (b :: k) + 1) (lev (a :: q) k + 1)) (lev q k + (if a = b then 0 else 1)) := rfl

/-! ### edit scripts -/

/-- `Edit q k n`: some sequence of `n` single-element insertions, deletions and
substitutions (and any number of kept elements) turns `q` into `k` -/
inductive Edit : List Nat → List Nat → Nat → Prop
  | nil : Edit [] [] 0
  | keep (a : Nat) {q k : List Nat} {n : Nat} : Edit q k n → Edit (a :: q) (a :: k) n
  | sub (a b : Nat) {q k : List Nat} {n : Nat} : Edit q k n → Edit (a :: q) (b :: k) (n + 1)
  | del (a : Nat) {q k : List Nat} {n : Nat} : Edit q k n → Edit (a :: q) k (n + 1)
  | ins (b : Nat) {q k : List Nat} {n : Nat} : Edit q k n → Edit q (b :: k) (n + 1)

theorem edit_nil_left (k : List Nat) : Edit [] k k.length := by
  induction k with
  | nil => exact .nil
  | cons b k ih => exact .ins b ih

theorem edit_nil_right (q : List Nat) : Edit q [] q.length := by
  induction q with
  | nil => exact .nil
  | cons a q ih => exact .del a ih

/-- one more insertion costs at most one more -/
theorem lev_ins_le (b : Nat) (q k : List Nat) : lev q (b :: k) ≤ lev q k + 1 := by
  cases q with
  | nil => simp
  | cons a q => rw [lev_cons_cons]; omega

/-- one more deletion costs at most one more -/
theorem lev_del_le (a : Nat) (q k : List Nat) : lev (a :: q) k ≤ lev q k + 1 := by
  cases k with
  | nil => simp
  | cons b k => rw [lev_cons_cons]; omega

/-- no script is cheaper than `lev` -/
theorem lev_le_of_edit {q k : List Nat} {n : Nat} (h : Edit q k n) : lev q k ≤ n := by
  induction h with
  | nil => simp
  | keep a _ ih => rw [lev_cons_cons]; simp only [if_true]; omega
  | sub a b _ ih => rw [lev_cons_cons]; split <;> omega
  | @del a q k n _ ih => have := lev_del_le a q k; omega
  | @ins b q k n _ ih => have := lev_ins_le b q k; omega

theorem min3_cases {P : Nat → Prop} {x y z : Nat} (hx : P x) (hy : P y) (hz : P z) :
    P (min (min x y) z) := by
  simp only [Nat.min_def]
  split <;> split <;> assumption

/-- there is a script of cost `lev` -/
theorem edit_lev (q k : List Nat) : Edit q k (lev q k) := by
  induction q generalizing k with
  | nil => exact edit_nil_left k
  | cons a q ihq =>
    induction k with
    | nil => rw [lev_nil_right]; exact edit_nil_right _
    | cons b k ihk =>
      rw [lev_cons_cons]
      have h1 : Edit (a :: q) (b :: k) (lev q (b :: k) + 1) := .del a (ihq _)
      have h2 : Edit (a :: q) (b :: k) (lev (a :: q) k + 1) := .ins b ihk
      have h3 : Edit (a :: q) (b :: k) (lev q k + (if a = b then 0 else 1)) := by
        by_cases e : a = b
        · subst e; simp only [if_true, Nat.add_zero]; exact .keep a (ihq _)
        · simp only [e, if_false]; exact .sub a b (ihq _)
      exact min3_cases (P := Edit (a :: q) (b :: k)) h1 h2 h3

/-- `lev q k` is the least cost of an edit script from `q` to `k` -/
theorem lev_eq_iff (q k : List Nat) (n : Nat) :
    lev q k = n ↔ Edit q k n ∧ ∀ m, Edit q k m → n ≤ m := by
  constructor
  · intro h; subst h; exact ⟨edit_lev q k, fun m hm => lev_le_of_edit hm⟩
  · intro ⟨h1, h2⟩
    exact Nat.le_antisymm (lev_le_of_edit h1) (h2 _ (edit_lev q k))

/-! ### the same scripts read from the other end -/

theorem Edit.keep_snoc (a : Nat) {q k : List Nat} {n : Nat} (h : Edit q k n) :
    Edit (q ++ [a]) (k ++ [a]) n := by
  induction h with
  | nil => exact .keep a .nil
  | keep x _ ih => exact .keep x ih
  | sub x y _ ih => exact .sub x y ih
  | del x _ ih => exact .del x ih
  | ins y _ ih => exact .ins y ih

theorem Edit.sub_snoc (a b : Nat) {q k : List Nat} {n : Nat} (h : Edit q k n) :
    Edit (q ++ [a]) (k ++ [b]) (n + 1) := by
  induction h with
  | nil => exact .sub a b .nil
  | keep x _ ih => exact .keep x ih
  | sub x y _ ih => exact .sub x y ih
  | del x _ ih => exact .del x ih
  | ins y _ ih => exact .ins y ih

theorem Edit.del_snoc (a : Nat) {q k : List Nat} {n : Nat} (h : Edit q k n) :
    Edit (q ++ [a]) k (n + 1) := by
  induction h with
  | nil => exact .del a .nil
  | keep x _ ih => exact .keep x ih
  | sub x y _ ih => exact .sub x y ih
  | del x _ ih => exact .del x ih
  | ins y _ ih => exact .ins y ih

theorem Edit.ins_snoc (b : Nat) {q k : List Nat} {n : Nat} (h : Edit q k n) :
    Edit q (k ++ [b]) (n + 1) := by
  induction h with
  | nil => exact .ins b .nil
  | keep x _ ih => exact .keep x ih
  | sub x y _ ih => exact .sub x y ih
  | del x _ ih => exact .del x ih
  | ins y _ ih => exact .ins y ih

theorem Edit.reverse {q k : List Nat} {n : Nat} (h : Edit q k n) :
    Edit q.reverse k.reverse n := by
  induction h with
  | nil => exact .nil
  | keep x _ ih => simp only [List.reverse_cons]; exact ih.keep_snoc x
  | sub x y _ ih => simp only [List.reverse_cons]; exact ih.sub_snoc x y
  | del x _ ih => simp only [List.reverse_cons]; exact ih.del_snoc x
  | ins y _ ih => simp only [List.reverse_cons]; exact ih.ins_snoc y

theorem lev_reverse_le (q k : List Nat) : lev q.reverse k.reverse ≤ lev q k :=
  lev_le_of_edit (edit_lev q k).reverse

theorem lev_reverse (q k : List Nat) : lev q.reverse k.reverse = lev q k := by
  apply Nat.le_antisymm (lev_reverse_le q k)
  have := lev_reverse_le q.reverse k.reverse
  simpa only [List.reverse_reverse] using this

/-- the recurrence on the last elements -/
theorem lev_snoc_snoc (a b : Nat) (q k : List Nat) :
    lev (q ++ [a]) (k ++ [b]) =
      min (min (lev q (k ++ [b]) + 1) (lev (q ++ [a]) k + 1)) (lev q k + (if a = b then 0 else 1)) := by
  have e1 := lev_reverse (q ++ [a]) (k ++ [b])
  have e2 := lev_reverse q (k ++ [b])
  have e3 := lev_reverse (q ++ [a]) k
  have e4 := lev_reverse q k
  simp only [List.reverse_append, List.reverse_cons, List.reverse_nil, List.nil_append,
    List.cons_append] at e1 e2 e3
  rw [← e1, ← e2, ← e3, ← e4, lev_cons_cons]

theorem lev_snoc_nil (a : Nat) (q : List Nat) : lev (q ++ [a]) [] = q.length + 1 := by simp

theorem lev_nil_snoc (b : Nat) (k : List Nat) : lev [] (k ++ [b]) = k.length + 1 := by simp

/-! ### bounds -/

theorem lev_le_max (q k : List Nat) : lev q k ≤ max q.length k.length := by
  induction q generalizing k with
  | nil => simp
  | cons a q ihq =>
    cases k with
    | nil => simp
    | cons b k =>
      rw [lev_cons_cons]
      have := ihq k
      simp only [List.length_cons]
      split <;> omega

theorem lev_ge_sub_left (q k : List Nat) : q.length - k.length ≤ lev q k := by
  induction q generalizing k with
  | nil => simp
  | cons a q ihq =>
    induction k with
    | nil => simp
    | cons b k ihk =>
      rw [lev_cons_cons]
      have h1 := ihq (b :: k)
      have h2 := ihq k
      simp only [List.length_cons] at *
      split <;> omega

theorem lev_ge_sub_right (q k : List Nat) : k.length - q.length ≤ lev q k := by
  induction q generalizing k with
  | nil => simp
  | cons a q ihq =>
    induction k with
    | nil => simp
    | cons b k ihk =>
      rw [lev_cons_cons]
      have h1 := ihq (b :: k)
      have h2 := ihq k
      simp only [List.length_cons] at *
      split <;> omega

theorem lev_self (q : List Nat) : lev q q = 0 := by
  induction q with
  | nil => rfl
  | cons a q ih => rw [lev_cons_cons]; simp only [if_true]; omega

theorem lev_eq_zero {q k : List Nat} (h : lev q k = 0) : q = k := by
  induction q generalizing k with
  | nil => simp at h; exact h.symm
  | cons a q ihq =>
    cases k with
    | nil => simp at h
    | cons b k =>
      rw [lev_cons_cons] at h
      by_cases e : a = b
      · subst e; simp only [if_true, Nat.add_zero] at h
        have : lev q k = 0 := by omega
        rw [ihq this]
      · simp only [e, if_false] at h; omega

/-! ### sanity: concrete values -/

example : lev [107, 105, 116, 116, 101, 110] [115, 105, 116, 116, 105, 110, 103] = 3 := by decide
example : lev [1, 2, 3] [1, 3] = 1 := by decide
example : lev [1, 2, 3] [3, 2, 1] = 2 := by decide
example : lev [1, 2] [3, 4, 5] = 3 := by decide
example : Edit [1, 2, 3] [1, 3] 1 := .keep 1 (.del 2 (.keep 3 .nil))

end Fst.Spec
