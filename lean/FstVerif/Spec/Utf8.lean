/-
UTF-8 vocabulary for the byte-level Levenshtein property (C17). Shares no code
with the model.

* `ValidScalar c`  — `c` is a Unicode scalar value (a code point that is not a surrogate).
* `utf8Full`       — the value of `Utf8Sequences::new('\0', '\u{10FFFF}')` of the
                     utf8-ranges crate: nine sequences of inclusive byte ranges
                     (the harness compares this literal with the crate on every run).
* `SeqMatches w s` — the byte string `w` is matched by the range sequence `s`
                     (same length, byte `i` within range `i`).
-/
namespace Fst.Spec

/-- Unicode scalar values: `0 ..= 0x10FFFF` without the surrogates `0xD800 ..= 0xDFFF` -/
def ValidScalar (c : Nat) : Prop := c < 0x110000 ∧ ¬ (0xD800 ≤ c ∧ c ≤ 0xDFFF)

instance (c : Nat) : Decidable (ValidScalar c) := by unfold ValidScalar; infer_instance

/-- `Utf8Sequences::new('\0', '\u{10FFFF}')` -/
def utf8Full : List (List (Nat × Nat)) :=
  [[(0,127)], [(194,223),(128,191)], [(224,224),(160,191),(128,191)],
   [(225,236),(128,191),(128,191)], [(237,237),(128,159),(128,191)],
   [(238,239),(128,191),(128,191)], [(240,240),(144,191),(128,191),(128,191)],
   [(241,243),(128,191),(128,191),(128,191)], [(244,244),(128,143),(128,191),(128,191)]]

/-- a byte string is matched by a sequence of inclusive byte ranges -/
def SeqMatches : List UInt8 → List (Nat × Nat) → Prop
  | [], [] => True
  | x :: w, r :: s => r.1 ≤ x.toNat ∧ x.toNat ≤ r.2 ∧ SeqMatches w s
  | _, _ => False

end Fst.Spec
